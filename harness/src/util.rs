//! shared helpers: panic capture, building content packs, error classification
use jubako as jbk;
use std::cell::RefCell;

thread_local! {
    static LAST_PANIC: RefCell<Option<String>> = RefCell::new(None);
}
static GLOBAL_PANIC: std::sync::Mutex<Option<String>> = std::sync::Mutex::new(None);

pub fn record_panic(info: &std::panic::PanicHookInfo<'_>) {
    let loc = info
        .location()
        .map(|l| {
            let f = l.file();
            let f = f.rsplit("/src/").next().unwrap_or(f);
            format!("{}:{}", f, l.line())
        })
        .unwrap_or_else(|| "?".into());
    let s = format!("panic@{}", loc);
    LAST_PANIC.with(|p| *p.borrow_mut() = Some(s.clone()));
    if let Ok(mut g) = GLOBAL_PANIC.lock() {
        *g = Some(s);
    }
}

pub fn take_panic() -> String {
    let l = LAST_PANIC.with(|p| p.borrow_mut().take());
    let g = GLOBAL_PANIC.lock().ok().and_then(|mut g| g.take());
    l.or(g).unwrap_or_else(|| "panic@?".into())
}

/// Watchdog for code that must terminate (C08: creation): if the guard is still alive after `secs`
/// seconds the process exits with status 17 after a line on stderr; the engine attributes the death to
/// the case in flight (`inflight.txt`).  A blocked creation cannot be unwound, so the run ends there.
pub struct Watchdog(std::sync::Arc<std::sync::atomic::AtomicBool>);
pub fn watchdog(secs: u64, what: String) -> Watchdog {
    let done = std::sync::Arc::new(std::sync::atomic::AtomicBool::new(false));
    let d2 = done.clone();
    std::thread::spawn(move || {
        let t0 = std::time::Instant::now();
        while t0.elapsed().as_secs() < secs {
            std::thread::sleep(std::time::Duration::from_millis(200));
            if d2.load(std::sync::atomic::Ordering::SeqCst) {
                return;
            }
        }
        eprintln!("watchdog: {} did not terminate within {} s", what, secs);
        std::process::exit(17);
    });
    Watchdog(done)
}
impl Drop for Watchdog {
    fn drop(&mut self) {
        self.0.store(true, std::sync::atomic::Ordering::SeqCst);
    }
}

/// run a closure, mapping a panic to its site
pub fn guarded<T>(f: impl FnOnce() -> T) -> Result<T, String> {
    match std::panic::catch_unwind(std::panic::AssertUnwindSafe(f)) {
        Ok(v) => Ok(v),
        Err(_) => Err(take_panic()),
    }
}

pub fn err_kind(e: &jbk::Error) -> &'static str {
    let s = format!("{:?}", e);
    classify_err_text(&s)
}

pub fn classify_err_text(s: &str) -> &'static str {
    if s.contains("Corrupted") {
        "corrupted"
    } else if s.contains("NotAJbk") {
        "notajbk"
    } else if s.contains("Version") {
        "version"
    } else if s.contains("MissingFeature") {
        "missingfeature"
    } else if s.contains("Format") {
        "format"
    } else if s.contains("Io") {
        "io"
    } else {
        "other"
    }
}

pub const VENDOR: jbk::VendorId = jbk::VendorId::new([0x76, 0x65, 0x72, 0x66]);

#[derive(Clone, Copy, Debug, PartialEq, Eq)]
pub enum Comp {
    None,
    Lz4(u32),
    Lzma(u32),
    Zstd(i32),
}

impl Comp {
    pub fn to_jbk(self) -> jbk::creator::Compression {
        use jbk::creator::Compression as C;
        match self {
            Comp::None => C::None,
            Comp::Lz4(l) => {
                // deranged types are not nameable here; go through the default constructors for
                // the common levels and transmute-free builders for others
                lz4_level(l)
            }
            Comp::Lzma(l) => lzma_level(l),
            Comp::Zstd(l) => zstd_level(l),
        }
    }
    pub fn byte(self) -> u8 {
        match self {
            Comp::None => 0,
            Comp::Lz4(_) => 1,
            Comp::Lzma(_) => 2,
            Comp::Zstd(_) => 3,
        }
    }
    pub fn name(self) -> String {
        match self {
            Comp::None => "none".into(),
            Comp::Lz4(l) => format!("lz4:{l}"),
            Comp::Lzma(l) => format!("lzma:{l}"),
            Comp::Zstd(l) => format!("zstd:{l}"),
        }
    }
}

fn lz4_level(l: u32) -> jbk::creator::Compression {
    let mut c = jbk::creator::Compression::lz4();
    if let jbk::creator::Compression::Lz4(ref mut lv) = c {
        if let Some(v) = lv.checked_add(0).and_then(|_| TryFrom::try_from(l).ok()) {
            *lv = v;
        }
    }
    c
}
fn lzma_level(l: u32) -> jbk::creator::Compression {
    let mut c = jbk::creator::Compression::lzma();
    if let jbk::creator::Compression::Lzma(ref mut lv) = c {
        if let Ok(v) = TryFrom::try_from(l) {
            *lv = v;
        }
    }
    c
}
fn zstd_level(l: i32) -> jbk::creator::Compression {
    let mut c = jbk::creator::Compression::zstd();
    if let jbk::creator::Compression::Zstd(ref mut lv) = c {
        if let Ok(v) = TryFrom::try_from(l) {
            *lv = v;
        }
    }
    c
}

#[derive(Clone, Copy, Debug, PartialEq, Eq)]
pub enum Hint {
    Yes,
    No,
    Detect,
}
impl Hint {
    pub fn to_jbk(self) -> jbk::creator::CompHint {
        match self {
            Hint::Yes => jbk::creator::CompHint::Yes,
            Hint::No => jbk::creator::CompHint::No,
            Hint::Detect => jbk::creator::CompHint::Detect,
        }
    }
    pub fn name(self) -> &'static str {
        match self {
            Hint::Yes => "yes",
            Hint::No => "no",
            Hint::Detect => "detect",
        }
    }
}

/// create a bare content pack at `path` from in-memory items; returns addresses' content ids
pub fn build_content_pack(
    path: &std::path::Path,
    comp: Comp,
    items: &[(Vec<u8>, Hint)],
) -> Result<Vec<u32>, String> {
    let p = camino::Utf8Path::from_path(path).unwrap();
    let mut creator = jbk::creator::ContentPackCreator::new(
        p,
        jbk::PackId::from(1),
        VENDOR,
        Default::default(),
        comp.to_jbk(),
    )
    .map_err(|e| format!("io:{e}"))?;
    let mut ids = vec![];
    for (data, hint) in items {
        let a = creator
            .add_content(Box::new(std::io::Cursor::new(data.clone())), hint.to_jbk())
            .map_err(|e| format!("io:{e}"))?;
        ids.push(a.content_id.into_u32());
    }
    creator.finalize().map_err(|e| format!("io:{e}"))?;
    Ok(ids)
}
