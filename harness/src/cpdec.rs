//! Independent minimal content-pack decoder (framing only, no CRC verification, shares no code
//! with jubako): cluster tails, payload ranges, content infos.  Used to (a) hand the decompressed
//! cluster payloads to the Lean decoder, (b) evaluate the C16 oracle (how each content is stored).
use std::io::Read;

fn le(b: &[u8]) -> u64 {
    let mut v = 0u64;
    for (i, x) in b.iter().enumerate().take(8) {
        v |= (*x as u64) << (8 * i);
    }
    v
}

#[derive(Debug, Clone)]
pub struct ClusterInfo {
    pub comp: u8,
    pub tail_pos: usize,
    pub payload_start: usize,
    pub raw_size: usize,
    pub data_size: usize,
    /// start offsets of blobs + final end
    pub bounds: Vec<usize>,
}

#[derive(Debug, Clone)]
pub struct PackInfoDec {
    pub clusters: Vec<ClusterInfo>,
    /// per content: (cluster, blob)
    pub contents: Vec<(usize, usize)>,
}

pub fn decode(pack: &[u8]) -> Option<PackInfoDec> {
    if pack.len() < 128 {
        return None;
    }
    let content_ptr = le(&pack[64..72]) as usize;
    let cluster_ptr = le(&pack[72..80]) as usize;
    let ncontent = le(&pack[80..84]) as usize;
    let ncluster = le(&pack[84..88]) as usize;
    let mut clusters = vec![];
    for i in 0..ncluster {
        let so = le(pack.get(cluster_ptr + 8 * i..cluster_ptr + 8 * i + 8)?);
        let tail_pos = (so >> 16) as usize;
        let t = pack.get(tail_pos..)?;
        let comp = *t.first()?;
        let osz = *t.get(1)? as usize;
        if osz == 0 || osz > 8 {
            return None;
        }
        let count = le(t.get(2..4)?) as usize;
        let raw = le(t.get(4..4 + osz)?) as usize;
        let data = le(t.get(4 + osz..4 + 2 * osz)?) as usize;
        let mut bounds = vec![0usize];
        if count > 4096 {
            return None;
        }
        for k in 0..count.saturating_sub(1) {
            bounds.push(le(t.get(4 + 2 * osz + k * osz..4 + 2 * osz + (k + 1) * osz)?) as usize);
        }
        bounds.push(data);
        clusters.push(ClusterInfo { comp, tail_pos, payload_start: tail_pos.checked_sub(raw)?, raw_size: raw, data_size: data, bounds });
    }
    let mut contents = vec![];
    for i in 0..ncontent {
        let v = le(pack.get(content_ptr + 4 * i..content_ptr + 4 * i + 4)?) as usize;
        contents.push((v >> 12, v & 0xFFF));
    }
    Some(PackInfoDec { clusters, contents })
}

/// decompress a cluster payload with the codec crates directly (not through jubako)
pub fn decompress(comp: u8, payload: &[u8]) -> Result<Vec<u8>, String> {
    let mut out = vec![];
    match comp {
        0 => out.extend_from_slice(payload),
        1 => {
            let mut d = lz4::Decoder::new(payload).map_err(|e| e.to_string())?;
            d.read_to_end(&mut out).map_err(|e| e.to_string())?;
        }
        2 => {
            let stream = xz2::stream::Stream::new_lzma_decoder(128 * 1024 * 1024).map_err(|e| e.to_string())?;
            let mut d = xz2::read::XzDecoder::new_stream(payload, stream);
            d.read_to_end(&mut out).map_err(|e| e.to_string())?;
        }
        3 => {
            let mut d = zstd::Decoder::new(payload).map_err(|e| e.to_string())?;
            d.read_to_end(&mut out).map_err(|e| e.to_string())?;
        }
        _ => return Err("unknown compression".into()),
    }
    Ok(out)
}

/// what jubako's background decoder *publishes* for a payload: it reads the decoder in chunks of
/// 4 KiB (`take(4096).read_to_end`) and publishes the total after each successful chunk; a decoder
/// error or an early end of stream stops it.  Returns (published bytes, ended normally).
pub fn decompress_published(comp: u8, payload: &[u8], total: usize) -> (Vec<u8>, bool) {
    fn pump<R: Read>(mut d: R, total: usize) -> (Vec<u8>, bool) {
        let mut out: Vec<u8> = Vec::with_capacity(total);
        while out.len() < total {
            let size = std::cmp::min(total - out.len(), 4096);
            let before = out.len();
            match d.by_ref().take(size as u64).read_to_end(&mut out) {
                Ok(0) => return (out, false),
                Ok(_) => {}
                Err(_) => {
                    out.truncate(before);
                    return (out, false);
                }
            }
        }
        (out, true)
    }
    match comp {
        0 => (payload.to_vec(), true),
        1 => match lz4::Decoder::new(payload) {
            Ok(d) => pump(d, total),
            Err(_) => (vec![], false),
        },
        2 => match xz2::stream::Stream::new_lzma_decoder(128 * 1024 * 1024) {
            Ok(stream) => pump(xz2::read::XzDecoder::new_stream(payload, stream), total),
            Err(_) => (vec![], false),
        },
        3 => match zstd::Decoder::new(payload) {
            Ok(d) => pump(d, total),
            Err(_) => (vec![], false),
        },
        _ => (vec![], false),
    }
}

/// like `dump_clusters` but writes what the background decoder would publish (possibly partial)
pub fn dump_clusters_published(pack: &[u8], dec: &PackInfoDec, dir: &std::path::Path) {
    std::fs::create_dir_all(dir).unwrap();
    for (i, c) in dec.clusters.iter().enumerate() {
        if c.comp == 0 {
            continue;
        }
        let payload = match pack.get(c.payload_start..c.payload_start.saturating_add(c.raw_size)) {
            Some(p) => p,
            None => continue,
        };
        let (plain, _ok) = decompress_published(c.comp, payload, c.data_size);
        std::fs::write(dir.join(format!("cluster{}.dec", i)), plain).unwrap();
    }
}

/// write `<dir>/cluster<i>.dec` for every compressed cluster; returns the plain data per cluster
pub fn dump_clusters(pack: &[u8], dec: &PackInfoDec, dir: &std::path::Path) -> Vec<Result<Vec<u8>, String>> {
    std::fs::create_dir_all(dir).unwrap();
    let mut out = vec![];
    for (i, c) in dec.clusters.iter().enumerate() {
        let payload = match pack.get(c.payload_start..c.payload_start + c.raw_size) {
            Some(p) => p,
            None => {
                out.push(Err("payload out of range".into()));
                continue;
            }
        };
        let r = decompress(c.comp, payload);
        if c.comp != 0 {
            if let Ok(plain) = &r {
                std::fs::write(dir.join(format!("cluster{}.dec", i)), plain).unwrap();
            }
        }
        out.push(r);
    }
    out
}
