//! Output of a harness run: ops.txt (one op per line, for the Lean driver), impl.txt (the
//! implementation's canonical answer, same line count), ids.txt (case index per line),
//! oracle.txt (failures of the property's own oracle), stats.json.
use std::collections::BTreeMap;
use std::fs::File;
use std::io::{BufWriter, Write};
use std::path::{Path, PathBuf};

#[derive(Clone, Copy, PartialEq, Eq, Debug)]
pub enum Tier {
    Quick,
    Thorough,
}

pub struct Ctx {
    pub seed: u64,
    pub tier: Tier,
    pub out: PathBuf,
    pub work: PathBuf,
    pub only_case: Option<u64>,
    ops: BufWriter<File>,
    imp: BufWriter<File>,
    ids: BufWriter<File>,
    oracle: BufWriter<File>,
    pub stats: BTreeMap<String, u64>,
    pub samples: Vec<String>,
    pub distinct: std::collections::HashSet<u64>,
    pub lines: u64,
    pub oracle_failures: u64,
    pub cases: u64,
}

pub fn hex(b: &[u8]) -> String {
    if b.is_empty() {
        return "-".to_string();
    }
    let mut s = String::with_capacity(b.len() * 2);
    for x in b {
        s.push_str(&format!("{:02x}", x));
    }
    s
}

impl Ctx {
    pub fn new(seed: u64, tier: Tier, out: &Path, only_case: Option<u64>) -> Self {
        std::fs::create_dir_all(out).unwrap();
        let work = out.join("work");
        let _ = std::fs::remove_dir_all(&work);
        std::fs::create_dir_all(&work).unwrap();
        let mk = |n: &str| BufWriter::new(File::create(out.join(n)).unwrap());
        Ctx {
            seed,
            tier,
            out: out.to_path_buf(),
            work,
            only_case,
            ops: mk("ops.txt"),
            imp: mk("impl.txt"),
            ids: mk("ids.txt"),
            oracle: mk("oracle.txt"),
            stats: BTreeMap::new(),
            samples: vec![],
            distinct: Default::default(),
            lines: 0,
            oracle_failures: 0,
            cases: 0,
        }
    }
    pub fn wants(&self, case: u64) -> bool {
        let w = match self.only_case {
            None => true,
            Some(c) => c == case,
        };
        if w {
            // marker of the case in flight: if the process dies (abort in a worker pool, signal)
            // the engine attributes the death to this case
            let _ = std::fs::write(self.out.join("inflight.txt"), format!("{}", case));
            use std::io::Write;
            let _ = self.ops.get_ref().sync_data();
            let _ = std::io::stderr().flush();
        }
        w
    }
    pub fn quick(&self) -> bool {
        self.tier == Tier::Quick
    }
    /// one op line for the model and the implementation's answer to it
    pub fn emit(&mut self, case: u64, op: &str, impl_out: &str) {
        debug_assert!(!op.contains('\n') && !impl_out.contains('\n'));
        writeln!(self.ops, "{}", op).unwrap();
        writeln!(self.imp, "{}", impl_out).unwrap();
        writeln!(self.ids, "{}", case).unwrap();
        self.ops.flush().unwrap();
        self.imp.flush().unwrap();
        self.ids.flush().unwrap();
        self.lines += 1;
    }
    /// the property's own oracle failed on the implementation (no model involved)
    pub fn fail(&mut self, case: u64, sig: &str, what: &str) {
        writeln!(self.oracle, "{}\t{}\t{}", case, sig, what.replace('\n', " ")).unwrap();
        self.oracle.flush().unwrap();
        self.oracle_failures += 1;
    }
    pub fn count(&mut self, key: &str) {
        *self.stats.entry(key.to_string()).or_insert(0) += 1;
    }
    pub fn add(&mut self, key: &str, n: u64) {
        *self.stats.entry(key.to_string()).or_insert(0) += n;
    }
    pub fn case_done(&mut self, fingerprint: u64, nontrivial: bool) {
        self.cases += 1;
        if nontrivial {
            self.distinct.insert(fingerprint);
        }
    }
    pub fn sample(&mut self, s: String) {
        if self.samples.len() < 6 {
            let mut s = s;
            if s.len() > 600 {
                s.truncate(600);
                s.push_str("…");
            }
            self.samples.push(s);
        }
    }
    pub fn finish(mut self) {
        self.ops.flush().unwrap();
        self.imp.flush().unwrap();
        self.ids.flush().unwrap();
        self.oracle.flush().unwrap();
        let mut s = String::from("{\n");
        s.push_str(&format!(" \"cases\": {},\n \"distinct_nontrivial\": {},\n \"lines\": {},\n \"oracle_failures\": {},\n", self.cases, self.distinct.len(), self.lines, self.oracle_failures));
        s.push_str(" \"distribution\": {");
        let mut first = true;
        for (k, v) in &self.stats {
            if !first {
                s.push(',');
            }
            first = false;
            s.push_str(&format!("\n  {}: {}", json_str(k), v));
        }
        s.push_str("\n },\n \"samples\": [");
        let mut first = true;
        for x in &self.samples {
            if !first {
                s.push(',');
            }
            first = false;
            s.push_str(&format!("\n  {}", json_str(x)));
        }
        s.push_str("\n ]\n}\n");
        std::fs::write(self.out.join("stats.json"), s).unwrap();
        let _ = std::fs::remove_file(self.out.join("inflight.txt"));
    }
}

pub fn json_str(s: &str) -> String {
    let mut o = String::from("\"");
    for c in s.chars() {
        match c {
            '"' => o.push_str("\\\""),
            '\\' => o.push_str("\\\\"),
            '\n' => o.push_str("\\n"),
            '\t' => o.push_str("\\t"),
            c if (c as u32) < 0x20 => o.push_str(&format!("\\u{:04x}", c as u32)),
            c => o.push(c),
        }
    }
    o.push('"');
    o
}

pub fn fnv(data: &[u8]) -> u64 {
    let mut h: u64 = 0xcbf29ce484222325;
    for b in data {
        h ^= *b as u64;
        h = h.wrapping_mul(0x100000001b3);
    }
    h
}
