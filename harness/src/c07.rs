//! C07 — concurrent readers of one container always get exactly the stored bytes.
//!
//! A content pack with more compressed clusters than cache slots (40) and more simultaneously
//! decoding clusters than pool threads (8), each cluster spanning several 4 KiB decode chunks, is
//! read by N ∈ {2..32} threads at once (same content, different contents, whole / partial /
//! cut-and-stream reads) while the hooks of `--cfg jubako_verif` sleep or yield for seeded durations
//! at every schedule point (before/after publish, before wait, at wake-up, at slice, cache lookup,
//! raw→plain switch, pack slot).  Oracle: every read returns exactly the inserted bytes and the run
//! terminates within its wall-clock bound.  Model: the event history of every shared decode buffer
//! is replayed on the SyncVec transition system (`hist.syncvec`): every event must be an enabled
//! step.  A variant damages compressed payloads so that the decoder fails midway: reads below the
//! published length still succeed, the others return errors, nobody waits forever.
use crate::c01::{self, CItem, PackSpec, Src};
use crate::out::{fnv, Ctx};
use crate::rng::Rng;
use crate::util::{self, Comp, Hint};
use jubako as jbk;
use std::cell::Cell;
use std::collections::HashMap;
use std::io::Read;
use std::sync::atomic::{AtomicU64, Ordering};
use std::sync::{Arc, Mutex};

thread_local! {
    static TIDX: Cell<u64> = Cell::new(0);
    static TRNG: Cell<u64> = Cell::new(1);
}

struct Log {
    seq: AtomicU64,
    events: Mutex<Vec<(u64, u64, &'static str, u64, u64)>>, // seq, thread, name, a, b
    max_us: u64,
}

/// set once readers were left hanging: the violation is established, the threads that hang keep their pack
/// busy, and every further phase would only wait for its own bound again
static HUNG: std::sync::atomic::AtomicBool = std::sync::atomic::AtomicBool::new(false);

fn trand() -> u64 {
    TRNG.with(|c| {
        let mut x = c.get();
        x ^= x << 13;
        x ^= x >> 7;
        x ^= x << 17;
        c.set(x);
        x
    })
}

impl Log {
    fn hook(&self, name: &'static str, a: u64, b: u64) {
        let seq = self.seq.fetch_add(1, Ordering::SeqCst);
        let t = TIDX.with(|c| c.get());
        self.events.lock().unwrap().push((seq, t, name, a, b));
        // perturbation
        let r = trand();
        match r % 4 {
            0 => {}
            1 => std::thread::yield_now(),
            _ => {
                let us = (r >> 8) % (self.max_us + 1);
                if us > 0 {
                    std::thread::sleep(std::time::Duration::from_micros(us));
                }
            }
        }
    }
}

fn build_pack(ctx: &mut Ctx, case: u64, rng: &mut Rng, nclusters: usize, comp: Comp) -> Option<(c01::Built, Vec<Vec<u8>>)> {
    let mut items = vec![];
    for _ in 0..nclusters {
        for _ in 0..4095 {
            let len = 2 + rng.below(3) as usize;
            items.push(CItem { data: rng.low_entropy(len), hint: Hint::Yes, src: Src::Mem });
        }
    }
    let spec = PackSpec { comp, items, dedup: false, packaging: None, label: "c07".into() };
    let dir = ctx.work.join(format!("c07-{}", case));
    match util::guarded(|| c01::build(&dir, &spec, rng, Arc::new(()))) {
        Ok(Ok(b)) => Some((b, spec.items.into_iter().map(|i| i.data).collect())),
        other => {
            ctx.fail(case, "create", &format!("creation failed: {:?}", other.err()));
            None
        }
    }
}

pub fn run(ctx: &mut Ctx) {
    let mut rng = Rng::new(ctx.seed ^ 0xC07);
    let n = if ctx.quick() { 6 } else { 60 };
    // the forced schedules first (deterministic, seconds), numbered after the random ones
    let nr = if ctx.quick() { 2 } else { 8 };
    for k in 0..nr as u64 {
        let case = n as u64 + k;
        if ctx.wants(case) {
            let mut crng = rng.fork(case);
            rendezvous(ctx, case, &mut crng, [4usize, 2, 8, 3, 16, 5, 32, 6][k as usize % 8]);
        }
    }
    // contention without any perturbation: threads hammering random contents of different clusters
    let nh = if ctx.quick() { 4 } else { 12 };
    for k in 0..nh as u64 {
        let case = (n + nr) as u64 + k;
        if ctx.wants(case) {
            let mut crng = rng.fork(case);
            hammer(ctx, case, &mut crng, [16usize, 8, 32, 12][k as usize % 4], [Comp::None, Comp::Zstd(1), Comp::Lz4(1), Comp::None][k as usize % 4]);
        }
    }
    // one container file holding many content packs, re-opened again and again: streams of some threads
    // run while other threads touch clusters (of other packs of the same file) for the first time
    let nc = if ctx.quick() { 2 } else { 6 };
    for k in 0..nc as u64 {
        let case = (n + nr + nh) as u64 + k;
        if ctx.wants(case) {
            let mut crng = rng.fork(case);
            crowd(ctx, case, &mut crng, [6usize, 12, 3, 24][k as usize % 4], [Comp::Zstd(1), Comp::Lz4(1), Comp::Lzma(0)][k as usize % 3]);
        }
    }
    for case in 0..n as u64 {
        let mut crng = rng.fork(case);
        if !ctx.wants(case) {
            continue;
        }
        if HUNG.load(Ordering::SeqCst) {
            ctx.count("phases_skipped_after_a_hang");
            continue;
        }
        let nthreads = [2usize, 4, 8, 16, 32, 3][(case % 6) as usize];
        let comp = [Comp::Zstd(1), Comp::Lz4(1), Comp::Lzma(0)][(case % 3) as usize];
        let nclusters = if ctx.quick() { 45 + (case % 3) as usize * 5 } else { 45 + crng.below(40) as usize };
        let damage = case % 3 == 2; // decoder failure variant
        let (built, datas) = match build_pack(ctx, case, &mut crng, nclusters, comp) {
            Some(x) => x,
            None => continue,
        };
        let mut expected_fail: HashMap<usize, bool> = HashMap::new();
        if damage {
            // flip bytes inside some compressed payloads (no CRC there)
            let mut bytes = std::fs::read(&built.file).unwrap();
            if let Some(dec) = crate::cpdec::decode(&bytes) {
                for (ci, c) in dec.clusters.iter().enumerate() {
                    if ci % 4 == 1 && c.raw_size > 40 {
                        let p = c.payload_start + c.raw_size / 2 + crng.below((c.raw_size / 3) as u64) as usize;
                        bytes[p] ^= 0x5A;
                        bytes[p + 1] ^= 0xFF;
                        expected_fail.insert(ci, true);
                    }
                }
            }
            std::fs::write(&built.file, &bytes).unwrap();
        }
        let file_bytes = std::fs::read(&built.file).unwrap();
        let dec = crate::cpdec::decode(&file_bytes);
        let log = Arc::new(Log { seq: AtomicU64::new(0), events: Mutex::new(vec![]), max_us: if ctx.quick() { 300 } else { 800 } });
        {
            let l = Arc::clone(&log);
            jbk::verif_hooks::set_hook(Some(Arc::new(move |name, a, b| l.hook(name, a, b))));
        }
        let reader: jbk::Reader = jbk::FileSource::open(&built.file).unwrap().into();
        let pack = match jbk::reader::ContentPack::new(reader) {
            Ok(p) => Arc::new(p),
            Err(e) => {
                jbk::verif_hooks::set_hook(None);
                ctx.fail(case, "open", &format!("{:?}", util::err_kind(&e)));
                continue;
            }
        };
        let datas = Arc::new(datas);
        let ncontents = datas.len();
        let reads_per_thread = if ctx.quick() { 60 } else { 200 };
        let hot: Vec<usize> = (0..6).map(|_| crng.below(ncontents as u64) as usize).collect();
        let (tx, rx) = std::sync::mpsc::channel::<(usize, Vec<String>, u64, u64)>();
        let mut handles = vec![];
        for t in 0..nthreads {
            let pack = Arc::clone(&pack);
            let datas = Arc::clone(&datas);
            let tx = tx.clone();
            let hot = hot.clone();
            let seed = crng.next() | 1;
            handles.push(std::thread::spawn(move || {
                TIDX.with(|c| c.set(t as u64 + 1));
                TRNG.with(|c| c.set(seed));
                let mut fails = vec![];
                let mut ok_reads = 0u64;
                let mut err_reads = 0u64;
                for k in 0..reads_per_thread {
                    let r = trand();
                    // same content as the other threads, a neighbour, or anything
                    let id = match r % 3 {
                        0 => hot[(r >> 8) as usize % hot.len()],
                        1 => (hot[0] + k) % datas.len(),
                        _ => (r >> 16) as usize % datas.len(),
                    };
                    let exp = &datas[id];
                    let res = std::panic::catch_unwind(std::panic::AssertUnwindSafe(|| -> Result<Vec<u8>, String> {
                        let region = pack.get_content(jbk::ContentIdx::from(id as u32)).map_err(|e| format!("err:{}", util::err_kind(&e)))?.ok_or("none")?;
                        match (r >> 24) % 3 {
                            0 => {
                                let mut v = vec![];
                                region.stream().read_to_end(&mut v).map_err(|e| format!("io:{e}"))?;
                                Ok(v)
                            }
                            1 => {
                                let len = region.size().into_u64() as usize;
                                let off = if len == 0 { 0 } else { (r >> 32) as usize % len };
                                let l = if len - off == 0 { 0 } else { (r >> 40) as usize % (len - off) + 1 };
                                let s = region.get_slice(jbk::Offset::from(off as u64), l).map_err(|e| format!("err:{}", util::err_kind(&e)))?;
                                // compare only the sub-range
                                let mut v = exp[..off].to_vec();
                                v.extend_from_slice(&s);
                                v.extend_from_slice(&exp[off + l..]);
                                Ok(v)
                            }
                            _ => {
                                let len = region.size().into_u64();
                                let off = if len == 0 { 0 } else { (r >> 32) % len };
                                let sub = region.cut(jbk::Offset::from(off), jbk::Size::from(len - off));
                                let mut v = exp[..off as usize].to_vec();
                                sub.stream().read_to_end(&mut v).map_err(|e| format!("io:{e}"))?;
                                Ok(v)
                            }
                        }
                    }));
                    match res {
                        Ok(Ok(v)) => {
                            ok_reads += 1;
                            if &v != exp {
                                fails.push(format!("wrong-bytes\tthread {t} read #{k} of content {id}: got {} bytes (fnv {:016x}) expected {} bytes (fnv {:016x})", v.len(), crate::out::fnv(&v), exp.len(), crate::out::fnv(exp)));
                            }
                        }
                        Ok(Err(e)) => {
                            err_reads += 1;
                            fails.push(format!("read-error\tthread {t} read #{k} of content {id}: {e}"));
                        }
                        Err(_) => fails.push(format!("panic\tthread {t} read #{k} of content {id}: {}", util::take_panic())),
                    }
                }
                let _ = tx.send((t, fails, ok_reads, err_reads));
            }));
        }
        drop(tx);
        // wall-clock bound for the whole run
        let deadline = std::time::Instant::now() + std::time::Duration::from_secs(if ctx.quick() { 120 } else { 300 });
        let mut done = 0;
        let mut all_fails: Vec<String> = vec![];
        let (mut oks, mut errs) = (0u64, 0u64);
        while done < nthreads {
            let left = deadline.saturating_duration_since(std::time::Instant::now());
            match rx.recv_timeout(left) {
                Ok((_t, f, o, e)) => {
                    done += 1;
                    all_fails.extend(f);
                    oks += o;
                    errs += e;
                }
                Err(_) => break,
            }
        }
        jbk::verif_hooks::set_hook(None);
        if done < nthreads {
            HUNG.store(true, Ordering::SeqCst);
            ctx.fail(case, "timeout", &format!("{} of {} reader threads did not finish within the bound (deadlock / lost wake-up?)", nthreads - done, nthreads));
            // cannot join hung threads: leave them and stop the whole run
            ctx.case_done(case, true);
            return;
        }
        for h in handles {
            let _ = h.join();
        }
        // cluster of a content id
        let cluster_of = |id: usize| -> Option<usize> { dec.as_ref().and_then(|d| d.contents.get(id).map(|c| c.0)) };
        for f in all_fails {
            let (sig, what) = f.split_once('\t').unwrap();
            if sig == "read-error" && damage {
                // errors are expected exactly for contents of damaged clusters
                let id: usize = what.split("content ").nth(1).and_then(|s| s.split(':').next()).and_then(|s| s.trim().parse().ok()).unwrap_or(usize::MAX);
                if cluster_of(id).map(|c| expected_fail.contains_key(&c)).unwrap_or(false) {
                    ctx.count("expected_read_errors_on_damaged_clusters");
                    continue;
                }
            }
            ctx.fail(case, sig, what);
        }
        // ---- histories per shared buffer
        let evs = log.events.lock().unwrap().clone();
        let mut per: HashMap<u64, Vec<(u64, u64, &'static str, u64, u64)>> = HashMap::new();
        let mut totals: HashMap<u64, u64> = HashMap::new();
        let mut order: Vec<u64> = vec![];
        for e in &evs {
            if e.2.starts_with("sv_") {
                if e.2 == "sv_new" {
                    // a buffer address can be reused after a cluster was evicted: new incarnation
                    let key = e.3;
                    let inc = order.iter().filter(|k| (**k & 0x0000_FFFF_FFFF_FFFF) == key).count() as u64;
                    let k2 = key | (inc << 48);
                    totals.insert(k2, e.4);
                    order.push(k2);
                    per.insert(k2, vec![]);
                } else {
                    // latest incarnation of that address
                    if let Some(k2) = order.iter().rev().find(|k| (**k & 0x0000_FFFF_FFFF_FFFF) == e.3) {
                        per.get_mut(k2).unwrap().push(*e);
                    }
                }
            }
        }
        let mut nhist = 0u64;
        let mut multi_chunk = 0u64;
        let mut concurrent = 0u64;
        for k in &order {
            let es = &per[k];
            let total = totals[k];
            let mut out: Vec<String> = vec![];
            let mut failed_at: Option<u64> = None;
            let mut nreads = 0u64;
            let mut publishes = 0;
            let mut waiters: std::collections::HashSet<u64> = Default::default();
            for (_, t, name, _a, b) in es {
                match *name {
                    "sv_publish" => {
                        out.push(format!("P{}", b));
                        publishes += 1;
                    }
                    "sv_fail" => {
                        out.push("F".into());
                        failed_at = Some(*b);
                    }
                    "sv_wait" => {
                        out.push(format!("W{}:{}", t, b));
                        nreads += 1;
                        waiters.insert(*t);
                    }
                    "sv_woke" => out.push(format!("K{}:{}", t, b)),
                    "sv_woke_failed" => out.push(format!("X{}:{}", t, b)),
                    "sv_slice" => out.push(format!("S{}:{}", t, b)),
                    _ => {}
                }
            }
            if publishes > 1 {
                multi_chunk += 1;
            }
            if waiters.len() > 1 {
                concurrent += 1;
            }
            let avail = failed_at.unwrap_or(total);
            ctx.emit(case, &format!("hist.syncvec {} {} {} {}", total, avail, nreads, if out.is_empty() { "-".to_string() } else { out.join(",") }), "ok");
            nhist += 1;
        }
        ctx.add("buffer_histories", nhist);
        ctx.add("buffers_published_in_several_chunks", multi_chunk);
        ctx.add("buffers_with_several_reader_threads", concurrent);
        ctx.add("hook_events", evs.len() as u64);
        ctx.add("reads_ok", oks);
        ctx.add("reads_err", errs);
        ctx.count(&format!("threads:{}", nthreads));
        ctx.count(&format!("comp:{}", comp.name().split(':').next().unwrap()));
        ctx.count(if damage { "variant:decoder-failure" } else { "variant:sound" });
        ctx.add("clusters", nclusters as u64);
        ctx.add("cache_lookups", evs.iter().filter(|e| e.2 == "cache_get").count() as u64);
        ctx.sample(format!("{} threads x {} reads over {} {} clusters ({}): {} buffer histories, {} hook events; first events {:?}", nthreads, reads_per_thread, nclusters, comp.name(), if damage { "some payloads damaged" } else { "sound" }, nhist, evs.len(), evs.iter().take(12).map(|e| format!("t{}:{}({},{})", e.1, e.2, e.3 & 0xFFFF, e.4)).collect::<Vec<_>>()));
        ctx.case_done(fnv(format!("{}{}{}", case, nthreads, nclusters).as_bytes()), nhist > 0);
        drop(pack);
        let _ = std::fs::remove_dir_all(ctx.work.join(format!("c07-{}", case)));
    }
}

/// Forced schedule: R reader threads are all blocked inside `wait_for` on the *same* decode buffer,
/// each waiting for the last bytes of the cluster, before the decoder is allowed to publish anything
/// (the decoder thread is held in the `sv_written` hook until R `sv_wait` events have been seen for
/// the cluster, plus a grace period for the threads to reach the condition variable).  Every reader
/// must then be woken by the publishes that follow and return the stored bytes.  One cluster after
/// the other (each is decoded for the first time), so the schedule is reproduced for every cluster.
fn rendezvous(ctx: &mut Ctx, case: u64, rng: &mut Rng, nthreads: usize) {
    if HUNG.load(Ordering::SeqCst) {
        ctx.count("phases_skipped_after_a_hang");
        return;
    }
    use std::sync::atomic::AtomicBool;
    let comp = [Comp::Zstd(1), Comp::Lz4(1), Comp::Lzma(0)][(case % 3) as usize];
    let nclusters = 6usize;
    let (built, datas) = match build_pack(ctx, case, rng, nclusters, comp) {
        Some(x) => x,
        None => return,
    };
    let file_bytes = std::fs::read(&built.file).unwrap();
    let dec = match crate::cpdec::decode(&file_bytes) {
        Some(d) => d,
        None => {
            ctx.fail(case, "framing", "cannot parse the created pack");
            return;
        }
    };
    struct Gate {
        armed: AtomicBool,
        waiters: AtomicU64,
        want: u64,
        held: AtomicU64,
        gate_timeouts: AtomicU64,
        switchers: AtomicU64,
        switch_aligned: AtomicU64,
    }
    let gate = Arc::new(Gate { armed: AtomicBool::new(false), waiters: AtomicU64::new(0), want: nthreads as u64, held: AtomicU64::new(0), gate_timeouts: AtomicU64::new(0), switchers: AtomicU64::new(0), switch_aligned: AtomicU64::new(0) });
    {
        let g = Arc::clone(&gate);
        jbk::verif_hooks::set_hook(Some(Arc::new(move |name, _a, _b| match name {
            "sv_wait" => {
                g.waiters.fetch_add(1, Ordering::SeqCst);
            }
            "plain_switch" => {
                // all readers enter the raw→decoded switch of the fresh cluster together
                let n = g.switchers.fetch_add(1, Ordering::SeqCst) + 1;
                if n <= g.want {
                    let t0 = std::time::Instant::now();
                    while g.switchers.load(Ordering::SeqCst) < g.want && t0.elapsed() < std::time::Duration::from_millis(40) {
                        std::hint::spin_loop();
                    }
                    if g.switchers.load(Ordering::SeqCst) >= g.want {
                        g.switch_aligned.fetch_add(1, Ordering::SeqCst);
                    }
                }
            }
            "sv_written" => {
                if g.armed.swap(false, Ordering::SeqCst) {
                    g.held.fetch_add(1, Ordering::SeqCst);
                    let t0 = std::time::Instant::now();
                    while g.waiters.load(Ordering::SeqCst) < g.want {
                        if t0.elapsed() > std::time::Duration::from_secs(3) {
                            g.gate_timeouts.fetch_add(1, Ordering::SeqCst);
                            break;
                        }
                        std::thread::sleep(std::time::Duration::from_micros(200));
                    }
                    // let the readers get from the hook into Condvar::wait
                    std::thread::sleep(std::time::Duration::from_millis(25));
                }
            }
            _ => {}
        })));
    }
    let reader: jbk::Reader = jbk::FileSource::open(&built.file).unwrap().into();
    let pack = match jbk::reader::ContentPack::new(reader) {
        Ok(p) => Arc::new(p),
        Err(e) => {
            jbk::verif_hooks::set_hook(None);
            ctx.fail(case, "open", &format!("{:?}", util::err_kind(&e)));
            return;
        }
    };
    let datas = Arc::new(datas);
    let mut clusters_done = 0u64;
    'clusters: for ci in 0..nclusters {
        // the contents held by cluster ci: the first thread waits for the end of the last one, the others for
        // the ends of contents spread over the cluster (readers blocked on *different* published lengths)
        let ids: Vec<usize> = dec.contents.iter().enumerate().filter(|(_, c)| c.0 == ci).map(|(i, _)| i).collect();
        let id = match ids.last() {
            Some(i) => *i,
            None => continue,
        };
        gate.waiters.store(0, Ordering::SeqCst);
        gate.switchers.store(0, Ordering::SeqCst);
        gate.armed.store(true, Ordering::SeqCst);
        let barrier = Arc::new(std::sync::Barrier::new(nthreads));
        let (tx, rx) = std::sync::mpsc::channel::<(usize, Result<bool, String>)>();
        for t in 0..nthreads {
            let pack = Arc::clone(&pack);
            let datas = Arc::clone(&datas);
            let tx = tx.clone();
            let barrier = Arc::clone(&barrier);
            let id = if t == 0 || ci % 2 == 0 { id } else { ids[(t * ids.len() / nthreads).min(ids.len() - 1)] };
            std::thread::spawn(move || {
                barrier.wait();
                let res = std::panic::catch_unwind(std::panic::AssertUnwindSafe(|| -> Result<bool, String> {
                    let region = pack.get_content(jbk::ContentIdx::from(id as u32)).map_err(|e| format!("err:{}", util::err_kind(&e)))?.ok_or("none")?;
                    let mut v = vec![];
                    region.stream().read_to_end(&mut v).map_err(|e| format!("io:{e}"))?;
                    Ok(v == datas[id])
                }));
                let _ = tx.send((t, res.unwrap_or_else(|_| Err(format!("panic: {}", util::take_panic())))));
            });
        }
        drop(tx);
        let deadline = std::time::Instant::now() + std::time::Duration::from_secs(30);
        let mut done = 0;
        while done < nthreads {
            match rx.recv_timeout(deadline.saturating_duration_since(std::time::Instant::now())) {
                Ok((t, Ok(true))) => {
                    let _ = t;
                    done += 1;
                }
                Ok((t, Ok(false))) => {
                    done += 1;
                    ctx.fail(case, "wrong-bytes", &format!("forced schedule, cluster {ci}: thread {t} read other bytes than stored for content {id}"));
                }
                Ok((t, Err(e))) => {
                    done += 1;
                    ctx.fail(case, "read-error", &format!("forced schedule, cluster {ci}: thread {t} reading content {id}: {e}"));
                }
                Err(_) => break,
            }
        }
        if done < nthreads {
            HUNG.store(true, Ordering::SeqCst);
            ctx.fail(case, "timeout", &format!("forced schedule: {} reader threads wait for the end of cluster {} while it is decoded; {} of them were never woken although the cluster was decoded to its end (lost wake-up)", nthreads, ci, nthreads - done));
            break 'clusters;
        }
        clusters_done += 1;
    }
    jbk::verif_hooks::set_hook(None);
    ctx.add("forced_schedule_clusters", clusters_done);
    ctx.add("forced_schedule_decoder_held", gate.held.load(Ordering::SeqCst));
    ctx.add("forced_schedule_gate_timeouts", gate.gate_timeouts.load(Ordering::SeqCst));
    ctx.add("forced_schedule_switch_aligned_threads", gate.switch_aligned.load(Ordering::SeqCst));
    ctx.count(&format!("forced_schedule_threads:{}", nthreads));
    ctx.sample(format!("forced schedule: {} threads blocked on the end of each of {} {} clusters before the decoder's first publish; decoder held {} times", nthreads, nclusters, comp.name(), gate.held.load(Ordering::SeqCst)));
    ctx.case_done(fnv(format!("rv{}{}", case, nthreads).as_bytes()), clusters_done > 0);
    let _ = std::fs::remove_dir_all(ctx.work.join(format!("c07-{}", case)));
}


/// No hook, no sleep: N threads read random contents spread over all the clusters of one pack
/// (raw clusters for `Comp::None` — their plain readers go through the same cluster cache), as fast
/// as they can, so that lookups, insertions and evictions of the cluster cache and the first-access
/// switches of different clusters overlap as often as the machine allows.  Oracle only (there is no
/// event history to replay): every read returns the stored bytes.
fn hammer(ctx: &mut Ctx, case: u64, rng: &mut Rng, nthreads: usize, comp: Comp) {
    if HUNG.load(Ordering::SeqCst) {
        ctx.count("phases_skipped_after_a_hang");
        return;
    }
    let nclusters = 44 + rng.below(6) as usize; // more than the 40 cache slots
    // hint No for an uncompressed pack is irrelevant (everything is raw); for a compressed pack every
    // other cluster's worth of contents is raw
    let mut items = vec![];
    for c in 0..nclusters {
        for _ in 0..4095 {
            let len = 2 + rng.below(3) as usize;
            items.push(CItem { data: rng.low_entropy(len), hint: if c % 2 == 0 { Hint::Yes } else { Hint::No }, src: Src::Mem });
        }
    }
    let spec = PackSpec { comp, items, dedup: false, packaging: None, label: "c07-hammer".into() };
    let dir = ctx.work.join(format!("c07-{}", case));
    let built = match util::guarded(|| c01::build(&dir, &spec, rng, Arc::new(()))) {
        Ok(Ok(b)) => b,
        other => {
            ctx.fail(case, "create", &format!("creation failed: {:?}", other.err()));
            return;
        }
    };
    let datas: Arc<Vec<Vec<u8>>> = Arc::new(spec.items.into_iter().map(|i| i.data).collect());
    jbk::verif_hooks::set_hook(None);
    let reader: jbk::Reader = jbk::FileSource::open(&built.file).unwrap().into();
    let pack = match jbk::reader::ContentPack::new(reader) {
        Ok(p) => Arc::new(p),
        Err(e) => {
            ctx.fail(case, "open", &format!("{:?}", util::err_kind(&e)));
            return;
        }
    };
    let reads = if ctx.quick() { 40000 } else { 250000 };
    let (tx, rx) = std::sync::mpsc::channel::<(usize, Option<String>, u64)>();
    for t in 0..nthreads {
        let pack = Arc::clone(&pack);
        let datas = Arc::clone(&datas);
        let tx = tx.clone();
        let seed = rng.next() | 1;
        std::thread::spawn(move || {
            TRNG.with(|c| c.set(seed));
            let mut done = 0u64;
            let mut bad = None;
            for k in 0..reads {
                let r = trand();
                // a run of contents of one cluster, then jump to another cluster
                let id = if k % 7 < 4 { (r >> 8) as usize % datas.len() } else { ((r >> 8) as usize % datas.len()) / 4095 * 4095 + (k % 4095) };
                let id = id % datas.len();
                let res = std::panic::catch_unwind(std::panic::AssertUnwindSafe(|| -> Result<Vec<u8>, String> {
                    let region = pack.get_content(jbk::ContentIdx::from(id as u32)).map_err(|e| format!("err:{}", util::err_kind(&e)))?.ok_or("none")?;
                    let mut v = vec![];
                    region.stream().read_to_end(&mut v).map_err(|e| format!("io:{e}"))?;
                    Ok(v)
                }));
                match res {
                    Ok(Ok(v)) if v == datas[id] => done += 1,
                    Ok(Ok(v)) => {
                        bad = Some(format!("wrong-bytes\tno perturbation: thread {t} read #{k} of content {id} (cluster {}): got {} bytes (fnv {:016x}) expected {} bytes (fnv {:016x})", id / 4095, v.len(), crate::out::fnv(&v), datas[id].len(), crate::out::fnv(&datas[id])));
                        break;
                    }
                    Ok(Err(e)) => {
                        bad = Some(format!("read-error\tno perturbation: thread {t} read #{k} of content {id}: {e}"));
                        break;
                    }
                    Err(_) => {
                        bad = Some(format!("panic\tno perturbation: thread {t} read #{k} of content {id}: {}", util::take_panic()));
                        break;
                    }
                }
            }
            let _ = tx.send((t, bad, done));
        });
    }
    drop(tx);
    let deadline = std::time::Instant::now() + std::time::Duration::from_secs(120);
    let mut done = 0;
    let mut total = 0u64;
    while done < nthreads {
        match rx.recv_timeout(deadline.saturating_duration_since(std::time::Instant::now())) {
            Ok((_, bad, n)) => {
                done += 1;
                total += n;
                if let Some(b) = bad {
                    let (sig, what) = b.split_once('\t').unwrap();
                    ctx.fail(case, sig, what);
                }
            }
            Err(_) => break,
        }
    }
    if done < nthreads {
        HUNG.store(true, Ordering::SeqCst);
            ctx.fail(case, "timeout", &format!("no perturbation: {} of {} reader threads did not finish within the bound", nthreads - done, nthreads));
    }
    ctx.add("hammer_reads_ok", total);
    ctx.count(&format!("hammer_threads:{}", nthreads));
    ctx.count(&format!("hammer_comp:{}", comp.name().split(':').next().unwrap()));
    ctx.sample(format!("no perturbation: {} threads x {} reads over {} clusters ({}), {} exact reads", nthreads, reads, nclusters, comp.name(), total));
    ctx.case_done(fnv(format!("hm{}{}", case, nthreads).as_bytes()), total > 0);
    let _ = std::fs::remove_dir_all(ctx.work.join(format!("c07-{}", case)));
}


/// One container *file* with many content packs (every pack has a raw cluster and a compressed cluster
/// of a few blobs, the compressed one spanning many reads of its payload), opened several times; each
/// time N threads read every content through streams with small buffers, in different orders, so that
/// the first access to a cluster (its tail is loaded from the shared file) falls between two reads of
/// other threads' streams and between two reads of a decoder's input.  No hook, no sleep.  Oracle only.
fn crowd(ctx: &mut Ctx, case: u64, rng: &mut Rng, nthreads: usize, comp: Comp) {
    if HUNG.load(Ordering::SeqCst) {
        ctx.count("phases_skipped_after_a_hang");
        return;
    }
    use crate::container::{self, Item, Mode, Spec};
    let npacks: u16 = if ctx.quick() { 28 } else { 47 };
    let mut items = vec![];
    for p in 1..=npacks + 1 {
        // every fifth pack has a compressed cluster spanning many reads of its payload, the others are small
        // (many first accesses — small checked blocks read from the shared file — per opening)
        let big = if p % 5 == 0 { 60_000 + rng.below(120_000) as usize } else { 5_000 + rng.below(9_000) as usize };
        for (j, (len, hint, random)) in [(1500 + rng.below(3000) as usize, Hint::No, true), (big, Hint::Yes, true), (300 + rng.below(5000) as usize, Hint::No, false), (2000, Hint::Yes, false)].into_iter().enumerate() {
            let data = if random { rng.bytes(len) } else { rng.low_entropy(len) };
            items.push(Item { name: format!("p{}i{}", p, j).into_bytes(), num: p as u64 * 10 + j as u64, data, hint, pack: p });
        }
    }
    let spec = Spec { mode: Mode::OneFile, comp, items, extra_packs: npacks, id_gap: 0, rev_extras: false };
    let dir = ctx.work.join(format!("c07-{}", case));
    std::fs::create_dir_all(&dir).unwrap();
    let path = match util::guarded(|| container::build(&dir, "c", &spec)) {
        Ok(Ok(p)) => p,
        other => {
            ctx.fail(case, "create", &format!("creation failed: {:?}", other));
            return;
        }
    };
    jbk::verif_hooks::set_hook(None);
    let datas: Arc<Vec<(u16, Vec<u8>)>> = Arc::new(spec.items.iter().map(|i| (spec.pack_id(i.pack), i.data.clone())).collect());
    let rounds = if ctx.quick() { 30 } else { 150 };
    let mut total = 0u64;
    for round in 0..rounds {
        let c = match util::guarded(|| jbk::reader::Container::new(&path)) {
            Ok(Ok(c)) => Arc::new(c),
            other => {
                ctx.fail(case, "open", &format!("container does not open: {:?}", other.map(|r| r.map(|_| ()).map_err(|e| util::err_kind(&e)))));
                return;
            }
        };
        // addresses through the index (single thread)
        let addrs: Vec<jbk::ContentAddress> = match util::guarded(|| -> Result<Vec<jbk::ContentAddress>, String> {
            let index = c.get_index_for_name("main").map_err(|e| format!("{:?}", e))?.ok_or("noindex")?;
            let builder = jbk::reader::builder::AnyBuilder::new(index.get_store(c.get_entry_storage()).map_err(|e| format!("{:?}", e))?, c.get_value_storage().as_ref()).map_err(|e| format!("{:?}", e))?;
            let mut v = vec![];
            use jbk::reader::{EntryTrait, Range};
            for i in 0..index.count().into_u32() {
                let e = index.get_entry(&builder, jbk::EntryIdx::from(i)).map_err(|e| format!("{:?}", e))?.ok_or("noentry")?;
                v.push(e.get_value("content").map_err(|e| format!("{:?}", e))?.ok_or("nocontent")?.as_content());
            }
            Ok(v)
        }) {
            Ok(Ok(v)) if v.len() == datas.len() => v,
            other => {
                ctx.fail(case, "entries", &format!("entries do not read: {:?}", other.map(|r| r.map(|v| v.len()))));
                return;
            }
        };
        let addrs = Arc::new(addrs);
        let (tx, rx) = std::sync::mpsc::channel::<(usize, Option<String>, u64)>();
        let barrier = Arc::new(std::sync::Barrier::new(nthreads));
        for t in 0..nthreads {
            let c = Arc::clone(&c);
            let datas = Arc::clone(&datas);
            let addrs = Arc::clone(&addrs);
            let tx = tx.clone();
            let barrier = Arc::clone(&barrier);
            let seed = rng.next() | 1;
            std::thread::spawn(move || {
                TRNG.with(|c| c.set(seed));
                barrier.wait();
                let n = datas.len();
                let start = trand() as usize % n;
                let stride = [1usize, n - 1, 3, 5, 7][trand() as usize % 5];
                let mut done = 0u64;
                let mut bad = None;
                for k in 0..n {
                    let id = (start + k * stride) % n;
                    let res = std::panic::catch_unwind(std::panic::AssertUnwindSafe(|| -> Result<Vec<u8>, String> {
                        let region = match c.get_bytes(addrs[id]).map_err(|e| format!("err:{}", util::err_kind(&e)))? {
                            Some(jbk::reader::MayMissPack::FOUND(Some(r))) => r,
                            _ => return Err("not-found".into()),
                        };
                        let mut st = region.stream();
                        let mut v = Vec::with_capacity(datas[id].1.len());
                        let mut buf = vec![0u8; 1 + trand() as usize % 700];
                        loop {
                            let k = st.read(&mut buf).map_err(|e| format!("io:{e}"))?;
                            if k == 0 {
                                break;
                            }
                            v.extend_from_slice(&buf[..k]);
                            if v.len() > datas[id].1.len() + 16 {
                                break;
                            }
                        }
                        Ok(v)
                    }));
                    match res {
                        Ok(Ok(v)) if v == datas[id].1 => done += 1,
                        Ok(Ok(v)) => {
                            bad = Some(format!("wrong-bytes\tmany packs in one file, round {round}: thread {t} streamed content {id} (pack {}): got {} bytes (fnv {:016x}) expected {} bytes (fnv {:016x}), first difference at {:?}", datas[id].0, v.len(), crate::out::fnv(&v), datas[id].1.len(), crate::out::fnv(&datas[id].1), v.iter().zip(datas[id].1.iter()).position(|(a, b)| a != b)));
                            break;
                        }
                        Ok(Err(e)) => {
                            bad = Some(format!("read-error\tmany packs in one file, round {round}: thread {t} content {id} (pack {}): {e}", datas[id].0));
                            break;
                        }
                        Err(_) => {
                            bad = Some(format!("panic\tmany packs in one file, round {round}: thread {t} content {id}: {}", util::take_panic()));
                            break;
                        }
                    }
                }
                let _ = tx.send((t, bad, done));
            });
        }
        drop(tx);
        let deadline = std::time::Instant::now() + std::time::Duration::from_secs(120);
        let mut done = 0;
        while done < nthreads {
            match rx.recv_timeout(deadline.saturating_duration_since(std::time::Instant::now())) {
                Ok((_, bad, n)) => {
                    done += 1;
                    total += n;
                    if let Some(b) = bad {
                        let (sig, what) = b.split_once('\t').unwrap();
                        ctx.fail(case, sig, what);
                    }
                }
                Err(_) => break,
            }
        }
        if done < nthreads {
            HUNG.store(true, Ordering::SeqCst);
            ctx.fail(case, "timeout", &format!("many packs in one file: {} of {} reader threads did not finish within the bound", nthreads - done, nthreads));
            break;
        }
    }
    ctx.add("crowd_reads_ok", total);
    ctx.count(&format!("crowd_threads:{}", nthreads));
    ctx.sample(format!("many packs in one file: {} packs ({}), {} threads x {} openings, {} exact streamed reads", npacks + 1, comp.name(), nthreads, rounds, total));
    ctx.case_done(fnv(format!("cr{}{}", case, nthreads).as_bytes()), total > 0);
    let _ = std::fs::remove_dir_all(&dir);
}
