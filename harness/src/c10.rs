//! C10 — a container reads the same however its packs are packaged.
//!
//! One logical container (names, numbers, contents over 1..3 content packs, any compression) is
//! written in the three packagings, re-assembled with `tools::concat` in every order of its files
//! (all permutations up to 4 inputs), prefixed with 0/1/63/64/4096/random bytes, and — lookup
//! order — re-assembled next to damaged copies of the separate pack files.  Oracle: the full logical
//! dump through `reader::Container` is the expected one in every arrangement.  Model: the Lean
//! `containerOpen` (blind open, container pack, locator chain, directory and content decoders) on
//! the same directory of files gives the same dump.
use crate::container::{self, Mode, Spec};
use crate::out::{fnv, Ctx};
use crate::rng::Rng;
use crate::util::{self, Comp};
use jubako as jbk;
use std::path::{Path, PathBuf};

fn files_of(dir: &Path) -> Vec<PathBuf> {
    let mut v: Vec<PathBuf> = std::fs::read_dir(dir).unwrap().filter_map(|e| e.ok().map(|e| e.path())).filter(|p| p.is_file()).collect();
    v.sort();
    v
}

fn permutations(n: usize, limit: usize, rng: &mut Rng) -> Vec<Vec<usize>> {
    let mut all = vec![];
    fn rec(cur: &mut Vec<usize>, used: &mut Vec<bool>, n: usize, out: &mut Vec<Vec<usize>>) {
        if cur.len() == n {
            out.push(cur.clone());
            return;
        }
        for i in 0..n {
            if !used[i] {
                used[i] = true;
                cur.push(i);
                rec(cur, used, n, out);
                cur.pop();
                used[i] = false;
            }
        }
    }
    if n <= 4 {
        rec(&mut vec![], &mut vec![false; n], n, &mut all);
    } else {
        for _ in 0..limit {
            let mut p: Vec<usize> = (0..n).collect();
            for i in (1..n).rev() {
                let j = rng.below(i as u64 + 1) as usize;
                p.swap(i, j);
            }
            all.push(p);
        }
    }
    while all.len() > limit {
        let k = rng.below(all.len() as u64) as usize;
        all.swap_remove(k);
    }
    all
}

fn check_arrangement(ctx: &mut Ctx, case: u64, what: &str, dir: &Path, entry: &Path, expected: &[String]) {
    let got = container::dump(entry);
    if got != expected {
        let k = got.iter().zip(expected.iter()).position(|(a, b)| a != b).unwrap_or(std::cmp::min(got.len(), expected.len()));
        ctx.fail(case, &format!("dump-{}", what.split(':').next().unwrap()), &format!("{}: line {} reads `{}` expected `{}`", what, k, got.get(k).map(|s| s.as_str()).unwrap_or("<none>").chars().take(160).collect::<String>(), expected.get(k).map(|s| s.as_str()).unwrap_or("<none>").chars().take(160).collect::<String>()));
    }
    // the same logical content whatever the order in which the packs are first touched
    for order in 1..=3u8 {
        let g = container::dump_in_order(entry, order);
        if g != expected {
            let k = g.iter().zip(expected.iter()).position(|(a, b)| a != b).unwrap_or(std::cmp::min(g.len(), expected.len()));
            ctx.fail(case, &format!("dump-access-order-{}", what.split(':').next().unwrap()), &format!("{} read in {}: line {} reads `{}` expected `{}`", what, ["", "reverse entry order", "highest pack id first", "lowest pack id first"][order as usize], k, g.get(k).map(|s| s.as_str()).unwrap_or("<none>").chars().take(160).collect::<String>(), expected.get(k).map(|s| s.as_str()).unwrap_or("<none>").chars().take(160).collect::<String>()));
        }
    }
    let decdir = dir.join("_dec");
    // (a sub-directory: not part of the FS the model sees)
    container::dump_all_clusters(dir, &decdir);
    ctx.emit(case, &format!("ct.open {} {} {}", dir.display(), entry.file_name().unwrap().to_string_lossy(), decdir.display()), &got.join(";"));
    ctx.count(&format!("arrangement:{}", what.split(':').next().unwrap()));
}

pub fn run(ctx: &mut Ctx) {
    let mut rng = Rng::new(ctx.seed ^ 0xC10);
    let n = if ctx.quick() { 6 } else { 60 };
    for case in 0..n as u64 {
        let mut crng = rng.fork(case);
        if !ctx.wants(case) {
            continue;
        }
        let comp = *crng.pick(&[Comp::None, Comp::Zstd(3), Comp::Lz4(2), Comp::Lzma(1), Comp::None]);
        let extra = (case % 3) as u16;
        let base: Spec = container::random_spec(&mut crng, Mode::OneFile, comp, if ctx.quick() { 6 } else { 12 }, extra);
        let expected = container::expected_dump(&base);
        let root = ctx.work.join(format!("c10-{}", case));
        // file names are the locations recorded in the manifest: every few containers they have the maximal
        // length a location can have (213 bytes for `<name>.jbkc` / `<name>.jbkd`), or one byte less
        let name: String = if extra == 0 && case % 6 == 0 { "n".repeat(208) } else if extra == 0 && case % 6 == 3 { "m".repeat(207) } else { "c".to_string() };
        ctx.count(&format!("location_len:{}", name.len() + 5));
        let mut narr = 0u64;
        for mode in Mode::ALL {
            let mut spec = base.clone();
            spec.mode = mode;
            let dir = root.join(mode.name());
            std::fs::create_dir_all(&dir).unwrap();
            // (the directory pack of the no-concat packaging is named `<name>..jbkd`: one byte more)
            let name: String = if mode == Mode::NoConcat && name.len() == 208 { name[..207].to_string() } else { name.clone() };
            let entry = match util::guarded(|| container::build(&dir, &name, &spec)) {
                Ok(Ok(p)) => p,
                other => {
                    ctx.fail(case, "create", &format!("creation ({}) failed: {:?}", mode.name(), other));
                    continue;
                }
            };
            check_arrangement(ctx, case, &format!("{}:as-created", mode.name()), &dir, &entry, &expected);
            narr += 1;
            let files = files_of(&dir);
            // ---- concat in every order
            let perms = permutations(files.len(), if ctx.quick() { 4 } else { 24 }, &mut crng);
            for (pi, perm) in perms.iter().enumerate() {
                let cdir = root.join(format!("{}-concat{}", mode.name(), pi));
                std::fs::create_dir_all(&cdir).unwrap();
                let ins: Vec<PathBuf> = perm.iter().map(|i| files[*i].clone()).collect();
                let out = cdir.join("all.jbk");
                let outp = camino::Utf8PathBuf::from_path_buf(out.clone()).unwrap();
                match util::guarded(|| jbk::tools::concat(&ins, &outp)) {
                    Ok(Ok(())) => {
                        check_arrangement(ctx, case, &format!("concat:{} order {:?}", mode.name(), perm), &cdir, &out, &expected);
                        narr += 1;
                        if pi == 0 {
                            // lookup order: the same concatenated file next to damaged copies of the
                            // separately located packs — the enclosed packs must win
                            let ldir = root.join(format!("{}-lookup", mode.name()));
                            std::fs::create_dir_all(&ldir).unwrap();
                            std::fs::copy(&out, ldir.join("all.jbk")).unwrap();
                            for f in &files {
                                if *f != entry {
                                    let mut b = std::fs::read(f).unwrap();
                                    let k = b.len() / 2;
                                    for x in b[k..].iter_mut().take(64) {
                                        *x ^= 0xA5;
                                    }
                                    std::fs::write(ldir.join(f.file_name().unwrap()), b).unwrap();
                                }
                            }
                            check_arrangement(ctx, case, &format!("lookup-order:{}", mode.name()), &ldir, &ldir.join("all.jbk"), &expected);
                            narr += 1;
                            // several steps and repeated packs: the concatenation of a file with a
                            // container that already holds its packs (both orders), and the
                            // concatenation of that result alone; every result sits alone in a fresh
                            // directory, so a pack lost on the way cannot be found beside it
                            let steps: [(&str, Vec<PathBuf>); 2] = [("entry+all", vec![entry.clone(), out.clone()]), ("all+entry", vec![out.clone(), entry.clone()])];
                            for (sname, ins2) in steps {
                                let d1 = root.join(format!("{}-re-{}", mode.name(), sname));
                                std::fs::create_dir_all(&d1).unwrap();
                                let o1 = d1.join("merged.jbk");
                                let o1p = camino::Utf8PathBuf::from_path_buf(o1.clone()).unwrap();
                                match util::guarded(|| jbk::tools::concat(&ins2, &o1p)) {
                                    Ok(Ok(())) => {
                                        check_arrangement(ctx, case, &format!("reconcat:{} {}", mode.name(), sname), &d1, &o1, &expected);
                                        narr += 1;
                                        let d2 = root.join(format!("{}-re2-{}", mode.name(), sname));
                                        std::fs::create_dir_all(&d2).unwrap();
                                        let o2 = d2.join("again.jbk");
                                        let o2p = camino::Utf8PathBuf::from_path_buf(o2.clone()).unwrap();
                                        match util::guarded(|| jbk::tools::concat(&[o1.clone()], &o2p)) {
                                            Ok(Ok(())) => {
                                                check_arrangement(ctx, case, &format!("reconcat:{} concat({})", mode.name(), sname), &d2, &o2, &expected);
                                                narr += 1;
                                            }
                                            other => ctx.fail(case, "concat", &format!("tools::concat([concat({})]) failed: {:?}", sname, other.map(|r| r.map_err(|e| util::err_kind(&e))))),
                                        }
                                    }
                                    other => ctx.fail(case, "concat", &format!("tools::concat({}) failed: {:?}", sname, other.map(|r| r.map_err(|e| util::err_kind(&e))))),
                                }
                            }
                        }
                    }
                    other => ctx.fail(case, "concat", &format!("tools::concat({:?}) failed: {:?}", perm, other.map(|r| r.map_err(|e| util::err_kind(&e))))),
                }
            }
            // ---- prefix (embedded at the end of another file): whole container in one file
            if mode == Mode::OneFile && extra == 0 {
                let whole = std::fs::read(&entry).unwrap();
                let mut prefixes: Vec<(String, Vec<u8>)> = vec![];
                for plen in [0usize, 1, 63, 64, 4096, 1 + crng.below(3000) as usize] {
                    prefixes.push((format!("{}", plen), crng.bytes(plen)));
                }
                // prefixes which *look like* the start of a Jubako file without being one: a truncated
                // copy of this very container, a pack header whose CRC is wrong, a bare magic+vendor+
                // version stub followed by arbitrary bytes (every pack kind letter), text
                prefixes.push(("truncated-self-40".into(), whole[..40.min(whole.len())].to_vec()));
                let mut h = whole[..64.min(whole.len())].to_vec();
                if h.len() == 64 {
                    h[30] ^= 0x55;
                    prefixes.push(("header-bad-crc".into(), h));
                }
                for kind in [b'm', b'd', b'c', b'C'] {
                    let mut stub = vec![b'j', b'b', b'k', kind];
                    stub.extend_from_slice(&whole[4..10]);
                    let slen = 10 + crng.below(200) as usize;
                    stub.extend(crng.bytes(slen));
                    prefixes.push((format!("stub-{}", kind as char), stub));
                }
                prefixes.push(("text".into(), b"#!/bin/sh\n# a launcher script followed by its archive\nexec viewer \"$0\"\n".to_vec()));
                for (pname, mut b) in prefixes {
                    let pdir = root.join(format!("prefix{}", pname));
                    std::fs::create_dir_all(&pdir).unwrap();
                    b.extend_from_slice(&whole);
                    let out = pdir.join("embedded.bin");
                    std::fs::write(&out, b).unwrap();
                    check_arrangement(ctx, case, &format!("prefix:{}", pname), &pdir, &out, &expected);
                    ctx.count(&format!("prefix_kind:{}", pname.split('-').next().unwrap_or("").trim_matches(char::is_numeric)));
                    narr += 1;
                }
            }
        }
        ctx.add("arrangements", narr);
        ctx.count(&format!("comp:{}", comp.name().split(':').next().unwrap()));
        ctx.count(&format!("extra_packs:{}", extra));
        ctx.sample(format!("{} items, {} extra packs, {}: {} arrangements; first lines {:?}", base.items.len(), extra, comp.name(), narr, expected.iter().take(2).collect::<Vec<_>>()));
        ctx.case_done(fnv(format!("{:?}", base).as_bytes()), narr > 3);
    }
}
