//! Generator and runner for directory packs: schemas (common properties, variants of unequal size,
//! inline prefix 0..31, plain / indexed stores shared or not), entry sets, index windows; creation
//! through `DirectoryPackCreator`; read back through `DirectoryPack` / `Index` / `AnyBuilder`; canonical
//! dump in the same format as the Lean decoder (`dp.decode`).
use crate::out::hex;
use crate::rng::Rng;
use crate::util;
use jubako as jbk;
use jbk::creator::schema;
use jbk::reader::builder::AnyBuilder;
use jbk::reader::{EntryTrait, Range};
use std::collections::HashMap;
use std::path::Path;
use std::sync::Arc;

pub const PNAMES: [&str; 12] = ["p0", "p1", "p2", "p3", "p4", "p5", "p6", "p7", "p8", "p9", "pa", "pb"];
pub const VNAMES: [&str; 4] = ["v0", "v1", "v2", "v3"];

#[derive(Clone, Debug, PartialEq)]
pub enum PDef {
    UInt,
    SInt,
    Array { fixed: usize, store: usize },
    Content,
}

#[derive(Clone, Debug, PartialEq, Eq, PartialOrd, Ord)]
pub enum V {
    U(u64),
    S(i64),
    A(Vec<u8>),
    C(u16, u32),
    /// reference to the entry that was added k-th (C15): stored as that entry's final position
    Ref(usize),
}

impl V {
    pub fn canon(&self) -> String {
        match self {
            V::U(n) => format!("u{}", n),
            V::S(n) => format!("s{}", n),
            V::A(b) => format!("a{}", hex(b)),
            V::C(p, i) => format!("c{}.{}", p, i),
            V::Ref(k) => format!("ref{}", k),
        }
    }
}

#[derive(Clone, Debug)]
pub struct EntrySpec {
    pub variant: Option<usize>,
    pub values: Vec<(&'static str, V)>,
}

#[derive(Clone, Debug)]
pub struct IndexSpec {
    pub name: String,
    pub offset: u32,
    pub count: u32,
}

#[derive(Clone, Debug)]
pub struct DirSpec {
    /// true = indexed, false = plain
    pub stores: Vec<bool>,
    pub common: Vec<(&'static str, PDef)>,
    pub variants: Vec<(&'static str, Vec<(&'static str, PDef)>)>,
    pub sort_keys: Option<Vec<&'static str>>,
    pub entries: Vec<EntrySpec>,
    pub indexes: Vec<IndexSpec>,
    pub label: String,
}

impl DirSpec {
    pub fn props_of(&self, variant: Option<usize>) -> Vec<(&'static str, PDef)> {
        let mut v = self.common.clone();
        if let Some(i) = variant {
            v.extend(self.variants[i].1.iter().cloned());
        }
        v
    }
}

pub fn int_boundary_u(rng: &mut Rng) -> u64 {
    let k = rng.range(1, 8);
    let base: u128 = 1u128 << (8 * k);
    let v: u128 = match rng.below(5) {
        0 => base - 1,
        1 => base,
        2 => base + 1,
        3 => base / 2,
        _ => rng.next() as u128 % base,
    };
    std::cmp::min(v, u64::MAX as u128) as u64
}

pub fn int_boundary_s(rng: &mut Rng) -> i64 {
    let k = rng.range(1, 8);
    let half: i128 = 1i128 << (8 * k - 1);
    let v: i128 = match rng.below(8) {
        0 => half - 1,
        1 => half,
        2 => -half,
        3 => -half - 1,
        4 => -1,
        5 => 0,
        6 => -((rng.next() as i128) % half),
        _ => (rng.next() as i128) % half,
    };
    v.clamp(i64::MIN as i128, i64::MAX as i128) as i64
}

fn array_value(rng: &mut Rng, fixed: usize) -> Vec<u8> {
    let len = match rng.below(10) {
        0 => 0,
        1 => fixed,
        2 => fixed.saturating_sub(1),
        3 => fixed + 1,
        4 => *rng.pick(&[254usize, 255, 256, 257]),
        5 => 1,
        _ => rng.below(24) as usize,
    };
    let alphabet = [0x00u8, 0xFF, b'a', b'b', b'a', 0x7F, 0x80];
    (0..len).map(|_| *rng.pick(&alphabet)).collect()
}

fn gen_value(rng: &mut Rng, def: &PDef) -> V {
    match def {
        PDef::UInt => {
            if rng.chance(1, 3) {
                V::U(rng.below(300))
            } else {
                V::U(int_boundary_u(rng))
            }
        }
        PDef::SInt => {
            if rng.chance(1, 3) {
                V::S(rng.below(300) as i64 - 150)
            } else {
                V::S(int_boundary_s(rng))
            }
        }
        PDef::Array { fixed, .. } => V::A(array_value(rng, *fixed)),
        PDef::Content => V::C(if rng.chance(1, 2) { 1 } else { *rng.pick(&[0u16, 2, 255, 256, 65535]) }, *rng.pick(&[0u32, 1, 255, 256, 65535, 65536, 0xFFFFFF, 0x1000000, u32::MAX])),
    }
}

fn gen_props(rng: &mut Rng, n: usize, names: &mut Vec<&'static str>, nstores: usize) -> Vec<(&'static str, PDef)> {
    let mut v = vec![];
    for _ in 0..n {
        if names.is_empty() {
            break;
        }
        let name = names.remove(0);
        let def = match rng.below(6) {
            0 | 1 => PDef::UInt,
            2 => PDef::SInt,
            3 | 4 if nstores > 0 => PDef::Array { fixed: *rng.pick(&[0usize, 0, 1, 2, 3, 5, 31]), store: rng.below(nstores as u64) as usize },
            _ => PDef::Content,
        };
        v.push((name, def));
    }
    v
}

pub fn gen_dir(rng: &mut Rng, quick: bool) -> DirSpec {
    let nstores = rng.below(4) as usize;
    let stores: Vec<bool> = (0..nstores).map(|_| rng.chance(1, 2)).collect();
    let mut names: Vec<&'static str> = PNAMES.to_vec();
    let ncommon = rng.below(5) as usize;
    let common = gen_props(rng, ncommon, &mut names, nstores);
    let nvar = match rng.below(4) {
        0 | 1 => 0,
        2 => 2,
        _ => 1 + rng.below(4) as usize,
    };
    let mut variants = vec![];
    for vi in 0..nvar {
        let n = rng.below(4) as usize;
        // property names may be shared between variants in jubako; keep them distinct here
        let props = gen_props(rng, n, &mut names, nstores);
        variants.push((VNAMES[vi], props));
    }
    let nent = match rng.below(6) {
        0 => 0,
        1 => 1,
        2 => 2,
        3 => rng.below(if quick { 300 } else { 3000 }) as usize,
        _ => rng.below(40) as usize,
    };
    // which columns are constant
    let mut constant: HashMap<&'static str, V> = HashMap::new();
    let all_props: Vec<(&'static str, PDef)> = common.iter().cloned().chain(variants.iter().flat_map(|v| v.1.iter().cloned())).collect();
    for (n, d) in &all_props {
        if rng.chance(1, 4) {
            constant.insert(n, gen_value(rng, d));
        }
    }
    let mut entries = vec![];
    for _ in 0..nent {
        let variant = if nvar == 0 { None } else { Some(rng.below(nvar as u64) as usize) };
        let mut values = vec![];
        let mut props = common.clone();
        if let Some(i) = variant {
            props.extend(variants[i].1.iter().cloned());
        }
        for (n, d) in &props {
            let v = match constant.get(n) {
                Some(v) => v.clone(),
                None => gen_value(rng, d),
            };
            values.push((*n, v));
        }
        entries.push(EntrySpec { variant, values });
    }
    let mut indexes = vec![IndexSpec { name: "all".into(), offset: 0, count: nent as u32 }];
    if nent > 0 {
        let off = rng.below(nent as u64) as u32;
        let cnt = rng.below((nent as u32 - off) as u64 + 1) as u32;
        indexes.push(IndexSpec { name: "sub".into(), offset: off, count: cnt });
        indexes.push(IndexSpec { name: "empty".into(), offset: rng.below(nent as u64 + 1) as u32, count: 0 });
    }
    DirSpec { stores, common, variants, sort_keys: None, entries, indexes, label: "random".into() }
}

pub struct DirBuilt {
    pub path: std::path::PathBuf,
    /// Bound::get() of each added entry after finalize
    pub bounds: Vec<u32>,
}

type BE = jbk::creator::BasicEntry<&'static str, &'static str>;

fn to_prop(def: &PDef, name: &'static str, handles: &[jbk::creator::StoreHandle]) -> schema::Property<&'static str> {
    match def {
        PDef::UInt => schema::Property::new_uint(name),
        PDef::SInt => schema::Property::new_sint(name),
        PDef::Array { fixed, store } => schema::Property::new_array(*fixed, handles[*store].clone(), name),
        PDef::Content => schema::Property::new_content_address(name),
    }
}

/// create the directory pack described by `spec` at `dir/dir.jbkd`
pub fn build(dir: &Path, spec: &DirSpec) -> Result<DirBuilt, String> {
    std::fs::create_dir_all(dir).unwrap();
    let mut creator = jbk::creator::DirectoryPackCreator::new(jbk::PackId::from(0), util::VENDOR, Default::default());
    let handles: Vec<jbk::creator::StoreHandle> = spec
        .stores
        .iter()
        .map(|ix| if *ix { jbk::creator::ValueStore::new_indexed() } else { jbk::creator::ValueStore::new_plain(None) })
        .collect();
    for h in &handles {
        creator.add_value_store(h.clone());
    }
    let sch = schema::Schema::new(
        schema::CommonProperties::new(spec.common.iter().map(|(n, d)| to_prop(d, n, &handles)).collect()),
        spec.variants
            .iter()
            .map(|(vn, ps)| (*vn, schema::VariantProperties::new(ps.iter().map(|(n, d)| to_prop(d, n, &handles)).collect())))
            .collect(),
        spec.sort_keys.clone(),
    );
    let mut store: Box<jbk::creator::EntryStore<&'static str, &'static str, BE>> = Box::new(jbk::creator::EntryStore::new(sch, None));
    // vows for references between entries: entry k is created with vows[k] as its index vow, and
    // every reference to entry k is a Word bound to that same vow
    let vows: Vec<jbk::Vow<jbk::EntryIdx>> = (0..spec.entries.len()).map(|_| jbk::Vow::new(jbk::EntryIdx::from(0))).collect();
    let binds: Vec<jbk::Bound<jbk::EntryIdx>> = vows.iter().map(|v| v.bind()).collect();
    let mut bounds = vec![];
    for (e, vow) in spec.entries.iter().zip(vows.into_iter()) {
        let mut values: HashMap<&'static str, jbk::Value> = HashMap::new();
        for (n, v) in &e.values {
            let jv = match v {
                V::U(x) => jbk::Value::Unsigned(*x),
                V::S(x) => jbk::Value::Signed(*x),
                V::A(b) => jbk::Value::Array(b.clone().into()),
                V::C(p, i) => jbk::Value::Content(jbk::ContentAddress::new(jbk::PackId::from(*p), jbk::ContentIdx::from(*i))),
                V::Ref(t) => jbk::Value::UnsignedWord(binds[*t].clone().into()),
            };
            values.insert(n, jv);
        }
        let be = BE::new_from_schema_idx(&store.schema, vow, e.variant.map(|i| spec.variants[i].0), values);
        let b = store.add_entry(be);
        bounds.push(b);
    }
    let sid = creator.add_entry_store(store);
    for ix in &spec.indexes {
        creator.create_index(&ix.name, Default::default(), 0.into(), sid, ix.count.into(), jbk::EntryIdx::from(ix.offset).into());
    }
    let path = dir.join("dir.jbkd");
    let mut file = std::fs::OpenOptions::new().read(true).write(true).create(true).truncate(true).open(&path).map_err(|e| format!("io:{e}"))?;
    let fin = creator.finalize().map_err(|e| format!("io:{e}"))?;
    fin.write(&mut file).map_err(|e| format!("write:{e}"))?;
    Ok(DirBuilt { path, bounds: bounds.iter().map(|b| b.get().into_u32()).collect() })
}

fn jerr(e: jbk::Error) -> String {
    format!("err {}", util::err_kind(&e))
}

fn raw_to_canon(v: &jbk::reader::RawValue) -> Result<String, String> {
    use jbk::reader::RawValue as R;
    Ok(match v {
        R::Content(c) => format!("c{}.{}", c.pack_id.into_u16(), c.content_id.into_u32()),
        R::U8(_) | R::U16(_) | R::U32(_) | R::U64(_) => format!("u{}", v.as_unsigned()),
        R::I8(_) | R::I16(_) | R::I32(_) | R::I64(_) => format!("s{}", v.as_signed()),
        R::Array(_) => format!("a{}", hex(&v.as_vec().map_err(jerr)?)),
    })
}

/// dump through the public reader API in the `dp.decode` format.  Returns (line, per index the
/// entries as (variant, sorted (name, canon value)))
pub fn dump(path: &Path, spec: &DirSpec) -> String {
    match util::guarded(|| dump_inner(path, spec)) {
        Ok(Ok(s)) => s,
        Ok(Err(e)) => e,
        Err(p) => format!("panic {}", p.trim_start_matches("panic@")),
    }
}

fn dump_inner(path: &Path, spec: &DirSpec) -> Result<String, String> {
    let reader: jbk::Reader = jbk::FileSource::open(path).map_err(|e| format!("io:{e}"))?.into();
    let pack = Arc::new(jbk::reader::DirectoryPack::new(reader).map_err(jerr)?);
    use jbk::Pack;
    let chk = match pack.check() {
        Ok(true) => "true",
        _ => "nottrue",
    };
    let vs = pack.create_value_storage();
    let es = pack.create_entry_storage();
    let mut parts = vec![];
    for ix in &spec.indexes {
        let index = pack.get_index_from_name(&ix.name).map_err(jerr)?.ok_or("err noindex")?;
        let head = format!("idx:{}:{}:{}:{}:{}", hex(ix.name.as_bytes()), index.get_store_id().into_u32(), index.count().into_u32(), index.offset().into_u32(), 0);
        let body = (|| -> Result<String, String> {
            let store = index.get_store(&es).map_err(jerr)?;
            let builder = AnyBuilder::new(store, vs.as_ref()).map_err(jerr)?;
            let mut es_out = vec![];
            for k in 0..index.count().into_u32() {
                let one = (|| -> Result<String, String> {
                    let e = match index.get_entry(&builder, jbk::EntryIdx::from(k)).map_err(jerr)? {
                        None => return Ok("none".into()),
                        Some(e) => e,
                    };
                    let vid = e.get_variant_id().map_err(jerr)?;
                    let mut names: Vec<&'static str> = spec.common.iter().map(|p| p.0).collect();
                    if let Some(v) = vid {
                        if let Some(var) = spec.variants.get(v.into_u8() as usize) {
                            names.extend(var.1.iter().map(|p| p.0));
                        }
                    }
                    names.sort();
                    let mut fields = vec![match vid {
                        None => "v-".to_string(),
                        Some(v) => format!("v{}", v.into_u8()),
                    }];
                    for n in names {
                        let rv = e.get_value(n).map_err(jerr)?.ok_or(format!("err missing-prop-{n}"))?;
                        fields.push(format!("{}={}", hex(n.as_bytes()), raw_to_canon(&rv)?));
                    }
                    Ok(format!("ok {}", fields.join(",")))
                })();
                es_out.push(match one {
                    Ok(s) => s,
                    Err(e) => e,
                });
            }
            // nothing beyond the window
            for k in [index.count().into_u32(), index.count().into_u32().saturating_add(1)] {
                if let Ok(Some(_)) = index.get_entry(&builder, jbk::EntryIdx::from(k)) {
                    return Err(format!("err beyond-window-{}", k));
                }
            }
            Ok(es_out.join(";"))
        })();
        parts.push(format!("{}{{{}}}", head, match body {
            Ok(s) => s,
            Err(e) => e,
        }));
    }
    Ok(format!("ok check={} {}", chk, parts.join(" ")))
}

/// what the dump must be if every entry reads back as written, in the given entry order
pub fn expected_dump(spec: &DirSpec, order: &[usize], resolve_ref: &dyn Fn(usize) -> u64) -> String {
    let mut parts = vec![];
    for ix in &spec.indexes {
        let head = format!("idx:{}:{}:{}:{}:{}", hex(ix.name.as_bytes()), 0, ix.count, ix.offset, 0);
        let mut es = vec![];
        for k in 0..ix.count {
            let gi = (ix.offset + k) as usize;
            if gi >= order.len() {
                es.push("none".to_string());
                continue;
            }
            let e = &spec.entries[order[gi]];
            let mut vals: Vec<(&'static str, String)> = e
                .values
                .iter()
                .map(|(n, v)| {
                    (*n, match v {
                        V::Ref(t) => format!("u{}", resolve_ref(*t)),
                        v => v.canon(),
                    })
                })
                .collect();
            vals.sort();
            let mut fields = vec![match e.variant {
                None => "v-".to_string(),
                Some(v) => format!("v{}", v),
            }];
            for (n, v) in vals {
                fields.push(format!("{}={}", hex(n.as_bytes()), v));
            }
            es.push(format!("ok {}", fields.join(",")));
        }
        parts.push(format!("{}{{{}}}", head, es.join(";")));
    }
    format!("ok check=true {}", parts.join(" "))
}

/// the spec file read by the Lean writer model (`dp.encode`): entries in stored order
pub fn write_spec_file(path: &Path, spec: &DirSpec, order: &[usize], resolve_ref: &dyn Fn(usize) -> u64) {
    use std::fmt::Write;
    let ty = |d: &PDef| match d {
        PDef::UInt => "u".to_string(),
        PDef::SInt => "s".to_string(),
        PDef::Content => "c".to_string(),
        PDef::Array { fixed, store } => format!("a{}.{}", fixed, store),
    };
    let mut out = String::new();
    let st: String = spec.stores.iter().map(|i| if *i { 'i' } else { 'p' }).collect();
    writeln!(out, "stores {}", if st.is_empty() { "-".to_string() } else { st }).unwrap();
    write!(out, "common").unwrap();
    for (n, d) in &spec.common {
        write!(out, " {}:{}", hex(n.as_bytes()), ty(d)).unwrap();
    }
    writeln!(out).unwrap();
    for (vn, ps) in &spec.variants {
        write!(out, "variant {}", hex(vn.as_bytes())).unwrap();
        for (n, d) in ps {
            write!(out, " {}:{}", hex(n.as_bytes()), ty(d)).unwrap();
        }
        writeln!(out).unwrap();
    }
    for &k in order {
        let e = &spec.entries[k];
        write!(out, "entry {}", match e.variant {
            None => "-".to_string(),
            Some(v) => format!("{}", v),
        })
        .unwrap();
        for (_, v) in &e.values {
            match v {
                V::Ref(t) => write!(out, " u{}", resolve_ref(*t)).unwrap(),
                v => write!(out, " {}", v.canon()).unwrap(),
            }
        }
        writeln!(out).unwrap();
    }
    for ix in &spec.indexes {
        writeln!(out, "index {} {} {}", hex(ix.name.as_bytes()), ix.count, ix.offset).unwrap();
    }
    std::fs::write(path, out).unwrap();
}
