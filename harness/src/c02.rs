//! C02 — entries read back with exactly the property values they were written with.
use crate::dirgen::{self, DirSpec, EntrySpec, IndexSpec, PDef, V};
use crate::out::{fnv, Ctx};
use crate::rng::Rng;
use crate::util;

/// hand-picked shapes that the random generator reaches rarely
fn special(kind: u64, rng: &mut Rng) -> Option<DirSpec> {
    let mk = |common: Vec<(&'static str, PDef)>, variants: Vec<(&'static str, Vec<(&'static str, PDef)>)>, stores: Vec<bool>, entries: Vec<EntrySpec>, label: &str| {
        let n = entries.len() as u32;
        DirSpec { stores, common, variants, sort_keys: None, entries, indexes: vec![IndexSpec { name: "all".into(), offset: 0, count: n }], label: label.into() }
    };
    match kind {
        // signed columns at every byte-width boundary, both signs
        0 => {
            let mut entries = vec![];
            let k = rng.range(1, 8);
            let half: i128 = 1i128 << (8 * k - 1);
            for v in [half - 1, half, -half, -half - 1, 1, -1] {
                let v = v.clamp(i64::MIN as i128, i64::MAX as i128) as i64;
                entries.push(EntrySpec { variant: None, values: vec![("p0", V::S(v)), ("p1", V::S(1))] });
            }
            // keep only a pair so that the column maximum is the interesting value
            let i = rng.below(4) as usize;
            let entries = vec![entries[i].clone(), entries[4 + rng.below(2) as usize].clone()];
            Some(mk(vec![("p0", PDef::SInt), ("p1", PDef::SInt)], vec![], vec![], entries, "signed-boundary"))
        }
        // variant whose last property is a constant (zero-width) column; all-constant variants
        1 => {
            let c = rng.below(3);
            let variants = vec![("v0", vec![("p1", PDef::UInt), ("p2", PDef::UInt)]), ("v1", vec![("p3", PDef::UInt)])];
            let mut entries = vec![];
            for i in 0..4u64 {
                if i % 2 == 0 {
                    entries.push(EntrySpec { variant: Some(0), values: vec![("p0", V::U(i)), ("p1", V::U(if c == 2 { 9 } else { 1000 + i })), ("p2", V::U(7))] });
                } else {
                    entries.push(EntrySpec { variant: Some(1), values: vec![("p0", V::U(i)), ("p3", V::U(if c >= 1 { 5 } else { i }))] });
                }
            }
            Some(mk(vec![("p0", PDef::UInt)], variants, vec![], entries, "variant-trailing-constant"))
        }
        // a variant without any property next to a non-empty one
        2 => {
            let variants = vec![("v0", vec![]), ("v1", vec![("p1", PDef::UInt)])];
            let entries = vec![
                EntrySpec { variant: Some(0), values: vec![("p0", V::U(1))] },
                EntrySpec { variant: Some(1), values: vec![("p0", V::U(2)), ("p1", V::U(300))] },
                EntrySpec { variant: Some(0), values: vec![("p0", V::U(3))] },
            ];
            Some(mk(vec![("p0", PDef::UInt)], variants, vec![], entries, "empty-variant"))
        }
        // many distinct values in one store: value-store tail beyond 65535 bytes
        3 => {
            let indexed = rng.chance(2, 3);
            let n = if indexed { 23000 } else { 300 };
            let mut entries = vec![];
            for i in 0..n as u64 {
                let mut b = format!("{:05}", i).into_bytes();
                if indexed {
                    b.extend_from_slice(b"xx"); // > 65535 bytes of data => 3-byte offsets => tail > 65535 bytes
                }
                entries.push(EntrySpec { variant: None, values: vec![("p0", V::A(b))] });
            }
            Some(mk(vec![("p0", PDef::Array { fixed: 0, store: 0 })], vec![], vec![indexed], entries, "big-value-store"))
        }
        // arrays at the length-field boundaries
        4 => {
            let len = *rng.pick(&[255usize, 256, 65535, 65536, 70000]);
            let fixed = *rng.pick(&[0usize, 2, 31]);
            let entries = vec![
                EntrySpec { variant: None, values: vec![("p0", V::A(rng.low_entropy(len)))] },
                EntrySpec { variant: None, values: vec![("p0", V::A(vec![]))] },
                EntrySpec { variant: None, values: vec![("p0", V::A(rng.bytes(fixed)))] },
            ];
            Some(mk(vec![("p0", PDef::Array { fixed, store: 0 })], vec![], vec![rng.chance(1, 2)], entries, "array-length-boundary"))
        }
        // store shared by two array properties with different prefixes
        5 => {
            let mut entries = vec![];
            for i in 0..20u64 {
                let a = format!("k{}", i % 7).into_bytes();
                let b = format!("k{}", i % 5).into_bytes();
                entries.push(EntrySpec { variant: None, values: vec![("p0", V::A(a)), ("p1", V::A(b))] });
            }
            Some(mk(vec![("p0", PDef::Array { fixed: 1, store: 0 }), ("p1", PDef::Array { fixed: 0, store: 0 })], vec![], vec![rng.chance(1, 2)], entries, "shared-store"))
        }
        // a value store with far more values than any per-block search window, values met again late:
        // the id an entry gets for a repeated value must be the id of that value, wherever it sits
        6 => {
            let indexed = rng.chance(3, 4);
            let distinct = 1100 + rng.below(900) as usize;
            let mut entries = vec![];
            for i in 0..distinct as u64 {
                entries.push(EntrySpec { variant: None, values: vec![("p0", V::A(format!("value-number-{:06}", i).into_bytes())), ("p1", V::U(i))] });
            }
            for k in 0..300u64 {
                // mostly values first added after the 1024th, a few early ones
                let i = if k % 5 == 0 { rng.below(1024) } else { 1024 + rng.below(distinct as u64 - 1024) };
                entries.push(EntrySpec { variant: None, values: vec![("p0", V::A(format!("value-number-{:06}", i).into_bytes())), ("p1", V::U(100000 + k))] });
            }
            let fixed = *rng.pick(&[0usize, 3, 8]);
            Some(mk(vec![("p0", PDef::Array { fixed, store: 0 }), ("p1", PDef::UInt)], vec![], vec![indexed], entries, "many-values-repeated"))
        }
        _ => None,
    }
}

pub fn run_one(ctx: &mut Ctx, case: u64, spec: &DirSpec) {
    let dir = ctx.work.join(format!("dp-{}", case));
    let built = util::guarded(|| dirgen::build(&dir, spec));
    let built = match built {
        Ok(Ok(b)) => b,
        other => {
            // creation may fail for unrepresentable input; that is allowed ("a value that cannot be
            // represented makes creation fail") — but only for inputs that are unrepresentable
            let why = format!("{:?}", other.err());
            ctx.count("creation_failed");
            let representable = spec.label != "big-value-store";
            if representable {
                ctx.fail(case, "create", &format!("creation of a representable directory pack failed ({}): {}", spec.label, why));
            }
            ctx.case_done(fnv(format!("{:?}", spec.entries.len()).as_bytes()) ^ case, false);
            return;
        }
    };
    let order: Vec<usize> = (0..spec.entries.len()).collect();
    let expected = dirgen::expected_dump(spec, &order, &|t| t as u64);
    let got = dirgen::dump(&built.path, spec);
    if got != expected {
        // locate the first differing entry for the report
        let ge: Vec<&str> = got.split(|c| c == ';' || c == '{' || c == '}').collect();
        let ee: Vec<&str> = expected.split(|c| c == ';' || c == '{' || c == '}').collect();
        let k = ge.iter().zip(ee.iter()).position(|(a, b)| a != b).unwrap_or(0);
        let sig = if got.starts_with("err") || got.contains("{err") { "read-error" } else if got.contains("panic") { "read-panic" } else { "value" };
        ctx.fail(case, &format!("{}-{}", sig, spec.label), &format!("{}: field #{} reads `{}` but `{}` was written ({} entries, {} variants)", spec.label, k, ge.get(k).unwrap_or(&"").chars().take(160).collect::<String>(), ee.get(k).unwrap_or(&"").chars().take(160).collect::<String>(), spec.entries.len(), spec.variants.len()));
    }
    let size = std::fs::metadata(&built.path).map(|m| m.len()).unwrap_or(0);
    ctx.emit(case, &format!("dp.decode {} 0 {}", built.path.display(), size), &got);
    let specfile = dir.join("spec.txt");
    dirgen::write_spec_file(&specfile, spec, &order, &|t| t as u64);
    ctx.emit(case, &format!("dp.encode {} 0 {} {}", built.path.display(), size, specfile.display()), "same");
    ctx.count(&format!("label:{}", spec.label));
    ctx.add("entries", spec.entries.len() as u64);
    ctx.count(&format!("variants:{}", spec.variants.len()));
    ctx.count(&format!("stores:{}", spec.stores.len()));
    for (_, d) in spec.common.iter().chain(spec.variants.iter().flat_map(|v| v.1.iter())) {
        ctx.count(&format!("prop:{}", match d {
            PDef::UInt => "uint".to_string(),
            PDef::SInt => "sint".to_string(),
            PDef::Content => "content".to_string(),
            PDef::Array { fixed, store } => format!("array-prefix{}-{}", fixed, if spec.stores[*store] { "indexed" } else { "plain" }),
        }));
    }
    ctx.sample(format!("{}: common={:?} variants={:?} stores={:?} entries={} first={:?}", spec.label, spec.common, spec.variants, spec.stores, spec.entries.len(), spec.entries.first().map(|e| &e.values)));
    ctx.case_done(fnv(format!("{:?}", spec).as_bytes()), !spec.entries.is_empty());
}

pub fn run(ctx: &mut Ctx) {
    let mut rng = Rng::new(ctx.seed ^ 0xC02);
    let n = if ctx.quick() { 150 } else { 2500 };
    for case in 0..n as u64 {
        let mut crng = rng.fork(case);
        if !ctx.wants(case) {
            continue;
        }
        let spec = if case < 28 {
            special(case % 7, &mut crng)
        } else if case % 40 == 0 {
            special(crng.below(7), &mut crng)
        } else {
            None
        };
        let spec = spec.unwrap_or_else(|| dirgen::gen_dir(&mut crng, ctx.quick()));
        run_one(ctx, case, &spec);
    }
}
