//! jbkverif — correspondence harness: drives the real jubako library (path dependency on /repo,
//! rebuilt from the working tree) and writes the op/answer streams the Lean model driver replays.
mod c01;
mod c02;
mod c03;
mod dirgen;
mod c04;
mod c06;
#[cfg(not(feature = "nohooks"))]
mod c07;
mod dmg;
mod c08;
mod c09;
mod cpdec;
mod c10;
mod c11;
mod c12;
mod c13;
mod c14;
mod c15;
mod container;
mod out;
mod rng;
mod util;

use out::{Ctx, Tier};
use std::path::PathBuf;

fn main() {
    let args: Vec<String> = std::env::args().collect();
    if args.len() < 2 {
        eprintln!("usage: jbkverif <property> --seed N --tier quick|thorough --out DIR [--case K]");
        std::process::exit(2);
    }
    let prop = args[1].clone();
    if prop == "gencorpus" {
        std::process::exit(c14::gencorpus(std::path::Path::new(&args[2])));
    }
    if prop == "c09child" {
        std::process::exit(c09::child(&args[2..]));
    }
    if prop == "c09verify" {
        std::process::exit(c09::verify(&args[2..]));
    }
    if prop == "dmgworker" {
        std::panic::set_hook(Box::new(|info| {
            util::record_panic(info);
        }));
        dmg::worker_main();
        return;
    }
    let mut seed = 1u64;
    let mut tier = Tier::Quick;
    let mut out = PathBuf::from("work/out");
    let mut only_case = None;
    let mut extra: Vec<String> = vec![];
    let mut i = 2;
    while i < args.len() {
        match args[i].as_str() {
            "--seed" => {
                seed = args[i + 1].parse().unwrap();
                i += 2;
            }
            "--tier" => {
                tier = if args[i + 1] == "thorough" { Tier::Thorough } else { Tier::Quick };
                i += 2;
            }
            "--out" => {
                out = PathBuf::from(&args[i + 1]);
                i += 2;
            }
            "--case" => {
                only_case = Some(args[i + 1].parse().unwrap());
                i += 2;
            }
            _ => {
                extra.push(args[i].clone());
                i += 1;
            }
        }
    }
    // quiet panics: cases run under catch_unwind and report the panic site themselves
    std::panic::set_hook(Box::new(|info| {
        util::record_panic(info);
    }));
    let mut ctx = Ctx::new(seed, tier, &out, only_case);
    let res = std::panic::catch_unwind(std::panic::AssertUnwindSafe(|| {
    match prop.as_str() {
        "c13" => c13::run(&mut ctx),
        "c01" => c01::run(&mut ctx),
        "c02" => c02::run(&mut ctx),
        "c03" => c03::run(&mut ctx),
        "c04" => c04::run(&mut ctx),
        "c06" => c06::run(&mut ctx),
        #[cfg(not(feature = "nohooks"))]
        "c07" => c07::run(&mut ctx),
        "c14" => c14::run(&mut ctx),
        "c15" => c15::run(&mut ctx),
        "c08" => c08::run(&mut ctx),
        "c10" => c10::run(&mut ctx),
        "c11" => c11::run(&mut ctx),
        "c12" => c12::run(&mut ctx),
        _ => {
            eprintln!("unknown property {prop}");
            std::process::exit(2);
        }
    }
    }));
    if res.is_err() {
        eprintln!("harness bug: uncaught {}", util::take_panic());
        std::process::exit(3);
    }
    ctx.finish();
}
