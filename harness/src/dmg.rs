//! Damaged-file runner shared by C05 and C06.
//!
//! A *worker* process (`jbkverif dmgworker`) reads one request per line on stdin — the path of an
//! entry file — runs the full reader script on it (open, list every entry and value, stream every
//! content, check) under `catch_unwind`, and answers one line.  The *supervisor* (this process)
//! feeds it, enforces a wall-clock bound per request and attributes a death (abort in a worker
//! pool, signal) or a timeout to the request in flight, then restarts the worker.
use crate::container;
use crate::util;
use jubako as jbk;
use std::io::{BufRead, BufReader, Write};
use std::process::{Child, ChildStdin, Command, Stdio};
use std::sync::mpsc;
use std::time::Duration;

/// the reader script: result is `ok <check> <dump lines joined by ;>` or `err:<kind>` or `panic@site`
pub fn read_script(path: &std::path::Path) -> String {
    let r = util::guarded(|| -> Result<String, String> {
        let c = jbk::reader::Container::new(path).map_err(|e| format!("err:{}", util::err_kind(&e)))?;
        let lines = match container::dump_container(&c) {
            Ok(l) => l,
            // the generic reader reports an error: a schema-specific reader (typed property builders)
            // must not get *values* out of the same container instead — if it does, its values are
            // what this script returns and they are judged like any other returned value
            Err(e) => match container::dump_container_typed(&c) {
                Ok(l) => l,
                Err(_) => {
                    // an error is an answer; asking again — the same content, the other contents — must
                    // still terminate (a reader may retry): only termination is observed here
                    second_pass(&c);
                    return Err(if e.starts_with("io:") { "err:io".to_string() } else { format!("err:{}", e) });
                }
            },
        };
        let chk = match c.check() {
            Ok(true) => "true".to_string(),
            Ok(false) => "false".to_string(),
            Err(e) => format!("err:{}", util::err_kind(&e)),
        };
        second_pass(&c);
        Ok(format!("ok check={} {}", chk, lines.join(";")))
    });
    match r {
        Ok(Ok(s)) => s,
        Ok(Err(e)) => e,
        Err(p) => p,
    }
}

/// read every content of every entry once more, whatever the first pass answered; results are ignored
/// (errors are fine), only panics and termination matter — a hang is seen by the supervisor's bound
fn second_pass(c: &jbk::reader::Container) {
    use jbk::reader::{EntryTrait, Range};
    let index = match c.get_index_for_name("main") {
        Ok(Some(i)) => i,
        _ => return,
    };
    let store = match index.get_store(c.get_entry_storage()) {
        Ok(s) => s,
        Err(_) => return,
    };
    let builder = match jbk::reader::builder::AnyBuilder::new(store, c.get_value_storage().as_ref()) {
        Ok(b) => b,
        Err(_) => return,
    };
    let n = std::cmp::min(index.count().into_u32(), 4096);
    for round in 0..2 {
        for k in 0..n {
            // second round backwards: the last contents of a cluster after its first ones failed
            let i = if round == 0 { k } else { n - 1 - k };
            let addr = match index.get_entry(&builder, jbk::EntryIdx::from(i)) {
                Ok(Some(e)) => match e.get_value("content") {
                    Ok(Some(v)) => v.as_content(),
                    _ => continue,
                },
                _ => continue,
            };
            if let Ok(Some(jbk::reader::MayMissPack::FOUND(Some(region)))) = c.get_bytes(addr) {
                let mut v = vec![];
                use std::io::Read;
                let _ = region.stream().read_to_end(&mut v);
            }
        }
    }
}

pub fn worker_main() {
    let stdin = std::io::stdin();
    let mut out = std::io::stdout();
    for line in stdin.lock().lines() {
        let line = match line {
            Ok(l) => l,
            Err(_) => break,
        };
        let path = line.trim();
        if path.is_empty() {
            continue;
        }
        let res = read_script(std::path::Path::new(path));
        let _ = writeln!(out, "{}", res.replace('\n', " "));
        let _ = out.flush();
    }
}

pub struct Supervisor {
    child: Option<Child>,
    stdin: Option<ChildStdin>,
    rx: Option<mpsc::Receiver<String>>,
    pub timeout: Duration,
    pub restarts: u64,
}

impl Supervisor {
    pub fn new(timeout: Duration) -> Self {
        Supervisor { child: None, stdin: None, rx: None, timeout, restarts: 0 }
    }

    fn start(&mut self) {
        let exe = std::env::current_exe().unwrap();
        let mut child = Command::new(exe).arg("dmgworker").stdin(Stdio::piped()).stdout(Stdio::piped()).stderr(Stdio::null()).spawn().expect("spawn worker");
        let stdin = child.stdin.take().unwrap();
        let stdout = child.stdout.take().unwrap();
        let (tx, rx) = mpsc::channel();
        std::thread::spawn(move || {
            let rd = BufReader::new(stdout);
            for l in rd.lines() {
                match l {
                    Ok(l) => {
                        if tx.send(l).is_err() {
                            break;
                        }
                    }
                    Err(_) => break,
                }
            }
        });
        self.child = Some(child);
        self.stdin = Some(stdin);
        self.rx = Some(rx);
    }

    fn kill(&mut self) -> String {
        let mut status = String::new();
        if let Some(mut c) = self.child.take() {
            let _ = c.kill();
            if let Ok(st) = c.wait() {
                use std::os::unix::process::ExitStatusExt;
                status = match (st.code(), st.signal()) {
                    (_, Some(s)) => format!("signal{}", s),
                    (Some(c), _) => format!("exit{}", c),
                    _ => "dead".into(),
                };
            }
        }
        self.stdin = None;
        self.rx = None;
        status
    }

    /// outcome of the reader script on `path`: the worker's answer, or `abort:<status>` / `timeout`
    pub fn run(&mut self, path: &std::path::Path) -> String {
        if self.child.is_none() {
            self.start();
        }
        let ok = writeln!(self.stdin.as_mut().unwrap(), "{}", path.display()).and_then(|_| self.stdin.as_mut().unwrap().flush());
        if ok.is_err() {
            let st = self.kill();
            self.restarts += 1;
            return format!("abort:{}", st);
        }
        match self.rx.as_ref().unwrap().recv_timeout(self.timeout) {
            Ok(l) => l,
            Err(mpsc::RecvTimeoutError::Timeout) => {
                self.kill();
                self.restarts += 1;
                "timeout".into()
            }
            Err(mpsc::RecvTimeoutError::Disconnected) => {
                // the worker died while handling this request
                let st = match self.child.take() {
                    Some(mut c) => {
                        use std::os::unix::process::ExitStatusExt;
                        match c.wait() {
                            Ok(st) => match (st.code(), st.signal()) {
                                (_, Some(s)) => format!("signal{}", s),
                                (Some(c), _) => format!("exit{}", c),
                                _ => "dead".into(),
                            },
                            Err(_) => "dead".into(),
                        }
                    }
                    None => "dead".into(),
                };
                self.stdin = None;
                self.rx = None;
                self.restarts += 1;
                format!("abort:{}", st)
            }
        }
    }
}

impl Drop for Supervisor {
    fn drop(&mut self) {
        self.kill();
    }
}

/// outcome classes
pub fn class_of(res: &str) -> &'static str {
    if res.starts_with("ok ") {
        "value"
    } else if res.starts_with("err:") {
        "error"
    } else if res.starts_with("panic") {
        "panic"
    } else if res.starts_with("abort") {
        "abort"
    } else if res.starts_with("timeout") {
        "timeout"
    } else {
        "other"
    }
}

/// the structural part of a dump (everything but the content data hashes) and the content part
pub fn split_dump(res: &str) -> (String, Vec<String>, String) {
    // "ok check=<c> count N;e0 name=.. num=.. addr=.. data=..;..."
    let rest = res.strip_prefix("ok ").unwrap_or(res);
    let (chk, lines) = match rest.split_once(' ') {
        Some((c, l)) => (c.to_string(), l),
        None => (rest.to_string(), ""),
    };
    let mut structure = vec![];
    let mut data = vec![];
    for l in lines.split(';') {
        match l.rfind(" data=") {
            Some(k) => {
                // content size is structure; content bytes (hash) are not
                let d = &l[k + 6..];
                let (size, hash) = d.split_once(':').unwrap_or((d, ""));
                structure.push(format!("{} size={}", &l[..k], if d.starts_with("missing") { d } else { size }));
                data.push(hash.to_string());
            }
            None => structure.push(l.to_string()),
        }
    }
    (structure.join(";"), data, chk)
}
