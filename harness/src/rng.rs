//! splitmix64 — every random choice of the harness derives from one state.
#[derive(Clone)]
pub struct Rng(pub u64, u64);

impl Rng {
    pub fn new(seed: u64) -> Self {
        let s = seed.wrapping_mul(0x9E3779B97F4A7C15) ^ 0xD1B54A32D192ED03;
        Rng(s, s)
    }
    /// The generator of case `salt`: a function of this generator's *origin* and of the salt only —
    /// not of how many numbers or forks were drawn before — so that a case replayed alone
    /// (`--case N`) sees exactly the input it saw in the full run.
    pub fn fork(&mut self, salt: u64) -> Rng {
        let mut z = self.1 ^ salt.wrapping_add(1).wrapping_mul(0xBF58476D1CE4E5B9);
        z = (z ^ (z >> 30)).wrapping_mul(0xBF58476D1CE4E5B9);
        z = (z ^ (z >> 27)).wrapping_mul(0x94D049BB133111EB);
        Rng::new(z ^ (z >> 31))
    }
    pub fn next(&mut self) -> u64 {
        self.0 = self.0.wrapping_add(0x9E3779B97F4A7C15);
        let mut z = self.0;
        z = (z ^ (z >> 30)).wrapping_mul(0xBF58476D1CE4E5B9);
        z = (z ^ (z >> 27)).wrapping_mul(0x94D049BB133111EB);
        z ^ (z >> 31)
    }
    /// uniform in [0, n)
    pub fn below(&mut self, n: u64) -> u64 {
        if n == 0 {
            0
        } else {
            self.next() % n
        }
    }
    pub fn range(&mut self, lo: u64, hi_incl: u64) -> u64 {
        lo + self.below(hi_incl - lo + 1)
    }
    pub fn chance(&mut self, num: u64, den: u64) -> bool {
        self.below(den) < num
    }
    pub fn pick<'a, T>(&mut self, xs: &'a [T]) -> &'a T {
        &xs[self.below(xs.len() as u64) as usize]
    }
    pub fn bytes(&mut self, n: usize) -> Vec<u8> {
        let mut v = Vec::with_capacity(n);
        while v.len() < n {
            let x = self.next().to_le_bytes();
            let k = std::cmp::min(8, n - v.len());
            v.extend_from_slice(&x[..k]);
        }
        v
    }
    /// low-entropy bytes (compressible): a few symbols, runs
    pub fn low_entropy(&mut self, n: usize) -> Vec<u8> {
        let syms = [b'a', b'b', b' ', 0u8, 0xFFu8, b'z'];
        let mut v = Vec::with_capacity(n);
        while v.len() < n {
            let s = *self.pick(&syms);
            let run = 1 + self.below(9) as usize;
            for _ in 0..run {
                if v.len() < n {
                    v.push(s);
                }
            }
        }
        v
    }
    /// boundary-biased size: 0, 1, 2^8k-1, 2^8k, 2^8k+1 (k=1..), small, medium
    pub fn size_biased(&mut self, max: usize) -> usize {
        let c = self.below(10);
        let s = match c {
            0 => 0,
            1 => 1,
            2 => *self.pick(&[254usize, 255, 256, 257]),
            3 => *self.pick(&[65534usize, 65535, 65536, 65537]),
            4 | 5 | 6 => self.below(40) as usize,
            7 | 8 => self.below(2000) as usize,
            _ => self.below(max as u64 + 1) as usize,
        };
        std::cmp::min(s, max)
    }
}
