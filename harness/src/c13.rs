//! C13 — all views of a stored content agree.
//!
//! For contents that do NOT start at offset 0 of their source, in the four reachable source kinds
//! (memory: pack opened from a Vec; file: FileSource, reads through a 1 KiB BufReader = short reads;
//! decoder: background-decoded compressed cluster; file-in-container), run scripts of nested cuts,
//! get_slice, stream(), From<ByteRegion> for ByteStream, From<ByteSlice> for ByteRegion and reads
//! with arbitrary buffer sizes.  Oracle: every result equals the corresponding sub-range of the
//! inserted bytes and size/offset/size_left are consistent.  Model: the same script on the Lean
//! View/Stream model over the same source bytes must give the same answers.
use crate::out::{fnv, hex, Ctx};
use crate::rng::Rng;
use crate::util::{self, Comp, Hint};
use jubako as jbk;
use jbk::reader::{ByteRegion, ByteSlice, ByteStream};
use std::io::Read;

enum Cur<'a> {
    Region(ByteRegion),
    Slice(ByteSlice<'a>),
}

struct Script {
    ops: Vec<String>,
    outs: Vec<String>,
}

/// run a random script on `region` whose expected bytes are `data`; returns (ops, impl outs) and
/// reports oracle failures
fn run_script(
    ctx: &mut Ctx,
    case: u64,
    rng: &mut Rng,
    region: &ByteRegion,
    data: &[u8],
    exhaustive_cuts: bool,
    touch: &dyn Fn(u64),
) -> Script {
    let mut sc = Script { ops: vec![], outs: vec![] };
    // expected window inside data
    let mut lo = 0usize;
    let mut hi = data.len();
    let mut fails: Vec<(String, String)> = vec![];
    {
        let mut check = |what: &str, ok: bool, detail: String| {
            if !ok {
                fails.push((what.to_string(), detail));
            }
        };
        // size
        sc.ops.push("size".into());
        let sz = region.size().into_u64();
        sc.outs.push(format!("{}", sz));
        check("size", sz as usize == data.len(), format!("size {} expected {}", sz, data.len()));

        // nested cuts (depth 0..3), each followed by observations
        let depth = if exhaustive_cuts { 0 } else { rng.below(4) };
        let mut cur = Cur::Region(region.clone());
        for _ in 0..depth {
            let len = hi - lo;
            let off = rng.below(len as u64 + 1) as usize;
            let size = rng.below((len - off) as u64 + 1) as usize;
            let next = match &cur {
                Cur::Region(r) => r.cut(jbk::Offset::from(off as u64), jbk::Size::from(size as u64)),
                Cur::Slice(s) => s.cut(jbk::Offset::from(off as u64), jbk::Size::from(size as u64)),
            };
            sc.ops.push(format!("cut:{}:{}", off, size));
            sc.outs.push("ok".into());
            lo += off;
            hi = lo + size;
            // alternate between keeping a slice and converting to an owning region
            if rng.chance(1, 2) {
                let r: ByteRegion = next.into();
                cur = Cur::Region(r);
                ctx_count(&mut sc, "conv");
            } else {
                // ByteSlice borrows the Arc of its parent; convert through ByteRegion to keep
                // lifetimes simple (exercises From<ByteSlice> for ByteRegion and as_slice)
                let r: ByteRegion = next.into();
                cur = Cur::Region(r);
            }
            let (s2, _) = match &cur {
                Cur::Region(r) => (r.size().into_u64(), 0),
                Cur::Slice(s) => (s.size().into_u64(), 0),
            };
            sc.ops.push("size".into());
            sc.outs.push(format!("{}", s2));
            check("cut-size", s2 as usize == size, format!("cut size {} expected {}", s2, size));
        }
        let region_now: ByteRegion = match cur {
            Cur::Region(r) => r,
            Cur::Slice(s) => s.into(),
        };
        let exp = &data[lo..hi];

        // whole bytes through get_slice(0, size) on region and on as_slice()
        {
            sc.ops.push("bytes".into());
            match region_now.get_slice(jbk::Offset::zero(), exp.len()) {
                Ok(b) => {
                    check("bytes", &b[..] == exp, format!("get_slice(0,{}) differs", exp.len()));
                    sc.outs.push(hex(&b));
                }
                Err(e) => {
                    check("bytes", false, format!("get_slice error {:?}", e));
                    sc.outs.push(format!("err:{}", util::err_kind(&e)));
                }
            }
            let sl = region_now.as_slice();
            sc.ops.push("bytes".into());
            match sl.get_slice(jbk::Offset::zero(), exp.len()) {
                Ok(b) => {
                    check("slice-bytes", &b[..] == exp, "as_slice().get_slice differs".into());
                    sc.outs.push(hex(&b));
                }
                Err(e) => {
                    check("slice-bytes", false, format!("error {:?}", e));
                    sc.outs.push(format!("err:{}", util::err_kind(&e)));
                }
            }
        }
        // sub-slices
        let nsl = if exhaustive_cuts { 0 } else { 1 + rng.below(3) };
        let mut subs: Vec<(usize, usize)> = vec![];
        for _ in 0..nsl {
            let len = exp.len();
            let off = rng.below(len as u64 + 1) as usize;
            let size = rng.below((len - off) as u64 + 1) as usize;
            subs.push((off, size));
        }
        // the edges of the window, always: empty ranges at its begin and at its end (the end of the last
        // content of a cluster is the end of the source), its first and its last byte
        subs.push((0, 0));
        subs.push((exp.len(), 0));
        if !exp.is_empty() {
            subs.push((0, 1));
            subs.push((exp.len() - 1, 1));
        }
        if exhaustive_cuts {
            for off in 0..=exp.len() {
                for size in 0..=(exp.len() - off) {
                    subs.push((off, size));
                }
            }
        }
        for (off, size) in subs {
            sc.ops.push(format!("slice:{}:{}", off, size));
            match region_now.get_slice(jbk::Offset::from(off as u64), size) {
                Ok(b) => {
                    check("slice", &b[..] == &exp[off..off + size], format!("get_slice({},{}) differs", off, size));
                    sc.outs.push(hex(&b));
                }
                Err(e) => {
                    check("slice", false, format!("get_slice({},{}) error {:?}", off, size, e));
                    sc.outs.push(format!("err:{}", util::err_kind(&e)));
                }
            }
            if exhaustive_cuts {
                // the same sub-range through cut(): bytes via a second-level get_slice
                let c = region_now.cut(jbk::Offset::from(off as u64), jbk::Size::from(size as u64));
                let ok = c.size().into_u64() as usize == size
                    && c.get_slice(jbk::Offset::zero(), size).map(|b| &b[..] == &exp[off..off + size]).unwrap_or(false);
                check("cut-bytes", ok, format!("cut({},{}) bytes differ", off, size));
            }
        }

        // streams: through .stream(), through as_slice().stream(), through From<ByteRegion>
        let kinds: &[&str] = &["stream", "stream", "fromregion"];
        for (ki, kind) in kinds.iter().enumerate() {
            let mut st: ByteStream = match ki {
                0 => region_now.stream(),
                1 => region_now.as_slice().stream(),
                _ => ByteStream::from(region_now.clone()),
            };
            sc.ops.push((*kind).into());
            sc.outs.push("ok".into());
            let mut got_all: Vec<u8> = vec![];
            let mut guard = 0;
            loop {
                guard += 1;
                let n = match rng.below(6) {
                    0 => 1,
                    1 => 2,
                    2 => 1 + rng.below(16) as usize,
                    3 => 1 + rng.below(1500) as usize,
                    4 => exp.len() + 1,
                    _ => 1 + rng.below(exp.len() as u64 + 5) as usize,
                };
                let mut buf = vec![0u8; n];
                let k = match st.read(&mut buf) {
                    Ok(k) => k,
                    Err(e) => {
                        check("read", false, format!("read error {e}"));
                        sc.ops.push(format!("read:{}:0", n));
                        sc.outs.push("err".into());
                        break;
                    }
                };
                got_all.extend_from_slice(&buf[..k]);
                sc.ops.push(format!("read:{}:{}", n, k));
                sc.outs.push(format!("{},{},{},{}", hex(&buf[..k]), st.offset(), st.size_left(), st.size()));
                let okpos = st.size() as usize == exp.len()
                    && st.offset() as usize == got_all.len()
                    && st.offset() + st.size_left() == st.size();
                check(
                    &format!("{}-pos", kind),
                    okpos,
                    format!("after reading {} bytes: offset {} size_left {} size {} (expected size {})", got_all.len(), st.offset(), st.size_left(), st.size(), exp.len()),
                );
                if k == 0 || guard > 10_000 || got_all.len() > exp.len() + 16 {
                    break;
                }
                // other accesses to the same source between two reads of the stream: a slice of the
                // current view (replayed by the model), a slice of the enclosing region and a read on
                // an independent stream (oracle only) — a view must not depend on a cursor shared
                // with other views
                let action = if exhaustive_cuts { 9 } else { rng.below(8) };
                if action == 0 || action == 3 {
                    let len = exp.len();
                    let off = rng.below(len as u64 + 1) as usize;
                    let size = std::cmp::min(rng.below((len - off) as u64 + 1) as usize, 300);
                    sc.ops.push(format!("slice:{}:{}", off, size));
                    match region_now.get_slice(jbk::Offset::from(off as u64), size) {
                        Ok(b) => {
                            check("interleaved-slice", &b[..] == &exp[off..off + size], format!("get_slice({},{}) between two stream reads differs", off, size));
                            sc.outs.push(hex(&b));
                        }
                        Err(e) => {
                            check("interleaved-slice", false, format!("get_slice({},{}) error {:?}", off, size, e));
                            sc.outs.push(format!("err:{}", util::err_kind(&e)));
                        }
                    }
                }
                if action == 1 || action == 3 {
                    let off = rng.below(data.len() as u64 + 1) as usize;
                    let size = std::cmp::min(rng.below((data.len() - off) as u64 + 1) as usize, 64);
                    let ok = region.get_slice(jbk::Offset::from(off as u64), size).map(|b| &b[..] == &data[off..off + size]).unwrap_or(false);
                    check("interleaved-outer-slice", ok, format!("get_slice({},{}) on the enclosing region between two stream reads differs", off, size));
                }
                // the first access to another cluster of the same pack file (its tail is loaded through
                // the same source) between two reads of this stream
                if action == 4 || action == 5 || guard == 1 {
                    touch(guard as u64);
                }
                if action == 2 {
                    let mut other = region.stream();
                    let mut ob = vec![0u8; std::cmp::min(data.len(), 1 + rng.below(40) as usize)];
                    let ok = other.read_exact(&mut ob).is_ok() && ob[..] == data[..ob.len()];
                    check("interleaved-other-stream", ok, "an independent stream read between two reads returns other bytes".into());
                }
            }
            check(
                &format!("{}-bytes", kind),
                got_all == exp,
                format!("streamed {} bytes, expected {} (first diff at {:?})", got_all.len(), exp.len(), got_all.iter().zip(exp.iter()).position(|(a, b)| a != b)),
            );
        }
    }
    for (sig, d) in fails {
        ctx.fail(case, &sig, &d);
    }
    sc
}

fn ctx_count(_sc: &mut Script, _k: &str) {}

struct PackCase {
    /// raw and compressed clusters in one pack: contents alternate between hint No and hint Yes
    mixed: bool,
    name: &'static str,
    comp: Comp,
    hint: Hint,
    /// how the pack is opened
    open: &'static str,
}

pub fn run(ctx: &mut Ctx) {
    let mut rng = Rng::new(ctx.seed ^ 0xC13);
    let packs = [
        PackCase { mixed: false, name: "raw-mem", comp: Comp::None, hint: Hint::No, open: "mem" },
        PackCase { mixed: false, name: "raw-file", comp: Comp::None, hint: Hint::No, open: "file" },
        PackCase { mixed: false, name: "zstd-file", comp: Comp::Zstd(3), hint: Hint::Yes, open: "file" },
        PackCase { mixed: false, name: "lz4-mem", comp: Comp::Lz4(3), hint: Hint::Yes, open: "mem" },
        PackCase { mixed: false, name: "lzma-file", comp: Comp::Lzma(1), hint: Hint::Yes, open: "file" },
        PackCase { mixed: true, name: "mixed-zstd-file", comp: Comp::Zstd(3), hint: Hint::Yes, open: "file" },
        PackCase { mixed: true, name: "mixed-lz4-file", comp: Comp::Lz4(3), hint: Hint::Yes, open: "file" },
    ];
    let rounds = if ctx.quick() { 3 } else { 30 };
    let mut case: u64 = 0;
    for round in 0..rounds {
        for pc in packs.iter() {
            // contents: a leading blob so that nothing interesting sits at offset 0
            let n = 3 + rng.below(6) as usize;
            let mut items: Vec<(Vec<u8>, Hint)> = vec![];
            for i in 0..n {
                let len = if i == 0 {
                    1 + rng.below(300) as usize
                } else if round == 0 && i == 1 {
                    // small content for the exhaustive sub-range enumeration
                    1 + rng.below(10) as usize
                } else if round == 1 && i == 2 {
                    // a content larger than any 16-bit window: slices, cuts and reads beyond 65535 bytes
                    66000 + rng.below(140000) as usize
                } else {
                    match rng.below(5) {
                        0 => rng.below(12) as usize,
                        1 => 4000 + rng.below(3000) as usize,
                        2 => 1000 + rng.below(200) as usize,
                        _ => rng.below(400) as usize,
                    }
                };
                // every third pack ends with an empty content (an empty range at the very end of the source)
                let len = if i == n - 1 && round % 3 == 1 { 0 } else { len };
                let data = if rng.chance(1, 2) { rng.bytes(len) } else { rng.low_entropy(len) };
                if pc.mixed {
                    // even positions raw (the first one random and long enough to be located in the file)
                    let data = if i == 0 { rng.bytes(48 + len) } else { data };
                    items.push((data, if i % 2 == 0 { Hint::No } else { Hint::Yes }));
                    continue;
                }
                items.push((data, pc.hint));
            }
            let path = ctx.work.join(format!("c13-{}-{}.jbkc", pc.name, round));
            let built = util::guarded(|| util::build_content_pack(&path, pc.comp, &items));
            let ids = match built {
                Ok(Ok(ids)) => ids,
                other => {
                    ctx.fail(case, "create", &format!("content pack creation failed: {:?}", other.err()));
                    case += 1;
                    continue;
                }
            };
            let file_bytes = std::fs::read(&path).unwrap();
            // the logical source the views sit on, and where each content starts in it
            let (src_bytes, base): (Vec<u8>, usize) = if pc.comp == Comp::None {
                (file_bytes.clone(), 128)
            } else if pc.mixed {
                // raw contents sit in the file where the raw cluster was written: locate it by its first content
                let needle = &items[0].0[..];
                match file_bytes.windows(needle.len()).position(|w| w == needle) {
                    Some(p) => (file_bytes.clone(), p),
                    None => {
                        ctx.fail(case, "framing", "the raw cluster of a mixed pack was not found in the file");
                        case += 1;
                        continue;
                    }
                }
            } else {
                (items.iter().flat_map(|(d, _)| d.iter().copied()).collect(), 0)
            };
            // (mixed packs) the logical source of the compressed contents
            let comp_src: Vec<u8> = items.iter().filter(|(_, h)| *h == Hint::Yes).flat_map(|(d, _)| d.iter().copied()).collect();
            let reader: jbk::Reader = if pc.open == "mem" {
                file_bytes.clone().into()
            } else {
                jbk::FileSource::open(&path).unwrap().into()
            };
            let pack = match util::guarded(|| jbk::reader::ContentPack::new(reader)) {
                Ok(Ok(p)) => p,
                other => {
                    ctx.fail(case, "open", &format!("content pack does not open: {:?}", other.err().map(|e| format!("{:?}", e))));
                    case += 1;
                    continue;
                }
            };
            let mut off = 0usize;
            let mut off_comp = 0usize;
            for (i, (data, h)) in items.iter().enumerate() {
                let my_case = case;
                case += 1;
                let is_comp_item = pc.mixed && *h == Hint::Yes;
                let begin = if is_comp_item { off_comp } else { base + off };
                if is_comp_item {
                    off_comp += data.len();
                } else {
                    off += data.len();
                }
                if i == 0 || !ctx.wants(my_case) {
                    continue;
                }
                // mixed packs are re-opened for every content, so that the other cluster is not loaded yet
                let reopened = if pc.mixed { util::guarded(|| jbk::reader::ContentPack::new(jbk::FileSource::open(&path).unwrap().into())).ok().and_then(|r| r.ok()) } else { None };
                let pack = reopened.as_ref().unwrap_or(&pack);
                // a content of the other cluster (raw <-> compressed)
                let other_id: Option<u32> = if pc.mixed { items.iter().enumerate().find(|(j, (_, h2))| *j > 0 && h2 != h).map(|(j, _)| ids[j]) } else { None };
                let touched = std::cell::Cell::new(false);
                let touch = |_k: u64| {
                    if let Some(oid) = other_id {
                        if !touched.get() {
                            touched.set(true);
                            let _ = util::guarded(|| pack.get_content(jbk::ContentIdx::from(oid)).map(|r| r.map(|r| r.size())));
                        }
                    }
                };
                let mut crng = rng.fork(my_case);
                let exhaustive = round == 0 && i == 1;
                let res = util::guarded(|| {
                    let region = pack
                        .get_content(jbk::ContentIdx::from(ids[i]))
                        .map_err(|e| format!("{:?}", e))?
                        .ok_or_else(|| "none".to_string())?;
                    Ok::<_, String>(region)
                });
                let region = match res {
                    Ok(Ok(r)) => r,
                    other => {
                        ctx.fail(my_case, "get_content", &format!("{:?}", other.err()));
                        continue;
                    }
                };
                let sc = match util::guarded(|| run_script(ctx, my_case, &mut crng, &region, data, exhaustive, &touch)) {
                    Ok(sc) => sc,
                    Err(p) => {
                        ctx.fail(my_case, "panic", &format!("view script panicked: {}", p));
                        continue;
                    }
                };
                let op = format!("c13 {} {} {} {}", hex(if is_comp_item { &comp_src } else { &src_bytes }), begin, begin + data.len(), sc.ops.join(";"));
                let out = sc.outs.join(";");
                ctx.count(&format!("source:{}", pc.name));
                ctx.add("script_ops", sc.ops.len() as u64);
                ctx.add("reads", sc.ops.iter().filter(|o| o.starts_with("read")).count() as u64);
                ctx.add("short_reads", sc.ops.iter().filter(|o| {
                    let p: Vec<&str> = o.split(':').collect();
                    p.len() == 3 && p[0] == "read" && p[2] != "0" && p[1] != p[2] && p[2].parse::<usize>().unwrap_or(0) < p[1].parse::<usize>().unwrap_or(0)
                }).count() as u64);
                ctx.add("cuts", sc.ops.iter().filter(|o| o.starts_with("cut")).count() as u64);
                if exhaustive {
                    ctx.count("exhaustive_subrange_cases");
                }
                ctx.sample(format!("{} content#{} at [{}..{}) of a {}-byte source: {}", pc.name, i, begin, begin + data.len(), src_bytes.len(), sc.ops.iter().take(14).cloned().collect::<Vec<_>>().join(";")));
                ctx.case_done(fnv(op.as_bytes()), data.len() > 0 && begin > 0);
                ctx.emit(my_case, &op, &out);
            }
            drop(pack);
            let _ = std::fs::remove_file(&path);
        }
    }
}
