//! C05 / C06 — damaged files.
//!
//! Base containers (three packagings × compressions, small) are damaged in every family of the
//! properties' quantifiers: every byte position × masks {01,80,FF} (exhaustive on small files,
//! sampled on larger ones), zeroed and overwritten ranges, truncation at every length, appended
//! garbage, and files that are not Jubako files at all.  Each damaged container is read by the full
//! reader script in a supervised worker process.
//!   oracle C06: the outcome is a value or an error — never a panic, an abort of the process, a
//!               signal, or a timeout;
//!   oracle C05: a value has exactly the structure of the undamaged container (pack list, entries,
//!               values, addresses, content sizes); if only content bytes differ, `check` is not true;
//!   model:      the Lean reader on the same damaged files gives the same outcome class and, for
//!               values, the same dump and check verdict (`ct.read`).
use crate::container::{self, Mode};
use crate::dmg::{self, Supervisor};
use crate::out::{fnv, Ctx};
use crate::rng::Rng;
use crate::util::{self, Comp};
use std::path::{Path, PathBuf};

/// markers (in the compression-level field of a base) for the special bases
const PAYLOAD: u8 = 10; // .. 12: data shape
const HUGE: u8 = 2;

struct Damage {
    family: &'static str,
    desc: String,
    file: usize,
    apply: Box<dyn Fn(&[u8]) -> Vec<u8>>,
}

fn copy_dir(src: &Path, dst: &Path) {
    let _ = std::fs::remove_dir_all(dst);
    std::fs::create_dir_all(dst).unwrap();
    for e in std::fs::read_dir(src).unwrap().flatten() {
        if e.path().is_file() {
            std::fs::copy(e.path(), dst.join(e.file_name())).unwrap();
        }
    }
}

fn canon_impl(res: &str) -> String {
    match dmg::class_of(res) {
        "value" => format!("value {}", &res[3..]),
        "error" => "error".to_string(),
        _ => format!("crash {}", res),
    }
}

pub fn run(ctx: &mut Ctx) {
    let mut rng = Rng::new(ctx.seed ^ 0xC06);
    let mut sup = Supervisor::new(std::time::Duration::from_secs(20));
    let profile = if cfg!(debug_assertions) { "debug" } else { "release" };
    // (packaging, compression, exhaustive small base, "big tables" base)
    // The big-tables bases hold thousands of tiny contents so that the checked blocks of the content
    // pack (content-info table, cluster tail) are larger than 4 KiB: the reader loads such blocks
    // through another path (mmap) than small ones (heap copy).
    // two more kinds of bases:
    //   PAYLOAD: one small compressed cluster whose payload is flipped bit by bit (every byte x 8
    //            single-bit masks + FF): decoder errors, early ends, short or long outputs;
    //   HUGE:    > 16384 tiny contents, so that the content-info table exceeds 64 KiB.
    let mut bases: Vec<(Mode, Comp, bool, bool, u8)> = if ctx.quick() {
        vec![(Mode::OneFile, Comp::None, true, false, 0), (Mode::TwoFiles, Comp::Zstd(3), false, false, 0), (Mode::NoConcat, Comp::Lz4(2), false, false, 0), (Mode::OneFile, Comp::None, false, true, 0)]
    } else {
        let mut v = vec![];
        for m in Mode::ALL {
            for c in [Comp::None, Comp::Zstd(3), Comp::Lz4(2), Comp::Lzma(1)] {
                v.push((m, c, c == Comp::None && m == Mode::OneFile, false, 0));
            }
        }
        v.push((Mode::OneFile, Comp::None, false, true, 0));
        v.push((Mode::NoConcat, Comp::Zstd(3), false, true, 0));
        v.push((Mode::TwoFiles, Comp::None, false, true, 0));
        v
    };
    // whether a flipped payload decodes "cleanly but short / long" depends on the data: three shapes
    // (PAYLOAD + 0 words of a small vocabulary, + 1 runs of a few symbols, + 2 repeats of random
    // fragments)
    bases.push((Mode::OneFile, Comp::Zstd(3), false, false, PAYLOAD));
    bases.push((Mode::OneFile, Comp::Zstd(3), false, false, PAYLOAD + 1));
    bases.push((Mode::OneFile, Comp::Zstd(1), false, false, PAYLOAD + 2));
    bases.push((Mode::OneFile, Comp::Lz4(2), false, false, PAYLOAD));
    bases.push((Mode::OneFile, Comp::None, false, false, HUGE));
    if !ctx.quick() {
        for shape in 0..3u8 {
            bases.push((Mode::OneFile, Comp::Lzma(1), false, false, PAYLOAD + shape));
            bases.push((Mode::NoConcat, Comp::Zstd(5), false, false, PAYLOAD + shape));
            bases.push((Mode::TwoFiles, Comp::Lz4(1), false, false, PAYLOAD + shape));
        }
        bases.push((Mode::NoConcat, Comp::None, false, false, HUGE));
    }
    let mut case = 0u64;
    for (mode, comp, exhaustive, big, kind) in bases {
        let payload_base = (PAYLOAD..PAYLOAD + 3).contains(&kind);
        let huge = kind == HUGE;
        let my = case;
        case += 1;
        if !ctx.wants(my) {
            continue;
        }
        let mut crng = rng.fork(my);
        let mut spec = container::random_spec(&mut crng, mode, comp, if exhaustive { 2 } else { 5 }, if exhaustive { 0 } else { 1 });
        if exhaustive {
            for it in spec.items.iter_mut() {
                it.data.truncate(30);
                it.name.truncate(5);
            }
        } else if big {
            let n = 2300 + crng.below(400) as usize;
            spec.items.clear();
            spec.extra_packs = 0;
            for i in 0..n {
                let len = (i * 7 + 3) % 11;
                let hint = if comp != Comp::None && i % 3 == 0 { util::Hint::Yes } else { util::Hint::No };
                spec.items.push(container::Item { name: format!("{:x}", i).into_bytes(), num: i as u64 * 37, data: crng.bytes(len), hint, pack: 1 });
            }
        } else if huge {
            let n = 16500 + crng.below(600) as usize;
            spec.items.clear();
            spec.extra_packs = 0;
            for i in 0..n {
                let len = (i * 5 + 1) % 7;
                spec.items.push(container::Item { name: format!("{:x}", i).into_bytes(), num: i as u64, data: crng.bytes(len), hint: util::Hint::No, pack: 1 });
            }
        } else if payload_base {
            spec.items.truncate(3);
            spec.extra_packs = 0;
            for it in spec.items.iter_mut() {
                it.pack = 1;
            }
            // one compressed cluster: its plain data spans more than one 4 KiB decode chunk and ends
            // inside the last one
            let lens = [3000 + crng.below(2000) as usize, 700 + crng.below(900) as usize, 40];
            for (it, l) in spec.items.iter_mut().zip(lens) {
                it.data = match kind - PAYLOAD {
                    0 => {
                        const WORDS: [&str; 12] = ["jubako", "pack", "cluster", "entry", "value", "store", "index", "content", "manifest", "offset", "reader", "region"];
                        let mut v = vec![];
                        while v.len() < l {
                            v.extend_from_slice(crng.pick(&WORDS).as_bytes());
                            v.push(if crng.chance(1, 9) { b'\n' } else { b' ' });
                        }
                        v.truncate(l);
                        v
                    }
                    1 => crng.low_entropy(l),
                    _ => {
                        let frags: Vec<Vec<u8>> = (0..6).map(|_| { let n = 3 + crng.below(20) as usize; crng.bytes(n) }).collect();
                        let mut v = vec![];
                        while v.len() < l {
                            if crng.chance(1, 5) {
                                let n = 1 + crng.below(6) as usize;
                                v.extend(crng.bytes(n));
                            } else {
                                { let k = crng.below(frags.len() as u64) as usize; v.extend_from_slice(&frags[k]); }
                            }
                        }
                        v.truncate(l);
                        v
                    }
                };
                it.hint = util::Hint::Yes;
            }
        } else if comp != Comp::None {
            // make sure compressed clusters exist and are bigger than one decode chunk
            for it in spec.items.iter_mut().take(2) {
                it.data = crng.low_entropy(9000);
                it.hint = util::Hint::Yes;
            }
        }
        let root = ctx.work.join(format!("c06-{}", my));
        let orig = root.join("orig");
        std::fs::create_dir_all(&orig).unwrap();
        let entry = match util::guarded(|| container::build(&orig, "c", &spec)) {
            Ok(Ok(p)) => p,
            other => {
                ctx.fail(my, "create", &format!("creation failed: {:?}", other));
                continue;
            }
        };
        let entry_name = entry.file_name().unwrap().to_string_lossy().to_string();
        let mut files: Vec<PathBuf> = std::fs::read_dir(&orig).unwrap().filter_map(|e| e.ok().map(|e| e.path())).filter(|p| p.is_file()).collect();
        files.sort();
        let base_res = sup.run(&entry);
        if dmg::class_of(&base_res) != "value" {
            ctx.fail(my, "pristine", &format!("undamaged container does not read: {}", base_res.chars().take(200).collect::<String>()));
            continue;
        }
        let (base_struct, base_data, base_chk) = dmg::split_dump(&base_res);
        if base_chk != "check=true" {
            ctx.fail(my, "pristine-check", &format!("undamaged container: {}", base_chk));
        }
        // ---- damages
        let mut damages: Vec<Damage> = vec![];
        for (fi, f) in files.iter().enumerate() {
            let len = std::fs::metadata(f).unwrap().len() as usize;
            let small = exhaustive && len <= 3000;
            // flips
            let positions: Vec<usize> = if small { (0..len).collect() } else { (0..(if ctx.quick() { 150 } else { 600 })).map(|_| crng.below(len as u64) as usize).collect() };
            for p in positions {
                let masks: &[u8] = if small { &[0x01, 0x80, 0xFF] } else { &[0x01, 0xFF] };
                for m in masks {
                    let (p, m) = (p, *m);
                    damages.push(Damage { family: "flip", desc: format!("byte {} ^= {:#04x}", p, m), file: fi, apply: Box::new(move |b| { let mut v = b.to_vec(); v[p] ^= m; v }) });
                }
            }
            // ranges
            for _ in 0..(if ctx.quick() { 25 } else { 120 }) {
                let a = crng.below(len as u64) as usize;
                let l = 1 + crng.below(std::cmp::min(300, len - a) as u64) as usize;
                let zero = crng.chance(1, 2);
                let fill = crng.bytes(l);
                damages.push(Damage { family: if zero { "zero-range" } else { "overwrite-range" }, desc: format!("[{}..{})", a, a + l), file: fi, apply: Box::new(move |b| { let mut v = b.to_vec(); for i in 0..l { v[a + i] = if zero { 0 } else { fill[i] }; } v }) });
            }
            // truncation
            let cuts: Vec<usize> = if small { (0..len).collect() } else {
                let mut v: Vec<usize> = (0..(if ctx.quick() { 60 } else { 300 })).map(|_| crng.below(len as u64) as usize).collect();
                v.extend_from_slice(&[0, 1, 59, 60, 63, 64, 127, 128, len - 1, len - 5, len - 64, len - 65, len / 2]);
                v.retain(|c| *c < len);
                v
            };
            for c in cuts {
                damages.push(Damage { family: "truncate", desc: format!("to {} of {} bytes", c, len), file: fi, apply: Box::new(move |b| b[..c].to_vec()) });
            }
            // appended garbage
            for l in [1usize, 5, 64, 1 + crng.below(500) as usize] {
                let g = crng.bytes(l);
                damages.push(Damage { family: "append", desc: format!("{} bytes", l), file: fi, apply: Box::new(move |b| { let mut v = b.to_vec(); v.extend_from_slice(&g); v }) });
            }
            // not a Jubako file at all
            for l in [0usize, 1, 59, 60, 63, 64, 100, 4096] {
                let g = if l == 100 { b"This is not a Jubako file, just a text which is long enough to be looked at. 0123456789 0123456789!!".to_vec() } else { crng.bytes(l) };
                damages.push(Damage { family: "not-jubako", desc: format!("{} bytes", g.len()), file: fi, apply: Box::new(move |_| g.clone()) });
            }
        }
        // ---- damage aimed at the checked tables of every content pack (content-info table, cluster
        // pointer table, their CRCs) and, for the payload bases, at every byte of every compressed
        // cluster payload (which no CRC protects: C06 only — value or error)
        for (fi, f) in files.iter().enumerate() {
            let bytes = std::fs::read(f).unwrap();
            for pk in container::packs_in_file(&bytes) {
                if pk.kind != b'c' || pk.origin + pk.size > bytes.len() {
                    continue;
                }
                let pack = &bytes[pk.origin..pk.origin + pk.size];
                let le = |b: &[u8]| b.iter().enumerate().fold(0u64, |a, (i, x)| a | ((*x as u64) << (8 * i)));
                let content_ptr = le(&pack[64..72]) as usize;
                let cluster_ptr = le(&pack[72..80]) as usize;
                let ncontent = le(&pack[80..84]) as usize;
                let ncluster = le(&pack[84..88]) as usize;
                let mut spots: Vec<usize> = vec![];
                let regions = [(content_ptr, ncontent * 4 + 4), (cluster_ptr, ncluster * 8 + 4)];
                for (start, len) in regions {
                    if len == 0 || start + len > pack.len() {
                        continue;
                    }
                    let k = if huge { if ctx.quick() { 14 } else { 60 } } else { 6 };
                    for _ in 0..k {
                        spots.push(pk.origin + start + crng.below(len as u64) as usize);
                    }
                    // first and last entry, and the CRC itself
                    spots.extend_from_slice(&[pk.origin + start, pk.origin + start + len - 5, pk.origin + start + len - 4, pk.origin + start + len - 1]);
                }
                for p in spots {
                    for m in [0x01u8, 0x40] {
                        damages.push(Damage { family: "table-flip", desc: format!("byte {} ^= {:#04x} (content-pack table)", p, m), file: fi, apply: Box::new(move |b| { let mut v = b.to_vec(); v[p] ^= m; v }) });
                    }
                }
                if payload_base {
                    if let Some(dec) = crate::cpdec::decode(pack) {
                        for c in dec.clusters.iter().filter(|c| c.comp != 0) {
                            let cap = if ctx.quick() { 380 } else { 4000 };
                            let positions: Vec<usize> = if c.raw_size <= cap { (0..c.raw_size).collect() } else { (0..cap).map(|_| crng.below(c.raw_size as u64) as usize).collect() };
                            for rel in positions {
                                let p = pk.origin + c.payload_start + rel;
                                for m in [0x01u8, 0x02, 0x04, 0x08, 0x10, 0x20, 0x40, 0x80, 0xFF] {
                                    damages.push(Damage { family: "payload-flip", desc: format!("byte {} ^= {:#04x} (compressed payload, offset {} of {})", p, m, rel, c.raw_size), file: fi, apply: Box::new(move |b| { let mut v = b.to_vec(); v[p] ^= m; v }) });
                                }
                            }
                        }
                    }
                }
            }
        }
        let scratch = root.join("dmg");
        let mut n = 0u64;
        let keep_limit = 40; // damaged dirs kept for the model (sampled), all others are transient
        let mut kept = 0;
        let total = damages.len();
        let mut timeouts = 0u32;
        for (di, d) in damages.iter().enumerate() {
            // every timeout costs the supervisor's full wall-clock bound: once a base has shown a few
            // reads that never return, the rest of its damages adds nothing
            if timeouts >= 3 {
                ctx.count("damages_skipped_after_repeated_timeouts");
                continue;
            }
            // model comparison on a sample (every one of them for errors would be thousands of dirs)
            let for_model = if big || huge { di % 40 == 0 } else if d.family == "payload-flip" { di % 150 == 0 } else { d.family != "flip" || !exhaustive || di % 9 == 0 };
            let dir = if for_model && kept < keep_limit * 50 { kept += 1; root.join(format!("m{}", di)) } else { scratch.clone() };
            copy_dir(&orig, &dir);
            let target = dir.join(files[d.file].file_name().unwrap());
            let original = std::fs::read(&files[d.file]).unwrap();
            let damaged = (d.apply)(&original);
            std::fs::write(&target, &damaged).unwrap();
            let res = sup.run(&dir.join(&entry_name));
            let class = dmg::class_of(&res);
            if class == "timeout" {
                timeouts += 1;
            }
            n += 1;
            ctx.count(&format!("{}:{}", d.family, class));
            let fname = files[d.file].file_name().unwrap().to_string_lossy().to_string();
            // ---- C06
            if class != "value" && class != "error" {
                ctx.fail(my, &format!("c06-{}-{}", class, d.family), &format!("[{}] {} {} of {} ({} {}): {}", profile, d.family, d.desc, fname, mode.name(), comp.name(), res.chars().take(160).collect::<String>()));
            }
            // ---- C05
            if class == "value" {
                let (st, data, chk) = dmg::split_dump(&res);
                if st != base_struct {
                    let a: Vec<&str> = st.split(';').collect();
                    let b: Vec<&str> = base_struct.split(';').collect();
                    let k = a.iter().zip(b.iter()).position(|(x, y)| x != y).unwrap_or(0);
                    ctx.fail(my, &format!("c05-structure-{}", d.family), &format!("{} {} of {}: reader silently returns `{}` where `{}` was written", d.family, d.desc, fname, a.get(k).unwrap_or(&"").chars().take(120).collect::<String>(), b.get(k).unwrap_or(&"").chars().take(120).collect::<String>()));
                } else if data != base_data && chk == "check=true" {
                    ctx.fail(my, &format!("c05-content-unflagged-{}", d.family), &format!("{} {} of {}: content bytes differ, no error, and check() = true", d.family, d.desc, fname));
                }
                if data != base_data {
                    ctx.count("content_bytes_differ_check_fails");
                }
            }
            if for_model && dir != scratch {
                let decdir = dir.join("_dec");
                container::dump_all_clusters(&dir, &decdir);
                ctx.emit(my, &format!("ct.read {} {} {}", dir.display(), entry_name, decdir.display()), &canon_impl(&res));
            }
            let _ = total;
        }
        ctx.add("damaged_files_read", n);
        ctx.count(&format!("base:{}-{}", mode.name(), comp.name().split(':').next().unwrap()));
        ctx.sample(format!("[{}] {} {} container ({} files, {} items{}): {} damaged variants read in a supervised worker", profile, mode.name(), comp.name(), files.len(), spec.items.len(), if exhaustive { ", exhaustive flips and truncations" } else if big { ", checked blocks larger than 4 KiB" } else if huge { ", content-info table larger than 64 KiB" } else if payload_base { ", every bit of the compressed payload flipped" } else { "" }, n));
        ctx.case_done(fnv(format!("{:?}", spec).as_bytes()), n > 0);
    }
    ctx.add("worker_restarts", sup.restarts);
    // ---- C05, one more base: an entry store whose checked block of entries exceeds 16 MiB (blocks of that size
    // go through the reader's large-region path).  One bit of one stored value is flipped; the entries are read
    // back through the directory-pack reader.  Oracle only (the pack is too large to replay on the model): an
    // error is fine, the values written are fine (the flip missed), any other value is a silent decode.
    let my = case;
    if ctx.wants(my) {
        giant_block_case(ctx, my, &mut rng.fork(my));
    }
}

fn giant_block_case(ctx: &mut Ctx, my: u64, crng: &mut Rng) {
    use crate::dirgen::{self, DirSpec, EntrySpec, IndexSpec, PDef, V};
    let names: [&'static str; 7] = ["a0", "a1", "a2", "a3", "a4", "a5", "a6"];
    let mut common: Vec<(&'static str, PDef)> = names.iter().map(|n| (*n, PDef::Array { fixed: 31, store: 0 })).collect();
    common.push(("num", PDef::UInt));
    // 7 x (1 length byte + 31 inline bytes + 1 key byte) + 8 = 239 bytes per entry
    let n = (1usize << 24) / 239 + 600 + crng.below(500) as usize;
    let mut entries = Vec::with_capacity(n);
    for i in 0..n as u64 {
        let mut values: Vec<(&'static str, V)> = names.iter().enumerate().map(|(k, nm)| (*nm, V::A(format!("{:02}-{:010}-{:015}", k, i, i * 7919 + k as u64).into_bytes()))).collect();
        values.push(("num", V::U(0xC0DE_0000_0000_0000 + i)));
        entries.push(EntrySpec { variant: None, values });
    }
    let spec = DirSpec { stores: vec![false], common, variants: vec![], sort_keys: None, entries, indexes: vec![IndexSpec { name: "all".into(), offset: 0, count: n as u32 }], label: "giant-entry-block".into() };
    let dir = ctx.work.join("c05-giant");
    let built = match util::guarded(|| dirgen::build(&dir, &spec)) {
        Ok(Ok(b)) => b,
        other => {
            ctx.fail(my, "create", &format!("creation of the giant entry store failed: {:?}", other.err()));
            return;
        }
    };
    let order: Vec<usize> = (0..spec.entries.len()).collect();
    let expected = dirgen::expected_dump(&spec, &order, &|t| t as u64);
    let mut file = std::fs::read(&built.path).unwrap();
    // locate the inline bytes of a value in the second half of the entries and flip one bit of them
    let victim = (n as u64 * 3) / 4 + crng.below(1000);
    let needle = format!("{:02}-{:010}-{:015}", 3, victim, victim * 7919 + 3).into_bytes();
    let pos = file.windows(needle.len()).position(|w| w == &needle[..]);
    let pos = match pos {
        Some(p) => p,
        None => {
            ctx.fail(my, "framing", "the inline bytes of an entry of the giant store were not found in the file");
            return;
        }
    };
    file[pos + 5] ^= 0x01;
    std::fs::write(&built.path, &file).unwrap();
    let got = dirgen::dump(&built.path, &spec);
    ctx.count("giant_block_cases");
    ctx.add("giant_block_bytes", (n * 239) as u64);
    let is_error = got.starts_with("err") || got.contains("{err") || got.contains("panic");
    if !is_error && got != expected {
        let ge: Vec<&str> = got.split(|c| c == ';' || c == '{' || c == '}').collect();
        let ee: Vec<&str> = expected.split(|c| c == ';' || c == '{' || c == '}').collect();
        let k = ge.iter().zip(ee.iter()).position(|(a, b)| a != b).unwrap_or(0);
        ctx.fail(my, "c05-structure-giant-block", &format!("one bit flipped inside a checked block of {} bytes (entry {} of {}): the reader silently returns `{}` where `{}` was written", n * 239, victim, n, ge.get(k).unwrap_or(&"").chars().take(120).collect::<String>(), ee.get(k).unwrap_or(&"").chars().take(120).collect::<String>()));
    }
    if got.contains("panic") {
        ctx.count("giant_block_read_panics");
    }
    ctx.case_done(fnv(b"giant") ^ n as u64, true);
    let _ = std::fs::remove_dir_all(&dir);
}
