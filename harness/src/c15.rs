//! C15 — references between entries resolve to the referenced entry's final position.
//!
//! Entry sets of 0..5000 entries (both rayon paths) with a unique key and a reference property bound
//! (`Vow`/`Bound`/`Word`) to another entry: forward, backward, self references, chains, random graphs;
//! sorted and unsorted stores.  Oracle: `Bound::get()` of every added entry after finalize = the
//! position at which its key is found when the store is read back; the reference property reads
//! back as the position of the target's key.  Model: Lean decoder reads the same values; the Lean
//! creator model, given the resolved positions, reproduces the bytes (reference column sized from
//! the final positions).
use crate::dirgen::{self, DirSpec, EntrySpec, IndexSpec, PDef, V};
use crate::out::{fnv, Ctx};
use crate::rng::Rng;
use crate::util;

pub fn run(ctx: &mut Ctx) {
    let mut rng = Rng::new(ctx.seed ^ 0xC15);
    let n = if ctx.quick() { 40 } else { 400 };
    for case in 0..n as u64 {
        let mut crng = rng.fork(case);
        if !ctx.wants(case) {
            continue;
        }
        let ne = match case % 8 {
            0 => 0,
            1 => 1,
            2 => 2,
            3 => 255 + crng.below(4) as usize,
            // beyond one block of any plausible chunked parallel pass (4096), never a multiple of it
            4 => if ctx.quick() { 4097 + crng.below(1500) as usize } else { *crng.pick(&[4097usize, 5000, 8191, 8193, 10000, 12289]) + crng.below(3) as usize },
            5 => 65 + crng.below(300) as usize,
            _ => crng.below(60) as usize,
        };
        let sorted = crng.chance(2, 3);
        let graph = crng.below(5);
        // unique keys, shuffled
        let mut keys: Vec<u64> = (0..ne as u64).map(|i| i * 3 + 1).collect();
        for i in (1..keys.len()).rev() {
            let j = crng.below(i as u64 + 1) as usize;
            keys.swap(i, j);
        }
        let mut entries = vec![];
        for k in 0..ne {
            let target = match graph {
                0 => k,                                  // self
                1 => (k + 1) % ne,                       // forward chain (last wraps back)
                2 => (k + ne - 1) % ne,                  // backward chain
                3 => 0,                                  // everybody points to the first added
                _ => crng.below(ne as u64) as usize,     // random
            };
            entries.push(EntrySpec { variant: None, values: vec![("p0", V::U(keys[k])), ("p1", V::Ref(target)), ("p2", V::Ref(crng.below(ne as u64) as usize))] });
        }
        let spec = DirSpec {
            stores: vec![],
            common: vec![("p0", PDef::UInt), ("p1", PDef::UInt), ("p2", PDef::UInt)],
            variants: vec![],
            sort_keys: if sorted { Some(vec!["p0"]) } else { None },
            entries,
            indexes: vec![IndexSpec { name: "all".into(), offset: 0, count: ne as u32 }],
            label: format!("refs-{}-{}", if sorted { "sorted" } else { "unsorted" }, ["self", "forward", "backward", "star", "random"][graph as usize]),
        };
        let dir = ctx.work.join(format!("dp-{}", case));
        let built = match util::guarded(|| dirgen::build(&dir, &spec)) {
            Ok(Ok(b)) => b,
            other => {
                ctx.fail(case, "create", &format!("creation failed: {:?}", other.err()));
                continue;
            }
        };
        // final positions: sorted by key, or insertion order
        let mut order: Vec<usize> = (0..ne).collect();
        if sorted {
            order.sort_by_key(|i| keys[*i]);
        }
        let mut pos_of = vec![0u64; ne];
        for (p, e) in order.iter().enumerate() {
            pos_of[*e] = p as u64;
        }
        for (k, b) in built.bounds.iter().enumerate() {
            if *b as u64 != pos_of[k] {
                ctx.fail(case, "bound", &format!("{}: handle of the entry added #{k} (key {}) reports position {} after finalize; its key is stored at position {}", spec.label, keys[k], b, pos_of[k]));
                break;
            }
        }
        let expected = dirgen::expected_dump(&spec, &order, &|t| pos_of[t]);
        let got = dirgen::dump(&built.path, &spec);
        if got != expected {
            let ge: Vec<&str> = got.split(|c| c == ';' || c == '{' || c == '}').collect();
            let ee: Vec<&str> = expected.split(|c| c == ';' || c == '{' || c == '}').collect();
            let k = ge.iter().zip(ee.iter()).position(|(a, b)| a != b).unwrap_or(0);
            ctx.fail(case, "reference-value", &format!("{}: stored entry #{} reads `{}`, expected `{}` (p1/p2 = final positions of the referenced entries; {} entries)", spec.label, k.saturating_sub(1), ge.get(k).unwrap_or(&"").chars().take(120).collect::<String>(), ee.get(k).unwrap_or(&"").chars().take(120).collect::<String>(), ne));
        }
        let size = std::fs::metadata(&built.path).map(|m| m.len()).unwrap_or(0);
        ctx.emit(case, &format!("dp.decode {} 0 {}", built.path.display(), size), &got);
        let specfile = dir.join("spec.txt");
        dirgen::write_spec_file(&specfile, &spec, &order, &|t| pos_of[t]);
        ctx.emit(case, &format!("dp.encode {} 0 {} {}", built.path.display(), size, specfile.display()), "same");
        ctx.count(&format!("label:{}", spec.label));
        ctx.add("entries", ne as u64);
        ctx.sample(format!("{} entries={} first refs={:?}", spec.label, ne, spec.entries.iter().take(5).map(|e| &e.values[1]).collect::<Vec<_>>()));
        ctx.case_done(fnv(format!("{:?}", spec.entries.iter().map(|e| &e.values).collect::<Vec<_>>()).as_bytes()) ^ case, ne > 1);
    }
}
