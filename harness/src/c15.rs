//! C15 — references between entries resolve to the referenced entry's final position.
//!
//! Entry sets of 0..5000 entries (both rayon paths) with a unique key and a reference property bound
//! (`Vow`/`Bound`/`Word`) to another entry: forward, backward, self references, chains, random graphs;
//! sorted and unsorted stores.  Oracle: `Bound::get()` of every added entry after finalize = the
//! position at which its key is found when the store is read back; the reference property reads
//! back as the position of the target's key.  Model: Lean decoder reads the same values; the Lean
//! creator model, given the resolved positions, reproduces the bytes (reference column sized from
//! the final positions).
use crate::dirgen::{self, DirSpec, EntrySpec, IndexSpec, PDef, V};
use crate::out::{fnv, Ctx};
use crate::rng::Rng;
use crate::util;

pub fn run(ctx: &mut Ctx) {
    let mut rng = Rng::new(ctx.seed ^ 0xC15);
    let n = if ctx.quick() { 40 } else { 400 };
    // several entry stores in one directory pack, references across them
    let nm = if ctx.quick() { 8 } else { 60 };
    for k in 0..nm as u64 {
        let case = n as u64 + k;
        if ctx.wants(case) {
            let mut crng = rng.fork(case);
            multi_store(ctx, case, &mut crng, k);
        }
    }
    // the same with shapes in which only the *final* positions of the targets cross a byte-width boundary:
    // a small store refers to the first entries (in insertion order) of a larger, sorted store registered
    // after it (k = 1000, 1001) / before it (1002); the reference column must be sized for the final positions
    for k in [1000u64, 1001, 1002] {
        let case = (n + nm) as u64 + (k - 1000);
        if ctx.wants(case) {
            let mut crng = rng.fork(case);
            multi_store(ctx, case, &mut crng, k);
        }
    }
    for case in 0..n as u64 {
        let mut crng = rng.fork(case);
        if !ctx.wants(case) {
            continue;
        }
        let ne = match case % 8 {
            0 => 0,
            1 => 1,
            2 => 2,
            3 => 255 + crng.below(4) as usize,
            // beyond one block of any plausible chunked parallel pass (4096), never a multiple of it
            // beyond 16 bits of entry index (one such store per run)
            4 if case == 12 => 65536 + crng.below(3000) as usize,
            4 => if ctx.quick() { 4097 + crng.below(1500) as usize } else { *crng.pick(&[4097usize, 5000, 8191, 8193, 10000, 12289]) + crng.below(3) as usize },
            5 => 65 + crng.below(300) as usize,
            _ => crng.below(60) as usize,
        };
        let sorted = crng.chance(2, 3);
        let graph = crng.below(5);
        refs_case(ctx, case, &mut crng, ne, sorted, graph, case % 16);
    }
}

/// one entry store with a unique key and two reference properties (used by C15, and by C14 for the
/// "logical content written" of deferred values)
pub fn refs_case(ctx: &mut Ctx, case: u64, crng: &mut Rng, ne: usize, sorted: bool, graph: u64, key_order: u64) {
    // unique keys, shuffled
    let mut keys: Vec<u64> = (0..ne as u64).map(|i| i * 3 + 1).collect();
    for i in (1..keys.len()).rev() {
        let j = crng.below(i as u64 + 1) as usize;
        keys.swap(i, j);
    }
    // insertion orders a sort has nothing (or everything) to do about: already in key order, reversed,
    // in key order but for one late entry
    match key_order {
        5 | 6 => keys.sort(),
        13 => {
            keys.sort();
            keys.reverse();
        }
        14 => {
            keys.sort();
            if keys.len() > 2 {
                let k0 = keys.remove(0);
                keys.push(k0);
            }
        }
        _ => {}
    }
    let mut entries = vec![];
    for k in 0..ne {
        let target = match graph {
            0 => k,                                  // self
            1 => (k + 1) % ne,                       // forward chain (last wraps back)
            2 => (k + ne - 1) % ne,                  // backward chain
            3 => 0,                                  // everybody points to the first added
            _ => crng.below(ne as u64) as usize,     // random
        };
        entries.push(EntrySpec { variant: None, values: vec![("p0", V::U(keys[k])), ("p1", V::Ref(target)), ("p2", V::Ref(crng.below(ne as u64) as usize))] });
    }
    let spec = DirSpec {
        stores: vec![],
        common: vec![("p0", PDef::UInt), ("p1", PDef::UInt), ("p2", PDef::UInt)],
        variants: vec![],
        sort_keys: if sorted { Some(vec!["p0"]) } else { None },
        entries,
        indexes: vec![IndexSpec { name: "all".into(), offset: 0, count: ne as u32 }],
        label: format!("refs-{}-{}", if sorted { "sorted" } else { "unsorted" }, ["self", "forward", "backward", "star", "random"][graph as usize]),
    };
    let dir = ctx.work.join(format!("dp-{}", case));
    let built = match util::guarded(|| dirgen::build(&dir, &spec)) {
        Ok(Ok(b)) => b,
        other => {
            ctx.fail(case, "create", &format!("creation failed: {:?}", other.err()));
            return;
        }
    };
    // final positions: sorted by key, or insertion order
    let mut order: Vec<usize> = (0..ne).collect();
    if sorted {
        order.sort_by_key(|i| keys[*i]);
    }
    let mut pos_of = vec![0u64; ne];
    for (p, e) in order.iter().enumerate() {
        pos_of[*e] = p as u64;
    }
    for (k, b) in built.bounds.iter().enumerate() {
        if *b as u64 != pos_of[k] {
            ctx.fail(case, "bound", &format!("{}: handle of the entry added #{k} (key {}) reports position {} after finalize; its key is stored at position {}", spec.label, keys[k], b, pos_of[k]));
            break;
        }
    }
    let expected = dirgen::expected_dump(&spec, &order, &|t| pos_of[t]);
    let got = dirgen::dump(&built.path, &spec);
    if got != expected {
        let ge: Vec<&str> = got.split(|c| c == ';' || c == '{' || c == '}').collect();
        let ee: Vec<&str> = expected.split(|c| c == ';' || c == '{' || c == '}').collect();
        let k = ge.iter().zip(ee.iter()).position(|(a, b)| a != b).unwrap_or(0);
        ctx.fail(case, "reference-value", &format!("{}: stored entry #{} reads `{}`, expected `{}` (p1/p2 = final positions of the referenced entries; {} entries)", spec.label, k.saturating_sub(1), ge.get(k).unwrap_or(&"").chars().take(120).collect::<String>(), ee.get(k).unwrap_or(&"").chars().take(120).collect::<String>(), ne));
    }
    let size = std::fs::metadata(&built.path).map(|m| m.len()).unwrap_or(0);
    ctx.emit(case, &format!("dp.decode {} 0 {}", built.path.display(), size), &got);
    let specfile = dir.join("spec.txt");
    dirgen::write_spec_file(&specfile, &spec, &order, &|t| pos_of[t]);
    ctx.emit(case, &format!("dp.encode {} 0 {} {}", built.path.display(), size, specfile.display()), "same");
    ctx.count(&format!("label:{}", spec.label));
    ctx.add("entries", ne as u64);
    ctx.sample(format!("{} entries={} first refs={:?}", spec.label, ne, spec.entries.iter().take(5).map(|e| &e.values[1]).collect::<Vec<_>>()));
    ctx.case_done(fnv(format!("{:?}", spec.entries.iter().map(|e| &e.values).collect::<Vec<_>>()).as_bytes()) ^ case, ne > 1);
}

type BE = jubako::creator::BasicEntry<&'static str, &'static str>;

/// Two or three entry stores registered one after the other in one directory pack; an entry of any
/// store may refer to an entry of any store (the same, one registered earlier, one registered
/// later).  Stores are finalised in registration order, so a store registered early sizes its
/// reference columns before the stores it refers to are finalised.  Oracle: every handle reports
/// the position of its key inside its own store; every reference reads back as the position of the
/// target's key inside the target's store.  Model: the Lean decoder reads the same values
/// (`dp.decode`; the writer model covers single-store packs and is not run here).
fn multi_store(ctx: &mut Ctx, case: u64, rng: &mut Rng, k: u64) {
    use jubako as jbk;
    use jbk::creator::schema;
    let crossing = k >= 1000;
    let nstores = if crossing { 2 } else { 2 + (k % 2) as usize };
    // sizes around the one-byte / two-byte position boundary
    let sizes: Vec<usize> = if crossing {
        let small = 100 + rng.below(150) as usize;
        let large = 600 + rng.below(300) as usize;
        if k == 1002 { vec![large, small] } else { vec![small, large] }
    } else {
        (0..nstores).map(|s| match (k as usize + s) % 4 { 0 => 3 + rng.below(20) as usize, 1 => 257 + rng.below(60) as usize, 2 => 255 + rng.below(3) as usize, _ => 300 + rng.below(400) as usize }).collect()
    };
    let mut sorted: Vec<bool> = (0..nstores).map(|_| rng.chance(1, 2)).collect();
    if crossing {
        // the large store is sorted; the small one is sorted in case 1001
        sorted = if k == 1002 { vec![true, false] } else { vec![k == 1001, true] };
    }
    let k = if crossing { 2 } else { k }; // references: entry e of a store refers to entry e % size of the next one
    // a reference used as (first) sort key: store 0 is sorted on (p1, p0), p1 referring to entries of
    // store 1, which is registered — hence ordered — after it.  Store 0 is ordered while its
    // references still read the provisional (insertion) positions of their targets; what is
    // *stored* must nevertheless be the targets' final positions.
    let refkey0 = k % 4 == 3;
    if refkey0 {
        sorted[0] = true;
        sorted[1] = true;
    }
    // p1: only references (to the *next* store, wrapping: the first store refers to a store
    // registered later, the last one to the first); p2: references mixed with small plain values
    let mut keys: Vec<Vec<u64>> = vec![];
    for s in 0..nstores {
        let mut ks: Vec<u64> = (0..sizes[s] as u64).map(|i| i * 5 + 2).collect();
        for i in (1..ks.len()).rev() {
            let j = rng.below(i as u64 + 1) as usize;
            ks.swap(i, j);
        }
        if crossing && sizes[s] >= 600 {
            // insertion order = descending keys: the first entries inserted end up last
            ks.sort();
            ks.reverse();
        }
        keys.push(ks);
    }
    // (target store, target entry) per entry for p1 and optional for p2
    let mut p1: Vec<Vec<(usize, usize)>> = vec![];
    let mut p2: Vec<Vec<Result<(usize, usize), u64>>> = vec![];
    for s in 0..nstores {
        let ts = (s + 1) % nstores;
        p1.push((0..sizes[s]).map(|e| (ts, match k % 3 { 0 => sizes[ts] - 1 - (e % sizes[ts]), 1 => rng.below(sizes[ts] as u64) as usize, _ => e % sizes[ts] })).collect());
        let mut col = vec![];
        for _ in 0..sizes[s] {
            if rng.chance(1, 2) {
                let ts2 = rng.below(nstores as u64) as usize;
                col.push(Ok((ts2, rng.below(sizes[ts2] as u64) as usize)));
            } else {
                col.push(Err(rng.below(200)));
            }
        }
        p2.push(col);
    }
    let dir = ctx.work.join(format!("dp-{}", case));
    std::fs::create_dir_all(&dir).unwrap();
    let path = dir.join("dir.jbkd");
    let label = format!("multi-store-{}-{:?}-{:?}{}", nstores, sizes, sorted, if refkey0 { "-refkey" } else { "" });
    let built = util::guarded(|| -> Result<Vec<Vec<u32>>, String> {
        let mut creator = jbk::creator::DirectoryPackCreator::new(jbk::PackId::from(0), util::VENDOR, Default::default());
        let vows: Vec<Vec<jbk::Vow<jbk::EntryIdx>>> = sizes.iter().map(|n| (0..*n).map(|_| jbk::Vow::new(jbk::EntryIdx::from(0))).collect()).collect();
        let binds: Vec<Vec<jbk::Bound<jbk::EntryIdx>>> = vows.iter().map(|v| v.iter().map(|x| x.bind()).collect()).collect();
        let mut handles: Vec<Vec<jbk::Bound<jbk::EntryIdx>>> = vec![];
        let mut vows = vows;
        for s in 0..nstores {
            let sch = schema::Schema::new(
                schema::CommonProperties::new(vec![schema::Property::new_uint("p0"), schema::Property::new_uint("p1"), schema::Property::new_uint("p2")]),
                vec![],
                if s == 0 && refkey0 { Some(vec!["p1", "p0"]) } else if sorted[s] { Some(vec!["p0"]) } else { None },
            );
            let mut store: Box<jbk::creator::EntryStore<&'static str, &'static str, BE>> = Box::new(jbk::creator::EntryStore::new(sch, None));
            let mut hs = vec![];
            let my_vows = std::mem::take(&mut vows[s]);
            for (e, vow) in my_vows.into_iter().enumerate() {
                let mut values: std::collections::HashMap<&'static str, jbk::Value> = Default::default();
                values.insert("p0", jbk::Value::Unsigned(keys[s][e]));
                let (ts, te) = p1[s][e];
                values.insert("p1", jbk::Value::UnsignedWord(binds[ts][te].clone().into()));
                values.insert("p2", match p2[s][e] {
                    Ok((ts, te)) => jbk::Value::UnsignedWord(binds[ts][te].clone().into()),
                    Err(v) => jbk::Value::Unsigned(v),
                });
                let be = BE::new_from_schema_idx(&store.schema, vow, None, values);
                hs.push(store.add_entry(be));
            }
            handles.push(hs);
            let sid = creator.add_entry_store(store);
            creator.create_index(["s0", "s1", "s2"][s], Default::default(), 0.into(), sid, (sizes[s] as u32).into(), jbk::EntryIdx::from(0).into());
        }
        let mut file = std::fs::OpenOptions::new().read(true).write(true).create(true).truncate(true).open(&path).map_err(|e| format!("io:{e}"))?;
        let fin = creator.finalize().map_err(|e| format!("io:{e}"))?;
        fin.write(&mut file).map_err(|e| format!("write:{e}"))?;
        Ok(handles.iter().map(|hs| hs.iter().map(|b| b.get().into_u32()).collect()).collect())
    });
    let bounds = match built {
        Ok(Ok(b)) => b,
        other => {
            ctx.fail(case, "create", &format!("{}: creation failed: {:?}", label, other.err().or(None)));
            ctx.case_done(case, true);
            return;
        }
    };
    // final positions per store
    let mut pos_of: Vec<Vec<u64>> = vec![];
    let mut orders: Vec<Vec<usize>> = vec![];
    for s in 0..nstores {
        let mut order: Vec<usize> = (0..sizes[s]).collect();
        if s == 0 && refkey0 {
            order.sort_by_key(|i| (p1[0][*i].1, keys[0][*i]));
        } else if sorted[s] {
            order.sort_by_key(|i| keys[s][*i]);
        }
        let mut p = vec![0u64; sizes[s]];
        for (pos, e) in order.iter().enumerate() {
            p[*e] = pos as u64;
        }
        pos_of.push(p);
        orders.push(order);
    }
    'b: for s in 0..nstores {
        for e in 0..sizes[s] {
            if bounds[s][e] as u64 != pos_of[s][e] {
                ctx.fail(case, "bound", &format!("{}: handle of entry #{e} of store {s} (key {}) reports position {}; its key is stored at position {}", label, keys[s][e], bounds[s][e], pos_of[s][e]));
                break 'b;
            }
        }
    }
    // expected dump in the dp.decode format: one index per store
    let mut parts = vec![];
    for s in 0..nstores {
        let head = format!("idx:{}:{}:{}:{}:{}", crate::out::hex(["s0", "s1", "s2"][s].as_bytes()), s, sizes[s], 0, 0);
        let mut es = vec![];
        for &e in &orders[s] {
            let (ts, te) = p1[s][e];
            let v2 = match p2[s][e] { Ok((ts, te)) => pos_of[ts][te], Err(v) => v };
            es.push(format!("ok v-,{}=u{},{}=u{},{}=u{}", crate::out::hex(b"p0"), keys[s][e], crate::out::hex(b"p1"), pos_of[ts][te], crate::out::hex(b"p2"), v2));
        }
        parts.push(format!("{}{{{}}}", head, es.join(";")));
    }
    let expected = format!("ok check=true {}", parts.join(" "));
    let dspec = DirSpec {
        stores: vec![],
        common: vec![("p0", PDef::UInt), ("p1", PDef::UInt), ("p2", PDef::UInt)],
        variants: vec![],
        sort_keys: None,
        entries: vec![],
        indexes: (0..nstores).map(|s| IndexSpec { name: ["s0", "s1", "s2"][s].into(), offset: 0, count: sizes[s] as u32 }).collect(),
        label: label.clone(),
    };
    let got = dirgen::dump(&path, &dspec);
    if got != expected {
        let ge: Vec<&str> = got.split(|c| c == ';' || c == '{' || c == '}').collect();
        let ee: Vec<&str> = expected.split(|c| c == ';' || c == '{' || c == '}').collect();
        let k = ge.iter().zip(ee.iter()).position(|(a, b)| a != b).unwrap_or(0);
        ctx.fail(case, "reference-value", &format!("{}: field #{} reads `{}`, expected `{}` (p1/p2 = final positions of the referenced entries in their own stores)", label, k, ge.get(k).unwrap_or(&"").chars().take(120).collect::<String>(), ee.get(k).unwrap_or(&"").chars().take(120).collect::<String>()));
    }
    let size = std::fs::metadata(&path).map(|m| m.len()).unwrap_or(0);
    ctx.emit(case, &format!("dp.decode {} 0 {}", path.display(), size), &got);
    ctx.count("label:multi-store");
    ctx.add("entries", sizes.iter().sum::<usize>() as u64);
    ctx.sample(label.clone());
    ctx.case_done(fnv(label.as_bytes()) ^ case, true);
}
