//! C08 — the created container does not depend on how compression workers are scheduled.
//!
//! Packs with many clusters (raw and compressed mixed; more and fewer clusters than the
//! back-pressure limit 2×workers) are created while the public `Progress` callbacks — called on
//! the main thread (new_cluster), on each worker (handle_cluster, compressed) and on the writer
//! (handle_cluster raw, handle_cluster_written) — sleep for seeded durations, for worker counts
//! 1..15 (CPU affinity mask of the creating thread; jubako derives the worker count from
//! available_parallelism).  Oracle: creation terminates within a wall-clock bound, every address
//! reads back its bytes, the pack verifies.  Model: the observed event history must satisfy the
//! pipeline's order constraints (`hist.pipeline`), the writer's completion order must be the order of
//! the clusters in the file, and the Lean layout for that arrival order must reproduce the file
//! byte for byte (`cp.encode`).
use crate::c01::{self, CItem, PackSpec, Src};
use crate::out::Ctx;
use crate::rng::Rng;
use crate::util::{self, Comp, Hint};
use jubako as jbk;
use std::sync::{Arc, Mutex};

pub struct Perturb {
    rng: Mutex<Rng>,
    pub events: Mutex<Vec<String>>,
    max_us: u64,
}

impl Perturb {
    fn nap(&self, scale: u64) {
        let us = {
            let mut r = self.rng.lock().unwrap();
            match r.below(4) {
                0 => 0,
                1 => r.below(50),
                _ => r.below(self.max_us * scale + 1),
            }
        };
        if us > 0 {
            std::thread::sleep(std::time::Duration::from_micros(us));
        } else {
            std::thread::yield_now();
        }
    }
}

impl jbk::creator::Progress for Perturb {
    fn new_cluster(&self, idx: u32, compressed: bool) {
        self.events.lock().unwrap().push(format!("n{}{}", idx, if compressed { "c" } else { "r" }));
        self.nap(1);
    }
    fn handle_cluster(&self, idx: u32, compressed: bool) {
        self.events.lock().unwrap().push(format!("h{}{}", idx, if compressed { "c" } else { "r" }));
        self.nap(if compressed { 4 } else { 1 });
    }
    fn handle_cluster_written(&self, idx: u32) {
        self.events.lock().unwrap().push(format!("w{}", idx));
        self.nap(1);
    }
}

fn set_cpus(n: usize) -> bool {
    unsafe {
        let mut set: libc::cpu_set_t = std::mem::zeroed();
        libc::CPU_ZERO(&mut set);
        for i in 0..n {
            libc::CPU_SET(i, &mut set);
        }
        libc::sched_setaffinity(0, std::mem::size_of::<libc::cpu_set_t>(), &set) == 0
    }
}

pub fn run(ctx: &mut Ctx) {
    let mut rng = Rng::new(ctx.seed ^ 0xC08);
    let total_cpus = std::thread::available_parallelism().map(|n| n.get()).unwrap_or(1);
    let n = if ctx.quick() { 14 } else { 150 };
    for case in 0..n as u64 {
        let mut crng = rng.fork(case);
        if !ctx.wants(case) {
            continue;
        }
        // worker count = max(cpus, 2) - 1
        let cpus = if ctx.quick() { [1usize, 2, 3, 4, 6, 9, 16][(case % 7) as usize] } else { 1 + (case as usize % 16) };
        let cpus = std::cmp::min(cpus, total_cpus);
        let workers = std::cmp::max(cpus, 2) - 1;
        // clusters: raw clusters split at 4095 blobs; compressed ones at 4 MiB: use many mid-size
        // compressible contents with hint Yes, interleaved with raw ones
        let comp = *crng.pick(&[Comp::Zstd(1), Comp::Lz4(1), Comp::Zstd(-3), Comp::Lzma(0)]);
        let want_clusters = match case % 3 {
            0 => 1 + crng.below(workers as u64) as usize,            // fewer than the limit
            1 => 2 * workers + 2 + crng.below(6) as usize,          // more than the back-pressure limit
            _ => 2 + crng.below(3 * workers as u64 + 3) as usize,
        };
        let mut items = vec![];
        let want_clusters = if ctx.quick() { std::cmp::min(want_clusters, 22) } else { want_clusters };
        // clusters are closed by the 4095-blob rule (tiny contents) — cheap to produce in numbers —
        // except in some thorough cases where the 4 MiB rule is used
        let by_size = !ctx.quick() && case % 10 == 9;
        for k in 0..want_clusters {
            if by_size {
                for _ in 0..4 {
                    let len = 1_100_000 + crng.below(150_000) as usize;
                    items.push(CItem { data: crng.low_entropy(len), hint: Hint::Yes, src: Src::Mem });
                }
            } else {
                let hint = if k % 3 == 2 { Hint::No } else { Hint::Yes };
                for _ in 0..4095 {
                    let len = crng.below(3) as usize;
                    items.push(CItem { data: crng.low_entropy(len), hint, src: Src::Mem });
                }
            }
            if k % 2 == 0 {
                for _ in 0..crng.below(4) {
                    let len = crng.below(3000) as usize;
                    items.push(CItem { data: crng.bytes(len), hint: *crng.pick(&[Hint::No, Hint::Yes]), src: Src::Mem });
                }
            }
        }
        // every fourth pack ends with a few empty contents in a cluster of their own (the open cluster of
        // the other kind holds nothing else at finalize)
        if case % 4 == 3 {
            let last = items.last().map(|i| i.hint).unwrap_or(Hint::Yes);
            let other = if last == Hint::Yes { Hint::No } else { Hint::Yes };
            // close the current cluster of that kind first: 4095 tiny contents of the other kind …
            for _ in 0..4095 {
                items.push(CItem { data: crng.low_entropy(1), hint: other, src: Src::Mem });
            }
            // … then only empty ones
            for _ in 0..(1 + crng.below(3)) {
                items.push(CItem { data: vec![], hint: other, src: Src::Mem });
            }
        }
        let spec = PackSpec { comp, items, dedup: false, packaging: None, label: format!("pipeline-w{}-c{}", workers, want_clusters) };
        let perturb = Arc::new(Perturb { rng: Mutex::new(crng.fork(77)), events: Mutex::new(vec![]), max_us: if ctx.quick() { 1500 } else { 4000 } });
        set_cpus(cpus);
        let t0 = std::time::Instant::now();
        let wd = util::watchdog(if ctx.quick() { 240 } else { 600 }, format!("creation + read back of case {} ({} workers, ~{} clusters)", case, workers, want_clusters));
        let built = c01::run_one(ctx, case, &spec, &mut crng, perturb.clone());
        drop(wd);
        let dt = t0.elapsed();
        set_cpus(total_cpus);
        if dt.as_secs() > 300 {
            ctx.fail(case, "slow", &format!("creation + read back took {:?}", dt));
        }
        let events = perturb.events.lock().unwrap().clone();
        if let Some(b) = built {
            ctx.emit(case, &format!("hist.pipeline {} {} {} {}", b.file.display(), b.origin, b.size, events.join(",")), "ok");
        }
        let written: Vec<&String> = events.iter().filter(|e| e.starts_with('w')).collect();
        let sorted = written.windows(2).all(|w| w[0][1..].parse::<u32>().unwrap_or(0) < w[1][1..].parse::<u32>().unwrap_or(0));
        ctx.count(if sorted { "arrival:in-id-order" } else { "arrival:reordered" });
        ctx.count(&format!("workers:{}", workers));
        ctx.add("events", events.len() as u64);
        ctx.sample(format!("workers={} clusters~{} events: {}", workers, want_clusters, events.iter().take(40).cloned().collect::<Vec<_>>().join(",")));
    }
}
