//! C04 — created packs verify; altering checksummed bytes makes the check fail.
//!
//! For generated containers in the three packagings: (pristine) every pack, every file as a
//! container pack and the whole container verify; (family 1) byte alterations at every position of
//! every pack's [0, checkInfoPos + 37) × masks on small containers, sampled on larger ones, plus
//! multi-byte alterations; (family 2) alterations inside CRC-protected blocks *with the block CRC
//! recomputed* (pack header, manifest header, pack infos incl. the exempt location bytes) so that
//! the CRC layer does not hide a hole in the blake3 range or in the manifest mask.
//! Oracle: a pack whose checked range was altered never checks `true` (per pack and container-wide).
//! Model: the Lean `packCheck`/`manifestCheck` (own CRC-32C, own blake3, own mask) must give the
//! same true / not-true verdict on every altered pack, including "still true" on exempt bytes.
use crate::container::{self, Mode, PackAt};
use crate::out::{fnv, Ctx};
use crate::rng::Rng;
use crate::util::{self, Comp};
use jubako as jbk;
use jbk::Pack;

/// the verdict of one handle asked twice: a handle which answered "not verified" (false or an error) must not
/// answer `true` when asked again — if it does, the verdict reported is that `true`
fn ask_twice(mut check: impl FnMut() -> Result<bool, jbk::Error>) -> Result<bool, jbk::Error> {
    let first = check();
    let second = check();
    match (&first, &second) {
        (Ok(true), _) => first,
        (_, Ok(true)) => second,
        _ => first,
    }
}

fn pack_check(kind: u8, bytes: Vec<u8>) -> String {
    let r = util::guarded(|| -> Result<bool, jbk::Error> {
        match kind {
            b'm' => {
                let p = jbk::reader::ManifestPack::new(bytes.into())?;
                ask_twice(|| p.check())
            }
            b'd' => {
                let p = jbk::reader::DirectoryPack::new(bytes.into())?;
                ask_twice(|| p.check())
            }
            b'c' => {
                let p = jbk::reader::ContentPack::new(bytes.into())?;
                ask_twice(|| p.check())
            }
            _ => Ok(true),
        }
    });
    match r {
        Ok(Ok(true)) => "true".into(),
        Ok(Ok(false)) => "false".into(),
        Ok(Err(e)) => format!("err:{}", util::err_kind(&e)),
        Err(p) => p,
    }
}

fn container_check(entry: &std::path::Path) -> String {
    let r = util::guarded(|| -> Result<bool, jbk::Error> {
        let c = jbk::reader::Container::new(entry)?;
        ask_twice(|| c.check())
    });
    match r {
        Ok(Ok(true)) => "true".into(),
        Ok(Ok(false)) => "false".into(),
        Ok(Err(e)) => format!("err:{}", util::err_kind(&e)),
        Err(p) => p,
    }
}

fn file_check(path: &std::path::Path) -> String {
    let r = util::guarded(|| -> Result<bool, jbk::Error> {
        let p = jbk::tools::open_pack(path)?;
        ask_twice(|| p.check())
    });
    match r {
        Ok(Ok(true)) => "true".into(),
        Ok(Ok(false)) => "false".into(),
        Ok(Err(e)) => format!("err:{}", util::err_kind(&e)),
        Err(p) => p,
    }
}

fn coarse(v: &str) -> &'static str {
    if v == "true" {
        "true"
    } else {
        "nottrue"
    }
}

struct Alt {
    patches: Vec<(usize, u8)>, // absolute file position, xor mask
    /// is the verdict required to be not-true by the property?
    must_fail: bool,
    family: &'static str,
}

fn recompute_crc(bytes: &[u8], block_start: usize, data_len: usize, patches: &mut Vec<(usize, u8)>) {
    // apply the current patches to a copy of the block, compute the new CRC, add patches for it
    let mut blk = bytes[block_start..block_start + data_len + 4].to_vec();
    for (p, x) in patches.iter() {
        if *p >= block_start && *p < block_start + data_len {
            blk[p - block_start] ^= x;
        }
    }
    let crc = container::crc32c(&blk[..data_len]).to_be_bytes();
    for i in 0..4 {
        let x = blk[data_len + i] ^ crc[i];
        if x != 0 {
            patches.push((block_start + data_len + i, x));
        }
    }
}

pub fn run(ctx: &mut Ctx) {
    let mut rng = Rng::new(ctx.seed ^ 0xC04);
    let mut case = 0u64;
    let rounds = if ctx.quick() { 1 } else { 4 };
    for round in 0..rounds {
        for (mi, mode) in Mode::ALL.iter().enumerate() {
            for comp in [Comp::None, Comp::Zstd(3), Comp::Lz4(1), Comp::Lzma(1)] {
                if ctx.quick() && !(comp == Comp::None || (comp == Comp::Zstd(3) && mi == 0) || (comp == Comp::Lz4(1) && mi == 1) || (comp == Comp::Lzma(1) && mi == 2)) {
                    continue;
                }
                let my = case;
                case += 1;
                if !ctx.wants(my) {
                    continue;
                }
                let mut crng = rng.fork(my);
                let small = round == 0 && comp == Comp::None;
                let mut spec = container::random_spec(&mut crng, *mode, comp, if small { 2 } else { 6 }, if small { 0 } else { 1 });
                if !small {
                    // pack ids are the caller's choice: dense (2) and sparse (3, 8) ids of the extra pack
                    spec.id_gap = [1u16, 6, 0][(my % 3) as usize];
                    ctx.count(&format!("extra_pack_id:{}", spec.pack_id(2)));
                }
                if small {
                    for it in spec.items.iter_mut() {
                        it.data.truncate(40);
                        it.name.truncate(6);
                    }
                }
                let dir = ctx.work.join(format!("c04-{}", my));
                std::fs::create_dir_all(&dir).unwrap();
                let entry = match util::guarded(|| container::build(&dir, "c", &spec)) {
                    Ok(Ok(p)) => p,
                    other => {
                        ctx.fail(my, "create", &format!("creation failed: {:?}", other));
                        continue;
                    }
                };
                let mut files: Vec<std::path::PathBuf> = std::fs::read_dir(&dir).unwrap().filter_map(|e| e.ok().map(|e| e.path())).filter(|p| p.is_file()).collect();
                files.sort();
                // ---- pristine
                let cc = container_check(&entry);
                if cc != "true" {
                    ctx.fail(my, "pristine-container", &format!("Container::check on a freshly created {} container = {}", mode.name(), cc));
                }
                let mut n_alt = 0u64;
                for file in &files {
                    let orig = std::fs::read(file).unwrap();
                    let fc = file_check(file);
                    if fc != "true" {
                        ctx.fail(my, "pristine-file", &format!("ContainerPack::check of {} = {}", file.file_name().unwrap().to_string_lossy(), fc));
                    }
                    let packs: Vec<PackAt> = container::packs_in_file(&orig);
                    let pristine_path = dir.join(format!("{}.pristine", file.file_name().unwrap().to_string_lossy()));
                    std::fs::write(&pristine_path, &orig).unwrap();
                    for p in &packs {
                        let pv = pack_check(p.kind, orig[p.origin..p.origin + p.size].to_vec());
                        if pv != "true" {
                            ctx.fail(my, "pristine-pack", &format!("freshly created pack kind {} does not verify: {}", p.kind as char, pv));
                        }
                        ctx.emit(my, &format!("pk.check {} {} {} {} -", pristine_path.display(), p.origin, p.size, p.kind as char), coarse(&pv));
                        // cross-check the driver's blake3 with the crate on the checked range
                        let h = blake3::hash(&orig[p.origin..p.origin + p.check_info_pos]);
                        ctx.emit(my, &format!("b3 {} {} {}", pristine_path.display(), p.origin, p.check_info_pos), &crate::out::hex(h.as_bytes()));
                        ctx.count(&format!("packs:{}", p.kind as char));

                        // ---- alterations
                        let mut alts: Vec<Alt> = vec![];
                        let checked_end = p.check_info_pos + 37;
                        let exhaustive = small && checked_end <= 2500;
                        // manifest geometry
                        let (mbase, mcount) = if p.kind == b'm' {
                            let n = u16::from_le_bytes([orig[p.origin + 64], orig[p.origin + 65]]) as usize;
                            (p.check_info_pos - n * 256, n)
                        } else {
                            (0, 0)
                        };
                        let exempt = |rel: usize| -> bool {
                            p.kind == b'm' && rel >= mbase && rel < mbase + mcount * 256 && (rel - mbase) % 256 >= 38
                        };
                        // family 1: single bytes, no CRC recompute
                        let positions: Vec<usize> = if exhaustive {
                            (0..checked_end).collect()
                        } else {
                            let k = if ctx.quick() { 60 } else { 400 };
                            let mut v: Vec<usize> = (0..k).map(|_| crng.below(checked_end as u64) as usize).collect();
                            v.extend_from_slice(&[0, 3, 9, 10, 32, 40, 59, 60, 63, 64, 127, 128, p.check_info_pos - 1, p.check_info_pos, p.check_info_pos + 1, p.check_info_pos + 32, p.check_info_pos + 33, checked_end - 1]);
                            v
                        };
                        for rel in positions {
                            let masks: &[u8] = if exhaustive { &[0x01, 0x80, 0xFF] } else { &[0x01, 0xFF] };
                            for m in masks {
                                alts.push(Alt { patches: vec![(p.origin + rel, *m)], must_fail: !exempt(rel), family: "single" });
                            }
                        }
                        // family 1b: multi-byte
                        for _ in 0..(if ctx.quick() { 10 } else { 60 }) {
                            let rel = crng.below(checked_end as u64) as usize;
                            let len = 2 + crng.below(40) as usize;
                            let mut patches = vec![];
                            let mut any_required = false;
                            for i in 0..len {
                                if rel + i < checked_end {
                                    let x = 1 + crng.below(255) as u8;
                                    patches.push((p.origin + rel + i, x));
                                    if !exempt(rel + i) {
                                        any_required = true;
                                    }
                                }
                            }
                            alts.push(Alt { patches, must_fail: any_required, family: "multi" });
                        }
                        // family 2: CRC-recomputed alterations in the pack header block
                        for rel in [4usize, 10, 25, 26, 27, 48, 59] {
                            let mut patches = vec![(p.origin + rel, 0x01u8)];
                            recompute_crc(&orig, p.origin, 60, &mut patches);
                            alts.push(Alt { patches, must_fail: true, family: "crcfix-header" });
                        }
                        // family 2: kind-specific header block at 64 (60 data bytes + CRC)
                        for rel in [64usize, 66, 74, 100, 123] {
                            let mut patches = vec![(p.origin + rel, 0x10u8)];
                            recompute_crc(&orig, p.origin + 64, 60, &mut patches);
                            alts.push(Alt { patches, must_fail: true, family: "crcfix-header2" });
                        }
                        if p.kind == b'm' {
                            for k in 0..mcount {
                                let bo = p.origin + mbase + k * 256;
                                // checked part of the pack info, CRC fixed up: must fail
                                let qs: Vec<usize> = if exhaustive { (0..38).collect() } else { vec![0, 15, 16, 24, 32, 33, 35, 36, 37] };
                                for q in qs {
                                    if q == 34 {
                                        continue; // pack kind byte: another kind letter changes parsing, covered by "single"
                                    }
                                    let mut patches = vec![(bo + q, 0x01u8)];
                                    recompute_crc(&orig, bo, 252, &mut patches);
                                    alts.push(Alt { patches, must_fail: true, family: "crcfix-packinfo-checked" });
                                }
                                // exempt part (location): padding byte, ascii content byte, length byte — check stays true
                                let loclen = orig[bo + 38] as usize;
                                if loclen < 213 {
                                    // a byte of padding
                                    let mut patches = vec![(bo + 39 + loclen + crng.below((213 - loclen) as u64) as usize, 0x41u8)];
                                    recompute_crc(&orig, bo, 252, &mut patches);
                                    alts.push(Alt { patches, must_fail: false, family: "crcfix-location" });
                                    // longer location (padding zeros become part of it)
                                    let newlen = loclen + 1 + crng.below((213 - loclen) as u64) as usize;
                                    let mut patches = vec![(bo + 38, (loclen as u8) ^ (newlen as u8))];
                                    recompute_crc(&orig, bo, 252, &mut patches);
                                    alts.push(Alt { patches, must_fail: false, family: "crcfix-location" });
                                }
                                {
                                    // a length byte beyond the 213-byte field, CRC fixed up: the pack info no longer parses
                                    // (a format error of the p-string read — never a panic), so the manifest does not open
                                    let newlen = 214 + crng.below(42) as usize;
                                    let mut patches = vec![(bo + 38, (loclen as u8) ^ (newlen as u8))];
                                    recompute_crc(&orig, bo, 252, &mut patches);
                                    alts.push(Alt { patches, must_fail: false, family: "crcfix-location-overlong" });
                                }
                                if loclen > 0 {
                                    let i = crng.below(loclen as u64) as usize;
                                    let old = orig[bo + 39 + i];
                                    let mut patches = vec![(bo + 39 + i, old ^ b'q')];
                                    if old != b'q' {
                                        recompute_crc(&orig, bo, 252, &mut patches);
                                        alts.push(Alt { patches, must_fail: false, family: "crcfix-location" });
                                    }
                                }
                            }
                        }
                        // family 3: stored hash altered, CRC of the check block fixed up
                        for rel in [1usize, 17, 32] {
                            let mut patches = vec![(p.origin + p.check_info_pos + rel, 0x04u8)];
                            recompute_crc(&orig, p.origin + p.check_info_pos, 33, &mut patches);
                            alts.push(Alt { patches, must_fail: true, family: "crcfix-hash" });
                        }

                        for a in alts {
                            let mut altered = orig.clone();
                            for (pos, x) in &a.patches {
                                altered[*pos] ^= x;
                            }
                            let pv = pack_check(p.kind, altered[p.origin..p.origin + p.size].to_vec());
                            let patch_str = a.patches.iter().map(|(p, x)| format!("{}:{}", p, x)).collect::<Vec<_>>().join(",");
                            if a.must_fail && pv == "true" {
                                ctx.fail(my, &format!("undetected-{}-{}", a.family, p.kind as char), &format!("pack kind {} at {} of {} ({}): check() = true after altering {}  (checkInfoPos {})", p.kind as char, p.origin, file.file_name().unwrap().to_string_lossy(), mode.name(), patch_str, p.check_info_pos));
                            }
                            if pv.starts_with("panic") {
                                ctx.count("impl_panics_on_altered_pack");
                            }
                            // container-wide verdict on a subset (needs the file on disk)
                            let do_container = exhaustive && a.family == "single" && a.patches[0].1 == 0xFF || a.family.starts_with("crcfix") || (a.family == "multi") || (!exhaustive && a.family == "single" && crng.chance(1, 6));
                            if do_container {
                                std::fs::write(file, &altered).unwrap();
                                let cv = container_check(&entry);
                                // A CRC-consistent change of the uuid in the header of a pack that lives
                                // in its own file changes the pack's *identity*: the container no longer
                                // finds the pack it lists (C11: identity is the uuid) and its check covers
                                // the packs that are present.  Not a C04 requirement at container level
                                // (the per-pack check above still has to fail).
                                let rel0 = a.patches[0].0 - p.origin;
                                let identity_change = a.family == "crcfix-header" && (10..26).contains(&rel0) && *file != entry;
                                if identity_change {
                                    ctx.count("container_level_identity_changes_skipped");
                                }
                                if a.must_fail && cv == "true" && !identity_change {
                                    ctx.fail(my, &format!("undetected-container-{}-{}", a.family, p.kind as char), &format!("Container::check() = true after altering {} in pack kind {} of {} ({})", patch_str, p.kind as char, file.file_name().unwrap().to_string_lossy(), mode.name()));
                                }
                                if cv.starts_with("panic") {
                                    ctx.count("impl_panics_on_altered_container");
                                }
                                ctx.count("container_level_verdicts");
                                // the check of the *file* as a whole (`tools::open_pack(file).check()`,
                                // what `jbk check` runs): a file holding several packs visits them in an
                                // order that changes with every opening, so ask several times
                                if a.must_fail {
                                    for round in 0..6 {
                                        let fv = file_check(file);
                                        ctx.count("file_level_verdicts");
                                        if fv == "true" {
                                            ctx.fail(my, &format!("undetected-file-{}-{}", a.family, p.kind as char), &format!("open_pack({}).check() = true (opening #{}) after altering {} in pack kind {} ({}, {} packs in the file)", file.file_name().unwrap().to_string_lossy(), round, patch_str, p.kind as char, mode.name(), packs.len()));
                                            break;
                                        }
                                    }
                                }
                            }
                            ctx.emit(my, &format!("pk.check {} {} {} {} {}", pristine_path.display(), p.origin, p.size, p.kind as char, patch_str), coarse(&pv));
                            ctx.count(&format!("alt:{}", a.family));
                            ctx.count(&format!("verdict:{}", if pv.starts_with("err") || pv.starts_with("panic") { pv.split(':').next().unwrap().to_string() } else { pv.clone() }));
                            n_alt += 1;
                        }
                        std::fs::write(file, &orig).unwrap();
                    }
                }
                ctx.sample(format!("{} {} container, {} items, {} files: {} alterations over its packs", mode.name(), comp.name(), spec.items.len(), files.len(), n_alt));
                ctx.add("alterations", n_alt);
                ctx.case_done(fnv(format!("{:?}", spec).as_bytes()), n_alt > 0);
                // keep pristine copies until the driver has run: they live in ctx.work and are
                // removed by the engine together with the out dir
            }
        }
        // ---- manifests listing many packs (checked manifest data beyond the 8 KiB and 64 KiB buffer
        // sizes of the readers involved): pristine verdicts of every pack, file and of the container
        let many: Vec<(Mode, u16)> = if ctx.quick() {
            vec![(Mode::ALL[(ctx.seed % 3) as usize], 27 + (ctx.seed % 7) as u16), (Mode::ALL[((ctx.seed + 1) % 3) as usize], 33 + (ctx.seed % 11) as u16)]
        } else {
            let mut v = vec![];
            for (mi, m) in Mode::ALL.iter().enumerate() {
                for e in [26u16, 27, 28, 29, 30, 31, 32, 33, 34, 60, 255] {
                    if e < 200 || (mi + round) % 3 == 0 {
                        v.push((*m, e + round as u16));
                    }
                }
            }
            v
        };
        for (mode, extra) in many {
            let my = case;
            case += 1;
            if !ctx.wants(my) {
                continue;
            }
            let mut crng = rng.fork(my);
            let mut spec = container::random_spec(&mut crng, mode, Comp::None, 4, extra);
            spec.id_gap = 0;
            for it in spec.items.iter_mut() {
                it.data.truncate(64);
            }
            let dir = ctx.work.join(format!("c04-{}", my));
            std::fs::create_dir_all(&dir).unwrap();
            let entry = match util::guarded(|| container::build(&dir, "c", &spec)) {
                Ok(Ok(p)) => p,
                other => {
                    ctx.fail(my, "create", &format!("creation of a container with {} extra packs failed: {:?}", extra, other));
                    continue;
                }
            };
            let cc = container_check(&entry);
            if cc != "true" {
                ctx.fail(my, "pristine-container", &format!("Container::check on a freshly created {} container listing {} packs = {}", mode.name(), extra + 3, cc));
            }
            let mut files: Vec<std::path::PathBuf> = std::fs::read_dir(&dir).unwrap().filter_map(|e| e.ok().map(|e| e.path())).filter(|p| p.is_file()).collect();
            files.sort();
            let mut npacks = 0u64;
            for file in &files {
                let orig = std::fs::read(file).unwrap();
                let fc = file_check(file);
                if fc != "true" {
                    ctx.fail(my, "pristine-file", &format!("ContainerPack::check of {} = {} ({} packs listed)", file.file_name().unwrap().to_string_lossy(), fc, extra + 3));
                }
                for p in &container::packs_in_file(&orig) {
                    let pv = pack_check(p.kind, orig[p.origin..p.origin + p.size].to_vec());
                    if pv != "true" {
                        ctx.fail(my, "pristine-pack", &format!("freshly created pack kind {} does not verify: {} ({} packs listed in the manifest)", p.kind as char, pv, extra + 3));
                    }
                    if p.kind == b'm' {
                        ctx.emit(my, &format!("pk.check {} {} {} {} -", file.display(), p.origin, p.size, p.kind as char), coarse(&pv));
                        ctx.count(&format!("manifest_checked_bytes:{}k", p.check_info_pos / 1024));
                    }
                    npacks += 1;
                }
            }
            ctx.sample(format!("{} container listing {} packs: pristine verdicts of {} packs", mode.name(), extra + 3, npacks));
            ctx.case_done(fnv(format!("{:?}", spec).as_bytes()), true);
        }
        // ---- a content pack whose checked range spans several buffers of any plausible size (> 4 MiB, not a
        // multiple of it): single-byte alterations spread over the whole range, the last bytes included.  Oracle
        // only (the model's blake3 is not run over megabytes): the pack must verify when pristine and must not
        // verify after any of the alterations.
        if round == 0 {
            let my = case;
            case += 1;
            if ctx.wants(my) {
                let mut crng = rng.fork(my);
                let len = 4 * 1024 * 1024 + 600_000 + crng.below(900_000) as usize;
                let items = vec![(crng.bytes(len), util::Hint::No), (crng.bytes(1000), util::Hint::No)];
                let path = ctx.work.join(format!("c04-big-{}.jbkc", my));
                match util::guarded(|| util::build_content_pack(&path, Comp::None, &items)) {
                    Ok(Ok(_)) => {
                        let orig = std::fs::read(&path).unwrap();
                        let packs = container::packs_in_file(&orig);
                        if let Some(p) = packs.iter().find(|p| p.kind == b'c') {
                            let pv = pack_check(b'c', orig[p.origin..p.origin + p.size].to_vec());
                            if pv != "true" {
                                ctx.fail(my, "pristine-pack", &format!("freshly created content pack of {} bytes does not verify: {}", p.size, pv));
                            }
                            let cip = p.check_info_pos;
                            let mut positions: Vec<usize> = vec![64 + 200, cip / 2, cip - 1, cip - 2, cip - 70, cip - 4097, cip - 65537];
                            for k in 1..=(cip / (1 << 20)) {
                                positions.push(k * (1 << 20) - 1);
                                positions.push(k * (1 << 20));
                                positions.push(k * (1 << 20) + 1 + crng.below(1000) as usize);
                            }
                            for _ in 0..6 {
                                positions.push(128 + crng.below((cip - 200) as u64) as usize);
                            }
                            let mut n_alt = 0u64;
                            for pos in positions {
                                if pos < 128 || pos >= cip {
                                    continue;
                                }
                                let mut b = orig[p.origin..p.origin + p.size].to_vec();
                                b[pos] ^= 0x40;
                                let v = pack_check(b'c', b);
                                n_alt += 1;
                                if v == "true" {
                                    ctx.fail(my, "undetected-big-pack", &format!("content pack with a checked range of {} bytes: check() = true after altering byte {} (mask 40)", cip, pos));
                                }
                            }
                            ctx.add("alterations", n_alt);
                            ctx.count("big_pack_cases");
                            ctx.sample(format!("content pack with a checked range of {} bytes: {} single-byte alterations spread over it, all must be detected", cip, n_alt));
                        } else {
                            ctx.fail(my, "framing", "no content pack found in the big pack file");
                        }
                    }
                    other => ctx.fail(my, "create", &format!("creation of a big content pack failed: {:?}", other.err())),
                }
                ctx.case_done(fnv(b"c04-big") ^ my, true);
                let _ = std::fs::remove_file(&path);
            }
        }
    }
}
