//! C01 / C16 / C14(content) — content packs.
//!
//! One generator of insertion sequences (sizes at the offset-width boundaries, empty contents,
//! low/high entropy, duplicates, hints yes/no/detect, sources memory / file / file sub-range,
//! with and without the deduplicating adder, compression none/lz4/lzma/zstd × levels, bare
//! `ContentPackCreator` or `BasicCreator` packagings).  Per pack:
//!   oracle C01: every returned address reads back its bytes; count; one-past-the-end = none
//!   oracle C16: hint No / uncompressed pack => raw cluster holding the bytes verbatim; hint Yes in a
//!               compressing pack => cluster with the pack's compression byte; dedup => same address,
//!               stored once
//!   model:  `cp.decode` (Lean decoder on the produced bytes recovers sizes/hashes/compression
//!           bytes and verifies CRCs + blake3) and `cp.encode` (Lean creator model + layout
//!           reproduces the file byte for byte given arrival order, uuid and compressed payloads)
use crate::container::{self, Mode};
use crate::cpdec;
use crate::out::{fnv, Ctx};
use crate::rng::Rng;
use crate::util::{self, Comp, Hint};
use jubako as jbk;
use jbk::creator::ContentAdder;
use std::io::Read;
use std::path::Path;

#[derive(Clone, Copy, Debug, PartialEq)]
pub enum Src {
    Mem,
    File,
    FileRange,
}

#[derive(Clone, Debug)]
pub struct CItem {
    pub data: Vec<u8>,
    pub hint: Hint,
    pub src: Src,
}

#[derive(Clone, Debug)]
pub struct PackSpec {
    pub comp: Comp,
    pub items: Vec<CItem>,
    pub dedup: bool,
    /// None = bare ContentPackCreator; Some(mode) = through BasicCreator
    pub packaging: Option<Mode>,
    pub label: String,
}

pub fn comps(rng: &mut Rng) -> Comp {
    match rng.below(8) {
        0 | 1 => Comp::None,
        2 => Comp::Lz4(rng.below(16) as u32),
        3 => Comp::Lz4(3),
        4 => Comp::Lzma(rng.below(4) as u32),
        5 => Comp::Zstd(rng.range(0, 12) as i32 - 3),
        _ => Comp::Zstd(5),
    }
}

fn gen_data(rng: &mut Rng, len: usize) -> Vec<u8> {
    match rng.below(3) {
        0 => rng.bytes(len),
        1 => rng.low_entropy(len),
        _ => {
            // mixed: compressible head (what Detect looks at), random tail — or the reverse
            let h = std::cmp::min(len, 4096);
            let mut v = if rng.chance(1, 2) { rng.low_entropy(h) } else { rng.bytes(h) };
            v.extend(if rng.chance(1, 2) { rng.bytes(len - h) } else { rng.low_entropy(len - h) });
            v
        }
    }
}

pub fn gen_spec(rng: &mut Rng, kind: u64, quick: bool) -> PackSpec {
    let comp = comps(rng);
    let dedup = rng.chance(1, 4) && kind != 10; // (every content of the many-contents kind gets its own info)
    let packaging = match rng.below(6) {
        0 => Some(Mode::OneFile),
        1 => Some(Mode::TwoFiles),
        2 => Some(Mode::NoConcat),
        _ => None,
    };
    let mut items = vec![];
    let mut label = String::new();
    let hint_of = |rng: &mut Rng| *rng.pick(&[Hint::Yes, Hint::No, Hint::Detect, Hint::Detect]);
    let src_of = |rng: &mut Rng| *rng.pick(&[Src::Mem, Src::Mem, Src::File, Src::FileRange]);
    match kind {
        0 => {
            label.push_str("empty-pack");
        }
        1 => {
            // crossing the 4095-blob split, tiny contents
            label.push_str("blob-split");
            let n = 4090 + rng.below(20) as usize;
            let hint = hint_of(rng);
            for i in 0..n {
                let len = if i % 97 == 0 { 0 } else { rng.below(4) as usize };
                // every source kind on both sides of the split (the content that opens the second
                // cluster included), a few more spread over the first cluster
                let src = if i >= 4085 || i % 400 == 7 { [Src::File, Src::FileRange, Src::Mem][i % 3] } else { Src::Mem };
                items.push(CItem { data: rng.low_entropy(len), hint, src });
            }
        }
        10 => {
            // more contents than any plausible batch of the tables at the end of the pack (16384): the
            // content-info table and the cluster table must each stay one block
            label.push_str("many-contents");
            let n = 16385 + rng.below(700) as usize;
            let hint = *rng.pick(&[Hint::No, Hint::Yes]);
            for i in 0..n {
                let len = if i % 5 == 0 { 0 } else { 1 + rng.below(3) as usize };
                items.push(CItem { data: rng.low_entropy(len), hint, src: Src::Mem });
            }
        }
        5 => {
            // several uncompressed clusters closed by the 4 MiB rule, every source kind
            label.push_str("raw-cluster-size-split");
            let n = if quick { 4 } else { 8 };
            for i in 0..n {
                let len = 1_300_000 + rng.below(600_000) as usize;
                items.push(CItem { data: rng.bytes(len), hint: Hint::No, src: [Src::File, Src::FileRange, Src::Mem, Src::File][(i + rng.below(2) as usize) % 4] });
            }
            items.push(CItem { data: rng.bytes(10), hint: Hint::No, src: Src::File });
        }
        70..=73 => {
            // clusters whose contents are all empty (a compressed cluster with no data at all), alone
            // or next to a raw cluster
            label.push_str("empty-contents");
            let shape = kind - 70;
            let seq: Vec<(Hint, usize)> = match shape {
                0 => vec![(Hint::Yes, 0)],
                1 => vec![(Hint::Yes, 0), (Hint::No, 12), (Hint::Yes, 0)],
                2 => vec![(Hint::No, 0), (Hint::Yes, 0), (Hint::No, 0), (Hint::Detect, 0)],
                _ => vec![(Hint::Yes, 0), (Hint::Yes, 9), (Hint::No, 0)],
            };
            for (hint, len) in seq {
                items.push(CItem { data: rng.low_entropy(len), hint, src: src_of(rng) });
            }
        }
        6 => {
            // the deduplicating adder on contents below, at and above its 4 MiB buffering threshold
            label.push_str("dedup-big");
            let a = rng.low_entropy(4 * 1024 * 1024);
            let extra = 1 + rng.below(5000) as usize;
            let b = rng.low_entropy(4 * 1024 * 1024 + extra);
            let c = rng.low_entropy(4 * 1024 * 1024 - 1);
            let small = rng.bytes(100);
            let hint = *rng.pick(&[Hint::No, Hint::Yes]);
            // … and on different contents which share everything up to the threshold: same size with
            // another tail, and one content extended by a few bytes
            let mut b2 = b.clone();
            let last = b2.len() - 1;
            b2[last] ^= 0x5a;
            b2[4 * 1024 * 1024] ^= 0x01;
            let mut a3 = a.clone();
            a3.push(7);
            let mut b3 = b.clone();
            b3.extend_from_slice(b"tail");
            for d in [&small, &a, &b, &a, &c, &small, &b, &c, &a, &b2, &a3, &b3, &b2] {
                items.push(CItem { data: d.clone(), hint, src: src_of(rng) });
            }
        }
        2 => {
            // several compressed clusters of 4 MiB
            label.push_str("cluster-size-split");
            let n = if quick { 4 } else { 9 };
            for _ in 0..n {
                let len = 1_300_000 + rng.below(600_000) as usize;
                items.push(CItem { data: rng.low_entropy(len), hint: Hint::Yes, src: src_of(rng) });
            }
            items.push(CItem { data: rng.bytes(10), hint: Hint::No, src: Src::Mem });
        }
        3 => {
            // data size crossing offset-width boundaries in one cluster
            label.push_str("offset-width");
            let target = *rng.pick(&[255usize, 256, 257, 65535, 65536, 65537, 70000]);
            let mut total = 0usize;
            let hint = *rng.pick(&[Hint::No, Hint::Yes]);
            while total < target {
                let len = std::cmp::min(target - total, 1 + rng.below(if target > 1000 { 9000 } else { 60 }) as usize);
                items.push(CItem { data: gen_data(rng, len), hint, src: Src::Mem });
                total += len;
            }
            if rng.chance(1, 2) {
                items.push(CItem { data: vec![], hint, src: Src::Mem });
            }
        }
        4 => {
            // incompressible data forced into a compressed cluster (compressed size > data size)
            label.push_str("incompressible-yes");
            let n = 1 + rng.below(3) as usize;
            for _ in 0..n {
                let len = *rng.pick(&[1usize, 17, 100, 200, 250, 254, 255, 256, 300, 65530, 65535]);
                items.push(CItem { data: rng.bytes(len), hint: Hint::Yes, src: Src::Mem });
            }
        }
        _ => {
            label.push_str("mixed");
            let n = rng.below(if quick { 25 } else { 80 }) as usize;
            for _ in 0..n {
                let len = rng.size_biased(if quick { 20_000 } else { 200_000 });
                let data = if !items.is_empty() && rng.chance(1, 6) {
                    let k = rng.below(items.len() as u64) as usize;
                    let d: &CItem = &items[k];
                    d.data.clone()
                } else {
                    gen_data(rng, len)
                };
                items.push(CItem { data, hint: hint_of(rng), src: src_of(rng) });
            }
        }
    }
    PackSpec { comp, items, dedup, packaging, label }
}

fn make_reader(dir: &Path, k: usize, it: &CItem, rng: &mut Rng) -> Box<dyn jbk::creator::InputReader> {
    match it.src {
        Src::Mem => Box::new(std::io::Cursor::new(it.data.clone())),
        Src::File => {
            let p = dir.join(format!("in{}", k));
            std::fs::write(&p, &it.data).unwrap();
            Box::new(jbk::creator::InputFile::open(&p).unwrap())
        }
        Src::FileRange => {
            let p = dir.join(format!("in{}", k));
            let pre = rng.below(300) as usize;
            let post = rng.below(300) as usize;
            let mut v = rng.bytes(pre);
            v.extend_from_slice(&it.data);
            v.extend(rng.bytes(post));
            std::fs::write(&p, &v).unwrap();
            let f = std::fs::File::open(&p).unwrap();
            Box::new(jbk::creator::InputFile::new_range(f, pre as u64, Some(it.data.len() as u64)).unwrap())
        }
    }
}

pub struct Built {
    /// file holding the content pack, and the pack's (origin, size) in it
    pub file: std::path::PathBuf,
    pub origin: usize,
    pub size: usize,
    pub entry: Option<std::path::PathBuf>,
    /// content id returned for each inserted item
    pub ids: Vec<u32>,
}

struct NoEntries;
impl jbk::creator::EntryStoreTrait for NoEntries {
    fn finalize(self: Box<Self>, _d: &mut jbk::creator::DirectoryPackCreator) {}
}

pub fn build(dir: &Path, spec: &PackSpec, rng: &mut Rng, progress: std::sync::Arc<dyn jbk::creator::Progress>) -> Result<Built, String> {
    std::fs::create_dir_all(dir).unwrap();
    let mut ids = vec![];
    match spec.packaging {
        None => {
            let path = dir.join("pack.jbkc");
            let p = camino::Utf8Path::from_path(&path).unwrap();
            let creator = jbk::creator::ContentPackCreator::new_with_progress(p, jbk::PackId::from(1), util::VENDOR, Default::default(), spec.comp.to_jbk(), progress)
                .map_err(|e| format!("io:{e}"))?;
            if spec.dedup {
                let mut adder = jbk::creator::CachedContentAdder::new(creator, std::rc::Rc::new(()));
                for (k, it) in spec.items.iter().enumerate() {
                    let a = adder.add_content(make_reader(dir, k, it, rng), it.hint.to_jbk()).map_err(|e| format!("io:{e}"))?;
                    ids.push(a.content_id.into_u32());
                }
                adder.into_inner().finalize().map_err(|e| format!("io:{e}"))?;
            } else {
                let mut creator = creator;
                for (k, it) in spec.items.iter().enumerate() {
                    let a = creator.add_content(make_reader(dir, k, it, rng), it.hint.to_jbk()).map_err(|e| format!("io:{e}"))?;
                    ids.push(a.content_id.into_u32());
                }
                creator.finalize().map_err(|e| format!("io:{e}"))?;
            }
            let size = std::fs::metadata(&path).unwrap().len() as usize;
            Ok(Built { file: path, origin: 0, size, entry: None, ids })
        }
        Some(mode) => {
            let out = dir.join("c.jbk");
            let outp = camino::Utf8PathBuf::from_path_buf(out.clone()).unwrap();
            let creator = jbk::creator::BasicCreator::new(&outp, mode.to_jbk(), util::VENDOR, spec.comp.to_jbk(), progress).map_err(|e| format!("create:{e}"))?;
            let creator = if spec.dedup {
                let mut adder = jbk::creator::CachedContentAdder::new(creator, std::rc::Rc::new(()));
                for (k, it) in spec.items.iter().enumerate() {
                    let a = adder.add_content(make_reader(dir, k, it, rng), it.hint.to_jbk()).map_err(|e| format!("io:{e}"))?;
                    ids.push(a.content_id.into_u32());
                }
                adder.into_inner()
            } else {
                let mut creator = creator;
                for (k, it) in spec.items.iter().enumerate() {
                    let a = creator.add_content(make_reader(dir, k, it, rng), it.hint.to_jbk()).map_err(|e| format!("io:{e}"))?;
                    ids.push(a.content_id.into_u32());
                }
                creator
            };
            creator.finalize(Box::new(NoEntries), vec![]).map_err(|e| format!("finalize:{e}"))?;
            let cfile = if mode == Mode::OneFile { out.clone() } else { dir.join("c.jbkc") };
            let bytes = std::fs::read(&cfile).map_err(|e| format!("io:{e}"))?;
            let p = container::packs_in_file(&bytes).into_iter().find(|p| p.kind == b'c').ok_or("no content pack in file")?;
            Ok(Built { file: cfile, origin: p.origin, size: p.size, entry: Some(out), ids })
        }
    }
}

/// read every content back through the public reader API
pub fn read_back(b: &Built, n_probe: usize) -> Result<(u32, Vec<Result<Option<Vec<u8>>, String>>), String> {
    let get_all = |pack: &jbk::reader::ContentPack| -> (u32, Vec<Result<Option<Vec<u8>>, String>>) {
        let count = pack.get_content_count().into_u32();
        let mut out = vec![];
        for i in 0..n_probe as u32 {
            let r = util::guarded(|| -> Result<Option<Vec<u8>>, String> {
                match pack.get_content(jbk::ContentIdx::from(i)).map_err(|e| format!("err:{}", util::err_kind(&e)))? {
                    None => Ok(None),
                    Some(region) => {
                        let mut v = vec![];
                        region.stream().read_to_end(&mut v).map_err(|e| format!("io:{e}"))?;
                        Ok(Some(v))
                    }
                }
            });
            out.push(match r {
                Ok(x) => x,
                Err(p) => Err(p),
            });
        }
        (count, out)
    };
    match &b.entry {
        None => {
            let reader: jbk::Reader = jbk::FileSource::open(&b.file).map_err(|e| format!("io:{e}"))?.into();
            let pack = jbk::reader::ContentPack::new(reader).map_err(|e| format!("err:{}", util::err_kind(&e)))?;
            Ok(get_all(&pack))
        }
        Some(entry) => {
            let c = jbk::reader::Container::new(entry).map_err(|e| format!("err:{}", util::err_kind(&e)))?;
            match c.get_pack(jbk::PackId::from(1)).map_err(|e| format!("err:{}", util::err_kind(&e)))? {
                Some(jbk::reader::MayMissPack::FOUND(p)) => Ok(get_all(p)),
                Some(jbk::reader::MayMissPack::MISSING(_)) => Err("missing".into()),
                None => Err("nopack".into()),
            }
        }
    }
}

pub fn run_one(ctx: &mut Ctx, case: u64, spec: &PackSpec, rng: &mut Rng, progress: std::sync::Arc<dyn jbk::creator::Progress>) -> Option<Built> {
    let dir = ctx.work.join(format!("cp-{}", case));
    let built = match util::guarded(|| build(&dir, spec, rng, progress)) {
        Ok(Ok(b)) => b,
        other => {
            ctx.fail(case, "create", &format!("creation failed ({} {}): {:?}", spec.label, spec.comp.name(), other.err()));
            return None;
        }
    };
    // ---- what must be stored: with dedup, only first occurrences
    let mut stored: Vec<usize> = vec![]; // indices into spec.items
    let mut expect_id: Vec<u32> = vec![];
    if spec.dedup {
        let mut seen: std::collections::HashMap<Vec<u8>, u32> = Default::default();
        for (k, it) in spec.items.iter().enumerate() {
            if let Some(id) = seen.get(&it.data) {
                expect_id.push(*id);
            } else {
                let id = stored.len() as u32;
                seen.insert(it.data.clone(), id);
                stored.push(k);
                expect_id.push(id);
            }
        }
    } else {
        for k in 0..spec.items.len() {
            stored.push(k);
            expect_id.push(k as u32);
        }
    }
    // ---- oracle C01: addresses, bytes, count, one past the end
    if built.ids != expect_id {
        let k = built.ids.iter().zip(expect_id.iter()).position(|(a, b)| a != b).unwrap_or(0);
        ctx.fail(case, "address", &format!("insertion #{k} returned content id {} expected {} (dedup={})", built.ids.get(k).copied().unwrap_or(0), expect_id.get(k).copied().unwrap_or(0), spec.dedup));
    }
    let pk = spec.packaging.map(|m| m.name()).unwrap_or("bare");
    match util::guarded(|| read_back(&built, stored.len() + 2)) {
        Err(p) => ctx.fail(case, "read-panic", &format!("reading back panicked: {p}")),
        Ok(Err(e)) => ctx.fail(case, &format!("open-{}", pk), &format!("pack does not open for reading ({pk}): {e}")),
        Ok(Ok((count, got))) => {
            if count as usize != stored.len() {
                ctx.fail(case, "count", &format!("pack reports {} contents, {} were stored", count, stored.len()));
            }
            for (id, r) in got.iter().enumerate() {
                if id < stored.len() {
                    let exp = &spec.items[stored[id]].data;
                    match r {
                        Ok(Some(v)) if v == exp => {}
                        Ok(Some(v)) => ctx.fail(case, "bytes", &format!("content {} reads back {} bytes (fnv {:016x}), inserted {} bytes (fnv {:016x}); {} {}", id, v.len(), fnv(v), exp.len(), fnv(exp), spec.label, spec.comp.name())),
                        Ok(None) => ctx.fail(case, "bytes-none", &format!("content {} answers 'no such content'", id)),
                        Err(e) => ctx.fail(case, &format!("read-{}", e.split(':').next().unwrap_or("err")), &format!("content {} of {} ({} {} {}): {}", id, stored.len(), spec.label, spec.comp.name(), pk, e)),
                    }
                } else {
                    match r {
                        Ok(None) => {}
                        other => ctx.fail(case, "past-end", &format!("address {} past the count answers {:?}", id, other.as_ref().map(|o| o.as_ref().map(|v| v.len())))),
                    }
                }
            }
        }
    }
    // ---- independent decode of the framing; C16 oracle
    let file_bytes = std::fs::read(&built.file).unwrap();
    let pack = &file_bytes[built.origin..built.origin + built.size];
    let decdir = dir.join("dec");
    let mut flags = String::new();
    match cpdec::decode(pack) {
        None => ctx.fail(case, "framing", "independent framing decoder cannot parse the pack"),
        Some(dec) => {
            let plains = cpdec::dump_clusters(pack, &dec, &decdir);
            for (i, c) in plains.iter().enumerate() {
                if let Err(e) = c {
                    ctx.fail(case, "codec-oracle", &format!("cluster {} payload does not decode with the codec crate: {}", i, e));
                }
            }
            if dec.contents.len() != stored.len() {
                ctx.fail(case, "stored-count", &format!("file stores {} contents, expected {} (dedup={})", dec.contents.len(), stored.len(), spec.dedup));
            }
            for (id, &k) in stored.iter().enumerate() {
                let it = &spec.items[k];
                let (cl, blob) = match dec.contents.get(id) {
                    Some(x) => *x,
                    None => break,
                };
                let c = match dec.clusters.get(cl) {
                    Some(c) => c,
                    None => {
                        ctx.fail(case, "cluster-index", &format!("content {} points to cluster {} of {}", id, cl, dec.clusters.len()));
                        continue;
                    }
                };
                let want: Option<u8> = if spec.comp == Comp::None {
                    Some(0)
                } else {
                    match it.hint {
                        Hint::No => Some(0),
                        Hint::Yes => Some(spec.comp.byte()),
                        Hint::Detect => None,
                    }
                };
                flags.push(match (spec.comp == Comp::None, it.hint) {
                    (true, _) => 'n',
                    (_, Hint::No) => 'n',
                    (_, Hint::Yes) => 'y',
                    _ => 'd',
                });
                if let Some(w) = want {
                    if c.comp != w {
                        ctx.fail(case, "c16-compression", &format!("content {} (hint {}, pack {}) is stored in a cluster of compression type {} expected {}", id, it.hint.name(), spec.comp.name(), c.comp, w));
                    }
                }
                if c.comp == 0 {
                    let (b, e) = (c.bounds.get(blob).copied().unwrap_or(0), c.bounds.get(blob + 1).copied().unwrap_or(0));
                    let ok = pack.get(c.payload_start + b..c.payload_start + e).map(|s| s == &it.data[..]).unwrap_or(false);
                    if !ok {
                        ctx.fail(case, "c16-verbatim", &format!("content {} is in an uncompressed cluster but its bytes are not stored verbatim at [{}..{})", id, c.payload_start + b, c.payload_start + e));
                    }
                } else if c.comp != spec.comp.byte() {
                    ctx.fail(case, "c16-algorithm", &format!("cluster {} compressed with type {} in a pack configured for {}", cl, c.comp, spec.comp.name()));
                }
                ctx.count(&format!("stored:{}:{}", it.hint.name(), if c.comp == 0 { "raw" } else { "compressed" }));
            }
            ctx.add("clusters", dec.clusters.len() as u64);
            ctx.add("clusters_compressed", dec.clusters.iter().filter(|c| c.comp != 0).count() as u64);
            for c in &dec.clusters {
                ctx.count(&format!("offset_width:{}", {
                    // second byte of the tail
                    pack[c.tail_pos + 1]
                }));
                if c.raw_size > c.data_size {
                    ctx.count("clusters_compressed_larger_than_data");
                }
            }
        }
    }
    // ---- model ops
    let items_file = dir.join("items.bin");
    {
        let mut all = vec![];
        for &k in &stored {
            all.extend_from_slice(&spec.items[k].data);
        }
        std::fs::write(&items_file, &all).unwrap();
    }
    let exp_line = {
        let mut parts = vec![];
        for (id, &k) in stored.iter().enumerate() {
            let it = &spec.items[k];
            let fl = flags.chars().nth(id).unwrap_or('d');
            let comp = match fl {
                'n' => "0".to_string(),
                'y' => format!("{}", spec.comp.byte()),
                _ => "?".to_string(),
            };
            parts.push(format!("{}:{:016x}:{}", it.data.len(), fnv(&it.data), comp));
        }
        format!("ok count={} check=true {}", stored.len(), parts.join(","))
    };
    let fl = if flags.is_empty() { "-".to_string() } else { flags.clone() };
    ctx.emit(case, &format!("cp.decode {} {} {} {} {}", built.file.display(), built.origin, built.size, fl, decdir.display()), &exp_line);
    let spec_str = if stored.is_empty() {
        "-".to_string()
    } else {
        stored.iter().enumerate().map(|(id, &k)| format!("{}:{}", spec.items[k].data.len(), flags.chars().nth(id).unwrap_or('d'))).collect::<Vec<_>>().join(",")
    };
    ctx.emit(case, &format!("cp.encode {} {} {} {} {} {} {}", built.file.display(), built.origin, built.size, items_file.display(), spec_str, spec.comp.byte(), decdir.display()), "same");
    // input files are no longer needed
    for k in 0..spec.items.len() {
        let _ = std::fs::remove_file(dir.join(format!("in{}", k)));
    }
    ctx.count(&format!("label:{}", spec.label));
    ctx.count(&format!("comp:{}", spec.comp.name().split(':').next().unwrap()));
    ctx.count(&format!("packaging:{}", pk));
    ctx.count(if spec.dedup { "dedup:on" } else { "dedup:off" });
    for it in &spec.items {
        ctx.count(&format!("src:{:?}", it.src));
        ctx.count(&format!("hint:{}", it.hint.name()));
    }
    ctx.add("contents", spec.items.len() as u64);
    ctx.add("bytes", spec.items.iter().map(|i| i.data.len() as u64).sum());
    ctx.sample(format!("{} {} {} dedup={} items={} sizes={:?}…", spec.label, spec.comp.name(), pk, spec.dedup, spec.items.len(), spec.items.iter().take(8).map(|i| (i.data.len(), i.hint.name())).collect::<Vec<_>>()));
    let fp = fnv(format!("{:?}{:?}{}{:?}", spec.comp, spec.packaging, spec.dedup, spec.items.iter().map(|i| (fnv(&i.data), i.hint, i.src)).collect::<Vec<_>>()).as_bytes());
    ctx.case_done(fp, !spec.items.is_empty());
    Some(built)
}

pub fn run(ctx: &mut Ctx) {
    let mut rng = Rng::new(ctx.seed ^ 0xC01);
    let n = if ctx.quick() { 70 } else { 1200 };
    for case in 0..n as u64 {
        let mut crng = rng.fork(case);
        if !ctx.wants(case) {
            continue;
        }
        let kind = match case {
            0 => 0,
            1 => 1,
            2 => 2,
            5 => 5,
            6 => 6,
            7 => 70,
            8 => 10,
            16 => 71,
            25 => 72,
            34 => 73,
            c if !ctx.quick() && c % 60 == 34 => 70 + (c / 60) % 4,
            c if !ctx.quick() && c % 190 == 8 => 6,
            c if !ctx.quick() && c % 170 == 7 => 5,
            c if c % 9 == 3 => 3,
            c if c % 9 == 4 => 4,
            c if !ctx.quick() && c % 200 == 5 => 1,
            c if !ctx.quick() && c % 150 == 6 => 2,
            _ => 9,
        };
        let mut spec = gen_spec(&mut crng, kind, ctx.quick());
        // the extreme levels of every algorithm (the quantifier is over algorithm x level): a few cases of the
        // ordinary mixed kind are created at the highest levels the algorithms accept
        if kind == 9 && (case % 11 == 8 || case % 11 == 9) {
            spec.comp = [Comp::Zstd(19), Comp::Zstd(20), Comp::Zstd(22), Comp::Lzma(9), Comp::Lz4(12), Comp::Zstd(21), Comp::Lzma(6), Comp::Lz4(16)][((case / 11) % 8) as usize];
            spec.packaging = None;
            spec.label.push_str("-extreme-level");
        }
        if kind == 2 {
            spec.comp = *crng.pick(&[Comp::Zstd(1), Comp::Lz4(1)]);
            spec.packaging = None;
        }
        if kind == 6 {
            spec.comp = *crng.pick(&[Comp::None, Comp::Zstd(1), Comp::Lz4(1)]);
            spec.packaging = None;
            spec.dedup = true;
        }
        if (70..=73).contains(&kind) && spec.comp == Comp::None && case % 5 != 0 {
            spec.comp = *crng.pick(&[Comp::Zstd(3), Comp::Lz4(3), Comp::Lzma(1)]);
        }
        if kind == 5 {
            spec.packaging = None;
            spec.dedup = false;
        }
        if kind == 4 && spec.comp == Comp::None {
            spec.comp = *crng.pick(&[Comp::Zstd(3), Comp::Lz4(3), Comp::Lzma(1)]);
        }
        run_one(ctx, case, &spec, &mut crng, std::sync::Arc::new(()));
    }
}
