//! A simple logical container (names, numbers, contents) written through `BasicCreator` in any
//! packaging, and its full logical dump through `reader::Container`.  Also an independent minimal
//! parser of container-pack framing (locators) so that the harness can address the packs inside a
//! file without going through jubako.
use crate::util::{self, Comp, Hint};
use jubako as jbk;
use jbk::creator::schema;
use jbk::creator::EntryStoreTrait;
use jbk::reader::builder::AnyBuilder;
use jbk::reader::{EntryTrait, Range};
use std::collections::HashMap;
use std::path::{Path, PathBuf};
use std::sync::Arc;

#[derive(Clone, Copy, Debug, PartialEq, Eq)]
pub enum Mode {
    OneFile,
    TwoFiles,
    NoConcat,
}
impl Mode {
    pub fn to_jbk(self) -> jbk::creator::ConcatMode {
        match self {
            Mode::OneFile => jbk::creator::ConcatMode::OneFile,
            Mode::TwoFiles => jbk::creator::ConcatMode::TwoFiles,
            Mode::NoConcat => jbk::creator::ConcatMode::NoConcat,
        }
    }
    pub fn name(self) -> &'static str {
        match self {
            Mode::OneFile => "onefile",
            Mode::TwoFiles => "twofiles",
            Mode::NoConcat => "noconcat",
        }
    }
    pub const ALL: [Mode; 3] = [Mode::OneFile, Mode::TwoFiles, Mode::NoConcat];
}

#[derive(Clone, Debug)]
pub struct Item {
    pub name: Vec<u8>,
    pub num: u64,
    pub data: Vec<u8>,
    pub hint: Hint,
    /// which content pack: 1 = main, 2.. = extra packs
    pub pack: u16,
}

#[derive(Clone, Debug)]
pub struct Spec {
    pub mode: Mode,
    pub comp: Comp,
    pub items: Vec<Item>,
    pub extra_packs: u16,
    /// pack ids are the caller's choice and need not be dense: the extra pack with logical number
    /// `l` (2..) gets the id `l + id_gap * (l - 1)`  (0 = dense ids 2, 3, …)
    pub id_gap: u16,
    /// hand the extra packs to `finalize` highest logical number first: the manifest then lists
    /// the content packs out of increasing-id order (ids stay what `pack_id` says)
    pub rev_extras: bool,
}

impl Spec {
    /// the pack id of logical pack `l` (0/1 = the main content pack)
    pub fn pack_id(&self, l: u16) -> u16 {
        if l <= 1 {
            1
        } else {
            l + self.id_gap * (l - 1)
        }
    }
}

struct Store {
    value_store: jbk::creator::StoreHandle,
    entry_store: Box<jbk::creator::EntryStore<&'static str, &'static str, jbk::creator::BasicEntry<&'static str, &'static str>>>,
    count: u32,
}

impl EntryStoreTrait for Store {
    fn finalize(self: Box<Self>, directory_pack: &mut jbk::creator::DirectoryPackCreator) {
        directory_pack.add_value_store(self.value_store);
        let id = directory_pack.add_entry_store(self.entry_store);
        directory_pack.create_index(
            "main",
            Default::default(),
            0.into(),
            id,
            self.count.into(),
            jbk::EntryIdx::from(0).into(),
        );
        // a second index on the same store, listed after "main": a lookup by name reads the index
        // tails in table order, so "main" is not the last one looked at
        directory_pack.create_index(
            "aux",
            Default::default(),
            0.into(),
            id,
            std::cmp::min(self.count, 1).into(),
            jbk::EntryIdx::from(0).into(),
        );
    }
}

/// paths of the files a spec produces under `dir` with base name `name`
pub fn entry_path(dir: &Path, name: &str) -> PathBuf {
    dir.join(format!("{name}.jbk"))
}

pub fn build(dir: &Path, name: &str, spec: &Spec) -> Result<PathBuf, String> {
    build_with_progress(dir, name, spec, Arc::new(()))
}

pub fn build_with_progress(
    dir: &Path,
    name: &str,
    spec: &Spec,
    progress: Arc<dyn jbk::creator::Progress>,
) -> Result<PathBuf, String> {
    let out = entry_path(dir, name);
    let outp = camino::Utf8PathBuf::from_path_buf(out.clone()).unwrap();
    let mut creator = jbk::creator::BasicCreator::new(&outp, spec.mode.to_jbk(), util::VENDOR, spec.comp.to_jbk(), progress)
        .map_err(|e| format!("create: {e}"))?;
    let mut extras: Vec<jbk::creator::ContentPackCreator<dyn jbk::creator::PackRecipient>> = vec![];
    for k in 0..spec.extra_packs {
        let p = dir.join(format!("{name}.extra{}.jbkc", k + 2));
        let p = camino::Utf8PathBuf::from_path_buf(p).unwrap();
        let file = jbk::creator::AtomicOutFile::new(&p).map_err(|e| format!("create extra: {e}"))?;
        let file: Box<dyn jbk::creator::PackRecipient> = file;
        let c = jbk::creator::ContentPackCreator::new_from_output(
            file,
            jbk::PackId::from(spec.pack_id(k + 2)),
            util::VENDOR,
            Default::default(),
            spec.comp.to_jbk(),
        )
        .map_err(|e| format!("create extra: {e}"))?;
        extras.push(c);
    }
    let value_store = jbk::creator::ValueStore::new_plain(None);
    let sch = schema::Schema::new(
        schema::CommonProperties::new(vec![
            schema::Property::new_array(2, value_store.clone(), "name"),
            schema::Property::new_uint("num"),
            schema::Property::new_content_address("content"),
        ]),
        vec![],
        None,
    );
    let mut store = Box::new(Store {
        value_store,
        entry_store: Box::new(jbk::creator::EntryStore::new(sch, None)),
        count: 0,
    });
    for it in &spec.items {
        let reader = Box::new(std::io::Cursor::new(it.data.clone()));
        let addr = if it.pack <= 1 {
            creator.add_content(reader, it.hint.to_jbk()).map_err(|e| format!("add: {e}"))?
        } else {
            extras[(it.pack - 2) as usize]
                .add_content(reader, it.hint.to_jbk())
                .map_err(|e| format!("add: {e}"))?
        };
        let e = jbk::creator::BasicEntry::new_from_schema(
            &store.entry_store.schema,
            None,
            HashMap::from([
                ("name", jbk::Value::Array(it.name.clone().into())),
                ("num", jbk::Value::Unsigned(it.num)),
                ("content", jbk::Value::Content(addr)),
            ]),
        );
        store.entry_store.add_entry(e);
        store.count += 1;
    }
    if spec.rev_extras {
        extras.reverse();
    }
    creator.finalize(store, extras).map_err(|e| format!("finalize: {e}"))?;
    Ok(out)
}

/// canonical logical dump: one line per entry, or an error class
pub fn dump(path: &Path) -> Vec<String> {
    match util::guarded(|| dump_inner(path)) {
        Ok(Ok(v)) => v,
        Ok(Err(e)) => vec![format!("err:{}", e)],
        Err(p) => vec![p],
    }
}

fn jerr(e: jbk::Error) -> String {
    util::err_kind(&e).to_string()
}

pub fn dump_container(c: &jbk::reader::Container) -> Result<Vec<String>, String> {
    dump_container_with(c, false, 0)
}

/// the same dump with the contents fetched in another order (1 = last entry first, 2 = highest pack
/// id first, 3 = lowest pack id first); lines are returned in entry order whatever the access order
pub fn dump_in_order(path: &Path, order: u8) -> Vec<String> {
    match util::guarded(|| {
        let c = jbk::reader::Container::new(path).map_err(jerr)?;
        dump_container_with(&c, false, order)
    }) {
        Ok(Ok(v)) => v,
        Ok(Err(e)) => vec![format!("err:{}", e)],
        Err(p) => vec![p],
    }
}

/// the same dump obtained through the typed property builders only (no `AnyBuilder`)
pub fn dump_container_typed(c: &jbk::reader::Container) -> Result<Vec<String>, String> {
    dump_container_with(c, true, 0)
}

fn dump_container_with(c: &jbk::reader::Container, typed_only: bool, order: u8) -> Result<Vec<String>, String> {
    let mut out = vec![];
    // "no such index" is an answer of the reader, not an error: it is part of the dump
    let index = match c.get_index_for_name("main").map_err(jerr)? {
        Some(i) => i,
        None => return Ok(vec!["noindex".to_string()]),
    };
    let builder = if typed_only {
        None
    } else {
        Some(AnyBuilder::new(index.get_store(c.get_entry_storage()).map_err(jerr)?, c.get_value_storage().as_ref()).map_err(jerr)?)
    };
    let count = index.count().into_u32();
    out.push(format!("count {}", count));
    // second read path: the typed property builders a schema-specific reader uses
    // (`Property::as_builder`, what `layout_builder!` expands to)
    let typed = TypedBuilder::new(index.get_store(c.get_entry_storage()).map_err(jerr)?, c.get_value_storage().as_ref())?;
    let mut metas = vec![];
    for i in 0..count {
        let (tname, tnum, taddr) = index.get_entry(&typed, jbk::EntryIdx::from(i)).map_err(jerr)?.ok_or("noentry-typed")?;
        let (name, num, addr) = match &builder {
            Some(builder) => {
                let e = index.get_entry(builder, jbk::EntryIdx::from(i)).map_err(jerr)?.ok_or("noentry")?;
                let name = e.get_value("name").map_err(jerr)?.ok_or("noname")?.as_vec().map_err(jerr)?;
                let num = e.get_value("num").map_err(jerr)?.ok_or("nonum")?.as_unsigned();
                let addr = e.get_value("content").map_err(jerr)?.ok_or("nocontent")?.as_content();
                (name[..].to_vec(), num, addr)
            }
            None => (tname.clone(), tnum, taddr),
        };
        // both read paths must tell the same thing; a difference shows in the dump
        let typed_note = if tname[..] == name[..] && tnum == num && taddr == addr {
            String::new()
        } else {
            format!(" typed-builders-read name={} num={} addr={}:{}", crate::out::hex(&tname), tnum, taddr.pack_id.into_u16(), taddr.content_id.into_u32())
        };
        metas.push((name, num, addr, typed_note));
        if order == 0 {
            // entry by entry: values, then the content
            let b = fetch(c, addr)?;
            let m = metas.last().unwrap();
            out.push(format!("e{} name={} num={} addr={}:{} data={}{}", i, crate::out::hex(&m.0), m.1, addr.pack_id.into_u16(), addr.content_id.into_u32(), b, m.3));
        }
    }
    if order != 0 {
        let mut idx: Vec<usize> = (0..metas.len()).collect();
        match order {
            1 => idx.reverse(),
            2 => idx.sort_by_key(|i| std::cmp::Reverse(metas[*i].2.pack_id.into_u16())),
            _ => idx.sort_by_key(|i| metas[*i].2.pack_id.into_u16()),
        }
        let mut bytes: Vec<String> = vec![String::new(); metas.len()];
        for i in idx {
            bytes[i] = fetch(c, metas[i].2)?;
        }
        for (i, m) in metas.iter().enumerate() {
            out.push(format!("e{} name={} num={} addr={}:{} data={}{}", i, crate::out::hex(&m.0), m.1, m.2.pack_id.into_u16(), m.2.content_id.into_u32(), bytes[i], m.3));
        }
    }
    Ok(out)
}

fn fetch(c: &jbk::reader::Container, addr: jbk::ContentAddress) -> Result<String, String> {
    Ok(match c.get_bytes(addr).map_err(jerr)? {
        None => "nopack".to_string(),
        Some(jbk::reader::MayMissPack::MISSING(pi)) => format!("missing:{}:{}", crate::out::hex(pi.uuid.as_bytes()), pi.pack_location.as_str()),
        Some(jbk::reader::MayMissPack::FOUND(None)) => "nocontent".to_string(),
        Some(jbk::reader::MayMissPack::FOUND(Some(region))) => {
            let mut v = vec![];
            use std::io::Read;
            region.stream().read_to_end(&mut v).map_err(|e| format!("io:{e}"))?;
            format!("{}:{:016x}", v.len(), crate::out::fnv(&v))
        }
    })
}

/// schema-specific reader of the harness containers (name: array, num: unsigned, content: address)
struct TypedBuilder {
    store: jbk::reader::EntryStore,
    name: jbk::reader::builder::ArrayProperty,
    num: jbk::reader::builder::IntProperty,
    content: jbk::reader::builder::ContentProperty,
}

impl TypedBuilder {
    fn new(store: jbk::reader::EntryStore, vs: &jbk::reader::ValueStorage) -> Result<Self, String> {
        let (name, num, content) = {
            let layout = store.layout();
            let name = layout.common.get("name").ok_or("typed:noname")?.as_builder(vs).map_err(jerr)?.ok_or("typed:name-kind")?;
            let num = layout.common.get("num").ok_or("typed:nonum")?.as_builder(vs).map_err(jerr)?.ok_or("typed:num-kind")?;
            let content = layout.common.get("content").ok_or("typed:nocontent")?.as_builder(vs).map_err(jerr)?.ok_or("typed:content-kind")?;
            (name, num, content)
        };
        Ok(TypedBuilder { store, name, num, content })
    }
}

impl jbk::reader::builder::BuilderTrait for TypedBuilder {
    type Entry = (Vec<u8>, u64, jbk::ContentAddress);
    type Error = jbk::Error;

    fn create_entry(&self, idx: jbk::EntryIdx) -> jbk::Result<Option<Self::Entry>> {
        use jbk::reader::builder::PropertyBuilderTrait;
        let reader = match self.store.get_entry_reader(idx) {
            Some(r) => r,
            None => return Ok(None),
        };
        let mut name = jbk::SmallBytes::new();
        self.name.create(&reader)?.resolve_to_vec(&mut name)?;
        let num = self.num.create(&reader)?;
        let content = self.content.create(&reader)?;
        Ok(Some((name.to_vec(), num, content)))
    }
}

fn dump_inner(path: &Path) -> Result<Vec<String>, String> {
    let c = jbk::reader::Container::new(path).map_err(jerr)?;
    dump_container(&c)
}

/// what the dump of `spec` must be (addresses are positions in their pack)
pub fn expected_dump(spec: &Spec) -> Vec<String> {
    let mut out = vec![format!("count {}", spec.items.len())];
    let mut next: HashMap<u16, u32> = HashMap::new();
    for (i, it) in spec.items.iter().enumerate() {
        let pack = spec.pack_id(it.pack);
        let id = next.entry(pack).or_insert(0);
        out.push(format!(
            "e{} name={} num={} addr={}:{} data={}:{:016x}",
            i,
            crate::out::hex(&it.name),
            it.num,
            pack,
            *id,
            it.data.len(),
            crate::out::fnv(&it.data)
        ));
        *id += 1;
    }
    out
}

// ---------------------------------------------------------------- independent framing parser

fn le(b: &[u8]) -> u64 {
    let mut v = 0u64;
    for (i, x) in b.iter().enumerate().take(8) {
        v |= (*x as u64) << (8 * i);
    }
    v
}

#[derive(Clone, Debug)]
pub struct PackAt {
    pub kind: u8,
    pub uuid: [u8; 16],
    pub origin: usize,
    pub size: usize,
    pub check_info_pos: usize,
}

/// packs found in a file: the file itself if it is a bare pack, else the packs its container-pack
/// locators point to (no CRC verification here — framing only)
pub fn packs_in_file(bytes: &[u8]) -> Vec<PackAt> {
    let mut out = vec![];
    if bytes.len() < 128 || &bytes[0..3] != b"jbk" {
        return out;
    }
    let kind = bytes[3];
    let hdr = |o: usize| -> Option<PackAt> {
        if o.checked_add(64).map_or(true, |e| e > bytes.len()) || &bytes[o..o + 3] != b"jbk" {
            return None;
        }
        let mut uuid = [0u8; 16];
        uuid.copy_from_slice(&bytes[o + 10..o + 26]);
        Some(PackAt {
            kind: bytes[o + 3],
            uuid,
            origin: o,
            size: le(&bytes[o + 32..o + 40]) as usize,
            check_info_pos: le(&bytes[o + 40..o + 48]) as usize,
        })
    };
    if kind != b'C' {
        if let Some(p) = hdr(0) {
            out.push(p);
        }
        return out;
    }
    let loc_pos = le(&bytes[64..72]) as usize;
    let count = le(&bytes[72..74]) as usize;
    for k in 0..count {
        let o = match loc_pos.checked_add(k * 36) {
            Some(o) if o.checked_add(36).map_or(false, |e| e <= bytes.len()) => o,
            _ => break,
        };
        let size = le(&bytes[o + 16..o + 24]) as usize;
        let pos = le(&bytes[o + 24..o + 32]) as usize;
        if let Some(mut p) = hdr(pos) {
            p.size = size;
            out.push(p);
        }
    }
    out
}

/// CRC-32C as jubako uses it (poly 0x1EDC6F41, init 0xFFFFFFFF, msb-first, no xorout) — harness copy
pub fn crc32c(data: &[u8]) -> u32 {
    let mut c: u32 = 0xFFFF_FFFF;
    for b in data {
        c ^= (*b as u32) << 24;
        for _ in 0..8 {
            c = if c & 0x8000_0000 != 0 { (c << 1) ^ 0x1EDC_6F41 } else { c << 1 };
        }
    }
    c
}

/// a small random spec
pub fn random_spec(rng: &mut crate::rng::Rng, mode: Mode, comp: Comp, max_items: usize, extra_packs: u16) -> Spec {
    let n = 1 + rng.below(max_items as u64) as usize;
    let mut items = vec![];
    for i in 0..n {
        let len = rng.size_biased(3000);
        let data = if rng.chance(1, 2) { rng.bytes(len) } else { rng.low_entropy(len) };
        let nl = rng.below(12) as usize;
        let mut name = rng.low_entropy(nl);
        name.extend_from_slice(format!("{i}").as_bytes());
        let hint = *rng.pick(&[Hint::Yes, Hint::No, Hint::Detect]);
        let pack = if extra_packs > 0 && rng.chance(1, 3) { 2 + rng.below(extra_packs as u64) as u16 } else { 1 };
        items.push(Item { name, num: rng.next() >> rng.below(64), data, hint, pack });
    }
    // derived from the content, not drawn: keeps the random stream of every caller as it was
    let id_gap = if extra_packs > 0 { [0u16, 0, 1, 6][(crate::out::fnv(&items[0].data) % 4) as usize] } else { 0 };
    let rev_extras = extra_packs >= 2 && (crate::out::fnv(&items[0].name) % 2 == 0);
    Spec { mode, comp, items, extra_packs, id_gap, rev_extras }
}

/// for every content pack found in every file of `dir`, write the decompressed compressed clusters
/// under `decdir/<uuid hex>/cluster<i>.dec` (input of the Lean decoder)
pub fn dump_all_clusters(dir: &Path, decdir: &Path) {
    let rd = match std::fs::read_dir(dir) {
        Ok(r) => r,
        Err(_) => return,
    };
    for e in rd.flatten() {
        let p = e.path();
        if !p.is_file() {
            continue;
        }
        let bytes = match std::fs::read(&p) {
            Ok(b) => b,
            Err(_) => continue,
        };
        // header at 0 or mirrored tail
        // (both: the head of the file may merely look like a pack header — a prefix — while the
        // container sits at the end)
        let mut packs = packs_in_file(&bytes);
        let head_packs = std::mem::take(&mut packs);
        if bytes.len() >= 128 {
            let mut tail: Vec<u8> = bytes[bytes.len() - 64..].to_vec();
            tail.reverse();
            if &tail[0..3] == b"jbk" {
                let size = le(&tail[32..40]) as usize;
                if size <= bytes.len() {
                    let origin = bytes.len() - size;
                    if origin > 0 {
                        packs = packs_in_file(&bytes[origin..]).into_iter().map(|mut p| { p.origin += origin; p }).collect();
                    }
                }
            }
        }
        packs.extend(head_packs);
        for pk in packs {
            if pk.kind == b'c' && pk.origin.checked_add(pk.size).map_or(false, |e| e <= bytes.len()) {
                let pack = &bytes[pk.origin..pk.origin + pk.size];
                if let Some(dec) = crate::cpdec::decode(pack) {
                    // keyed by uuid AND content: a damaged copy of the same pack must not shadow it
                    let d = decdir.join(format!("{}-{:016x}", crate::out::hex(&pk.uuid), crate::out::fnv(pack)));
                    crate::cpdec::dump_clusters_published(pack, &dec, &d);
                }
            }
        }
    }
}
