//! C03 — sorted stores follow the reader's order; lookup finds exactly what was written.
//!
//! Entry stores declared sorted on 1..2 properties (arrays with inline prefix 0/1/2/3/31 on plain or
//! indexed stores, unsigned, signed) with unique key sets built to share prefixes shorter, equal and
//! longer than the inline prefix, containing 0x00 and 0xFF and the empty key.  Oracle: the stored
//! order is non-decreasing in the reader's order (numeric / bytewise on whole arrays); binary search
//! and linear scan through `RangeTrait::find` agree, find every written key at its position, and
//! find nothing for absent keys; duplicate sort keys make creation fail.  Model: the Lean decoder
//! reads the same entries in the same order, the Lean creator model reproduces the bytes for that
//! order, and the Lean `find` gives the same answers.
use crate::dirgen::{self, DirSpec, EntrySpec, IndexSpec, PDef, V};
use crate::out::{fnv, hex, Ctx};
use crate::rng::Rng;
use crate::util;
use jubako as jbk;
use jbk::reader::builder::{AnyBuilder, BuilderTrait};
use jbk::reader::{CompareTrait, EntryTrait, Range};
use std::cmp::Ordering;
use std::sync::Arc;

fn reader_cmp(a: &V, b: &V) -> Ordering {
    match (a, b) {
        (V::U(x), V::U(y)) => x.cmp(y),
        (V::S(x), V::S(y)) => x.cmp(y),
        (V::A(x), V::A(y)) => x.cmp(y),
        _ => Ordering::Equal,
    }
}

fn keys_cmp(a: &[V], b: &[V]) -> Ordering {
    for (x, y) in a.iter().zip(b.iter()) {
        let c = reader_cmp(x, y);
        if c != Ordering::Equal {
            return c;
        }
    }
    Ordering::Equal
}

fn key_canon(k: &[V]) -> String {
    k.iter().map(|v| v.canon()).collect::<Vec<_>>().join(",")
}

struct Probe<'a> {
    builder: &'a AnyBuilder,
    names: Vec<&'static str>,
    probe: Vec<V>,
    ordered: bool,
}

impl CompareTrait for Probe<'_> {
    fn ordered(&self) -> bool {
        self.ordered
    }
    fn compare_entry(&self, idx: jbk::EntryIdx) -> jbk::Result<Ordering> {
        let e = self.builder.create_entry(idx)?.expect("valid index");
        for (n, p) in self.names.iter().zip(self.probe.iter()) {
            let rv = e.get_value(n)?.expect("property present");
            let c = match (&rv, p) {
                (jbk::reader::RawValue::Array(a), V::A(b)) => a.cmp(b)?,
                (_, V::U(x)) => rv.as_unsigned().cmp(x),
                (_, V::S(x)) => rv.as_signed().cmp(x),
                _ => Ordering::Equal,
            };
            if c != Ordering::Equal {
                return Ok(c);
            }
        }
        Ok(Ordering::Equal)
    }
}

fn gen_array_keys(rng: &mut Rng, n: usize, fixed: usize) -> Vec<Vec<u8>> {
    // keys built around shared stems so that prefixes shorter / equal / longer than `fixed` collide
    let alphabet = [0x00u8, 0xFF, b'a', b'b'];
    let mut set: std::collections::BTreeSet<Vec<u8>> = Default::default();
    let stems: Vec<Vec<u8>> = (0..3).map(|_| (0..fixed.saturating_sub(rng.below(2) as usize)).map(|_| *rng.pick(&alphabet)).collect()).collect();
    if rng.chance(2, 3) {
        set.insert(vec![]);
    }
    let mut guard = 0;
    while set.len() < n && guard < n * 50 {
        guard += 1;
        let mut k = if rng.chance(3, 4) { rng.pick(&stems).clone() } else { vec![] };
        let extra = rng.below(5) as usize;
        for _ in 0..extra {
            k.push(*rng.pick(&alphabet));
        }
        if rng.chance(1, 6) {
            k.truncate(rng.below(k.len() as u64 + 1) as usize);
        }
        set.insert(k);
    }
    let mut v: Vec<Vec<u8>> = set.into_iter().collect();
    // shuffle (insertion order must not matter)
    for i in (1..v.len()).rev() {
        let j = rng.below(i as u64 + 1) as usize;
        v.swap(i, j);
    }
    v
}

pub fn gen_sorted(rng: &mut Rng, quick: bool, case: u64) -> DirSpec {
    let n = match case % 5 {
        0 => 1,
        1 => 2 + rng.below(6) as usize,
        2 => rng.below(60) as usize + 1,
        3 => rng.below(if quick { 400 } else { 4000 }) as usize + 1,
        _ => rng.below(25) as usize + 1,
    };
    let keykind = rng.below(6);
    let indexed = rng.chance(1, 2);
    let fixed = *rng.pick(&[0usize, 0, 1, 2, 3, 31]);
    // a value store holding more than a thousand distinct values, some of them handed over again late
    // (keys under another inline prefix whose remainder repeats an earlier one)
    let many_values = case % 20 == 13;
    let (keykind, indexed, fixed) = if many_values { (0, case % 40 == 13, 2) } else { (keykind, indexed, fixed) };
    let mut common: Vec<(&'static str, PDef)> = vec![];
    let mut sort_keys: Vec<&'static str> = vec![];
    let mut columns: Vec<Vec<V>> = vec![];
    match keykind {
        0 | 1 | 2 => {
            common.push(("p0", PDef::Array { fixed, store: 0 }));
            sort_keys.push("p0");
            if many_values {
                let nvals = 1040 + rng.below(120) as usize;
                let mut keys: Vec<Vec<u8>> = (0..nvals).map(|i| format!("aa{:05}", i * 7 % 99991).into_bytes()).collect();
                // the second occurrences of a remainder come last: by then the store holds > 1024 values
                let mut late: Vec<Vec<u8>> = (0..(20 + rng.below(40) as usize)).map(|j| {
                    let mut k = keys[(j * 37 + 5) % nvals].clone();
                    k[0] = b'b';
                    k[1] = if j % 3 == 0 { b'a' } else { b'b' };
                    k
                }).collect();
                late.sort();
                late.dedup();
                for i in (1..keys.len()).rev() {
                    let j = rng.below(i as u64 + 1) as usize;
                    keys.swap(i, j);
                }
                keys.extend(late);
                columns.push(keys.into_iter().map(V::A).collect());
            } else {
                columns.push(gen_array_keys(rng, n, fixed).into_iter().map(V::A).collect());
            }
        }
        3 => {
            common.push(("p0", PDef::UInt));
            sort_keys.push("p0");
            let mut set: std::collections::BTreeSet<u64> = Default::default();
            while set.len() < n {
                set.insert(if rng.chance(1, 2) { rng.below(3 * n as u64 + 3) } else { dirgen::int_boundary_u(rng) });
            }
            let mut v: Vec<u64> = set.into_iter().collect();
            for i in (1..v.len()).rev() {
                let j = rng.below(i as u64 + 1) as usize;
                v.swap(i, j);
            }
            columns.push(v.into_iter().map(V::U).collect());
        }
        4 => {
            common.push(("p0", PDef::SInt));
            sort_keys.push("p0");
            let mut set: std::collections::BTreeSet<i64> = Default::default();
            while set.len() < n {
                set.insert(if rng.chance(1, 2) { rng.below(3 * n as u64 + 3) as i64 - n as i64 } else { dirgen::int_boundary_s(rng) });
            }
            let mut v: Vec<i64> = set.into_iter().collect();
            for i in (1..v.len()).rev() {
                let j = rng.below(i as u64 + 1) as usize;
                v.swap(i, j);
            }
            columns.push(v.into_iter().map(V::S).collect());
        }
        _ => {
            // two sort keys: a coarse unsigned, then an array
            common.push(("p0", PDef::UInt));
            common.push(("p1", PDef::Array { fixed, store: 0 }));
            sort_keys.push("p0");
            sort_keys.push("p1");
            let arrs = gen_array_keys(rng, n, fixed);
            let n = arrs.len();
            columns.push((0..n).map(|_| V::U(rng.below(3))).collect());
            columns.push(arrs.into_iter().map(V::A).collect());
        }
    }
    // a payload column that is not a key
    common.push(("p9", PDef::UInt));
    let n = columns[0].len();
    let mut entries = vec![];
    for i in 0..n {
        let mut values: Vec<(&'static str, V)> = vec![];
        for (k, col) in columns.iter().enumerate() {
            values.push((sort_keys[k], col[i].clone()));
        }
        values.push(("p9", V::U(rng.below(1000))));
        entries.push(EntrySpec { variant: None, values });
    }
    let mut indexes = vec![IndexSpec { name: "all".into(), offset: 0, count: n as u32 }];
    if n > 2 {
        let off = rng.below(n as u64 - 1) as u32;
        let cnt = 1 + rng.below((n as u32 - off) as u64) as u32;
        indexes.push(IndexSpec { name: "sub".into(), offset: off, count: cnt });
    }
    // "all index windows" includes the degenerate ones: empty windows (at the start, inside, at the
    // very end of the store), one-entry windows, a proper prefix and a proper suffix
    if n >= 1 {
        let inside = rng.below(n as u64) as u32;
        indexes.push(IndexSpec { name: "empty-in".into(), offset: inside, count: 0 });
        indexes.push(IndexSpec { name: "empty-end".into(), offset: n as u32, count: 0 });
        indexes.push(IndexSpec { name: "one".into(), offset: rng.below(n as u64) as u32, count: 1 });
    }
    if n >= 2 {
        let cut = 1 + rng.below(n as u64 - 1) as u32;
        indexes.push(IndexSpec { name: "prefix".into(), offset: 0, count: cut });
        indexes.push(IndexSpec { name: "suffix".into(), offset: cut, count: n as u32 - cut });
    }
    DirSpec { stores: vec![indexed], common, variants: vec![], sort_keys: Some(sort_keys), entries, indexes, label: format!("sorted-k{}", keykind) }
}

fn run_one(ctx: &mut Ctx, case: u64, spec: &DirSpec, rng: &mut Rng, expect_failure: bool) {
    let dir = ctx.work.join(format!("dp-{}", case));
    let built = util::guarded(|| dirgen::build(&dir, spec));
    let built = match built {
        Ok(Ok(b)) => {
            if expect_failure {
                ctx.fail(case, "duplicate-keys-accepted", "creation of a sorted store with duplicate sort keys succeeded");
            }
            b
        }
        other => {
            if !expect_failure {
                ctx.fail(case, "create", &format!("creation failed: {:?}", other.err()));
            } else {
                ctx.count("duplicate_keys_creation_failed");
            }
            ctx.case_done(case, false);
            return;
        }
    };
    if expect_failure {
        return;
    }
    let sort_keys = spec.sort_keys.clone().unwrap();
    let key_of = |e: &EntrySpec| -> Vec<V> { sort_keys.iter().map(|k| e.values.iter().find(|(n, _)| n == k).unwrap().1.clone()).collect() };
    // expected stored order = reader order on the sort keys (unique keys => deterministic)
    let mut order: Vec<usize> = (0..spec.entries.len()).collect();
    order.sort_by(|a, b| keys_cmp(&key_of(&spec.entries[*a]), &key_of(&spec.entries[*b])));
    let expected = dirgen::expected_dump(spec, &order, &|t| t as u64);
    let got = dirgen::dump(&built.path, spec);
    if got != expected {
        let ge: Vec<&str> = got.split(|c| c == ';' || c == '{' || c == '}').collect();
        let ee: Vec<&str> = expected.split(|c| c == ';' || c == '{' || c == '}').collect();
        let k = ge.iter().zip(ee.iter()).position(|(a, b)| a != b).unwrap_or(0);
        ctx.fail(case, "stored-order", &format!("{}: stored entry #{} is `{}`; in the reader's order it must be `{}` ({} entries, prefix/stores {:?}/{:?})", spec.label, k.saturating_sub(1), ge.get(k).unwrap_or(&"").chars().take(120).collect::<String>(), ee.get(k).unwrap_or(&"").chars().take(120).collect::<String>(), spec.entries.len(), spec.common.first(), spec.stores));
    }
    // Bound::get() of each added entry = its final position
    for (k, b) in built.bounds.iter().enumerate() {
        let pos = order.iter().position(|x| *x == k).unwrap();
        if *b as usize != pos {
            ctx.fail(case, "bound", &format!("entry added #{k} reports position {} but is stored at {}", b, pos));
            break;
        }
    }
    let size = std::fs::metadata(&built.path).map(|m| m.len()).unwrap_or(0);
    ctx.emit(case, &format!("dp.decode {} 0 {}", built.path.display(), size), &got);
    let specfile = dir.join("spec.txt");
    dirgen::write_spec_file(&specfile, spec, &order, &|t| t as u64);
    ctx.emit(case, &format!("dp.encode {} 0 {} {}", built.path.display(), size, specfile.display()), "same");

    // ---- find: binary vs linear, present and absent probes, every window
    let keys_sorted: Vec<Vec<V>> = order.iter().map(|i| key_of(&spec.entries[*i])).collect();
    let keys_str = if keys_sorted.is_empty() { "-".to_string() } else { keys_sorted.iter().map(|k| key_canon(k)).collect::<Vec<_>>().join(";") };
    let res = util::guarded(|| -> Result<(), String> {
        let reader: jbk::Reader = jbk::FileSource::open(&built.path).map_err(|e| format!("io:{e}"))?.into();
        let pack = Arc::new(jbk::reader::DirectoryPack::new(reader).map_err(|e| format!("{:?}", e))?);
        let vs = pack.create_value_storage();
        let es = pack.create_entry_storage();
        for ix in &spec.indexes {
            let index = pack.get_index_from_name(&ix.name).map_err(|e| format!("{:?}", e))?.ok_or("noindex")?;
            let builder = AnyBuilder::new(index.get_store(&es).map_err(|e| format!("{:?}", e))?, vs.as_ref()).map_err(|e| format!("{:?}", e))?;
            let mut probes: Vec<Vec<V>> = vec![];
            let nprobe = if ctx.quick() { 12 } else { 40 };
            for _ in 0..nprobe {
                if !keys_sorted.is_empty() && rng.chance(2, 3) {
                    probes.push(rng.pick(&keys_sorted).clone());
                } else {
                    // absent (probably): perturb a key
                    let mut k = if keys_sorted.is_empty() { key_of(&spec.entries[0]) } else { rng.pick(&keys_sorted).clone() };
                    let last = k.len() - 1;
                    k[last] = match &k[last] {
                        V::A(b) => {
                            let mut b = b.clone();
                            match rng.below(3) {
                                0 => b.push(*rng.pick(&[0u8, 0xFF, b'a'])),
                                1 => {
                                    b.pop();
                                }
                                _ => {
                                    if let Some(x) = b.last_mut() {
                                        *x = x.wrapping_add(1);
                                    } else {
                                        b.push(1);
                                    }
                                }
                            }
                            V::A(b)
                        }
                        V::U(x) => V::U(x.wrapping_add(1)),
                        V::S(x) => V::S(x.wrapping_sub(1)),
                        v => v.clone(),
                    };
                    probes.push(k);
                }
            }
            // the keys sitting on the window's edges, inside and just outside
            for e in [ix.offset as i64 - 1, ix.offset as i64, (ix.offset + ix.count) as i64 - 1, (ix.offset + ix.count) as i64] {
                if e >= 0 && (e as usize) < keys_sorted.len() {
                    probes.push(keys_sorted[e as usize].clone());
                }
            }
            ctx.count(&format!("window:{}", if ix.count == 0 { "empty" } else if ix.count == 1 { "one" } else if ix.count as usize == keys_sorted.len() { "whole" } else { "proper" }));
            for p in probes {
                let mut answers = vec![];
                for ordered in [true, false] {
                    let cmp = Probe { builder: &builder, names: sort_keys.clone(), probe: p.clone(), ordered };
                    let r = index.find(&cmp).map_err(|e| format!("{:?}", e))?;
                    answers.push(r.map(|i| i.into_u32()));
                }
                // oracle: position of the key inside the window, if present
                let lo = ix.offset as usize;
                let hi = (ix.offset + ix.count) as usize;
                let want = keys_sorted[lo..hi].iter().position(|k| keys_cmp(k, &p) == Ordering::Equal).map(|i| i as u32);
                if answers[0] != answers[1] {
                    ctx.fail(case, "find-modes-disagree", &format!("probe {} in window [{}..{}): binary search = {:?}, linear scan = {:?}", key_canon(&p), lo, hi, answers[0], answers[1]));
                }
                if answers[0] != want {
                    ctx.fail(case, "find-binary", &format!("probe {} in window [{}..{}): binary search = {:?}, written at {:?}", key_canon(&p), lo, hi, answers[0], want));
                }
                if answers[1] != want {
                    ctx.fail(case, "find-linear", &format!("probe {} in window [{}..{}): linear scan = {:?}, written at {:?}", key_canon(&p), lo, hi, answers[1], want));
                }
                let fmt = |a: Option<u32>| a.map(|i| format!("some {}", i)).unwrap_or("none".into());
                ctx.emit(case, &format!("find bin {} {} {} {}", ix.offset, ix.count, key_canon(&p), keys_str), &fmt(answers[0]));
                ctx.emit(case, &format!("find lin {} {} {} {}", ix.offset, ix.count, key_canon(&p), keys_str), &fmt(answers[1]));
                ctx.count(if want.is_some() { "probe:present" } else { "probe:absent" });
            }
        }
        Ok(())
    });
    match res {
        Ok(Ok(())) => {}
        Ok(Err(e)) => ctx.fail(case, "find-error", &e),
        Err(p) => ctx.fail(case, "find-panic", &p),
    }
    ctx.count(&format!("label:{}", spec.label));
    ctx.add("entries", spec.entries.len() as u64);
    if let Some((_, PDef::Array { fixed, store })) = spec.common.iter().find(|(_, d)| matches!(d, PDef::Array { .. })) {
        ctx.count(&format!("array-prefix{}-{}", fixed, if spec.stores[*store] { "indexed" } else { "plain" }));
    }
    ctx.sample(format!("{} entries={} stores={:?} props={:?} first keys={}", spec.label, spec.entries.len(), spec.stores, spec.common, keys_sorted.iter().take(6).map(|k| key_canon(k)).collect::<Vec<_>>().join(";")));
    ctx.case_done(fnv(format!("{:?}", spec).as_bytes()), spec.entries.len() > 1);
    let _ = hex(&[]);
}

pub fn run(ctx: &mut Ctx) {
    let mut rng = Rng::new(ctx.seed ^ 0xC03);
    let n = if ctx.quick() { 60 } else { 900 };
    for case in 0..n as u64 {
        let mut crng = rng.fork(case);
        if !ctx.wants(case) {
            continue;
        }
        let mut spec = gen_sorted(&mut crng, ctx.quick(), case);
        // a few stores with a duplicated sort key: creation must fail
        let dup = case % 20 == 19 && spec.entries.len() >= 2;
        if dup {
            let e0 = spec.entries[0].clone();
            let n = spec.entries.len();
            spec.entries[n - 1].values = e0.values.clone();
            spec.entries.truncate(std::cmp::min(n, 6));
            let m = spec.entries.len();
            spec.entries[m - 1].values = e0.values;
            for ix in spec.indexes.iter_mut() {
                ix.offset = 0;
                ix.count = m as u32;
            }
        }
        run_one(ctx, case, &spec, &mut crng, dup);
    }
}
