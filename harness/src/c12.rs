//! C12 — rewriting a pack location changes only that location; the manifest stays valid.
//!
//! Histories of `tools::set_location` on manifests standalone (NoConcat), inside a container
//! (OneFile / TwoFiles) and inside a re-concatenated container (manifest at another offset).
//! Oracle after every step: result kind, file diff confined to the location field + CRC of the
//! target pack info, manifest opens, all pack infos unchanged except the target location, manifest
//! check true, (one-file) full logical dump unchanged.  Model: `setLocationAt` on the same bytes
//! must produce the identical file; the model's pack-info decoder and masked check must agree.
use crate::container::{self, Mode, PackAt};
use crate::out::{fnv, hex, Ctx};
use crate::rng::Rng;
use crate::util::{self, Comp};
use jubako as jbk;
use jbk::Pack;
use std::path::Path;

fn info_str(p: &jbk::reader::PackInfo) -> String {
    let kind = match format!("{:?}", p.pack_kind).as_str() {
        "Manifest" => "m",
        "Directory" => "d",
        "Content" => "c",
        _ => "C",
    };
    // SizedOffset's fields are crate-private: read them out of its Debug rendering
    let dbg = format!("{:?}", p.check_info_pos);
    let nums: Vec<u64> = dbg
        .split(|c: char| !c.is_ascii_digit())
        .filter(|s| !s.is_empty())
        .filter_map(|s| s.parse().ok())
        .collect();
    let so = (nums.first().copied().unwrap_or(0), nums.get(1).copied().unwrap_or(0));
    format!(
        "{}/{}/{}:{}/{}/{}/{}/{}/{}",
        hex(p.uuid.as_bytes()).replace('-', ""),
        p.pack_size.into_u64(),
        so.1,
        so.0,
        p.pack_id.into_u16(),
        kind,
        p.pack_group,
        p.free_data_id.into_u64(),
        hex(p.pack_location.as_str().as_bytes())
    )
}

fn manifest_at(bytes: &[u8]) -> Option<PackAt> {
    container::packs_in_file(bytes).into_iter().find(|p| p.kind == b'm')
}

/// (uuid, block offset in file) of each pack info, parsed independently of jubako
fn pack_info_blocks(bytes: &[u8], m: &PackAt) -> Vec<([u8; 16], usize)> {
    let n = u16::from_le_bytes([bytes[m.origin + 64], bytes[m.origin + 65]]) as usize;
    let base = m.origin + m.check_info_pos - n * 256;
    (0..n)
        .map(|k| {
            let o = base + k * 256;
            let mut u = [0u8; 16];
            u.copy_from_slice(&bytes[o..o + 16]);
            (u, o)
        })
        .collect()
}

fn random_location(rng: &mut Rng) -> String {
    let target = match rng.below(8) {
        0 => 0,
        1 => 213,
        2 => 212,
        3 => 1,
        _ => rng.below(214) as usize,
    };
    let alphabet: [&str; 9] = ["a", "Z", "/", ".", "é", "日", "𝄞", " ", "_"];
    let mut s = String::new();
    loop {
        let c = *rng.pick(&alphabet);
        if s.len() + c.len() > target {
            break;
        }
        s.push_str(c);
    }
    while s.len() < target {
        s.push('x');
    }
    s
}

/// a string close to `cur` (≤ 213 bytes)
fn related_location(rng: &mut Rng, cur: &str) -> String {
    let mut v = match rng.below(9) {
        0 => cur.to_string(),
        1 => cur.replacen('/', "//", 1),
        2 => format!("./{}", cur),
        3 => format!("{}/", cur),
        4 => format!("{}/.", cur),
        5 => cur.replacen('/', "/./", 1),
        6 => cur.to_uppercase(),
        7 => {
            let mut c = cur.to_string();
            c.pop();
            c
        }
        _ => format!("{} ", cur),
    };
    if v == cur && rng.chance(1, 2) {
        // no '/' to play with: double a separator in front
        v = format!("a//{}", cur);
        if !rng.chance(1, 2) {
            v = format!("a/{}", cur);
        }
    }
    while v.len() > 213 {
        v.pop();
    }
    v
}

fn manifest_view(bytes: &[u8], m: &PackAt) -> Result<(Vec<String>, bool), String> {
    let v = bytes[m.origin..m.origin + m.size].to_vec();
    let mp = jbk::reader::ManifestPack::new(v.into()).map_err(|e| format!("err:{}", util::err_kind(&e)))?;
    let mut infos = vec![info_str(mp.get_directory_pack_info())];
    for p in mp.get_pack_infos() {
        infos.push(info_str(p));
    }
    let chk = mp.check().map_err(|e| format!("err:{}", util::err_kind(&e)))?;
    Ok((infos, chk))
}

fn one_history(ctx: &mut Ctx, case: u64, rng: &mut Rng, path: &Path, label: &str, dump_before: Option<Vec<String>>) {
    let steps = 1 + rng.below(if ctx.quick() { 6 } else { 20 });
    let mut nontrivial = false;
    let mut fp = 0u64;
    for step in 0..steps {
        let before = std::fs::read(path).unwrap();
        let m = match manifest_at(&before) {
            Some(m) => m,
            None => {
                ctx.fail(case, "nomanifest", "no manifest pack found in file");
                return;
            }
        };
        let blocks = pack_info_blocks(&before, &m);
        let (infos_before, _) = match manifest_view(&before, &m) {
            Ok(x) => x,
            Err(e) => {
                ctx.fail(case, "open-before", &format!("manifest does not open before the step: {e}"));
                return;
            }
        };
        // choose target
        let unknown = rng.chance(1, 6);
        let uuid_bytes: [u8; 16] = if unknown {
            let mut u = [0u8; 16];
            u.copy_from_slice(&rng.bytes(16));
            u
        } else {
            blocks[rng.below(blocks.len() as u64) as usize].0
        };
        // the new string: unrelated to the recorded one, or a near miss of it (same string, same path
        // spelt differently, a prefix, an extension, another case) — "changes only that location" and
        // "the new location is what is read back" are about strings, not about what they denote
        let current: Option<String> = blocks.iter().find(|(u, _)| *u == uuid_bytes).and_then(|(_, bo)| {
            let l = before[bo + 38] as usize;
            String::from_utf8(before[bo + 39..bo + 39 + l].to_vec()).ok()
        });
        let loc = match current {
            Some(cur) if rng.chance(2, 5) => {
                let v = related_location(rng, &cur);
                ctx.count(if v == cur { "loc:same-as-recorded" } else { "loc:near-miss-of-recorded" });
                v
            }
            _ => random_location(rng),
        };
        let before_path = ctx.work.join(format!("c12-{}-{}-before", case, step));
        std::fs::write(&before_path, &before).unwrap();
        let uuid = uuid::Uuid::from_bytes(uuid_bytes);
        let res = util::guarded(|| jbk::tools::set_location(path, uuid, loc.as_str().into()));
        let after = std::fs::read(path).unwrap();
        let after_path = ctx.work.join(format!("c12-{}-{}-after", case, step));
        std::fs::write(&after_path, &after).unwrap();
        let impl_line;
        match res {
            Err(p) => {
                ctx.fail(case, "panic", &format!("set_location panicked: {p} (location of {} bytes)", loc.len()));
                impl_line = p;
            }
            Ok(Err(e)) => {
                ctx.fail(case, "setloc-error", &format!("set_location on {label} returned {:?} for a {}-byte location", util::err_kind(&e), loc.len()));
                impl_line = format!("err {}", util::err_kind(&e));
            }
            Ok(Ok(r)) => {
                let old = r.as_ref().map(|(_, old)| hex(old.as_str().as_bytes())).unwrap_or_else(|| "none".into());
                impl_line = format!("ok same old={}", old);
                // ---- oracle
                let target = blocks.iter().find(|(u, _)| *u == uuid_bytes);
                match (target, &r) {
                    (None, None) => {
                        if after != before {
                            ctx.fail(case, "unknown-uuid-changed", "naming a pack not in the manifest changed the file");
                        }
                    }
                    (None, Some(_)) => ctx.fail(case, "unknown-uuid-found", "set_location reported success for a uuid not in the manifest"),
                    (Some(_), None) => ctx.fail(case, "listed-uuid-notfound", "set_location returned None for a listed pack"),
                    (Some((_, off)), Some(_)) => {
                        nontrivial = true;
                        if after.len() != before.len() {
                            ctx.fail(case, "length", "file length changed");
                        } else {
                            for i in 0..after.len() {
                                if after[i] != before[i] && !(i >= off + 38 && i < off + 256) {
                                    ctx.fail(case, "outside-diff", &format!("byte {} changed; rewritten block is [{}..{}), location+crc = [{}..{})", i, off, off + 256, off + 38, off + 256));
                                    break;
                                }
                            }
                        }
                        match manifest_view(&after, &m) {
                            Err(e) => ctx.fail(case, "open-after", &format!("manifest no longer opens: {e}")),
                            Ok((infos_after, chk)) => {
                                if !chk {
                                    ctx.fail(case, "check-after", "manifest check is false after the rewrite");
                                }
                                let uh = hex(&uuid_bytes);
                                for (a, b) in infos_before.iter().zip(infos_after.iter()) {
                                    if a.starts_with(&uh) {
                                        let exp = format!("{}/{}", &a[..a.rfind('/').unwrap()], hex(loc.as_bytes()));
                                        if *b != exp {
                                            ctx.fail(case, "target-info", &format!("target pack info reads {} expected {}", b, exp));
                                        }
                                    } else if a != b {
                                        ctx.fail(case, "other-info", &format!("another pack info changed: {} -> {}", a, b));
                                    }
                                }
                                if infos_after.len() != infos_before.len() {
                                    ctx.fail(case, "info-count", "number of pack infos changed");
                                }
                            }
                        }
                    }
                }
            }
        }
        let op = format!(
            "mp.setloc {} {} {} {} {}",
            before_path.display(),
            m.origin,
            hex(&uuid_bytes),
            hex(loc.as_bytes()),
            after_path.display()
        );
        fp ^= fnv(op.as_bytes());
        ctx.sample(format!("{label} step {step}: set_location(uuid={}, loc={:?} [{} bytes]) -> {}", hex(&uuid_bytes), loc, loc.len(), impl_line));
        ctx.emit(case, &op, &impl_line);
        // model decode + masked check on the file after the step
        match manifest_view(&after, &m) {
            Ok((infos, chk)) => {
                ctx.emit(case, &format!("mp.infos {} {} {}", after_path.display(), m.origin, m.size), &format!("ok {}", infos_sorted_by_file_order(&after, &m, &infos)));
                ctx.emit(case, &format!("pk.check {} {} {} m -", after_path.display(), m.origin, m.size), if chk { "true" } else { "nottrue" });
            }
            Err(_) => {}
        }
        ctx.count(&format!("loc_len:{}", match loc.len() { 0 => "0", 1..=50 => "1-50", 51..=211 => "51-211", 212 => "212", _ => "213" }));
        ctx.count(if unknown { "target:unknown-uuid" } else { "target:listed" });
        if !loc.is_ascii() {
            ctx.count("loc:multibyte-utf8");
        }
    }
    // one-file containers: the whole logical dump is unchanged by any history
    if let Some(d0) = dump_before {
        let d1 = container::dump(path);
        if d0 != d1 {
            ctx.fail(case, "dump-changed", &format!("logical dump changed after the history: {:?} -> {:?}", d0.get(0..2), d1.get(0..2)));
        }
    }
    ctx.add("steps", steps);
    ctx.count(&format!("where:{label}"));
    ctx.case_done(fp, nontrivial);
}

/// the harness lists directory info first; the model lists in file order — reorder to file order
fn infos_sorted_by_file_order(bytes: &[u8], m: &PackAt, infos: &[String]) -> String {
    let blocks = pack_info_blocks(bytes, m);
    let mut out = vec![];
    for (u, _) in blocks {
        let uh = hex(&u);
        if let Some(s) = infos.iter().find(|s| s.starts_with(&uh)) {
            out.push(s.clone());
        }
    }
    out.join(" ")
}

pub fn run(ctx: &mut Ctx) {
    let mut rng = Rng::new(ctx.seed ^ 0xC12);
    let rounds = if ctx.quick() { 2 } else { 12 };
    let mut case = 0u64;
    for round in 0..rounds {
        for mode in Mode::ALL {
            for extra in [0u16, 2] {
                let my = case;
                case += 1;
                if !ctx.wants(my) {
                    continue;
                }
                let mut crng = rng.fork(my);
                let comp = *crng.pick(&[Comp::None, Comp::Zstd(3), Comp::Lz4(3)]);
                let spec = container::random_spec(&mut crng, mode, comp, 5, extra);
                let dir = ctx.work.join(format!("c12-{}", my));
                std::fs::create_dir_all(&dir).unwrap();
                let path = match util::guarded(|| container::build(&dir, "c", &spec)) {
                    Ok(Ok(p)) => p,
                    other => {
                        ctx.fail(my, "create", &format!("creation failed: {:?}", other));
                        continue;
                    }
                };
                let label = format!("{}+{}extra", mode.name(), extra);
                let dump0 = if mode == Mode::OneFile && extra == 0 { Some(container::dump(&path)) } else { None };
                one_history(ctx, my, &mut crng, &path, &label, dump0);
                // manifest at another offset: re-concatenate the files of the container
                if round % 2 == 0 && mode != Mode::OneFile {
                    let my2 = case;
                    case += 1;
                    if ctx.wants(my2) {
                        let mut files: Vec<std::path::PathBuf> = std::fs::read_dir(&dir)
                            .unwrap()
                            .filter_map(|e| e.ok().map(|e| e.path()))
                            .filter(|p| p.is_file())
                            .collect();
                        files.sort();
                        // manifest last or first, seeded
                        if crng.chance(1, 2) {
                            files.reverse();
                        }
                        let out = dir.join("concat.jbk");
                        let outp = camino::Utf8PathBuf::from_path_buf(out.clone()).unwrap();
                        match util::guarded(|| jbk::tools::concat(&files, &outp)) {
                            Ok(Ok(())) => one_history(ctx, my2, &mut crng, &out, &format!("concat-of-{}", mode.name()), None),
                            other => ctx.fail(my2, "concat", &format!("tools::concat failed: {:?}", other.map(|r| r.map_err(|e| util::err_kind(&e))))),
                        }
                    }
                }
                let _ = std::fs::remove_dir_all(&dir);
            }
        }
        // manifests written with the low-level creator: the format does not fix the position of the
        // directory pack among the pack infos (first, in the middle, last)
        for dirpos in 0..3usize {
            let my = case;
            case += 1;
            if !ctx.wants(my) {
                continue;
            }
            let mut crng = rng.fork(my);
            let dir = ctx.work.join(format!("c12-{}", my));
            std::fs::create_dir_all(&dir).unwrap();
            match util::guarded(|| custom_manifest(&dir, dirpos, &mut crng, 2, 0)) {
                Ok(Ok(path)) => {
                    one_history(ctx, my, &mut crng, &path, &format!("custom-manifest-dir-at-{}", dirpos), None);
                    if dirpos > 0 && round % 2 == 0 {
                        // … and the same manifest inside a container file
                        let my2 = case;
                        case += 1;
                        if ctx.wants(my2) {
                            let mut files: Vec<std::path::PathBuf> = std::fs::read_dir(&dir).unwrap().filter_map(|e| e.ok().map(|e| e.path())).filter(|p| p.is_file()).collect();
                            files.sort();
                            let out = dir.join("concat.jbk");
                            let outp = camino::Utf8PathBuf::from_path_buf(out.clone()).unwrap();
                            match util::guarded(|| jbk::tools::concat(&files, &outp)) {
                                Ok(Ok(())) => one_history(ctx, my2, &mut crng, &out, &format!("concat-of-custom-manifest-dir-at-{}", dirpos), None),
                                other => ctx.fail(my2, "concat", &format!("tools::concat failed: {:?}", other.map(|r| r.map_err(|e| util::err_kind(&e))))),
                            }
                        }
                    }
                }
                other => ctx.fail(my, "create", &format!("creation of a custom manifest failed: {:?}", other)),
            }
            let _ = std::fs::remove_dir_all(&dir);
        }
        // big manifests: the pack-info table straddles offset 65536 of the manifest (large free data of
        // one pack) or the checked data exceeds 8 KiB (many packs); standalone and inside a container file
        let mut bigs: Vec<(u16, usize)> = vec![];
        let spread: &[usize] = if ctx.quick() { &[64_620, 64_880, 65_130] } else { &[64_500, 64_600, 64_700, 64_800, 64_900, 65_000, 65_100, 65_200, 65_300] };
        for f in spread {
            bigs.push((2, f + 7 * round));
        }
        bigs.push((if ctx.quick() { 31 } else { 29 + 4 * round as u16 }, 0));
        for (bi, (ncontent, free)) in bigs.into_iter().enumerate() {
            let my = case;
            case += 1;
            let my2 = case;
            case += 1;
            if !ctx.wants(my) && !ctx.wants(my2) {
                continue;
            }
            let mut crng = rng.fork(my);
            let dir = ctx.work.join(format!("c12-{}", my));
            std::fs::create_dir_all(&dir).unwrap();
            match util::guarded(|| custom_manifest(&dir, bi % 3, &mut crng, ncontent, free)) {
                Ok(Ok(path)) => {
                    ctx.count(&format!("big_manifest_kb:{}", std::fs::metadata(&path).map(|m| m.len() / 1024).unwrap_or(0)));
                    if ctx.wants(my) {
                        one_history(ctx, my, &mut crng, &path, &format!("big-manifest-{}packs-free{}", ncontent + 1, free), None);
                    }
                    if ctx.wants(my2) {
                        let mut files: Vec<std::path::PathBuf> = std::fs::read_dir(&dir).unwrap().filter_map(|e| e.ok().map(|e| e.path())).filter(|p| p.is_file()).collect();
                        files.sort();
                        let out = dir.join("concat.jbk");
                        let outp = camino::Utf8PathBuf::from_path_buf(out.clone()).unwrap();
                        match util::guarded(|| jbk::tools::concat(&files, &outp)) {
                            Ok(Ok(())) => one_history(ctx, my2, &mut crng, &out, &format!("concat-of-big-manifest-{}packs-free{}", ncontent + 1, free), None),
                            other => ctx.fail(my2, "concat", &format!("tools::concat failed: {:?}", other.map(|r| r.map_err(|e| util::err_kind(&e))))),
                        }
                    }
                }
                other => ctx.fail(my, "create", &format!("creation of a big custom manifest failed: {:?}", other)),
            }
            let _ = std::fs::remove_dir_all(&dir);
        }
    }
}

/// two content packs, an (empty) directory pack and a manifest listing them with the directory pack
/// at position `dirpos`; returns the path of the manifest file
fn custom_manifest(dir: &Path, dirpos: usize, rng: &mut Rng, ncontent: u16, free: usize) -> Result<std::path::PathBuf, String> {
    let open = |p: &Path| std::fs::OpenOptions::new().read(true).write(true).create(true).truncate(true).open(p).map_err(|e| format!("io:{e}"));
    let mut infos = vec![];
    for k in 0..ncontent {
        let p = dir.join(format!("m.c{}.jbkc", k + 1));
        let p8 = camino::Utf8PathBuf::from_path_buf(p).unwrap();
        let mut cp = jbk::creator::ContentPackCreator::new(&p8, jbk::PackId::from(k + 1), util::VENDOR, Default::default(), jbk::creator::Compression::None).map_err(|e| format!("{e}"))?;
        let n = 1 + rng.below(3);
        for _ in 0..n {
            let len = rng.below(200) as usize;
            cp.add_content(Box::new(std::io::Cursor::new(rng.bytes(len))), Default::default()).map_err(|e| format!("{e}"))?;
        }
        let (_f, mut info) = cp.finalize().map_err(|e| format!("{e}"))?;
        if k == 0 && free > 0 {
            // free data of a pack is stored in the manifest's value store, in front of the pack infos
            info.free_data = (0..free).map(|i| (i % 251) as u8).collect();
        }
        infos.push((info, format!("m.c{}.jbkc", k + 1)));
    }
    let dp = jbk::creator::DirectoryPackCreator::new(jbk::PackId::from(0), util::VENDOR, Default::default());
    let mut df = open(&dir.join("m.jbkd"))?;
    let dinfo = dp.finalize().map_err(|e| format!("{e}"))?.write(&mut df).map_err(|e| format!("{e}"))?;
    infos.insert(dirpos.min(infos.len()), (dinfo, "m.jbkd".to_string()));
    let mut mc = jbk::creator::ManifestPackCreator::new(util::VENDOR, Default::default());
    for (info, loc) in infos {
        mc.add_pack(info, loc);
    }
    let mpath = dir.join("m.jbkm");
    let mut mf = open(&mpath)?;
    mc.finalize(&mut mf).map_err(|e| format!("{e}"))?;
    Ok(mpath)
}
