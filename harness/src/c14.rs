//! C14 — written bytes follow the documented layout; old files keep reading the same.
//!
//! (a) fresh containers: a sample of the C01 / C02 / C10 generators is written by the current
//!     creator, decoded by the independent Lean decoder (own CRC-32C, own blake3, codec crates as
//!     decompression oracle) which must recover exactly the logical content written, and re-encoded
//!     byte for byte by the Lean writer model — a change applied symmetrically to writer and reader
//!     (field order, endianness, CRC parameters, bit packing) breaks this although every round-trip
//!     test still passes;
//! (b) the committed reference corpus `/verif/corpus/ref` — produced once by the *pinned* version of
//!     jubako (commit fc3306d, `jbkverif gencorpus` built against a worktree of that commit) — is read
//!     by the current reader and by the Lean decoder: both must reproduce the recorded logical dumps.
use crate::c01;
use crate::c02;
use crate::container::{self, Mode, Spec};
use crate::dirgen::{self, DirSpec, EntrySpec, IndexSpec, PDef, V};
use crate::out::{fnv, Ctx};
use crate::rng::Rng;
use crate::util::{self, Comp, Hint};
use std::path::{Path, PathBuf};

pub fn corpus_dir() -> PathBuf {
    let exe = std::env::current_exe().unwrap();
    // <verif>/harness/target/<profile>/jbkverif
    let verif = exe.ancestors().nth(4).map(|p| p.to_path_buf()).unwrap_or_else(|| PathBuf::from("/verif"));
    verif.join("corpus").join("ref")
}

fn curated_dirs(rng: &mut Rng) -> Vec<(String, DirSpec)> {
    let mut out = vec![];
    // all property kinds, no variant, plain store
    for (name, indexed) in [("plain", false), ("indexed", true)] {
        let mut entries = vec![];
        for i in 0..12u64 {
            entries.push(EntrySpec {
                variant: None,
                values: vec![
                    ("p0", V::A(format!("key-{:02}-{}", i, "x".repeat((i % 5) as usize)).into_bytes())),
                    ("p1", V::U(i * 1000 + 7)),
                    ("p2", V::S(50 - (i as i64) * 9)),
                    ("p3", V::C(1, (i * 37) as u32)),
                    ("p4", V::A(vec![(i % 3) as u8; (i % 4) as usize])),
                    ("p5", V::U(42)),
                ],
            });
        }
        let n = entries.len() as u32;
        out.push((
            format!("dirpack-allkinds-{}", name),
            DirSpec {
                stores: vec![indexed, !indexed],
                common: vec![("p0", PDef::Array { fixed: 2, store: 0 }), ("p1", PDef::UInt), ("p2", PDef::SInt), ("p3", PDef::Content), ("p4", PDef::Array { fixed: 0, store: 1 }), ("p5", PDef::UInt)],
                variants: vec![],
                sort_keys: None,
                entries,
                indexes: vec![IndexSpec { name: "all".into(), offset: 0, count: n }, IndexSpec { name: "sub".into(), offset: 3, count: 5 }],
                label: "corpus".into(),
            },
        ));
    }
    // variants of unequal size (every variant ends with a sized property: readable by the pinned reader)
    {
        let mut entries = vec![];
        for i in 0..9u64 {
            match i % 3 {
                0 => entries.push(EntrySpec { variant: Some(0), values: vec![("p0", V::U(i)), ("p1", V::U(70000 + i)), ("p2", V::A(format!("v0-{}", i).into_bytes()))] }),
                1 => entries.push(EntrySpec { variant: Some(1), values: vec![("p0", V::U(i)), ("p3", V::C(2, i as u32))] }),
                _ => entries.push(EntrySpec { variant: Some(2), values: vec![("p0", V::U(i)), ("p4", V::U(i * 3))] }),
            }
        }
        let n = entries.len() as u32;
        out.push((
            "dirpack-variants".into(),
            DirSpec {
                stores: vec![false],
                common: vec![("p0", PDef::UInt)],
                variants: vec![("v0", vec![("p1", PDef::UInt), ("p2", PDef::Array { fixed: 1, store: 0 })]), ("v1", vec![("p3", PDef::Content)]), ("v2", vec![("p4", PDef::UInt)])],
                sort_keys: None,
                entries,
                indexes: vec![IndexSpec { name: "all".into(), offset: 0, count: n }],
                label: "corpus".into(),
            },
        ));
    }
    // a sorted store
    {
        let mut spec = crate::c03::gen_sorted(rng, true, 2);
        spec.label = "corpus".into();
        out.push(("dirpack-sorted".into(), spec));
    }
    out
}

fn container_specs(rng: &mut Rng) -> Vec<(String, Spec)> {
    let mut out = vec![];
    for mode in Mode::ALL {
        for comp in [Comp::None, Comp::Lz4(3), Comp::Lzma(2), Comp::Zstd(5)] {
            let mut s = container::random_spec(rng, mode, comp, 5, if mode == Mode::NoConcat { 1 } else { 0 });
            for it in s.items.iter_mut() {
                it.data.truncate(600);
                // the pinned writer truncates the stored size of incompressible forced-compressed data (D6)
                if it.hint == Hint::Yes {
                    it.data = rng.low_entropy(it.data.len().max(8));
                }
            }
            out.push((format!("container-{}-{}", mode.name(), comp.name().split(':').next().unwrap()), s));
        }
    }
    out
}

/// `jbkverif gencorpus <outdir>` — run with the harness built against the pinned jubako
pub fn gencorpus(out: &Path) -> i32 {
    let mut rng = Rng::new(0xC0FFEE);
    std::fs::create_dir_all(out).unwrap();
    for (name, spec) in container_specs(&mut rng) {
        let d = out.join(&name);
        std::fs::create_dir_all(&d).unwrap();
        if let Err(e) = container::build(&d, "c", &spec) {
            eprintln!("{name}: {e}");
            return 1;
        }
        std::fs::write(d.join("expected.txt"), container::expected_dump(&spec).join("\n") + "\n").unwrap();
    }
    for (name, spec) in curated_dirs(&mut rng) {
        let d = out.join(&name);
        match dirgen::build(&d, &spec) {
            Ok(_) => {}
            Err(e) => {
                eprintln!("{name}: {e}");
                return 1;
            }
        }
        let mut order: Vec<usize> = (0..spec.entries.len()).collect();
        if let Some(keys) = &spec.sort_keys {
            let key_of = |e: &EntrySpec| -> Vec<V> { keys.iter().map(|k| e.values.iter().find(|(n, _)| n == k).unwrap().1.clone()).collect() };
            order.sort_by(|a, b| key_of(&spec.entries[*a]).cmp(&key_of(&spec.entries[*b])));
        }
        std::fs::write(d.join("expected.txt"), dirgen::expected_dump(&spec, &order, &|t| t as u64) + "\n").unwrap();
        dirgen::write_spec_file(&d.join("spec.txt"), &spec, &order, &|t| t as u64);
        // names of indexes / properties the reader must ask for
        let idx: Vec<String> = spec.indexes.iter().map(|i| i.name.clone()).collect();
        let common: Vec<&str> = spec.common.iter().map(|p| p.0).collect();
        let vars: Vec<String> = spec.variants.iter().map(|v| v.1.iter().map(|p| p.0).collect::<Vec<_>>().join("+")).collect();
        std::fs::write(d.join("names.txt"), format!("{}\n{}\n{}\n", idx.join(","), common.join(","), vars.join(","))).unwrap();
    }
    0
}

/// read a corpus directory pack with the current reader, asking for the recorded names
fn dump_corpus_dir(dir: &Path) -> String {
    let names = std::fs::read_to_string(dir.join("names.txt")).unwrap_or_default();
    let mut lines = names.lines();
    let idx: Vec<String> = lines.next().unwrap_or("").split(',').filter(|s| !s.is_empty()).map(|s| s.to_string()).collect();
    let leak = |s: &str| -> &'static str { Box::leak(s.to_string().into_boxed_str()) };
    let common: Vec<(&'static str, PDef)> = lines.next().unwrap_or("").split(',').filter(|s| !s.is_empty()).map(|s| (leak(s), PDef::UInt)).collect();
    let variants: Vec<(&'static str, Vec<(&'static str, PDef)>)> = lines
        .next()
        .unwrap_or("")
        .split(',')
        .filter(|s| !s.is_empty())
        .enumerate()
        .map(|(i, v)| (dirgen::VNAMES[i], v.split('+').filter(|s| !s.is_empty()).map(|s| (leak(s), PDef::UInt)).collect()))
        .collect();
    let spec = DirSpec { stores: vec![], common, variants, sort_keys: None, entries: vec![], indexes: idx.into_iter().map(|n| IndexSpec { name: n, offset: 0, count: 0 }).collect(), label: "corpus".into() };
    dirgen::dump(&dir.join("dir.jbkd"), &spec)
}

pub fn run(ctx: &mut Ctx) {
    let mut rng = Rng::new(ctx.seed ^ 0xC14);
    let mut case = 0u64;
    // ---- (b) reference corpus
    let corpus = corpus_dir();
    let mut entries: Vec<PathBuf> = std::fs::read_dir(&corpus).map(|rd| rd.flatten().map(|e| e.path()).filter(|p| p.is_dir()).collect()).unwrap_or_default();
    entries.sort();
    if entries.is_empty() {
        ctx.fail(0, "corpus-missing", &format!("reference corpus not found at {}", corpus.display()));
    }
    for e in &entries {
        let my = case;
        case += 1;
        if !ctx.wants(my) {
            continue;
        }
        let name = e.file_name().unwrap().to_string_lossy().to_string();
        let expected = std::fs::read_to_string(e.join("expected.txt")).unwrap_or_default();
        // work on a copy (the model needs a directory without our bookkeeping files)
        let w = ctx.work.join(format!("corpus-{}", name));
        let _ = std::fs::remove_dir_all(&w);
        std::fs::create_dir_all(&w).unwrap();
        for f in std::fs::read_dir(e).unwrap().flatten() {
            let n = f.file_name().to_string_lossy().to_string();
            if n != "expected.txt" && n != "spec.txt" && n != "names.txt" {
                std::fs::copy(f.path(), w.join(&n)).unwrap();
            }
        }
        if name.starts_with("container-") {
            let exp: Vec<String> = expected.lines().map(|s| s.to_string()).collect();
            let got = container::dump(&w.join("c.jbk"));
            if got != exp {
                let k = got.iter().zip(exp.iter()).position(|(a, b)| a != b).unwrap_or(std::cmp::min(got.len(), exp.len()));
                ctx.fail(my, "corpus-container", &format!("reference container {} (written by the pinned version) no longer reads the same: line {} is `{}`, recorded `{}`", name, k, got.get(k).map(|s| s.as_str()).unwrap_or("<none>").chars().take(150).collect::<String>(), exp.get(k).map(|s| s.as_str()).unwrap_or("<none>").chars().take(150).collect::<String>()));
            }
            let decdir = w.join("_dec");
            container::dump_all_clusters(&w, &decdir);
            ctx.emit(my, &format!("ct.open {} c.jbk {}", w.display(), decdir.display()), &got.join(";"));
        } else if name.starts_with("dirpack-") {
            let got = dump_corpus_dir(&w_with_names(e, &w));
            let exp = expected.trim_end().to_string();
            if got != exp {
                ctx.fail(my, "corpus-dirpack", &format!("reference directory pack {} no longer reads the same: got `{}` recorded `{}`", name, got.chars().take(200).collect::<String>(), exp.chars().take(200).collect::<String>()));
            }
            let size = std::fs::metadata(w.join("dir.jbkd")).map(|m| m.len()).unwrap_or(0);
            ctx.emit(my, &format!("dp.decode {} 0 {}", w.join("dir.jbkd").display(), size), &got);
            // the layout the current writer model produces is still the pinned writer's
            ctx.emit(my, &format!("dp.encode {} 0 {} {}", w.join("dir.jbkd").display(), size, e.join("spec.txt").display()), "same");
        }
        ctx.count(&format!("corpus:{}", name.split('-').next().unwrap()));
        ctx.sample(format!("reference corpus entry {}", name));
        ctx.case_done(fnv(name.as_bytes()), true);
    }
    // ---- (a) fresh packs through decoder and writer model
    let n_cp = if ctx.quick() { 12 } else { 120 };
    for k in 0..n_cp {
        let my = case;
        case += 1;
        if !ctx.wants(my) {
            continue;
        }
        let mut crng = rng.fork(my);
        let kind = [9u64, 3, 4, 9, 9, 0, 10][k % 7];
        let mut spec = c01::gen_spec(&mut crng, kind, true);
        if kind == 4 && spec.comp == Comp::None {
            spec.comp = Comp::Zstd(3);
        }
        c01::run_one(ctx, my, &spec, &mut crng, std::sync::Arc::new(()));
        ctx.count("fresh:content-pack");
    }
    let n_dp = if ctx.quick() { 25 } else { 300 };
    for _ in 0..n_dp {
        let my = case;
        case += 1;
        if !ctx.wants(my) {
            continue;
        }
        let mut crng = rng.fork(my);
        let spec = dirgen::gen_dir(&mut crng, true);
        c02::run_one(ctx, my, &spec);
        ctx.count("fresh:directory-pack");
    }
    // directory packs whose entries carry deferred values (references to the final position of other
    // entries): what the independent decoder recovers must be the positions the writer was asked for —
    // unsorted and sorted stores, every reference pattern
    let n_rf = if ctx.quick() { 10 } else { 60 };
    for k in 0..n_rf {
        let my = case;
        case += 1;
        if !ctx.wants(my) {
            continue;
        }
        let mut crng = rng.fork(my);
        let ne = [30usize, 300, 2, 70, 257, 12, 1, 600, 40, 5][k % 10] + crng.below(7) as usize;
        crate::c15::refs_case(ctx, my, &mut crng, ne, k % 2 == 1, (k % 5) as u64, [0u64, 5, 13, 14, 1][k % 5]);
        ctx.count("fresh:directory-pack-with-references");
    }
    let n_ct = if ctx.quick() { 6 } else { 40 };
    for k in 0..n_ct {
        let my = case;
        case += 1;
        if !ctx.wants(my) {
            continue;
        }
        let mut crng = rng.fork(my);
        let mode = Mode::ALL[k % 3];
        let comp = *crng.pick(&[Comp::None, Comp::Zstd(3), Comp::Lz4(2), Comp::Lzma(1)]);
        let spec = container::random_spec(&mut crng, mode, comp, 6, (k % 2) as u16);
        let d = ctx.work.join(format!("c14-ct-{}", my));
        std::fs::create_dir_all(&d).unwrap();
        match util::guarded(|| container::build(&d, "c", &spec)) {
            Ok(Ok(entry)) => {
                let got = container::dump(&entry);
                let exp = container::expected_dump(&spec);
                if got != exp {
                    ctx.fail(my, "fresh-container", &format!("fresh {} container does not read back: {:?}", mode.name(), got.first()));
                }
                let decdir = d.join("_dec");
                container::dump_all_clusters(&d, &decdir);
                ctx.emit(my, &format!("ct.open {} c.jbk {}", d.display(), decdir.display()), &got.join(";"));
            }
            other => ctx.fail(my, "create", &format!("{:?}", other)),
        }
        ctx.count("fresh:container");
        ctx.case_done(fnv(format!("{:?}", spec).as_bytes()), true);
    }
}

fn w_with_names(src: &Path, w: &Path) -> PathBuf {
    let _ = std::fs::copy(src.join("names.txt"), w.join("names.txt"));
    w.to_path_buf()
}
