//! C09 — creation is all-or-nothing at the destination path.  Child-side helpers: the orchestration
//! (strace fault injection at every output syscall, process kill, trace recording) lives in
//! tools/c09.py; this module provides the creation run (`c09child`) and the post-mortem
//! classification of the destination directory (`c09verify`).
use crate::container::{self, Mode, Spec};
use crate::rng::Rng;
use crate::util::{self, Comp};
use std::path::Path;

pub fn spec_for(seed: u64, mode: Mode, big: bool) -> Spec {
    let mut rng = Rng::new(seed ^ 0xC09);
    let comp = if big { Comp::None } else { *rng.pick(&[Comp::None, Comp::Zstd(3), Comp::Lz4(2)]) };
    let mut s = container::random_spec(&mut rng, mode, comp, 6, 0);
    // one content large enough to go through several writes / copy_file_range; in the "big" scenarios the
    // output file exceeds 4 MiB (any in-memory staging of the output has spilled by then)
    if let Some(it) = s.items.first_mut() {
        it.data = rng.bytes(if big { 5 * 1024 * 1024 + 12_345 } else { 70_000 });
        it.hint = util::Hint::No;
    }
    s
}

fn is_big(s: &str) -> bool {
    s.ends_with("-big")
}

fn mode_of(s: &str) -> Mode {
    match s.trim_end_matches("-big") {
        "twofiles" => Mode::TwoFiles,
        "noconcat" => Mode::NoConcat,
        _ => Mode::OneFile,
    }
}

/// create the container `dir/out.jbk`; exit status 0 = Ok, 1 = creation returned an error
pub fn child(args: &[String]) -> i32 {
    let mode = mode_of(&args[0]);
    let dir = Path::new(&args[1]);
    let seed: u64 = args[2].parse().unwrap();
    let spec = spec_for(seed, mode, is_big(&args[0]));
    match container::build(dir, "out", &spec) {
        Ok(_) => 0,
        Err(e) => {
            eprintln!("creation error: {e}");
            1
        }
    }
}

/// classify the destination directory after a (possibly interrupted) creation
pub fn verify(args: &[String]) -> i32 {
    let mode = mode_of(&args[0]);
    let dir = Path::new(&args[1]);
    let seed: u64 = args[2].parse().unwrap();
    let prev_fnv: Option<u64> = args.get(3).and_then(|s| s.parse().ok());
    let spec = spec_for(seed, mode, is_big(&args[0]));
    let expected = container::expected_dump(&spec);
    let entry = dir.join("out.jbk");
    let mut temps = 0;
    let mut names = vec![];
    for e in std::fs::read_dir(dir).unwrap().flatten() {
        let n = e.file_name().to_string_lossy().to_string();
        if n.starts_with(".tmp") {
            temps += 1;
        }
        names.push(n);
    }
    names.sort();
    let state = if !entry.exists() {
        "absent".to_string()
    } else {
        let bytes = std::fs::read(&entry).unwrap_or_default();
        if Some(crate::out::fnv(&bytes)) == prev_fnv {
            "previous".to_string()
        } else {
            let got = container::dump(&entry);
            let chk = util::guarded(|| jubako::reader::Container::new(&entry).and_then(|c| c.check()));
            let chk_ok = matches!(chk, Ok(Ok(true)));
            if got == expected && chk_ok {
                "complete".to_string()
            } else {
                format!("INCOMPLETE:{}:check={}", got.first().map(|s| s.chars().take(80).collect::<String>()).unwrap_or_default(), chk_ok)
            }
        }
    };
    println!("entry={} temps={} files={}", state, temps, names.join(","));
    0
}
