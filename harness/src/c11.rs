//! C11 — an unavailable pack is reported as missing, and everything else still reads.
//!
//! Containers with 1..4 content packs whose packs live in their own files; for every subset of those
//! files (all subsets up to 4 files): each file of the subset is removed, replaced by a directory,
//! or replaced by a different valid pack (a content pack of another container: same location,
//! other uuid).  Oracle: the container opens, every entry reads, a content held in an available
//! pack reads its bytes, a content held in an unavailable pack is reported `missing` with that
//! pack's uuid and location, `Container::check()` is true (it covers the packs that are present).
//! Model: Lean `containerOpen`/`containerGetPack` on the same directory gives the same dump.
use crate::container::{self, Mode, Spec};
use crate::out::{fnv, hex, Ctx};
use crate::rng::Rng;
use crate::util::{self, Comp};
use jubako as jbk;
use std::collections::HashMap;
use std::path::Path;

fn pack_table(entry: &Path) -> Result<HashMap<u16, (String, String)>, String> {
    let bytes = std::fs::read(entry).map_err(|e| format!("io:{e}"))?;
    let m = container::packs_in_file(&bytes).into_iter().find(|p| p.kind == b'm').ok_or("no manifest")?;
    let mp = jbk::reader::ManifestPack::new(bytes[m.origin..m.origin + m.size].to_vec().into()).map_err(|e| util::err_kind(&e).to_string())?;
    let mut t = HashMap::new();
    for p in mp.get_pack_infos() {
        t.insert(p.pack_id.into_u16(), (hex(p.uuid.as_bytes()), p.pack_location.as_str().to_string()));
    }
    Ok(t)
}

fn copy_dir(src: &Path, dst: &Path) {
    std::fs::create_dir_all(dst).unwrap();
    for e in std::fs::read_dir(src).unwrap().flatten() {
        if e.path().is_file() {
            std::fs::copy(e.path(), dst.join(e.file_name())).unwrap();
        }
    }
}

pub fn run(ctx: &mut Ctx) {
    let mut rng = Rng::new(ctx.seed ^ 0xC11);
    let n = if ctx.quick() { 6 } else { 40 };
    for case in 0..n as u64 {
        let mut crng = rng.fork(case);
        if !ctx.wants(case) {
            continue;
        }
        let mode = [Mode::TwoFiles, Mode::NoConcat, Mode::OneFile][(case % 3) as usize];
        let extra = if mode == Mode::OneFile { 1 + (case % 3) as u16 } else { (case % 4) as u16 };
        let comp = *crng.pick(&[Comp::None, Comp::Zstd(3), Comp::Lz4(2)]);
        let mut spec: Spec = container::random_spec(&mut crng, mode, comp, 8, extra);
        if extra >= 2 {
            // manifests listing their content packs out of increasing-id order, with dense ids
            // (1, 3, 2 / 1, 4, 3, 2) on odd cases and in creation order on even ones
            spec.rev_extras = case % 2 == 1;
            if spec.rev_extras {
                spec.id_gap = 0;
            }
        }
        ctx.count(if spec.rev_extras { "manifest_order:ids-not-increasing" } else { "manifest_order:ids-increasing" });
        let root = ctx.work.join(format!("c11-{}", case));
        let dir = root.join("orig");
        std::fs::create_dir_all(&dir).unwrap();
        // recorded locations are file names: on some containers the separately located content packs have
        // locations of the maximal length (213 bytes: `<name>.extraK.jbkc`, or `<name>.jbkc` without extras)
        let cname: String = if case % 3 == 1 { "n".repeat(if extra > 0 { 201 } else if mode == Mode::NoConcat { 207 } else { 208 }) } else { "c".to_string() };
        ctx.count(&format!("name_len:{}", cname.len()));
        let entry = match util::guarded(|| container::build(&dir, &cname, &spec)) {
            Ok(Ok(p)) => p,
            other => {
                ctx.fail(case, "create", &format!("creation failed: {:?}", other));
                continue;
            }
        };
        // a foreign valid content pack to put in place of a missing one
        let fdir = root.join("foreign");
        std::fs::create_dir_all(&fdir).unwrap();
        let fspec = container::random_spec(&mut crng, Mode::NoConcat, comp, 3, 0);
        let _ = util::guarded(|| container::build(&fdir, "f", &fspec));
        let foreign = fdir.join("f.jbkc");
        let table = match pack_table(&entry) {
            Ok(t) => t,
            Err(e) => {
                ctx.fail(case, "manifest", &format!("cannot read the manifest: {e}"));
                continue;
            }
        };
        // separately located content-pack files: location non empty
        let mut sep: Vec<(u16, String)> = table.iter().filter(|(_, (_, loc))| !loc.is_empty()).map(|(id, (_, loc))| (*id, loc.clone())).collect();
        sep.sort();
        let expected_all = container::expected_dump(&spec);
        let nsub = 1usize << sep.len();
        let mut tried = 0u64;
        for mask in 0..nsub {
            if ctx.quick() && nsub > 8 && mask != 0 && mask != nsub - 1 && !crng.chance(1, 3) {
                continue;
            }
            let how = crng.below(3); // 0 removed, 1 directory, 2 foreign pack
            let vdir = root.join(format!("v{}", mask));
            copy_dir(&dir, &vdir);
            let mut unavailable: HashMap<u16, (String, String)> = HashMap::new();
            for (k, (id, loc)) in sep.iter().enumerate() {
                if mask & (1 << k) != 0 {
                    let p = vdir.join(loc);
                    let _ = std::fs::remove_file(&p);
                    match how {
                        1 => std::fs::create_dir_all(&p).unwrap(),
                        2 if foreign.is_file() => {
                            std::fs::copy(&foreign, &p).unwrap();
                        }
                        _ => {}
                    }
                    unavailable.insert(*id, table[id].clone());
                }
            }
            // expected dump: data of items in unavailable packs is `missing:uuid:location`
            let mut expected = expected_all.clone();
            for (i, it) in spec.items.iter().enumerate() {
                let pack = spec.pack_id(it.pack);
                if let Some((uuid, loc)) = unavailable.get(&pack) {
                    let line = &expected[i + 1];
                    let cut = line.rfind("data=").unwrap();
                    expected[i + 1] = format!("{}data=missing:{}:{}", &line[..cut], uuid, loc);
                }
            }
            let ventry = vdir.join(entry.file_name().unwrap());
            let got = container::dump(&ventry);
            let hows = ["removed", "replaced-by-directory", "replaced-by-other-pack"][how as usize];
            if got != expected {
                let k = got.iter().zip(expected.iter()).position(|(a, b)| a != b).unwrap_or(std::cmp::min(got.len(), expected.len()));
                ctx.fail(case, &format!("dump-{}", hows), &format!("{} packs {:?} {}: line {} reads `{}` expected `{}`", mode.name(), unavailable.keys().collect::<Vec<_>>(), hows, k, got.get(k).map(|s| s.as_str()).unwrap_or("<none>").chars().take(200).collect::<String>(), expected.get(k).map(|s| s.as_str()).unwrap_or("<none>").chars().take(200).collect::<String>()));
            }
            // the container check covers the packs that are present
            let chk = util::guarded(|| jbk::reader::Container::new(&ventry).and_then(|c| c.check()));
            match chk {
                Ok(Ok(true)) => {}
                other => ctx.fail(case, &format!("check-{}", hows), &format!("Container::check with packs {:?} {} = {:?}", unavailable.keys().collect::<Vec<_>>(), hows, other.map(|r| r.map_err(|e| util::err_kind(&e))))),
            }
            // … and it does cover them: one altered byte inside the checked range of any present,
            // separately located pack makes the check fail, whichever other packs are unavailable
            for (id, loc) in sep.iter() {
                if unavailable.contains_key(id) {
                    continue;
                }
                let p = vdir.join(loc);
                let orig = match std::fs::read(&p) {
                    Ok(b) => b,
                    Err(_) => continue,
                };
                let packs = container::packs_in_file(&orig);
                let Some(pk) = packs.iter().find(|pk| pk.kind == b'c') else { continue };
                if pk.check_info_pos <= 130 {
                    continue;
                }
                // a byte after the two header blocks and before the check block: cluster data / tails / tables
                let pos = pk.origin + 128 + crng.below((pk.check_info_pos - 128) as u64) as usize;
                let mut damaged = orig.clone();
                damaged[pos] ^= 0x20;
                std::fs::write(&p, &damaged).unwrap();
                let chk = util::guarded(|| jbk::reader::Container::new(&ventry).and_then(|c| c.check()));
                if let Ok(Ok(true)) = chk {
                    ctx.fail(case, "check-misses-present-pack", &format!("{}: packs {:?} {}; byte {} of present pack {} ({}) altered: Container::check() = Ok(true)", mode.name(), unavailable.keys().collect::<Vec<_>>(), hows, pos, id, loc));
                }
                std::fs::write(&p, &orig).unwrap();
                ctx.count("present_pack_altered_checks");
            }
            let decdir = vdir.join("_dec");
            container::dump_all_clusters(&vdir, &decdir);
            ctx.emit(case, &format!("ct.open {} {} {}", vdir.display(), ventry.file_name().unwrap().to_string_lossy(), decdir.display()), &got.join(";"));
            ctx.count(&format!("how:{}", hows));
            ctx.count(&format!("unavailable:{}of{}", unavailable.len(), sep.len()));
            tried += 1;
        }
        ctx.add("subsets", tried);
        ctx.count(&format!("mode:{}", mode.name()));
        ctx.sample(format!("{} with {} extra packs: {} separately located content packs {:?}, {} subsets tried", mode.name(), extra, sep.len(), sep, tried));
        ctx.case_done(fnv(format!("{:?}", spec).as_bytes()), !sep.is_empty());
    }
}
