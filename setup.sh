#!/bin/sh
# Build the framework from files on disk only (offline).
set -e
cd "$(dirname "$0")"
export CARGO_NET_OFFLINE=true
python3 tools/extract_consts.py >/dev/null
python3 tools/extract_layouts.py >/dev/null
python3 tools/extract_funcs.py >/dev/null
(cd lean && lake build JubakoModel jbkmodel)
(cd harness && RUSTFLAGS="--cfg jubako_verif" CARGO_TARGET_DIR="$PWD/target" cargo build --offline --bin jbkverif)
(cd harness && RUSTFLAGS="--cfg jubako_verif" CARGO_TARGET_DIR="$PWD/target" cargo build --offline --release --bin jbkverif)
echo setup-ok
