/-
L2/L3 — directory pack: layout header of an entry store (key-type nibbles, complements, defaults,
names) as written by `creator/directory_pack/layout/{property,entry}.rs` and parsed by
`reader/directory_pack/{raw_layout.rs, layout/mod.rs}`; value stores; entry decoding as done by the
property builders (`reader/directory_pack/builder/property.rs`, `raw_value.rs`).
-/
import JubakoModel.Model.Open

namespace Jubako

inductive PropKind where
  | padding
  | content (packIdSize contentIdSize : Nat) (defaultPack : Option Nat)
  | uint (size : Nat) (default : Option Nat)
  | sint (size : Nat) (default : Option Int)
  /-- `deported` = (id size, value store index); `default` = (array size, fixed data, value id) -/
  | array (lenSize : Option Nat) (fixedLen : Nat) (deported : Option (Nat × Nat))
      (default : Option (Nat × Bytes × Option Nat))
  | variantId
  /-- deported integers (never written by the creator): int size, store, and either a default id
      (`inl`) or the size of the id stored in the entry (`inr`) -/
  | deportedInt (signed : Bool) (size store : Nat) (id : Sum Nat Nat)
  deriving Repr, DecidableEq

structure RawProp where
  size : Nat            -- bytes taken in the entry
  name : Bytes
  kind : PropKind
  deriving Repr, DecidableEq

/-- read `n` bytes little-endian at the head of `bs`; returns value and rest -/
def takeLE (bs : Bytes) (n : Nat) : Outcome (Nat × Bytes) :=
  if n ≤ bs.length then .ok (leNat (bs.take n), bs.drop n) else .err .format

def takeBytes (bs : Bytes) (n : Nat) : Outcome (Bytes × Bytes) :=
  if n ≤ bs.length then .ok (bs.take n, bs.drop n) else .err .format

def takePString (bs : Bytes) : Outcome (Bytes × Bytes) :=
  match pstringDecode bs with
  | some r => .ok r
  | none => .err .format

def signExtend (u : Nat) (n : Nat) : Int :=
  if n = 0 then 0 else if u < 2 ^ (8 * n - 1) then (u : Int) else (u : Int) - (2 ^ (8 * n) : Int)

/-- `RawProperty::parse`; returns the property and the unread rest -/
def RawProp.decode (bs : Bytes) : Outcome (RawProp × Bytes) :=
  match bs with
  | [] => .err .format
  | info :: rest =>
    let ty := info.toNat / 16
    let d := info.toNat % 16
    if ty = 0 then .ok (⟨d + 1, [], .padding⟩, rest)
    else if ty = 1 then do
      let packIdSize := (d / 4) % 2 + 1
      let contentIdSize := d % 4 + 1
      if d / 8 = 1 then
        let (dp, r1) ← takeLE rest packIdSize
        let (nm, r2) ← takePString r1
        .ok (⟨contentIdSize, nm, .content packIdSize contentIdSize (some (dp % 65536))⟩, r2)
      else
        let (nm, r2) ← takePString rest
        .ok (⟨contentIdSize + packIdSize, nm, .content packIdSize contentIdSize none⟩, r2)
    else if ty = 2 ∨ ty = 3 then do
      let intSize := d % 8 + 1
      if d / 8 = 1 then
        let (v, r1) ← takeLE rest intSize
        let (nm, r2) ← takePString r1
        .ok (⟨0, nm, if ty = 2 then .uint intSize (some v) else .sint intSize (some (signExtend v intSize))⟩, r2)
      else
        let (nm, r2) ← takePString rest
        .ok (⟨intSize, nm, if ty = 2 then .uint intSize none else .sint intSize none⟩, r2)
    else if ty = 4 then .panic "prop_type.rs: todo!() (redirection / sub-range property)"
    else if ty = 5 then do
      let hasDefault := d / 8 = 1
      let ls := d % 4
      let lenSize := if ls = 0 then none else some ls
      let (compl, r1) ← takeLE rest 1
      let fixedLen := compl % 32
      let keySize := compl / 32
      let (dep, r2) ← (if keySize ≠ 0 then do
          let (si, r) ← takeLE r1 1
          pure (some (keySize, si), r)
        else pure (none, r1) : Outcome (Option (Nat × Nat) × Bytes))
      if hasDefault then
        match lenSize with
        | none => .panic "raw_layout.rs: array_len_size.unwrap() on a default array without length"
        | some l =>
          let (sz, r3) ← takeLE r2 l
          let (fixed, r4) ← takeBytes r3 fixedLen
          let (kid, r5) ← (if keySize ≠ 0 then do
              let (k, r) ← takeLE r4 keySize
              pure (some k, r)
            else pure (none, r4) : Outcome (Option Nat × Bytes))
          let (nm, r6) ← takePString r5
          .ok (⟨0, nm, .array lenSize fixedLen dep (some (sz, fixed, kid))⟩, r6)
      else
        let (nm, r3) ← takePString r2
        .ok (⟨ls + fixedLen + keySize, nm, .array lenSize fixedLen dep none⟩, r3)
    else if ty = 8 then do
      let (nm, r1) ← takePString rest
      .ok (⟨1, nm, .variantId⟩, r1)
    else if ty = 10 ∨ ty = 11 then do
      let intSize := d % 8 + 1
      let (kb, r1) ← takeLE rest 1
      let keyIdSize := kb % 8 + 1
      let (si, r2) ← takeLE r1 1
      if d / 8 = 1 then
        let (kv, r3) ← takeLE r2 keyIdSize
        let (nm, r4) ← takePString r3
        .ok (⟨0, nm, .deportedInt (ty = 11) intSize si (.inl kv)⟩, r4)
      else
        let (nm, r3) ← takePString r2
        .ok (⟨keyIdSize, nm, .deportedInt (ty = 11) intSize si (.inr keyIdSize)⟩, r3)
    else .err .format

/-- `Property::serialize` of the creator (kinds the creator writes) -/
def RawProp.encode (p : RawProp) : Bytes :=
  match p.kind with
  | .padding => [UInt8.ofNat (p.size - 1)]
  | .variantId => UInt8.ofNat 128 :: pstringEncode p.name
  | .uint sz dflt =>
    match dflt with
    | none => UInt8.ofNat (32 + (sz - 1)) :: pstringEncode p.name
    | some d => UInt8.ofNat (32 + (sz - 1) + 8) :: (leBytes d sz ++ pstringEncode p.name)
  | .sint sz dflt =>
    match dflt with
    | none => UInt8.ofNat (48 + (sz - 1)) :: pstringEncode p.name
    | some d => UInt8.ofNat (48 + (sz - 1) + 8) :: (leBytesInt d sz ++ pstringEncode p.name)
  | .content ps cs dflt =>
    let kt := 16 + (cs - 1) + (if ps = 2 then 4 else 0)
    match dflt with
    | none => UInt8.ofNat kt :: pstringEncode p.name
    | some d => UInt8.ofNat (kt + 8) :: (leBytes d ps ++ pstringEncode p.name)
  | .array lenSize fixedLen dep _ =>
    let kt := 80 + (match lenSize with | none => 0 | some s => s)
    let ks := match dep with | none => 0 | some (s, _) => s
    [UInt8.ofNat kt, UInt8.ofNat (ks * 32 + fixedLen)] ++
      (match dep with | none => [] | some (_, si) => [UInt8.ofNat si]) ++ pstringEncode p.name
  | .deportedInt _ _ _ _ => []

/-- `RawLayout::parse`: a count byte, then that many properties -/
def rawLayoutDecode (bs : Bytes) : Outcome (List RawProp) :=
  match bs with
  | [] => .err .format
  | n :: rest =>
    let rec go (k : Nat) (bs : Bytes) (acc : List RawProp) : Outcome (List RawProp) :=
      match k with
      | 0 => .ok acc.reverse
      | k + 1 => do
        let (p, r) ← RawProp.decode bs
        go k r (p :: acc)
    go n.toNat rest []

structure PropAt where
  offset : Nat
  name : Bytes
  kind : PropKind
  deriving Repr, DecidableEq

/-- `layout::Properties::new(initial_offset, raw_properties)`: offsets by accumulation; padding
    and variant ids are not addressable -/
def placeProps : Nat → List RawProp → List PropAt
  | _, [] => []
  | off, p :: ps =>
    let rest := placeProps (off + p.size) ps
    if p.kind = .padding ∨ p.kind = .variantId then rest else ⟨off, p.name, p.kind⟩ :: rest

structure Layout where
  entryCount : Nat
  checked : Bool
  entrySize : Nat
  common : List PropAt
  variantIdOffset : Option Nat
  variants : List (Bytes × List PropAt)     -- (variant name, properties)
  deriving Repr, DecidableEq

def isVariantId (p : RawProp) : Bool := p.kind = .variantId

/-- split the variant part of a raw layout into variants.  Repaired reader (`fix:` commit for D4):
    a variant runs from its `VariantId` to the next `VariantId` (or the end) and its properties must
    add up to exactly the variant space; the pinned reader closed a variant as soon as the sizes
    added up, orphaning trailing zero-width properties. -/
def splitVariants (space : Nat) (base : Nat) :
    List RawProp → Option (Bytes × List RawProp) → List (Bytes × List PropAt) →
    Outcome (List (Bytes × List PropAt))
  | [], cur, acc =>
    match cur with
    | none => .ok acc.reverse
    | some (nm, ps) =>
      if (ps.map (·.size)).sum = space then .ok ((nm, placeProps base ps.reverse) :: acc).reverse
      else .err .format
  | p :: rest, cur, acc =>
    if isVariantId p then
      match cur with
      | none => splitVariants space base rest (some (p.name, [])) acc
      | some (nm, ps) =>
        if (ps.map (·.size)).sum = space then
          splitVariants space base rest (some (p.name, [])) ((nm, placeProps base ps.reverse) :: acc)
        else .err .format
    else
      match cur with
      | none => .err .format           -- "Variant definition must start with a VariantId."
      | some (nm, ps) =>
        if (ps.map (·.size)).sum + p.size > space then .err .format
        else splitVariants space base rest (some (nm, p :: ps)) acc

/-- `Layout::parse` on the bytes that follow the store-kind byte of an entry-store tail -/
def Layout.decode (bs : Bytes) : Outcome Layout := do
  let (entryCount, r1) ← takeLE bs 4
  let (flag, r2) ← takeLE r1 1
  let (entrySize, r3) ← takeLE r2 2
  let (variantCount, r4) ← takeLE r3 1
  let raw ← rawLayoutDecode r4
  let commonRaw := raw.takeWhile (fun p => !isVariantId p)
  let restRaw := raw.dropWhile (fun p => !isVariantId p)
  let commonSize := (commonRaw.map (·.size)).sum
  let common := placeProps 0 commonRaw
  if variantCount ≠ 0 then
    if entrySize < commonSize + 1 then .panic "layout/mod.rs: entry_size - common_size underflow"
    else
      let vs ← splitVariants (entrySize - (commonSize + 1)) (commonSize + 1) restRaw none []
      if vs.length ≠ variantCount then .err .format
      else .ok ⟨entryCount, flag % 2 = 1, entrySize, common, some commonSize, vs⟩
  else .ok ⟨entryCount, flag % 2 = 1, entrySize, common, none, []⟩

/-! ### Value stores -/

/-- `ValueStore::get_data(id, size)` on a parsed store -/
def valueStoreGet (vs : ValueStoreTail × Bytes) (id : Nat) (size : Option Nat) : Outcome Bytes :=
  let (t, data) := vs
  if t.indexed then
    if id + 1 ≥ t.offsets.length then .err .format
    else
      let start := t.offsets.getD id 0
      let sz := match size with
        | some s => some s
        | none => if start ≤ t.offsets.getD (id + 1) 0 then some (t.offsets.getD (id + 1) 0 - start) else none
      match sz with
      | none => .panic "offset.rs: subtraction underflow"
      | some sz =>
        if start + sz ≤ data.length then .ok (slice data start sz)
        else .panic "range.rs: cut_rel_asize out of the value store data"
  else
    match size with
    | none => .panic "value_store.rs: Cannot use unsized with PlainValueStore"
    | some sz =>
      if id + sz ≤ data.length then .ok (slice data id sz)
      else .panic "range.rs: cut_rel_asize out of the value store data"

/-! ### Entry values -/

inductive Val where
  | u (n : Nat)
  | s (i : Int)
  | arr (b : Bytes)
  | content (pack id : Nat)
  deriving Repr, DecidableEq

/-- bounds-checked little-endian read inside an entry (`SliceParser` reads past the end return a
    format error) -/
def entryLE (e : Bytes) (off n : Nat) : Outcome Nat :=
  if off + n ≤ e.length then .ok (leNat (slice e off n)) else .err .format

/-- `Array::resolve_to_vec` -/
def resolveArray (stores : Nat → Outcome (ValueStoreTail × Bytes)) (size : Option Nat) (base : Bytes)
    (fixedLen : Nat) (ext : Option (Nat × Nat)) : Outcome Bytes :=
  let baseLen := match size with | some s => min s fixedLen | none => fixedLen
  let head := base.take baseLen
  match ext with
  | none => .ok head
  | some (store, id) => do
    let vs ← stores store
    let tail ← valueStoreGet vs id (size.map (fun s => s - baseLen))
    .ok (head ++ tail)

/-- value of one property of an entry (`AnyProperty::create` + `RawValue::get`) -/
def decodeProp (stores : Nat → Outcome (ValueStoreTail × Bytes)) (e : Bytes) (p : PropAt) : Outcome Val :=
  match p.kind with
  | .uint sz dflt =>
    match dflt with
    | some d => .ok (.u d)
    | none => do let v ← entryLE e p.offset sz; .ok (.u v)
  | .sint sz dflt =>
    match dflt with
    | some d => .ok (.s d)
    | none => do let v ← entryLE e p.offset sz; .ok (.s (signExtend v sz))
  | .content ps cs dflt => do
    match dflt with
    | some d => do let c ← entryLE e p.offset cs; .ok (.content d c)
    | none => do
      let pk ← entryLE e p.offset ps
      let c ← entryLE e (p.offset + ps) cs
      .ok (.content (pk % 65536) c)
  | .array lenSize fixedLen dep dflt =>
    match dflt with
    | some (sz, fixed, kid) =>
      match dep, kid with
      | some (_, store), some k => do let b ← resolveArray stores (some sz) fixed fixedLen (some (store, k)); .ok (.arr b)
      | some _, none => .panic "builder/property.rs: value_id.unwrap()"
      | none, _ => do let b ← resolveArray stores (some sz) fixed fixedLen none; .ok (.arr b)
    | none => do
      let ls := match lenSize with | none => 0 | some l => l
      let size ← (match lenSize with
        | none => pure none
        | some l => do let v ← entryLE e p.offset l; pure (some v) : Outcome (Option Nat))
      if p.offset + ls + fixedLen ≤ e.length then
        let base := slice e (p.offset + ls) fixedLen
        match dep with
        | none => do let b ← resolveArray stores size base fixedLen none; .ok (.arr b)
        | some (idSize, store) => do
          let id ← entryLE e (p.offset + ls + fixedLen) idSize
          let b ← resolveArray stores size base fixedLen (some (store, id))
          .ok (.arr b)
      else .err .format
  | .deportedInt signed sz store id => do
    let vs ← stores store
    let key ← (match id with
      | .inl k => pure k
      | .inr ks => entryLE e p.offset ks : Outcome Nat)
    let data ← valueStoreGet vs key (some sz)
    .ok (if signed then .s (signExtend (leNat data) sz) else .u (leNat data))
  | .padding => .err .other
  | .variantId => .err .other

structure EntryVal where
  variant : Option Nat
  values : List (Bytes × Val)     -- in layout order: common properties then the variant's
  deriving Repr, DecidableEq

/-- all the values of an entry (what `LazyEntry::get_variant_id` / `get_value` give for every
    property name of the layout) -/
def decodeEntry (stores : Nat → Outcome (ValueStoreTail × Bytes)) (l : Layout) (e : Bytes) : Outcome EntryVal := do
  let common ← l.common.foldlM (fun acc p => do let v ← decodeProp stores e p; pure (acc ++ [(p.name, v)])) []
  match l.variantIdOffset with
  | none => .ok ⟨none, common⟩
  | some off => do
    let vid ← entryLE e off 1
    match l.variants[vid]? with
    | none => .ok ⟨some vid, common⟩
    | some (_, props) => do
      let vv ← props.foldlM (fun acc p => do let v ← decodeProp stores e p; pure (acc ++ [(p.name, v)])) []
      .ok ⟨some vid, common ++ vv⟩

/-- entry store: tail `[0, layout…]`, entries in a CRC block that ends right before the tail -/
def entryStoreOpen (f : Bytes) (so : Nat × Nat) : Outcome (Layout × Bytes) := do
  let tb ← readBlock f so.1 so.2
  match tb with
  | [] => .err .format
  | k :: rest =>
    if k = 1 ∨ k = 2 then .panic "entry_store.rs: todo!() (store kind)"
    else if k ≠ 0 then .err .format
    else do
      let l ← Layout.decode rest
      if l.checked then
        let ds := l.entryCount * (l.entrySize + 4)
        if so.1 < ds then .panic "offset.rs: subtraction underflow"
        else if so.1 ≤ f.length then .ok (l, slice f (so.1 - ds) ds) else .err .format
      else
        let ds := l.entryCount * l.entrySize
        if so.1 < ds + 4 then .panic "offset.rs: subtraction underflow"
        else do
          let d ← readBlock f (so.1 - ds - 4) ds
          .ok (l, d)

/-- index tail: `storeId:u32 count:u32 offset:u32 free[4] key:u8 name:pstring` -/
structure IndexInfo where
  storeId : Nat
  count : Nat
  offset : Nat
  freeData : Bytes
  key : Nat
  name : Bytes
  deriving Repr, DecidableEq

def IndexInfo.decode (bs : Bytes) : Outcome IndexInfo := do
  let (sid, r1) ← takeLE bs 4
  let (cnt, r2) ← takeLE r1 4
  let (off, r3) ← takeLE r2 4
  let (fd, r4) ← takeBytes r3 4
  let (key, r5) ← takeLE r4 1
  let (nm, _) ← takePString r5
  .ok ⟨sid, cnt, off, fd, key, nm⟩

def IndexInfo.encode (i : IndexInfo) : Bytes :=
  leBytes i.storeId 4 ++ leBytes i.count 4 ++ leBytes i.offset 4 ++ i.freeData ++ [UInt8.ofNat i.key] ++
  pstringEncode i.name

/-- `DirectoryPack::get_index_from_name`: the index tails are read in table order until one carries
    the name; a tail that does not read aborts the scan with its error -/
def lookupIndexByName : List (Outcome IndexInfo) → Bytes → Outcome (Option IndexInfo)
  | [], _ => .ok none
  | (.ok i) :: rest, name => if i.name == name then .ok (some i) else lookupIndexByName rest name
  | (.err k) :: _, _ => .err k
  | (.panic s) :: _, _ => .panic s
  | .hang :: _, _ => .hang
  | .fault :: _, _ => .fault


end Jubako
