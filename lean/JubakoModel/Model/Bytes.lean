/-
L0 — byte primitives of the Jubako format, as implemented by /repo
(`bases/write.rs`, `bases/parsing.rs`, `bases/mod.rs::needed_bytes`,
`bases/types/sized_offset.rs`, `common/content_info.rs`, `bases/types/pstring.rs`).

Model file: core Lean only (the driver links against it).
-/

namespace Jubako

abbrev Bytes := List UInt8

/-- Outcome of a fallible operation of the library.  `panic`, `hang` and `fault` are the
    behaviours property C06 forbids; `err` is a returned error value. -/
inductive ErrKind where
  | io | corrupted | format | version | notAJbk | missingFeature | other
  deriving Repr, DecidableEq, Inhabited

def ErrKind.toString : ErrKind → String
  | .io => "io" | .corrupted => "corrupted" | .format => "format" | .version => "version"
  | .notAJbk => "notajbk" | .missingFeature => "missingfeature" | .other => "other"

inductive Outcome (α : Type) where
  | ok (a : α)
  | err (k : ErrKind)
  | panic (site : String)
  | hang
  | fault
  deriving Repr, Inhabited

namespace Outcome
def bind {α β} (x : Outcome α) (f : α → Outcome β) : Outcome β :=
  match x with
  | ok a => f a
  | err k => err k
  | panic s => panic s
  | hang => hang
  | fault => fault
instance : Monad Outcome where
  pure := Outcome.ok
  bind := Outcome.bind
def isValueOrError {α} : Outcome α → Bool
  | ok _ => true | err _ => true | _ => false
def isOk {α} : Outcome α → Bool
  | ok _ => true | _ => false
def map' {α β} (f : α → β) : Outcome α → Outcome β
  | ok a => ok (f a) | err k => err k | panic s => panic s | hang => hang | fault => fault
def ofOption {α} (k : ErrKind) : Option α → Outcome α
  | some a => ok a | none => err k
end Outcome

/-- Little-endian encoding of `v` on exactly `n` bytes — *silently truncating*, exactly like
    `Serializer::write_usized` (`bases/write.rs`): only the low `n` bytes are kept. -/
def leBytes (v : Nat) : Nat → Bytes
  | 0 => []
  | n + 1 => UInt8.ofNat (v % 256) :: leBytes (v / 256) n

/-- Little-endian decoding (`Parser::read_usized`). -/
def leNat : Bytes → Nat
  | [] => 0
  | b :: bs => b.toNat + 256 * leNat bs

/-- Two's complement encoding of an `i64`-range integer on `n` bytes, as `write_isized` does:
    low `n` bytes of the 64-bit two's complement representation. -/
def leBytesInt (v : Int) (n : Nat) : Bytes :=
  leBytes (v % (2 ^ 64 : Int)).toNat n

/-- Sign-extending decode (`read_isized`). -/
def leInt (bs : Bytes) : Int :=
  let u := leNat bs
  let bits := 8 * bs.length
  if bits = 0 then 0
  else if u < 2 ^ (bits - 1) then (u : Int) else (u : Int) - (2 ^ bits : Int)

/-- Big-endian 4 bytes (the CRC trailer of every block). -/
def be32 (v : Nat) : Bytes :=
  [UInt8.ofNat (v / 16777216 % 256), UInt8.ofNat (v / 65536 % 256),
   UInt8.ofNat (v / 256 % 256), UInt8.ofNat (v % 256)]

def be32Nat : Bytes → Nat
  | [a, b, c, d] => a.toNat * 16777216 + b.toNat * 65536 + c.toNat * 256 + d.toNat
  | _ => 0

/-- Fuelled core of `needed_bytes`: count base-256 digits. -/
def digits256 : Nat → Nat → Nat
  | 0, _ => 0
  | fuel + 1, v => if v = 0 then 0 else 1 + digits256 fuel (v / 256)

/-- `bases/mod.rs::needed_bytes`: number of base-256 digits, at least 1. -/
def neededBytes (v : Nat) : Nat := max 1 (digits256 (v + 1) v)

/-- `SizedOffset` (`bases/types/sized_offset.rs`): `offset << 16 | size` on 8 bytes.  The writer
    does **not** check that `size < 2^16` — the model keeps the code's arithmetic
    (`(offset << 16) + (size & 0xFFFF)` on a u64). -/
def sizedOffsetEncode (offset size : Nat) : Bytes :=
  leBytes ((offset * 65536 + size % 65536) % 2 ^ 64) 8

def sizedOffsetDecode (bs : Bytes) : Nat × Nat :=
  let v := leNat bs
  (v / 65536, v % 65536)

/-- `ContentInfo` (`common/content_info.rs`): `cluster << 12 | blob` on 4 bytes. -/
def contentInfoEncode (cluster blob : Nat) : Bytes :=
  leBytes ((cluster * 4096 + blob % 4096) % 2 ^ 32) 4

def contentInfoDecode (bs : Bytes) : Nat × Nat :=
  let v := leNat bs
  (v / 4096, v % 4096)

/-- `bs[off .. off+len)` — total; callers that mirror checked code guard the bounds. -/
def slice (bs : Bytes) (off len : Nat) : Bytes := (bs.drop off).take len

/-- bounds-checked slice -/
def sliceChecked (bs : Bytes) (off len : Nat) : Option Bytes :=
  if off + len ≤ bs.length then some (slice bs off len) else none

def zeros (n : Nat) : Bytes := List.replicate n 0

/-- p-string: `len:u8 ‖ bytes` (`bases/types/pstring.rs`). -/
def pstringEncode (s : Bytes) : Bytes := UInt8.ofNat s.length :: s

/-- returns the string and the rest -/
def pstringDecode : Bytes → Option (Bytes × Bytes)
  | [] => none
  | l :: rest => if l.toNat ≤ rest.length then some (rest.take l.toNat, rest.drop l.toNat) else none

def hexDigit (n : Nat) : Char :=
  if n < 10 then Char.ofNat (48 + n) else Char.ofNat (87 + n)

def toHex (bs : Bytes) : String :=
  String.ofList (bs.foldr (fun b acc => hexDigit (b.toNat / 16) :: hexDigit (b.toNat % 16) :: acc) [])

def hexVal (c : Char) : Option Nat :=
  if '0' ≤ c ∧ c ≤ '9' then some (c.toNat - 48)
  else if 'a' ≤ c ∧ c ≤ 'f' then some (c.toNat - 87)
  else if 'A' ≤ c ∧ c ≤ 'F' then some (c.toNat - 55)
  else none

def fromHexAux : List Char → Option Bytes
  | [] => some []
  | [_] => none
  | a :: b :: rest =>
    match hexVal a, hexVal b, fromHexAux rest with
    | some x, some y, some r => some (UInt8.ofNat (x * 16 + y) :: r)
    | _, _, _ => none

/-- `-` denotes the empty string in the line protocol -/
def fromHex (s : String) : Option Bytes :=
  if s = "-" then some [] else fromHexAux s.toList

def toHexP (bs : Bytes) : String := if bs.isEmpty then "-" else toHex bs

end Jubako
