/-
L2 — the pack frame common to the four pack kinds (`common/headers/pack.rs`, `common/check.rs`):
64-byte header block, check block at `checkInfoPos`, 64-byte byte-reversed tail; and the integrity
check `Pack::check` as implemented for content / directory packs (identity mask) and manifest packs
(`ManifestCheckStream`).

The hash is a parameter `H : Bytes → Bytes` (32 bytes for blake3); nothing is assumed about it.
-/
import JubakoModel.Model.Crc

namespace Jubako

inductive PackKind where
  | manifest | directory | content | container
  deriving Repr, DecidableEq, Inhabited

def PackKind.byte : PackKind → UInt8
  | .manifest => 109 | .directory => 100 | .content => 99 | .container => 67

def PackKind.ofByte (b : UInt8) : Option PackKind :=
  if b = 109 then some .manifest else if b = 100 then some .directory
  else if b = 99 then some .content else if b = 67 then some .container else none

def PackKind.toString : PackKind → String
  | .manifest => "m" | .directory => "d" | .content => "c" | .container => "C"

structure PackHeader where
  kind : PackKind
  vendor : Bytes        -- 4 bytes
  major : Nat
  minor : Nat
  uuid : Bytes          -- 16 bytes
  flags : Nat
  packSize : Nat
  checkInfoPos : Nat
  deriving Repr, DecidableEq

def PackHeader.WF (h : PackHeader) : Prop :=
  h.vendor.length = 4 ∧ h.uuid.length = 16 ∧ h.major < 256 ∧ h.minor < 256 ∧ h.flags < 256 ∧
  h.packSize < 2 ^ 64 ∧ h.checkInfoPos < 2 ^ 64

/-- `PackHeader::serialize` — 60 bytes -/
def PackHeader.encode (h : PackHeader) : Bytes :=
  [106, 98, 107, h.kind.byte] ++ h.vendor ++ [UInt8.ofNat h.major, UInt8.ofNat h.minor] ++ h.uuid ++
  [UInt8.ofNat h.flags] ++ zeros Consts.headerPad1 ++ leBytes h.packSize 8 ++ leBytes h.checkInfoPos 8 ++
  zeros Consts.headerPad2

/-- `PackHeader::parse` on 60 bytes.  Error order as in the code: magic, kind, version. -/
def PackHeader.decode (bs : Bytes) : Outcome PackHeader :=
  if bs.length < 60 then .err .format
  else if bs.take 3 ≠ [106, 98, 107] then .err .format
  else match PackKind.ofByte (bs.getD 3 0) with
    | none => .err .format
    | some kind =>
      let major := (bs.getD 8 0).toNat
      let minor := (bs.getD 9 0).toNat
      if (major, minor) ≠ (Consts.versionGateMajor, Consts.versionGateMinor) then .err .version
      else .ok {
        kind := kind, vendor := slice bs 4 4, major := major, minor := minor,
        uuid := slice bs 10 16, flags := (bs.getD 26 0).toNat,
        packSize := leNat (slice bs 32 8), checkInfoPos := leNat (slice bs 40 8) }

/-- read a CRC-checked block of `n` data bytes at `off` (`Reader::parse_block_in` on an in-memory
    source whose region is in range) -/
def readBlock (f : Bytes) (off n : Nat) : Outcome Bytes :=
  if off + n + 4 ≤ f.length then
    let full := slice f off (n + 4)
    if checkBlock full then .ok (full.take n) else .err .corrupted
  else .err .format

/-- `CheckInfo` block: `[0]` or `[1] ++ hash32` -/
inductive CheckInfo where
  | none
  | blake3 (hash : Bytes)
  deriving Repr, DecidableEq

def CheckInfo.encode : CheckInfo → Bytes
  | .none => [0]
  | .blake3 h => 1 :: h

def CheckInfo.decode (bs : Bytes) : Outcome CheckInfo :=
  match bs with
  | [] => .err .format
  | k :: rest =>
    if k = 0 then .ok .none
    else if k = 1 then (if rest.length ≥ 32 then .ok (.blake3 (rest.take 32)) else .err .format)
    else .err .format

/-- `PackHeader::check_info_size`: `packSize − 64 − checkInfoPos − 4` (u64 arithmetic; an
    underflow panics in debug and wraps in release — `none` here). -/
def PackHeader.checkInfoSize (h : PackHeader) : Option Nat :=
  if h.checkInfoPos + 68 ≤ h.packSize then some (h.packSize - 64 - h.checkInfoPos - 4) else none

/-- mirrored tail -/
def packTail (headerBlock : Bytes) : Bytes := headerBlock.reverse

/-- A pack as the creators lay it out: header block, body (everything up to `checkInfoPos`), check
    block over the masked prefix, mirrored tail.  `mask` is the identity except for manifests. -/
def framePack (H : Bytes → Bytes) (mask : Bytes → Bytes) (h : PackHeader) (body : Bytes) : Bytes :=
  let hb := block h.encode
  let pre := hb ++ body
  pre ++ block (CheckInfo.blake3 (H (mask pre))).encode ++ packTail hb

/-- what `Pack::check` reads before hashing: the check position from the (CRC-checked) header and
    the (CRC-checked) check block -/
def packCheckParts (f : Bytes) : Outcome (Nat × CheckInfo) := do
  let hd ← readBlock f 0 60
  let h ← PackHeader.decode hd
  match h.checkInfoSize with
  | none => .panic "check_info_size underflow"
  | some n =>
    let cb ← readBlock f h.checkInfoPos n
    let ci ← CheckInfo.decode cb
    .ok (h.checkInfoPos, ci)

/-- `Pack::check` for a pack whose reader is exactly the pack bytes `f` -/
def packCheck (H : Bytes → Bytes) (mask : Bytes → Bytes) (f : Bytes) : Outcome Bool := do
  let (cip, ci) ← packCheckParts f
  match ci with
  | .none => .ok true
  | .blake3 stored =>
    if cip ≤ f.length then .ok (H (mask (f.take cip)) == stored)
    else .err .format

/-! ### Manifest: pack infos and the check mask -/

structure PackInfo where
  uuid : Bytes              -- 16
  packSize : Nat            -- u64
  checkInfoPos : Nat × Nat  -- SizedOffset (offset, size)
  packId : Nat              -- u16
  kind : PackKind
  group : Nat               -- u8
  freeDataId : Nat          -- u16
  location : Bytes          -- ≤ 213 bytes of UTF-8
  deriving Repr, DecidableEq

def PackInfo.WF (p : PackInfo) : Prop :=
  p.uuid.length = 16 ∧ p.packSize < 2 ^ 64 ∧ p.checkInfoPos.1 < 2 ^ 48 ∧ p.checkInfoPos.2 < 2 ^ 16 ∧
  p.packId < 2 ^ 16 ∧ p.group < 256 ∧ p.freeDataId < 2 ^ 16 ∧ p.location.length ≤ Consts.locationPad

/-- the 38 checked bytes of a pack info -/
def PackInfo.encodeFixed (p : PackInfo) : Bytes :=
  p.uuid ++ leBytes p.packSize 8 ++ sizedOffsetEncode p.checkInfoPos.1 p.checkInfoPos.2 ++
  leBytes p.packId 2 ++ [p.kind.byte, UInt8.ofNat p.group] ++ leBytes p.freeDataId 2

/-- the 214-byte padded location -/
def encodeLocation (loc : Bytes) : Bytes :=
  UInt8.ofNat loc.length :: loc ++ zeros (Consts.locationPad - loc.length)

/-- `PackInfo::serialize` — 252 bytes -/
def PackInfo.encode (p : PackInfo) : Bytes := p.encodeFixed ++ encodeLocation p.location

/-- `PackInfo::parse` on 252 bytes (UTF-8 validity of the location is not modelled: locations are
    byte strings here; the harness only writes valid UTF-8) -/
def PackInfo.decode (bs : Bytes) : Outcome PackInfo :=
  if bs.length < 252 then .err .format
  else match PackKind.ofByte (bs.getD 34 0) with
    | none => .err .format
    | some kind =>
      let l := (bs.getD 38 0).toNat
      -- a length byte beyond the field: `PString::parse` asks the 252-byte block parser for more bytes than
      -- are left and gets a format error; the subtraction `213 - len` is never reached (the first version of
      -- the model had a panic here; the translation of `PackInfo::parse` showed it unreachable, and the real
      -- reader answers a format error on a crafted block with a valid CRC)
      if l > Consts.locationSkip then .err .format
      else .ok {
        uuid := slice bs 0 16, packSize := leNat (slice bs 16 8),
        checkInfoPos := sizedOffsetDecode (slice bs 24 8), packId := leNat (slice bs 32 2),
        kind := kind, group := (bs.getD 35 0).toNat, freeDataId := leNat (slice bs 36 2),
        location := slice bs 39 l }

def packInfoBlockSize : Nat := 16 + 8 + 8 + 2 + 1 + 1 + 2 + Consts.locationField + 4

/-- Is absolute position `p` of a manifest read as zero by the check stream?  (`packOff` = offset of
    the first pack info, `n` = number of pack infos.) -/
def maskedPos (packOff n p : Nat) : Bool :=
  packOff ≤ p && p < packOff + n * packInfoBlockSize &&
  Consts.packInfoToCheck ≤ (p - packOff) % packInfoBlockSize

/-- the pure mask applied to bytes that sit at absolute positions `p, p+1, …` of the manifest -/
def maskFrom (packOff n : Nat) (p : Nat) (bs : Bytes) : Bytes :=
  (bs.zipIdx p).map (fun (b, i) => if maskedPos packOff n i then 0 else b)

/-- the pure mask: what `ManifestCheckStream` delivers for source `bs` -/
def manifestMask (packOff n : Nat) (bs : Bytes) : Bytes := maskFrom packOff n 0 bs

/-- `ManifestCheckStream::read` — one call with a buffer of `req` bytes at stream offset `pos`
    over the remaining source `src`; returns (bytes delivered, rest of the source).  The underlying
    source is a `ByteStream` over memory/file: it returns `min(size, remaining)` bytes. -/
def checkStreamRead (packOff n : Nat) (pos : Nat) (src : Bytes) (req : Nat) : Bytes × Bytes :=
  let safe := packOff + n * packInfoBlockSize
  if pos < packOff then
    let size := min req (packOff - pos)
    (src.take size, src.drop size)
  else if pos ≥ safe then (src.take req, src.drop req)
  else
    let loc := (pos - packOff) % packInfoBlockSize
    if loc < Consts.packInfoToCheck then
      let size := min req (Consts.packInfoToCheck - loc)
      (src.take size, src.drop size)
    else
      let size := min req (packInfoBlockSize - loc)
      (zeros (src.take size).length, src.drop size)

/-- read the stream with an arbitrary sequence of buffer sizes (all the chunkings blake3's
    `update_reader` may use) -/
def checkStreamDrain (packOff n : Nat) : Nat → Bytes → List Nat → Bytes
  | _, _, [] => []
  | pos, src, req :: rest =>
    let (got, src') := checkStreamRead packOff n pos src req
    got ++ checkStreamDrain packOff n (pos + got.length) src' rest

/-- offsets of the pack infos: `PackOffsetsIter::new(check_info_pos, pack_count)` -/
def packInfosOffset (checkInfoPos count : Nat) : Nat := checkInfoPos - count * packInfoBlockSize

/-- manifest header (60 bytes): `packCount:u16, valueStore:SizedOffset, 0^26, free[24]` -/
structure ManifestHeader where
  packCount : Nat
  valueStore : Nat × Nat
  freeData : Bytes
  deriving Repr, DecidableEq

def ManifestHeader.encode (m : ManifestHeader) : Bytes :=
  leBytes m.packCount 2 ++ sizedOffsetEncode m.valueStore.1 m.valueStore.2 ++ zeros 26 ++ m.freeData

def ManifestHeader.decode (bs : Bytes) : Outcome ManifestHeader :=
  if bs.length < 60 then .err .format
  else .ok { packCount := leNat (slice bs 0 2), valueStore := sizedOffsetDecode (slice bs 2 8),
             freeData := slice bs 36 24 }

/-- replace `new.length` bytes of `f` at `off` -/
def splice (f : Bytes) (off : Nat) (new : Bytes) : Bytes :=
  f.take off ++ new ++ f.drop (off + new.length)

/-- the mask of a manifest pack `f` (pack bytes, header at 0): reads header and manifest header -/
def manifestMaskOf (f : Bytes) : Outcome (Nat × Nat) := do
  let hd ← readBlock f 0 60
  let h ← PackHeader.decode hd
  let mh ← readBlock f 64 60
  let m ← ManifestHeader.decode mh
  .ok (packInfosOffset h.checkInfoPos m.packCount, m.packCount)

/-- `ManifestPack::check` on pack bytes `f` -/
def manifestCheck (H : Bytes → Bytes) (f : Bytes) : Outcome Bool := do
  let (po, n) ← manifestMaskOf f
  packCheck H (manifestMask po n) f

/-- `tools::set_location` on a manifest pack located at `origin` in file `file` (repaired code: the
    manifest header is parsed at offset 64).  Returns the new file and the old location, or `none`
    when the uuid is not listed (file unchanged). -/
def setLocationAt (file : Bytes) (origin : Nat) (uuid : Bytes) (loc : Bytes) :
    Outcome (Bytes × Option Bytes) := do
  let f := file.drop origin
  let hd ← readBlock f 0 60
  let h ← PackHeader.decode hd
  let mh ← readBlock f 64 60
  let m ← ManifestHeader.decode mh
  let base := packInfosOffset h.checkInfoPos m.packCount
  let rec go (k : Nat) (fuel : Nat) : Outcome (Bytes × Option Bytes) :=
    match fuel with
    | 0 => .ok (file, none)
    | fuel + 1 =>
      let off := base + k * packInfoBlockSize
      match readBlock f off 252 with
      | .ok pb =>
        match PackInfo.decode pb with
        | .ok info =>
          if info.uuid = uuid then
            if loc.length > Consts.locationPad then .panic "pstring.rs: assert len <= max_len"
            else
              let info' := { info with location := loc }
              .ok (splice file (origin + off) (block info'.encode), some info.location)
          else go (k + 1) fuel
        | .err e => .err e | .panic s => .panic s | .hang => .hang | .fault => .fault
      | .err e => .err e | .panic s => .panic s | .hang => .hang | .fault => .fault
  go 0 m.packCount

end Jubako
