/-
L5 — file-system discipline of the high-level creator (`creator/mod.rs::AtomicOutFile`,
`creator/basic_creator.rs::finalize`): every output file is written as a temporary file created in
the destination directory and renamed onto its final path only when complete; the entry-point file
is renamed last.

The file system is a finite map from paths to contents; a content is the list of the write tokens
it received (what matters is *which* writes a file has seen, not their bytes).  A crash of the
process (not a power loss) after k operations leaves exactly the effect of the first k operations:
`rename` is atomic, nothing is reordered.
-/
namespace Jubako

abbrev FPath := String

inductive FsOp where
  | create (p : FPath)                 -- openat(O_CREAT|O_EXCL) of a fresh file
  | write (p : FPath) (tok : Nat)      -- one successful write / copy_file_range / sendfile into p
  | rename (src dst : FPath)
  | unlink (p : FPath)
  deriving Repr, DecidableEq

structure FSt where
  files : List (FPath × List Nat)
  deriving Repr, DecidableEq

namespace FSt
def get (fs : FSt) (p : FPath) : Option (List Nat) := (fs.files.find? (fun e => e.1 == p)).map (·.2)
def remove (fs : FSt) (p : FPath) : FSt := ⟨fs.files.filter (fun e => e.1 != p)⟩
def set (fs : FSt) (p : FPath) (c : List Nat) : FSt := ⟨(p, c) :: (fs.remove p).files⟩

def apply (fs : FSt) : FsOp → FSt
  | .create p => fs.set p []
  | .write p tok => match fs.get p with
    | some c => fs.set p (c ++ [tok])
    | none => fs
  | .rename src dst => match fs.get src with
    | some c => (fs.remove src).set dst c
    | none => fs
  | .unlink p => fs.remove p

def run (fs : FSt) (t : List FsOp) : FSt := t.foldl apply fs
end FSt

/-- every token the whole trace writes into `p` (the complete content of the temporary file) -/
def allWritesTo (p : FPath) (t : List FsOp) : List Nat :=
  t.filterMap (fun op => match op with | .write q tok => if q == p then some tok else none | _ => none)

/-- state of the discipline checker: temporaries created by this run and still live; has the
    entry-point been renamed already -/
structure DiscSt where
  live : List FPath
  created : List FPath
  renamedFinals : List FPath
  entryDone : Bool
  deriving Repr

/-- the discipline, checked operation by operation.  `isTemp` recognises temporary names,
    `entry` is the entry-point path, `old` the paths existing before the run. -/
def discStep (isTemp : FPath → Bool) (entry : FPath) (old : List FPath) (s : DiscSt) : FsOp → Option DiscSt
  | .create p =>
    if isTemp p ∧ !old.contains p ∧ !s.created.contains p then
      some { s with live := p :: s.live, created := p :: s.created }
    else none
  | .write p _ => if s.live.contains p then some s else none
  | .rename src dst =>
    if s.live.contains src ∧ !isTemp dst ∧ !s.entryDone ∧ !s.renamedFinals.contains dst then
      some { s with live := s.live.filter (· != src), renamedFinals := dst :: s.renamedFinals,
                    entryDone := dst == entry }
    else none
  | .unlink p => if s.live.contains p then some { s with live := s.live.filter (· != p) } else none

def discRun (isTemp : FPath → Bool) (entry : FPath) (old : List FPath) : DiscSt → List FsOp → Option DiscSt
  | s, [] => some s
  | s, op :: rest => (discStep isTemp entry old s op).bind (fun s' => discRun isTemp entry old s' rest)

/-- a trace is disciplined -/
def Discipline (isTemp : FPath → Bool) (entry : FPath) (old : List FPath) (t : List FsOp) : Bool :=
  (discRun isTemp entry old ⟨[], [], [], false⟩ t).isSome

/-- the renames of a trace, in order -/
def renamesOf (t : List FsOp) : List (FPath × FPath) :=
  t.filterMap (fun op => match op with | .rename s d => some (s, d) | _ => none)

end Jubako
