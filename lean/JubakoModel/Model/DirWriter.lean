/-
L3 — directory pack, creator side: value stores (`creator/directory_pack/value_store.rs`), column
statistics and schema finalisation (`schema/{mod,property}.rs`), entry serialisation
(`layout/properties.rs`), entry-store / value-store / index tails and the pack layout
(`directory_pack.rs`).
-/
import JubakoModel.Model.DirLayout
import JubakoModel.Model.ContentPack

namespace Jubako

/-! ### Value stores -/

/-- bytewise lexicographic order (`<[u8] as Ord>::cmp`) -/
def lexCmp : Bytes → Bytes → Ordering
  | [], [] => .eq
  | [], _ :: _ => .lt
  | _ :: _, [] => .gt
  | a :: as, b :: bs => (compare a.toNat b.toNat).then (lexCmp as bs)

def lexLe (a b : Bytes) : Bool := lexCmp a b != .gt

/-- insertion of `x` into a list sorted by `lexLe` (after equal elements: stable) -/
def lexInsert (x : Bytes) : List Bytes → List Bytes
  | [] => [x]
  | y :: ys => if lexLe y x then y :: lexInsert x ys else x :: y :: ys

def lexSort (l : List Bytes) : List Bytes := l.foldr lexInsert []

/-- remove adjacent duplicates -/
def dedupAdj : List Bytes → List Bytes
  | [] => []
  | [x] => [x]
  | x :: y :: rest => if x = y then dedupAdj (y :: rest) else x :: dedupAdj (y :: rest)

/-- remove later duplicates, keeping first occurrences in order (indexed store: dedup on insertion) -/
def dedupFirst : List Bytes → List Bytes
  | [] => []
  | x :: xs => x :: (dedupFirst xs).filter (fun y => y != x)

/-- a finalised value store: the distinct values in stored order -/
structure VStore where
  indexed : Bool
  values : List Bytes      -- sorted, distinct
  deriving Repr, DecidableEq

/-- `finalize` of a store that received the values `added` (in order of `add_value` calls) -/
def VStore.finalize (indexed : Bool) (added : List Bytes) : VStore :=
  if indexed then ⟨true, lexSort (dedupFirst added)⟩ else ⟨false, dedupAdj (lexSort added)⟩

def VStore.data (s : VStore) : Bytes := s.values.flatten
def VStore.dataSize (s : VStore) : Nat := (s.values.map List.length).sum

/-- byte offset of the first value equal to `x` -/
def offsetOf (x : Bytes) : List Bytes → Nat → Nat
  | [], acc => acc
  | y :: ys, acc => if y = x then acc else offsetOf x ys (acc + y.length)

def rankOf (x : Bytes) : List Bytes → Nat → Nat
  | [], acc => acc
  | y :: ys, acc => if y = x then acc else rankOf x ys (acc + 1)

/-- the id the creator stores for value `x`: rank (indexed) or byte offset (plain) -/
def VStore.idOf (s : VStore) (x : Bytes) : Nat :=
  if s.indexed then rankOf x s.values 0 else offsetOf x s.values 0

/-- `key_size`: indexed = `needed_bytes(number of values)`, plain = `needed_bytes(data size)` -/
def VStore.keySize (s : VStore) : Nat :=
  if s.indexed then neededBytes s.values.length else neededBytes s.dataSize

/-- tail bytes (without CRC) -/
def VStore.tailBytes (s : VStore) : Bytes :=
  if s.indexed then
    let w := neededBytes s.dataSize
    [1] ++ leBytes s.values.length 8 ++ [UInt8.ofNat w] ++ leBytes s.dataSize w ++
      ((endOffsets s.values 0).dropLast.map (fun o => leBytes o w)).flatten
  else [0] ++ leBytes s.dataSize 8

/-- data block then tail block; returns bytes and the tail's (relative position, size) -/
def VStore.encode (s : VStore) : Bytes × Nat × Nat :=
  let d := block s.data
  (d ++ block s.tailBytes, d.length, s.tailBytes.length)

/-! ### Schema, column statistics, layout -/

inductive PDef where
  | uint
  | sint
  | array (fixed : Nat) (store : Nat)     -- inline prefix length, value store index
  | content
  deriving Repr, DecidableEq

structure PropDef where
  name : Bytes
  ty : PDef
  deriving Repr, DecidableEq

structure SchemaDef where
  common : List PropDef
  variants : List (Bytes × List PropDef)
  deriving Repr, DecidableEq

/-- an entry as given to the creator: variant and one value per property of common ++ variant -/
structure EntryIn where
  variant : Option Nat
  values : List Val
  deriving Repr, DecidableEq

/-- `signed_size_key` of the repaired creator: a non-negative number that needs, unsigned, as many
    bytes as `v` needs in two's complement (saturating at i64::MAX) -/
def signedSizeKey (v : Int) : Nat :=
  let m : Int := if v < 0 then -v - 1 else v
  min (2 * m).toNat (2 ^ 63 - 1)

/-- all values equal (and at least one) → that value (`ValueCounter`) -/
def constantOf {α} [DecidableEq α] : List α → Option α
  | [] => none
  | x :: xs => if xs.all (· = x) then some x else none

def arrayOf : Val → Bytes
  | .arr b => b | _ => []
def uintOf : Val → Nat
  | .u n => n | _ => 0
def sintOf : Val → Int
  | .s i => i | _ => 0
def packOf : Val → Nat
  | .content p _ => p | _ => 0
def cidOf : Val → Nat
  | .content _ c => c | _ => 0

def listMax : List Nat → Nat := fun l => l.foldl max 0

/-- `Property::finalize` after `process` has seen the column `col` (values of this property over
    the entries that carry it, in stored order) -/
def finalizeProp (stores : List VStore) (p : PropDef) (col : List Val) : RawProp :=
  match p.ty with
  | .uint =>
    let sz := neededBytes (listMax (col.map uintOf))
    match constantOf (col.map uintOf) with
    | some d => ⟨0, p.name, .uint sz (some d)⟩
    | none => ⟨sz, p.name, .uint sz none⟩
  | .sint =>
    let sz := neededBytes (listMax (col.map (fun v => signedSizeKey (sintOf v))))
    match constantOf (col.map sintOf) with
    | some d => ⟨0, p.name, .sint sz (some d)⟩
    | none => ⟨sz, p.name, .sint sz none⟩
  | .content =>
    let ps := neededBytes (listMax (col.map packOf))
    let cs := neededBytes (listMax (col.map cidOf))
    match constantOf (col.map packOf) with
    | some d => ⟨cs, p.name, .content ps cs (some d)⟩
    | none => ⟨ps + cs, p.name, .content ps cs none⟩
  | .array fixed store =>
    let vs := stores.getD store ⟨false, []⟩
    let ks := vs.keySize
    if fixed = 0 ∧ vs.indexed then ⟨ks, p.name, .array none 0 (some (ks, store)) none⟩   -- IndirectArray
    else
      let ls := neededBytes (listMax (col.map (fun v => (arrayOf v).length)))
      ⟨ls + fixed + ks, p.name, .array (some ls) fixed (some (ks, store)) none⟩

/-- `fill_to_size`: padding chunks of at most 16 bytes -/
def paddingProps : Nat → List RawProp
  | 0 => []
  | n + 1 => if n + 1 ≥ 16 then ⟨16, [], .padding⟩ :: paddingProps (n + 1 - 16) else [⟨n + 1, [], .padding⟩]
decreasing_by omega

structure LayoutOut where
  common : List RawProp
  variants : List (List RawProp)     -- each starts with its VariantId property
  entrySize : Nat
  deriving Repr, DecidableEq

def propsSize (ps : List RawProp) : Nat := (ps.map (·.size)).sum

/-- values of the k-th property of the common part / of variant `vi`, over the entries -/
def columnCommon (entries : List EntryIn) (k : Nat) : List Val :=
  entries.map (fun e => e.values.getD k (.u 0))

def columnVariant (ncommon : Nat) (entries : List EntryIn) (vi k : Nat) : List Val :=
  (entries.filter (fun e => e.variant = some vi)).map (fun e => e.values.getD (ncommon + k) (.u 0))

/-- `Schema::process` over all entries then `Schema::finalize` -/
def finalizeSchema (stores : List VStore) (sch : SchemaDef) (entries : List EntryIn) : LayoutOut :=
  let common := sch.common.zipIdx.map (fun (p, k) => finalizeProp stores p (columnCommon entries k))
  let variants := sch.variants.zipIdx.map (fun ((vn, ps), vi) =>
    (⟨1, vn, .variantId⟩ : RawProp) ::
      ps.zipIdx.map (fun (p, k) => finalizeProp stores p (columnVariant sch.common.length entries vi k)))
  if variants.isEmpty then ⟨common, [], propsSize common⟩
  else
    let mx := listMax (variants.map propsSize)
    ⟨common, variants.map (fun v => v ++ paddingProps (mx - propsSize v)), propsSize common + mx⟩

/-- `Properties::serialize_entry` for one property -/
def serializeProp (stores : List VStore) (p : RawProp) (v : Val) (variant : Option Nat) : Bytes :=
  match p.kind with
  | .padding => zeros p.size
  | .variantId => [UInt8.ofNat (variant.getD 0)]
  | .uint sz dflt => match dflt with | some _ => [] | none => leBytes (uintOf v) sz
  | .sint sz dflt => match dflt with | some _ => [] | none => leBytesInt (sintOf v) sz
  | .content ps cs dflt =>
    (match dflt with | some _ => [] | none => leBytes (packOf v) ps) ++ leBytes (cidOf v) cs
  | .array lenSize fixed dep _ =>
    let a := arrayOf v
    match dep with
    | none => []
    | some (ks, store) =>
      let vs := stores.getD store ⟨false, []⟩
      match lenSize with
      | none => leBytes (vs.idOf a) ks                                   -- IndirectArray
      | some ls =>
        let pre := a.take fixed
        leBytes a.length ls ++ pre ++ zeros (fixed - pre.length) ++ leBytes (vs.idOf (a.drop fixed)) ks
  | .deportedInt _ _ _ _ => []

/-- pair each non-structural property of a raw property list with the entry's values, in order -/
def serializeProps (stores : List VStore) (variant : Option Nat) : List RawProp → List Val → Bytes
  | [], _ => []
  | p :: ps, vals =>
    if p.kind = .padding ∨ p.kind = .variantId then
      serializeProp stores p (.u 0) variant ++ serializeProps stores variant ps vals
    else
      match vals with
      | [] => serializeProp stores p (.u 0) variant ++ serializeProps stores variant ps []
      | v :: vs => serializeProp stores p v variant ++ serializeProps stores variant ps vs

def serializeEntry (stores : List VStore) (l : LayoutOut) (e : EntryIn) : Bytes :=
  match e.variant with
  | none => serializeProps stores none l.common e.values
  | some vi => serializeProps stores (some vi) (l.common ++ l.variants.getD vi []) e.values

/-- entry-store tail (without CRC): kind 0, entry count, flag 0, then the layout header -/
def entryStoreTail (l : LayoutOut) (entryCount : Nat) : Bytes :=
  let props := l.common ++ l.variants.flatten
  [0] ++ leBytes entryCount 4 ++ [0] ++ leBytes l.entrySize 2 ++ [UInt8.ofNat l.variants.length] ++
    [UInt8.ofNat props.length] ++ (props.map RawProp.encode).flatten

/-- the values every array property hands to its store, in `add_value` order (entry by entry,
    property by property) -/
def addedTo (sch : SchemaDef) (entries : List EntryIn) (store : Nat) : List Bytes :=
  (entries.map (fun e =>
    let props := sch.common ++ (match e.variant with | some vi => (sch.variants.getD vi ([], [])).2 | none => [])
    (props.zip e.values).filterMap (fun (p, v) =>
      match p.ty with
      | .array fixed st => if st = store then some ((arrayOf v).drop fixed) else none
      | _ => none))).flatten

structure IndexDef where
  name : Bytes
  count : Nat
  offset : Nat
  deriving Repr, DecidableEq

structure DirIn where
  storeKinds : List Bool          -- true = indexed
  schema : SchemaDef
  entries : List EntryIn          -- in stored order
  indexes : List IndexDef
  deriving Repr

/-- the whole directory pack for one entry store (what the harness creates) -/
def dirPackWrite (H : Bytes → Bytes) (vendor uuid freeData : Bytes) (d : DirIn) : Bytes :=
  let stores := d.storeKinds.zipIdx.map (fun (ix, i) => VStore.finalize ix (addedTo d.schema d.entries i))
  let layout := finalizeSchema stores d.schema d.entries
  -- body, starting at 128: index tails, entry store, value stores, three offset tables
  let idxTails := d.indexes.map (fun ix =>
    (⟨0, ix.count, ix.offset, zeros 4, 0, ix.name⟩ : IndexInfo).encode)
  let (idxBytes, idxSOs, pos1) := idxTails.foldl (fun (acc : Bytes × List (Nat × Nat) × Nat) t =>
    (acc.1 ++ block t, acc.2.1 ++ [(acc.2.2, t.length)], acc.2.2 + t.length + 4)) ([], [], 128)
  let entryData := block ((d.entries.map (serializeEntry stores layout)).flatten)
  let esTail := entryStoreTail layout d.entries.length
  let esSO := (pos1 + entryData.length, esTail.length)
  let pos2 := pos1 + entryData.length + esTail.length + 4
  let (vsBytes, vsSOs, pos3) := stores.foldl (fun (acc : Bytes × List (Nat × Nat) × Nat) s =>
    let (b, rel, tl) := s.encode
    (acc.1 ++ b, acc.2.1 ++ [(acc.2.2 + rel, tl)], acc.2.2 + b.length)) ([], [], pos2)
  let table (sos : List (Nat × Nat)) : Bytes := block (sos.map (fun so => sizedOffsetEncode so.1 so.2)).flatten
  let t1 := table idxSOs
  let t2 := table vsSOs
  let t3 := table [esSO]
  let checkPos := pos3 + t1.length + t2.length + t3.length
  let dh : DirectoryHeader := ⟨pos3, pos3 + t1.length + t2.length, pos3 + t1.length, d.indexes.length, 1,
    stores.length, freeData⟩
  let h : PackHeader := ⟨PackKind.directory, vendor, Consts.versionMajor, Consts.versionMinor, uuid, 0,
    checkPos + 37 + 64, checkPos⟩
  framePack H id h (block dh.encode ++ idxBytes ++ entryData ++ block esTail ++ vsBytes ++ t1 ++ t2 ++ t3)

end Jubako
