/-
Abstract reading of the creator's output: which (bytes, compressed?) an address denotes, given the
set of clusters handed to the writer — independent of the order in which they land in the file.
-/
import JubakoModel.Model.ContentPack

namespace Jubako

def findCluster (cs : List Cluster) (idx : Nat) : Option Cluster := cs.find? (fun c => c.idx == idx)

/-- all clusters of a creator state: closed ones, then the open raw and compressed ones -/
def Creator.allClusters (s : Creator) : List Cluster := s.closed ++ s.raw.toList ++ s.comp.toList

/-- what a content info (cluster id, blob index) denotes in a set of clusters -/
def resolve (cs : List Cluster) (info : Nat × Nat) : Option (Bytes × Bool) :=
  (findCluster cs info.1).bind (fun c => (c.blobs[info.2]?).map (fun b => (b, c.compressed)))

end Jubako
