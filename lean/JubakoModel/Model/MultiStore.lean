/-
`DirectoryPackCreator::finalize` over several entry stores (`creator/directory_pack/mod.rs`,
`entry_store.rs`), as far as deferred values are concerned.

Every entry of every store owns a cell (its `Vow<EntryIdx>`); a property of any entry of any store
may read the cell of an entry of any store.  Per store there are three kinds of action:
  * `sort i`  — `EntryStoreTrait::sort`: the step sequence of Model/Refs.lean on store `i`
                 (index assignment, then for every sort pass a new order and a re-assignment);
  * `size i`  — `EntryStoreTrait::finalize` → `Schema::process`: the column widths of store `i` are
                 computed from the values its reference properties read *now*;
  * `write i` — serialisation of store `i`: the reference properties are read again.
The repaired code (commit 7dd7146, D13) runs `sort` for every store, then `size` for every store, and
writes later; the pinned code ran `sort i; size i` store after store.  The model records what each
`size` and each `write` saw, so the two schedules can be compared.
-/
import JubakoModel.Model.Refs

namespace Jubako

/-- global cells: store ↦ entry ↦ value of the entry's `Vow` -/
abbrev MCells := Nat → Nat → Nat

/-- one entry store: number of entries, and the order each sort pass leaves (`[]` = unsorted) -/
structure StoreIn where
  n : Nat
  passes : List (List Nat)
  deriving Repr, DecidableEq

inductive MAct where
  | sort (i : Nat)
  | size (i : Nat)
  | write (i : Nat)
  deriving Repr, DecidableEq

structure MSt where
  orders : List (List Nat)             -- current order of every store
  cells : MCells
  sizedAt : List (Nat × MCells)        -- (store, the cells its sizing pass read)
  writtenAt : List (Nat × MCells)      -- (store, the cells its serialisation read)

/-- before `finalize`: insertion order; `add_entry` gave every entry its insertion index as provisional position -/
def MSt.init (stores : List StoreIn) : MSt :=
  ⟨stores.map (fun s => List.range s.n), fun _ e => e, [], []⟩

/-- the order and cells of store `i` after its `sort` (Model/Refs.lean on that store alone) -/
def sortStore (st : StoreIn) (order : List Nat) (cells : Cells) : FinSt :=
  (FinSt.mk order cells).run (finalizeSteps st.passes)

def MSt.step (stores : List StoreIn) (s : MSt) : MAct → MSt
  | .sort i =>
    match stores[i]?, s.orders[i]? with
    | some st, some o =>
      let r := sortStore st o (s.cells i)
      { s with orders := s.orders.set i r.order, cells := fun j e => if j = i then r.cells e else s.cells j e }
    | _, _ => s
  | .size i => { s with sizedAt := s.sizedAt ++ [(i, s.cells)] }
  | .write i => { s with writtenAt := s.writtenAt ++ [(i, s.cells)] }

def MSt.run (stores : List StoreIn) (s : MSt) (acts : List MAct) : MSt := acts.foldl (MSt.step stores) s

/-- the repaired `finalize`: every store gets its final order, then every store sizes its columns;
    the stores are written afterwards -/
def finalizeRepaired (k : Nat) : List MAct :=
  (List.range k).map MAct.sort ++ (List.range k).map MAct.size ++ (List.range k).map MAct.write

/-- the two loops of `DirectoryPackCreator::finalize` over the entry stores, as the translator extracts them
    from the source (`Generated.directoryFinalizePhases`) -/
inductive MPhase where
  | sortAll      -- `for entry_store in &mut self.entry_stores { entry_store.sort(); }`
  | sizeAll      -- `self.entry_stores.into_iter().map(|e| e.finalize()).collect()`
  deriving Repr, DecidableEq

def MPhase.acts (k : Nat) : MPhase → List MAct
  | .sortAll => (List.range k).map MAct.sort
  | .sizeAll => (List.range k).map MAct.size

/-- the pinned `finalize` (defect D13): sort and size store after store -/
def finalizePinned (k : Nat) : List MAct :=
  ((List.range k).map (fun i => [MAct.sort i, MAct.size i])).flatten ++ (List.range k).map MAct.write

/-- final position of entry `e` of store `i` -/
def finalPos (stores : List StoreIn) (i e : Nat) : Nat :=
  match stores[i]? with
  | some st => (st.passes.getLastD (List.range st.n)).idxOf e
  | none => 0

end Jubako
