/-
L5 — the shared decode buffer of `bases/io/compression.rs` (`SyncVecWr` / `SyncVecRd` /
`decode_to_end` / `SeekableDecoder`) as a transition system over an arbitrary scheduler.

One writer (the decoder task in the decompression pool) appends bytes *past* the published length
`d` and then publishes the new length under the mutex; any number of readers wait until the
published length reaches the end of the range they want, then slice the buffer *below* the length
they observe.  Repaired code (D11): a decoder error or a premature end of the compressed stream
sets `failed` under the same mutex and wakes every waiter.

`data` is what a correct decoder yields (the cluster's plain bytes, `total = data.length`);
`avail` ≤ `total` is how many bytes the actual decoder can deliver before it fails (`avail = total`
for an undamaged payload).
-/
import JubakoModel.Model.Bytes
import JubakoModel.Generated.Consts

namespace Jubako

/-- what a reader thread is doing -/
inductive RPhase where
  | idle
  | waiting (off end_ : Nat)        -- inside `wait_for(end)`
  | woke (off end_ : Nat)           -- woken with `decoded >= end`, about to slice
  | done (off end_ : Nat) (result : Bytes)
  | failed (off end_ : Nat)         -- got an io::Error
  deriving Repr, DecidableEq

structure SV where
  data : Bytes            -- plain bytes of the cluster (ghost: what the decoder is producing)
  avail : Nat             -- bytes the decoder delivers before failing (= data.length if sound)
  buf : Bytes             -- bytes physically written so far (the Vec's initialised prefix)
  d : Nat                 -- published length (under the mutex)
  failedFlag : Bool       -- decoder stopped on a failure (under the mutex)
  readers : List RPhase
  deriving Repr

def SV.total (s : SV) : Nat := s.data.length

def SV.init (data : Bytes) (avail : Nat) (nreaders : Nat) : SV :=
  ⟨data, avail, [], 0, false, List.replicate nreaders .idle⟩

inductive SVAct where
  /-- the decoder writes `n ≥ 1` more bytes (`take(chunk).read_to_end`), past the written prefix -/
  | write (n : Nat)
  /-- the decoder publishes the written length under the lock and notifies -/
  | publish
  /-- the decoder hits its failure point: sets `failed`, notifies, stops -/
  | fail
  /-- reader r starts a read of `[off, end)` (`end ≤ total` is checked by the callers) -/
  | request (r off end_ : Nat)
  /-- reader r is woken: enabled iff `d ≥ end` or `failed` -/
  | wake (r : Nat)
  /-- reader r takes `slice()` (length = the currently published `d`) and copies `[off, end)` -/
  | slice (r : Nat)
  deriving Repr

/-- one atomic step; `none` = not enabled -/
def SV.step (s : SV) : SVAct → Option SV
  | .write n =>
    -- writes are chunked, happen only while the decoder is alive, never beyond what it can deliver
    if n ≥ 1 ∧ n ≤ Consts.decodeChunk ∧ s.buf.length = s.d ∧ !s.failedFlag ∧ s.buf.length + n ≤ s.avail
        ∧ s.buf.length + n ≤ s.total then
      some { s with buf := s.buf ++ slice s.data s.buf.length n }
    else none
  | .publish =>
    if s.d < s.buf.length ∧ !s.failedFlag then some { s with d := s.buf.length } else none
  | .fail =>
    -- the decoder cannot deliver more (error or early EOF) although more is expected
    if s.buf.length = s.d ∧ s.d = s.avail ∧ s.avail < s.total ∧ !s.failedFlag then
      some { s with failedFlag := true }
    else none
  | .request r off end_ =>
    match s.readers[r]? with
    | some .idle => if off ≤ end_ ∧ end_ ≤ s.total then some { s with readers := s.readers.set r (.waiting off end_) } else none
    | _ => none
  | .wake r =>
    match s.readers[r]? with
    | some (.waiting off end_) =>
      if s.d ≥ end_ then some { s with readers := s.readers.set r (.woke off end_) }
      else if s.failedFlag then some { s with readers := s.readers.set r (.failed off end_) }
      else none
    | _ => none
  | .slice r =>
    match s.readers[r]? with
    | some (.woke off end_) =>
      -- `from_raw_parts(buffer, current_size())` then `[off..end]`: reads only below `d`
      let view := s.buf.take s.d
      some { s with readers := s.readers.set r (.done off end_ (slice view off (end_ - off))) }
    | _ => none

def SV.run (s : SV) : List SVAct → Option SV
  | [] => some s
  | a :: as => (s.step a).bind (fun s' => s'.run as)

/-- the safety invariant -/
def SV.Inv (s : SV) : Prop :=
  s.d ≤ s.buf.length ∧ s.buf.length ≤ s.total ∧ s.buf.length ≤ s.avail ∧ s.avail ≤ s.total ∧
  s.buf = s.data.take s.buf.length ∧
  (∀ (r off end_ : Nat), s.readers[r]? = some (RPhase.woke off end_) → off ≤ end_ ∧ end_ ≤ s.d) ∧
  (∀ (r off end_ : Nat) (res : Bytes), s.readers[r]? = some (RPhase.done off end_ res) → res = slice s.data off (end_ - off)) ∧
  (∀ (r off end_ : Nat), s.readers[r]? = some (RPhase.waiting off end_) → off ≤ end_ ∧ end_ ≤ s.total) ∧
  (∀ (r off end_ : Nat), s.readers[r]? = some (RPhase.failed off end_) → s.failedFlag = true ∧ s.avail < end_)

/-- indices touched by a step: reads are below the published length, writes at or above the
    written length -/
def SVAct.readsBelow (s : SV) : SVAct → Option Nat
  | .slice _ => some s.d
  | _ => none

def SVAct.writesFrom (s : SV) : SVAct → Option Nat
  | .write _ => some s.buf.length
  | _ => none

/-- the decoder's remaining work: a measure for the progress theorem -/
def SV.decoderMeasure (s : SV) : Nat :=
  if s.failedFlag then 0 else 2 * (s.avail - s.buf.length) + (if s.d < s.buf.length then 1 else 0) +
    (if s.avail < s.total then 1 else 0)

/-- LRU of decoded clusters behind a mutex (`reader/content_pack/mod.rs`): a bounded map from
    cluster index to a handle; a handle given out stays valid after eviction (the `Arc` keeps the
    cluster — and its decoder buffer — alive) -/
structure LruCache where
  cap : Nat
  entries : List (Nat × Nat)     -- (cluster index, handle id), most recently used first
  nextHandle : Nat
  deriving Repr

/-- `try_get_or_insert`: returns the handle and the new cache -/
def LruCache.get (c : LruCache) (idx : Nat) : Nat × LruCache :=
  match c.entries.find? (fun e => e.1 == idx) with
  | some e => (e.2, { c with entries := e :: c.entries.filter (fun x => x.1 != idx) })
  | none =>
    let h := c.nextHandle
    let es := ((idx, h) :: c.entries).take c.cap
    (h, { c with entries := es, nextHandle := h + 1 })

/-! ### The statements behind the decoder's actions

Statements of the length-publication protocol as they stand in `bases/io/compression.rs`
(`decode_to_end`); tools/extract_funcs.py extracts the sequences on every run (Generated/FuncsSync.lean). -/

inductive SVStmt where
  | readChunk      -- `decoder.take(size).read_to_end(&mut buffer.data)`: writes above the published length
  | lock           -- `lock.lock()`
  | branchOnRead   -- `match read { Ok .. / Err .. }`
  | advance        -- `uncompressed += read`
  | publish        -- `state.decoded = uncompressed` (under the lock)
  | notifyAll      -- `cvar.notify_all()`
  | setFailed      -- `state.failed = true` (under the lock)
  | stop           -- `return Err(e)`
  deriving Repr, DecidableEq

/-- one turn of the decoder loop: `.write n` (the chunk read), then under the lock either `.publish` or `.fail` -/
def decoderTurnStmts : List SVStmt := [.readChunk, .lock, .branchOnRead]
/-- `.publish`: the new length is stored under the lock, then every waiter is notified -/
def decoderPublishStmts : List SVStmt := [.advance, .publish, .notifyAll]
/-- `.fail`: the failure is stored under the lock, every waiter is notified, the decoder stops -/
def decoderFailStmts : List SVStmt := [.setFailed, .notifyAll, .stop]

/-- the condition under which a reader inside `wait_for(end)` keeps waiting (model: `.wake` is not enabled) -/
def SV.keepsWaiting (s : SV) (end_ : Nat) : Bool := decide (s.d < end_) && !s.failedFlag

end Jubako
