/-
L4 — containers: container pack (`creator/container_pack.rs`, `reader/container_pack.rs`,
`common/pack_locator.rs`), blind open with tail fallback (`reader/jubako.rs::open_as_container_pack`),
locator chain (`reader/locator.rs`), `Container` (`reader/jubako.rs`), `tools::concat`.

The file system is a finite map from file names (relative to the container's directory) to bytes.
-/
import JubakoModel.Model.ContentPack
import JubakoModel.Model.DirLayout

namespace Jubako

structure PackLocator where
  uuid : Bytes
  size : Nat
  pos : Nat
  deriving Repr, DecidableEq

def PackLocator.encode (l : PackLocator) : Bytes := l.uuid ++ leBytes l.size 8 ++ leBytes l.pos 8

def PackLocator.decode (bs : Bytes) : Outcome PackLocator :=
  if bs.length < 32 then .err .format
  else .ok ⟨slice bs 0 16, leNat (slice bs 16 8), leNat (slice bs 24 8)⟩

structure ContainerHeader where
  locatorsPos : Nat
  packCount : Nat
  freeData : Bytes
  deriving Repr, DecidableEq

def ContainerHeader.encode (h : ContainerHeader) : Bytes :=
  leBytes h.locatorsPos 8 ++ leBytes h.packCount 2 ++ zeros 26 ++ h.freeData

def ContainerHeader.decode (bs : Bytes) : Outcome ContainerHeader :=
  if bs.length < 60 then .err .format
  else .ok ⟨leNat (slice bs 0 8), leNat (slice bs 8 2), slice bs 36 24⟩

/-- a pack found in a file: its uuid and its region -/
structure PackAt where
  uuid : Bytes
  origin : Nat
  size : Nat
  deriving Repr, DecidableEq

/-- `ContainerPack::new` on the region `[origin, origin+size)` of file `f`; every pack region is
    cut with a bounds check (repaired code, D10) -/
def containerPackOpen (f : Bytes) (origin size : Nat) : Outcome (List PackAt) := do
  let g := slice f origin size
  let h ← openHeader g .container
  let cb ← readBlock g 64 60
  let ch ← ContainerHeader.decode cb
  let _ := h
  (List.range ch.packCount).foldlM (fun acc k => do
    let lb ← readBlock g (ch.locatorsPos + k * 36) 32
    let l ← PackLocator.decode lb
    if l.pos + l.size ≤ g.length then pure (acc ++ [⟨l.uuid, origin + l.pos, l.size⟩])
    else .err .format) []

/-- `open_as_container_pack` (repaired code, D9/D10): an unchecked parse of the header at 0 only to
    report a version mismatch; then the CRC-checked header at 0, else the mirrored tail; files too
    small for a pack and declared sizes beyond the file are format errors. -/
def blindOpen (f : Bytes) : Outcome (List PackAt) :=
  let unchecked : Outcome PackHeader := if f.length < 60 then .err .format else PackHeader.decode (f.take 60)
  match unchecked with
  | .err .version => .err .version
  | _ =>
    let located : Outcome (PackHeader × Nat) :=
      match (do let hd ← readBlock f 0 60; PackHeader.decode hd : Outcome PackHeader) with
      | .ok h => .ok (h, 0)
      | e =>
        if f.length < 64 then e.map' (fun h => (h, 0))
        else do
          let tail := (slice f (f.length - 64) 64).reverse
          let hd ← readBlock tail 0 60
          let h ← PackHeader.decode hd
          if f.length < h.packSize then .err .format
          else .ok (h, f.length - h.packSize)
    match located with
    | .ok (h, origin) =>
      if origin + h.packSize ≤ f.length then
        if h.kind = .container then containerPackOpen f origin h.packSize
        else .ok [⟨h.uuid, origin, h.packSize⟩]
      else .err .format
    | .err k => .err k
    | .panic s => .panic s
    | .hang => .hang
    | .fault => .fault

abbrev FS := List (String × Bytes)

def FS.get (fs : FS) (name : String) : Option Bytes := (fs.find? (fun e => e.1 == name)).map (·.2)

/-- a located pack: the file it lives in and its region -/
structure Located where
  file : String
  at_ : PackAt
  deriving Repr

/-- `FsLocator::locate(uuid, location)` (repaired code, D7/D8): the file at the recorded location,
    opened blindly, must hold a pack with that uuid -/
def fsLocate (fs : FS) (uuid : Bytes) (location : String) : Outcome (Option Located) :=
  if location = "" then .ok none
  else match fs.get location with
    | none => .ok none
    | some f => do
      let packs ← blindOpen f
      .ok ((packs.find? (fun p => p.uuid == uuid)).map (fun p => ⟨location, p⟩))

/-- `ChainedLocator`: the enclosing container first (by uuid), then the file system -/
def locate (fs : FS) (entryFile : String) (entryPacks : List PackAt) (uuid : Bytes) (location : String) :
    Outcome (Option Located) :=
  match entryPacks.find? (fun p => p.uuid == uuid) with
  | some p => .ok (some ⟨entryFile, p⟩)
  | none => fsLocate fs uuid location

def bytesOfLocated (fs : FS) (l : Located) : Bytes :=
  match fs.get l.file with
  | some f => slice f l.at_.origin l.at_.size
  | none => []

structure ContainerView where
  entryFile : String
  entryPacks : List PackAt
  manifest : Bytes
  infos : List PackInfo
  dirPack : Bytes

def locationString (b : Bytes) : String := String.ofList (b.map (fun c => Char.ofNat c.toNat))

/-- `Container::new(path)` -/
def containerOpen (fs : FS) (entry : String) : Outcome ContainerView :=
  match fs.get entry with
  | none => .err .io
  | some f => do
    let packs ← blindOpen f
    -- get_manifest_pack_reader: the first pack whose header says "manifest"
    let isManifest (p : PackAt) : Bool :=
      match (do let hd ← readBlock (slice f p.origin p.size) 0 60; PackHeader.decode hd : Outcome PackHeader) with
      | .ok h => h.kind = .manifest
      | _ => false
    match packs.find? isManifest with
    | none => .err .format
    | some mp =>
      let m := slice f mp.origin mp.size
      let (_, _, infos) ← manifestOpen m
      match (infos.filter (fun i => i.kind = .directory)).getLast? with
      | none => .panic "manifest_pack.rs: directory_pack_info.unwrap()"
      | some di =>
        match ← locate fs entry packs di.uuid (locationString di.location) with
        | none => .panic "jubako.rs: locate(directory pack).unwrap()"
        | some l => .ok ⟨entry, packs, m, infos, bytesOfLocated fs l⟩

/-- three-way result of `Container::get_pack` -/
inductive PackLookup where
  | unknown                       -- pack id not in the manifest
  | missing (info : PackInfo)
  | found (bytes : Bytes)

def containerGetPack (fs : FS) (c : ContainerView) (packId : Nat) : Outcome PackLookup :=
  let contentInfos := c.infos.filter (fun i => i.kind ≠ .directory)
  let maxId := (contentInfos.map (·.packId)).foldl max 0
  if packId ≥ maxId + 1 then .ok .unknown
  else match contentInfos.find? (fun i => i.packId == packId) with
    | none => .ok .unknown
    | some info => do
      match ← locate fs c.entryFile c.entryPacks info.uuid (locationString info.location) with
      | none => .ok (.missing info)
      | some l => .ok (.found (bytesOfLocated fs l))

/-- `tools::concat`: a new container pack holding every pack of the inputs, in order.  `packs` are
    the packs (uuid, bytes) in the order they are appended. -/
def concatLayout (packs : List (Bytes × Bytes)) : Bytes × List PackLocator :=
  packs.foldl (fun (acc : Bytes × List PackLocator) p =>
    (acc.1 ++ p.2, acc.2 ++ [⟨p.1, p.2.length, 128 + acc.1.length⟩])) ([], [])

/-- a container pack file as `ContainerPackCreator` writes it (repaired size, D12) -/
def containerPackWrite (uuid freeData : Bytes) (packs : List (Bytes × Bytes)) : Bytes :=
  let (body, locs) := concatLayout packs
  let locatorsPos := 128 + body.length
  let locTable := (locs.map (fun l => block l.encode)).flatten
  let checkPos := locatorsPos + locTable.length
  let ch : ContainerHeader := ⟨locatorsPos, packs.length, freeData⟩
  let h : PackHeader := ⟨PackKind.container, [0, 0, 0, 0], Consts.versionMajor, Consts.versionMinor, uuid, 0,
    checkPos + 5 + 64, checkPos⟩
  let hb := block h.encode
  hb ++ block ch.encode ++ body ++ locTable ++ block (CheckInfo.none).encode ++ packTail hb

end Jubako

namespace Jubako

/-- `ContainerPack::check` on the packs found in (a region of) a file -/
def packsCheck (H : Bytes → Bytes) (f : Bytes) (packs : List PackAt) : Outcome Bool :=
  packs.foldlM (fun acc p =>
    if !acc then pure false else do
      let g := slice f p.origin p.size
      let hd ← readBlock g 0 60
      let h ← PackHeader.decode hd
      match h.kind with
      | .manifest => manifestOpenCheck H g
      | .directory => directoryOpenCheck H g
      | .content => contentOpenCheck H g
      | .container => .panic "container_pack.rs: todo!() (nested container)") true

/-- `Container::check` -/
def containerCheck (H : Bytes → Bytes) (fs : FS) (c : ContainerView) : Outcome Bool := do
  let m ← manifestCheck H c.manifest
  if !m then .ok false else
  let d ← packCheck H id c.dirPack
  if !d then .ok false else
  (c.infos.filter (fun i => i.kind ≠ .directory)).foldlM (fun acc info =>
    if !acc then pure false else do
      match ← locate fs c.entryFile c.entryPacks info.uuid (locationString info.location) with
      | none => pure true
      | some l =>
        -- the located reader is re-opened blindly as a (fake) container pack and checked
        let g := bytesOfLocated fs l
        let packs ← blindOpen g
        packsCheck H g packs) true

end Jubako
