/-
L5 — the file-system trace of a whole creation run through `BasicCreator`
(`creator/basic_creator.rs::{new, add_content, finalize}` over `creator/mod.rs::AtomicOutFile`), per
`ConcatMode`.

`BasicCreator::new` opens the `AtomicOutFile` that receives the content pack (a `NamedTempFile` in
the destination directory); `add_content` and the finalisation of the content pack write into it;
`finalize` then, depending on the mode,
  * OneFile  — keeps writing the directory pack, the manifest and the container tail into the same
               temporary and persists it onto the destination;
  * TwoFiles — persists the first temporary as `<out>.jbkc`, opens a second temporary for the
               container holding directory pack and manifest, persists it onto the destination;
  * NoConcat — persists `<out>.jbkc`, then writes the directory pack to a temporary persisted as
               `<out>..jbkd` (sic: `set_extension(".jbkd")`), then the manifest to a temporary
               persisted onto the destination.
What is written is abstracted to lists of write tokens (any number of writes of any size at each
stage: the theorems quantify over them).  Extra content packs handed to `finalize` are written
through recipients chosen by the caller (`ContentPackCreator::new` writes straight to its final
path) and are outside this model.
-/
import JubakoModel.Model.AtomicFs

namespace Jubako

inductive ConcatMode where
  | oneFile | twoFiles | noConcat
  deriving Repr, DecidableEq

/-- `Utf8PathBuf::set_extension` on a file name: drop what follows the last `.` of the name (if the
    dot is not its first character), then append `.` and the extension -/
def withExtension (p : FPath) (ext : String) : FPath :=
  let cs := p.toList
  let stem :=
    match (cs.reverse.dropWhile (· != '.')) with
    | [] => cs
    | _ :: restRev => if restRev.isEmpty then cs else restRev.reverse
  String.ofList stem ++ "." ++ ext

/-- the final names of a run, and the temporaries it creates (in order of creation) -/
structure FinNames where
  entry : FPath
  jbkc : FPath
  jbkd : FPath
  t1 : FPath
  t2 : FPath
  t3 : FPath
  deriving Repr

/-- final names as computed by `BasicCreator` from the destination path -/
def FinNames.ofEntry (entry t1 t2 t3 : FPath) : FinNames :=
  ⟨entry, withExtension entry "jbkc", withExtension entry ".jbkd", t1, t2, t3⟩

/-- the writes of each stage of a run -/
structure FinWrites where
  adds : List Nat        -- `add_content` and the content pack's own tables / check / tail
  ctail1 : List Nat      -- locator table and tail of the container around the content pack (not OneFile)
  head2 : List Nat       -- header of the second container (TwoFiles)
  dir : List Nat         -- the directory pack
  man : List Nat         -- the manifest pack
  cend : List Nat        -- locator table and tail of the container holding the entry point
  deriving Repr

def wr (p : FPath) (toks : List Nat) : List FsOp := toks.map (FsOp.write p)

def creationTrace (m : ConcatMode) (n : FinNames) (w : FinWrites) : List FsOp :=
  match m with
  | .oneFile =>
    [.create n.t1] ++ wr n.t1 w.adds ++ wr n.t1 w.dir ++ wr n.t1 w.man ++ wr n.t1 w.cend ++
      [.rename n.t1 n.entry]
  | .twoFiles =>
    [.create n.t1] ++ wr n.t1 w.adds ++ wr n.t1 w.ctail1 ++ [.rename n.t1 n.jbkc] ++
      [.create n.t2] ++ wr n.t2 w.head2 ++ wr n.t2 w.dir ++ wr n.t2 w.man ++ wr n.t2 w.cend ++
      [.rename n.t2 n.entry]
  | .noConcat =>
    [.create n.t1] ++ wr n.t1 w.adds ++ wr n.t1 w.ctail1 ++ [.rename n.t1 n.jbkc] ++
      [.create n.t2] ++ wr n.t2 w.dir ++ [.rename n.t2 n.jbkd] ++
      [.create n.t3] ++ wr n.t3 w.man ++ [.rename n.t3 n.entry]

/-- an I/O error after `k` operations: `finalize` returns through `?`, every `NamedTempFile` still
    alive is dropped, i.e. unlinked -/
def liveTemps (t : List FsOp) : List FPath :=
  t.foldl (fun live op => match op with
    | .create p => p :: live
    | .rename s _ => live.filter (· != s)
    | .unlink p => live.filter (· != p)
    | .write _ _ => live) []

def errorTrace (t : List FsOp) (k : Nat) : List FsOp :=
  t.take k ++ (liveTemps (t.take k)).map FsOp.unlink

/-! ### is a recorded trace an instance of the model's trace? (used by the correspondence check) -/

/-- a trace without its writes -/
def eraseWrites (t : List FsOp) : List FsOp :=
  t.filter (fun op => match op with | .write _ _ => false | _ => true)

/-- every write goes to the most recently created, not yet renamed file -/
def writesToCurrent : List FsOp → Option FPath → Bool
  | [], _ => true
  | .create p :: rest, _ => writesToCurrent rest (some p)
  | .write p _ :: rest, cur => cur == some p && writesToCurrent rest cur
  | .rename _ _ :: rest, _ => writesToCurrent rest none
  | .unlink _ :: rest, _ => writesToCurrent rest none

/-- the temporaries of a trace in order of creation -/
def createdOf (t : List FsOp) : List FPath :=
  t.filterMap (fun op => match op with | .create p => some p | _ => none)

/-- `t` is `creationTrace m n w` for some `w`, with `n`'s temporaries read off `t` -/
def isCreationInstance (m : ConcatMode) (entry : FPath) (t : List FsOp) : Bool :=
  let cs := createdOf t
  let n := FinNames.ofEntry entry (cs.getD 0 "") (cs.getD 1 "") (cs.getD 2 "")
  eraseWrites t == eraseWrites (creationTrace m n ⟨[], [], [], [], [], []⟩) && writesToCurrent t none

/-! ### The publication statements of `BasicCreator::finalize`

The places of `finalize` where a temporary file is created (`AtomicOutFile::new`) or published
(`close_file`: the rename), in the textual order of the source — which is the order of execution in every
mode, the function being straight-line code with branches.  tools/extract_funcs.py extracts this sequence
on every run (Generated/FuncsFs.lean) and refuses any other file-system operation in the function. -/

inductive PubStmt where
  | publishContentFile      -- `container_file.close_file()` of the container around the content pack (not OneFile)
  | tempEntryContainer      -- `AtomicOutFile::new(&self.outpath)`: the second container (TwoFiles)
  | publishExtra            -- `extra_pack_file.close_file()` (extra content packs, outside the model)
  | tempDirectory           -- `AtomicOutFile::new(<out>.jbkd)` (NoConcat)
  | publishDirectory        -- its `close_file()`
  | tempEntryManifest       -- `AtomicOutFile::new(&self.outpath)`: the manifest alone (NoConcat)
  | publishEntryManifest    -- its `close_file()`: the entry point of a NoConcat container
  | publishEntryContainer   -- `container_file.close_file()` at the end: the entry point (OneFile, TwoFiles)
  deriving Repr, DecidableEq

/-- the sequence as it stands in the source -/
def finalizePublications : List PubStmt :=
  [.publishContentFile, .tempEntryContainer, .publishExtra, .tempDirectory, .publishDirectory,
   .tempEntryManifest, .publishEntryManifest, .publishEntryContainer]

/-- which of these statements a mode executes (no extra content packs) -/
def PubStmt.runsIn (m : ConcatMode) : PubStmt → Bool
  | .publishContentFile => m != .oneFile
  | .tempEntryContainer => m == .twoFiles
  | .publishExtra => false
  | .tempDirectory | .publishDirectory | .tempEntryManifest | .publishEntryManifest => m == .noConcat
  | .publishEntryContainer => m != .noConcat

/-- the final name a publishing statement renames onto -/
def PubStmt.target (n : FinNames) : PubStmt → Option FPath
  | .publishContentFile => some n.jbkc
  | .publishDirectory => some n.jbkd
  | .publishEntryManifest | .publishEntryContainer => some n.entry
  | _ => none

/-- the rename targets of a trace, in order -/
def renameTargets (t : List FsOp) : List FPath :=
  t.filterMap (fun op => match op with | .rename _ d => some d | _ => none)

end Jubako
