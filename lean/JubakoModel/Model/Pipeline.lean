/-
L5 — the cluster pipeline of the content-pack creator (`creator/content_pack/clusterwriter.rs`)
as a transition system over an arbitrary scheduler:

  main thread  --(compressed: dispatch queue, back-pressure counter)-->  workers  --+
       |                                                                           +--> fusion queue --> single writer
       +------------------------------(raw clusters)-------------------------------+

A compressed cluster is built by a worker in a private buffer (payload ‖ tail block) with the tail
offset *relative* to that buffer; the writer appends the buffer at its current position and rebases
the offset.  A raw cluster is written by the writer itself.  `addresses[idx]` is filled in the
order in which the writer handles tasks.
-/
import JubakoModel.Model.ContentPack

namespace Jubako

/-- a task in the fusion queue -/
inductive WTask where
  | raw (c : Cluster)
  | compressed (c : Cluster) (bytes : Bytes) (relTail : Nat) (tailLen : Nat)
    -- `c` is ghost state: the real task carries only the cluster id, the buffer and the offsets
  deriving Repr

def WTask.cluster : WTask → Cluster
  | .raw c => c
  | .compressed c _ _ _ => c

def WTask.idx (t : WTask) : Nat := t.cluster.idx

/-- worker states: idle, compressing a cluster, or having sent its result but not yet released
    its slot of the back-pressure counter -/
inductive Worker where
  | idle
  | busy (c : Cluster)
  | sent
  deriving Repr

structure Pipe where
  todo : List Cluster          -- clusters the main thread will still hand over, in hand-over order
  dispatchQ : List Cluster     -- spmc channel, FIFO
  workers : List Worker
  fusionQ : List WTask         -- mpsc channel, in arrival order
  count : Nat                  -- nb_cluster_in_queue
  maxQ : Nat                   -- 2 × number of workers
  out : Bytes                  -- bytes appended to the file so far (after the 128 header bytes)
  base : Nat                   -- file position of `out`'s first byte (128)
  addresses : List (Nat × (Nat × Nat))   -- cluster id ↦ (tail position, tail size)
  done : List Cluster          -- (ghost) clusters in the order the writer handled them
  deriving Repr

def Pipe.order (s : Pipe) : List Nat := s.done.map (·.idx)

def Pipe.init (clusters : List Cluster) (nworkers : Nat) : Pipe :=
  { todo := clusters, dispatchQ := [], workers := List.replicate nworkers .idle, fusionQ := [],
    count := 0, maxQ := 2 * nworkers, out := [], base := 128, addresses := [], done := [] }

inductive PAct where
  | mainSend                 -- main thread hands the next cluster over
  | take (w : Nat)           -- worker w receives from the dispatch queue
  | finish (w : Nat)         -- worker w sends its compressed buffer to the writer
  | release (w : Nat)        -- worker w decrements the counter and notifies
  | write                    -- the writer handles the next task
  deriving Repr

def setAt {α} (l : List α) (i : Nat) (a : α) : List α := l.set i a

/-- one step; `none` = the action is not enabled (the thread is blocked / has nothing to do) -/
def Pipe.step (codec : Codec) (s : Pipe) : PAct → Option Pipe
  | .mainSend =>
    match s.todo with
    | [] => none
    | c :: rest =>
      if c.compressed && codec.byte != 0 then
        if s.count < s.maxQ then
          some { s with todo := rest, dispatchQ := s.dispatchQ ++ [c], count := s.count + 1 }
        else none                                   -- wait_while(count >= max_queue_size)
      else some { s with todo := rest, fusionQ := s.fusionQ ++ [.raw c] }
  | .take w =>
    match s.workers[w]?, s.dispatchQ with
    | some .idle, c :: rest => some { s with workers := s.workers.set w (.busy c), dispatchQ := rest }
    | _, _ => none
  | .finish w =>
    match s.workers[w]? with
    | some (.busy c) =>
      let (bytes, plen, tlen) := c.encode codec
      some { s with workers := s.workers.set w .sent,
                    fusionQ := s.fusionQ ++ [.compressed c bytes plen tlen] }
    | _ => none
  | .release w =>
    match s.workers[w]? with
    | some .sent => some { s with workers := s.workers.set w .idle, count := s.count - 1 }
    | _ => none
  | .write =>
    match s.fusionQ with
    | [] => none
    | t :: rest =>
      let pos := s.base + s.out.length
      match t with
      | .raw c =>
        let (bytes, plen, tlen) := { c with compressed := false }.encode codec
        some { s with fusionQ := rest, out := s.out ++ bytes,
                      addresses := s.addresses ++ [(c.idx, (pos + plen, tlen))], done := s.done ++ [c] }
      | .compressed c bytes rel tlen =>
        some { s with fusionQ := rest, out := s.out ++ bytes,
                      addresses := s.addresses ++ [(c.idx, (pos + rel, tlen))], done := s.done ++ [c] }

def Pipe.run (codec : Codec) (s : Pipe) : List PAct → Option Pipe
  | [] => some s
  | a :: as => (s.step codec a).bind (fun s' => s'.run codec as)

def Worker.isIdle : Worker → Bool
  | .idle => true | _ => false

/-- everything handed over, compressed, written, and every worker back to idle -/
def Pipe.final (s : Pipe) : Bool :=
  s.todo.isEmpty && s.dispatchQ.isEmpty && s.fusionQ.isEmpty && s.workers.all Worker.isIdle

def Worker.weight : Worker → Nat
  | .idle => 0 | .busy _ => 4 | .sent => 1

/-- termination measure: strictly decreases along every enabled step -/
def Pipe.measure (s : Pipe) : Nat :=
  6 * s.todo.length + 5 * s.dispatchQ.length + (s.workers.map Worker.weight).sum + 2 * s.fusionQ.length

def Worker.clusters : Worker → List Cluster
  | .busy c => [c] | _ => []

/-- (ghost) every cluster that is somewhere in the pipeline or already written -/
def Pipe.all (s : Pipe) : List Cluster :=
  s.todo ++ s.dispatchQ ++ (s.workers.map Worker.clusters).flatten ++ s.fusionQ.map WTask.cluster ++ s.done

/-- a cluster marked compressed only exists in a compressing pack (what the creator guarantees:
    `detect_compression` answers false when the pack has no compression) -/
def ClustersWF (codec : Codec) (cs : List Cluster) : Prop := ∀ c ∈ cs, c.compressed = true → codec.byte ≠ 0

def Worker.holds : Worker → Nat
  | .idle => 0 | _ => 1

/-- back-pressure invariant -/
def Pipe.Inv (s : Pipe) : Prop :=
  s.count = s.dispatchQ.length + (s.workers.map Worker.holds).sum ∧ s.count ≤ s.maxQ

/-! ### History conformance (what the `Progress` callbacks let an observer see) -/

inductive PEvent where
  | newCluster (idx : Nat) (compressed : Bool)
  | handle (idx : Nat) (compressed : Bool)   -- a worker (compressed) or the writer (raw) starts on idx
  | written (idx : Nat)
  deriving Repr

structure Obs where
  opened : List Nat
  handled : List Nat
  written : List Nat
  nextId : Nat
  deriving Repr

/-- the order constraints every run of the pipeline imposes on observable events:
    ids are allocated in increasing order; a cluster is handled after it was opened and at most
    once; it is written after it was handled and at most once -/
def Obs.step (o : Obs) : PEvent → Option Obs
  | .newCluster idx _ =>
    if idx = o.nextId then some { o with opened := idx :: o.opened, nextId := idx + 1 } else none
  | .handle idx _ =>
    if o.opened.contains idx && !o.handled.contains idx then some { o with handled := idx :: o.handled } else none
  | .written idx =>
    if o.handled.contains idx && !o.written.contains idx then some { o with written := idx :: o.written } else none

def Obs.run (o : Obs) : List PEvent → Option Obs
  | [] => some o
  | e :: es => (o.step e).bind (fun o' => o'.run es)

/-! ### The statements behind the actions

The statements of the back-pressure protocol as they stand in the source
(`creator/content_pack/clusterwriter.rs`); tools/extract_funcs.py extracts, on every run, the statement
sequence of `ClusterWriterProxy::write_cluster` (both branches) and of the loop body of
`ClusterCompressor::run` (Generated/FuncsPipe.lean). -/

inductive PStmt where
  | waitBelowMax     -- `cvar.wait_while(count.lock(), |c| *c >= max_queue_size)`
  | incr             -- `*count += 1`
  | sendDispatch     -- `dispatch_tx.send(cluster)`
  | sendFusion       -- `fusion_tx.send(..)` / `output.send(WriteTask::Compressed(..))`
  | recvDispatch     -- `input.recv()`
  | compress         -- `compress_cluster(..)` into a private buffer
  | lock             -- `count.lock()`
  | decr             -- `*count -= 1`
  | notify           -- `cvar.notify_one()`
  deriving Repr, DecidableEq

/-- `.mainSend` on a compressed cluster: wait until the counter is below the limit, count the cluster,
    hand it to the workers — one atomic action of the model (the guard is held until the send) -/
def mainSendCompressedStmts : List PStmt := [.waitBelowMax, .incr, .sendDispatch]
/-- `.mainSend` on a raw cluster: straight to the writer, the counter is not involved -/
def mainSendRawStmts : List PStmt := [.sendFusion]
/-- a worker's turn: `.take w` (receive), `.finish w` (compress, send to the writer), `.release w` (lock,
    decrement, notify) -/
def workerTurnStmts : List PStmt := [.recvDispatch, .compress, .sendFusion, .lock, .decr, .notify]

end Jubako
