/-
Deferred values (`bases/types/delayed.rs`: `Vow` / `Bound` / `Word`) in
`EntryStore::finalize` (`creator/directory_pack/entry_store.rs`).

Every entry owns a cell (its `Vow<EntryIdx>`); `add_entry` hands out a `Bound` on it; a property
of another entry may be a `Word` reading that cell.  `finalize` runs:
  set_entry_idx; [sort; set_entry_idx; (while !sorted: sort; set_entry_idx)*]; process (column
  sizing — reads the cells); later `write_data` serialises the entries (reads the cells again).
Entries are identified by the order in which they were added (`Nat`).
-/
import JubakoModel.Model.DirWriter

namespace Jubako

/-- the cells: entry id ↦ value of its `Vow` -/
abbrev Cells := Nat → Nat

/-- `set_entry_idx`: every entry's cell := its position in the current order -/
def setEntryIdx (order : List Nat) (_ : Cells) : Cells := fun e => order.idxOf e

structure FinSt where
  order : List Nat     -- entries (by id) in their current order
  cells : Cells

inductive FinStep where
  | setIdx
  | sort (perm : List Nat)    -- whatever order a sort pass leaves (a permutation of the entries)

/-- the two kinds of statements of `EntryStore::sort` the step sequence is made of (what the translator
    extracts from the source: `Generated.entryStoreSortShape`) -/
inductive SortStmt where
  | setIdx
  | sort
  deriving Repr, DecidableEq

def FinStep.kind : FinStep → SortStmt
  | .setIdx => .setIdx
  | .sort _ => .sort

def FinSt.step (s : FinSt) : FinStep → FinSt
  | .setIdx => { s with cells := setEntryIdx s.order s.cells }
  | .sort p => { s with order := p }

/-- the step sequence of `finalize` for a store with sort keys, for arbitrary results of each sort
    pass (`passes` non-empty) — and for a store without sort keys (`passes = []`) -/
def finalizeSteps (passes : List (List Nat)) : List FinStep :=
  .setIdx :: (passes.map (fun p => [FinStep.sort p, FinStep.setIdx])).flatten

def FinSt.run (s : FinSt) (steps : List FinStep) : FinSt := steps.foldl FinSt.step s

/-- value a reference property holds when it is read: the cell of its target -/
def refValue (cells : Cells) (target : Nat) : Nat := cells target

end Jubako

namespace Jubako

/-! ### Deferred values in the writer's input (file level)

An entry as handed to `add_entry`: each value is either plain or a `Word` reading the cell of the
entry added as number `target` (insertion order).  `finalize` fixes the order and the cells; what
is sized and serialised afterwards is the entry with every reference replaced by the value of its
target's cell at that moment. -/

inductive ValIn where
  | val (v : Val)
  | ref (target : Nat)
  deriving Repr, DecidableEq

structure EntryRefIn where
  variant : Option Nat
  values : List ValIn
  deriving Repr, DecidableEq

def ValIn.resolve (cells : Cells) : ValIn → Val
  | .val v => v
  | .ref t => .u (refValue cells t)

def EntryRefIn.resolve (cells : Cells) (e : EntryRefIn) : EntryIn :=
  ⟨e.variant, e.values.map (ValIn.resolve cells)⟩

/-- the writer's input with deferred values: entries in insertion order -/
structure DirRefIn where
  storeKinds : List Bool
  schema : SchemaDef
  entries : List EntryRefIn
  indexes : List IndexDef
  deriving Repr

/-- `EntryStore::finalize` followed by serialisation: run the step sequence (initial index
    assignment, then for every sort pass the new order and a re-assignment), then read every entry
    — in the final order — through the final cells -/
def DirRefIn.finalize (d : DirRefIn) (passes : List (List Nat)) : DirIn :=
  let s := (FinSt.mk (List.range d.entries.length) (fun _ => 0)).run (finalizeSteps passes)
  { storeKinds := d.storeKinds, schema := d.schema,
    entries := s.order.filterMap (fun id => (d.entries[id]?).map (EntryRefIn.resolve s.cells)),
    indexes := d.indexes }

/-- the handle (`Bound`) returned when the entry was added, read after `finalize` -/
def DirRefIn.boundOf (d : DirRefIn) (passes : List (List Nat)) (e : Nat) : Nat :=
  ((FinSt.mk (List.range d.entries.length) (fun _ => 0)).run (finalizeSteps passes)).cells e

end Jubako
