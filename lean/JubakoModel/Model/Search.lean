/-
`RangeTrait::find` (`reader/directory_pack/range.rs`): binary search when the comparator declares
the range ordered, linear scan otherwise.  `cmp i` is the comparator's verdict on the entry at
relative index `i` of the range (`Less` = the entry is smaller than the probe).
-/
import JubakoModel.Model.Bytes

namespace Jubako

/-- the `while left < right` loop, fuelled by the window size -/
def bsearchLoop (cmp : Nat → Ordering) : Nat → Nat → Nat → Option Nat
  | 0, _, _ => none
  | fuel + 1, left, right =>
    if left < right then
      let size := right - left
      let mid := left + size / 2
      match cmp mid with
      | .lt => bsearchLoop cmp fuel (mid + 1) right
      | .gt => bsearchLoop cmp fuel left mid
      | .eq => some mid
    else none

/-- `find` with `ordered() = true` over a range of `count` entries -/
def findOrdered (cmp : Nat → Ordering) (count : Nat) : Option Nat := bsearchLoop cmp (count + 1) 0 count

/-- `find` with `ordered() = false`: first index whose verdict is `Equal` -/
def findLinear (cmp : Nat → Ordering) (count : Nat) : Option Nat :=
  (List.range count).find? (fun i => cmp i == .eq)

/-- the comparator of a probe against a list of keys under a total order `ord` on keys:
    verdict on entry i = `ord keys[i] probe` -/
def probeCmp {α} (ord : α → α → Ordering) (keys : List α) (dflt : α) (probe : α) (i : Nat) : Ordering :=
  ord (keys.getD i dflt) probe

end Jubako
