/-
L3 — content pack creator, executable form.  Same state machine as `Creator` (`ContentPack.lean`) but
with O(1) work per inserted item: lists are kept reversed (cons instead of append) and the counters
used by `is_full` are cached.  `FastCreator.abs` maps a state to the `Creator` state it represents;
the refinement is proved in `Lemmas/CreatorFast.lean`.
-/
import JubakoModel.Model.ContentPack

namespace Jubako

/-- open cluster with reversed blob list and cached counters -/
structure FastCluster where
  idx : Nat
  compressed : Bool
  revBlobs : List Bytes
  count : Nat        -- = revBlobs.length
  dataSize : Nat     -- = sum of blob lengths

structure FastCreator where
  revInfos : List (Nat × Nat)
  n : Nat                      -- = revInfos.length
  raw : Option FastCluster
  comp : Option FastCluster
  next : Nat
  revClosed : List Cluster     -- closed clusters, most recent first (already in normal `Cluster` form)

def FastCluster.toCluster (c : FastCluster) : Cluster := ⟨c.idx, c.compressed, c.revBlobs.reverse⟩

/-- `ClusterCreator::is_full(size)` on the cached counters (same rule as `Cluster.isFull`) -/
def FastCluster.isFull (c : FastCluster) (size : Nat) : Bool :=
  c.count == Consts.maxBlobsPerCluster ||
  (c.compressed && c.count != 0 && c.dataSize + size > Consts.clusterSize)

/-- a freshly opened cluster holding one blob of length `size` -/
def FastCluster.fresh (idx : Nat) (compressed : Bool) (data : Bytes) (size : Nat) : FastCluster :=
  ⟨idx, compressed, [data], 1, size⟩

/-- append one blob of length `size` -/
def FastCluster.push (c : FastCluster) (data : Bytes) (size : Nat) : FastCluster :=
  { c with revBlobs := data :: c.revBlobs, count := c.count + 1, dataSize := c.dataSize + size }

def FastCreator.init : FastCreator := ⟨[], 0, none, none, 0, []⟩

/-- `ContentPackCreator::add_content` (after the compression decision), O(1) per item -/
def FastCreator.add (s : FastCreator) (it : Item) : FastCreator :=
  let size := it.data.length
  if it.comp then
    match s.comp with
    | none =>
      { s with revInfos := (s.next, 0) :: s.revInfos, n := s.n + 1, next := s.next + 1,
               comp := some (FastCluster.fresh s.next true it.data size) }
    | some c =>
      if c.isFull size then
        { s with revInfos := (s.next, 0) :: s.revInfos, n := s.n + 1, next := s.next + 1,
                 comp := some (FastCluster.fresh s.next true it.data size),
                 revClosed := c.toCluster :: s.revClosed }
      else
        { s with revInfos := (c.idx, c.count) :: s.revInfos, n := s.n + 1,
                 comp := some (c.push it.data size) }
  else
    match s.raw with
    | none =>
      { s with revInfos := (s.next, 0) :: s.revInfos, n := s.n + 1, next := s.next + 1,
               raw := some (FastCluster.fresh s.next false it.data size) }
    | some c =>
      if c.isFull size then
        { s with revInfos := (s.next, 0) :: s.revInfos, n := s.n + 1, next := s.next + 1,
                 raw := some (FastCluster.fresh s.next false it.data size),
                 revClosed := c.toCluster :: s.revClosed }
      else
        { s with revInfos := (c.idx, c.count) :: s.revInfos, n := s.n + 1,
                 raw := some (c.push it.data size) }

def FastCreator.addAll (items : List Item) : FastCreator := items.foldl FastCreator.add FastCreator.init

/-- the `Creator` state represented by a fast state -/
def FastCreator.abs (s : FastCreator) : Creator :=
  ⟨s.revInfos.reverse, s.raw.map FastCluster.toCluster, s.comp.map FastCluster.toCluster, s.next,
   s.revClosed.reverse⟩

/-- `finalize`: what `s.abs.finalize` returns, computed directly (each list reversed once) -/
def FastCreator.finalize (s : FastCreator) : List Cluster × List (Nat × Nat) :=
  let c1 := match s.raw with | some c => if c.revBlobs.isEmpty then [] else [c.toCluster] | none => []
  let c2 := match s.comp with | some c => if c.revBlobs.isEmpty then [] else [c.toCluster] | none => []
  (s.revClosed.reverse ++ c1 ++ c2, s.revInfos.reverse)

end Jubako
