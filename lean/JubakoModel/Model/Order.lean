/-
Orders used for sorted entry stores.

Writer (`creator/directory_pack/value.rs`): an array value is compared as
(inline prefix bytes, value id in its store, total length); integers numerically; an entry by its
sort keys in turn, `Greater` when all keys are equal (`FullEntryTrait::compare`).

Reader (`reader/directory_pack/raw_value.rs`): `Array::cmp` walks the inline prefix and then the
value-store bytes against the probe, bytewise; integers numerically.
-/
import JubakoModel.Model.DirWriter

namespace Jubako

/-- writer-side order of two array values of a property with inline prefix `fixed` stored in `vs` -/
def writerArrCmp (vs : VStore) (fixed : Nat) (a b : Bytes) : Ordering :=
  (lexCmp (a.take fixed) (b.take fixed)).then
    ((compare (vs.idOf (a.drop fixed)) (vs.idOf (b.drop fixed))).then (compare a.length b.length))

/-- writer-side order for `IndirectArray` (no prefix, indexed store): the value ids -/
def writerIndirectCmp (vs : VStore) (a b : Bytes) : Ordering := compare (vs.idOf a) (vs.idOf b)

/-- `ArrayIter`: bytes of the inline prefix (first `baseLen`), then the store bytes -/
def arrayIterBytes (base : Bytes) (baseLen : Nat) (ext : Bytes) : Bytes := base.take baseLen ++ ext

/-- `Array::cmp(&self, other)` as coded: walk our bytes against `other` -/
def arrayCmpWalk : Bytes → Bytes → Ordering
  | [], [] => .eq
  | [], _ :: _ => .lt
  | _ :: _, [] => .gt
  | x :: xs, y :: ys => if x.toNat < y.toNat then .lt else if x.toNat > y.toNat then .gt else arrayCmpWalk xs ys

/-- values usable as sort keys -/
inductive Key where
  | u (n : Nat)
  | s (i : Int)
  | a (b : Bytes)
  deriving Repr, DecidableEq

/-- the reader's order on keys -/
def readerKeyCmp : Key → Key → Ordering
  | .u a, .u b => compare a b
  | .s a, .s b => compare a b
  | .a a, .a b => lexCmp a b
  | _, _ => .eq

/-- lexicographic combination over several sort keys (`PropertyCompare::compare_entry`) -/
def readerKeysCmp : List Key → List Key → Ordering
  | [], _ => .eq
  | _, [] => .eq
  | a :: as, b :: bs => (readerKeyCmp a b).then (readerKeysCmp as bs)

/-- `FullEntryTrait::compare`: as `readerKeysCmp`, but `Greater` when every key is equal -/
def writerEntryCmp (keyCmp : Nat → Key → Key → Ordering) : Nat → List Key → List Key → Ordering
  | _, [], _ => .gt
  | _, _, [] => .gt
  | k, a :: as, b :: bs =>
    match keyCmp k a b with
    | .lt => .lt
    | .gt => .gt
    | .eq => writerEntryCmp keyCmp (k + 1) as bs

/-- the code's post-sort check: `windows(2).all(|w| compare(w[0], w[1]).is_le())` -/
def sortedCheck {α} (cmp : α → α → Ordering) : List α → Bool
  | [] => true
  | [_] => true
  | x :: y :: rest => (cmp x y != .gt) && sortedCheck cmp (y :: rest)

end Jubako
