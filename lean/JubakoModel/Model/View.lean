/-
Views on stored content (`reader/byte_region.rs`, `reader/byte_slice.rs`, `reader/byte_stream.rs`,
`bases/types/range.rs`): a view is (source, absolute region[, absolute cursor]).

`ByteRegion` and `ByteSlice` differ only in ownership of the source (Arc vs borrowed Arc); the model
has one `View` for both, so `as_slice` and `From<ByteSlice> for ByteRegion` are the identity.
-/
import JubakoModel.Model.Bytes

namespace Jubako

structure Region where
  b : Nat
  e : Nat
  deriving Repr, DecidableEq

namespace Region
def size (r : Region) : Nat := r.e - r.b
/-- `Region::cut_rel(offset, size)`; the bound `end <= self.end` is a `debug_assert` only, so the
    function itself is total and unchecked.  `CutOk` is the asserted condition. -/
def cutRel (r : Region) (off size : Nat) : Region := ⟨r.b + off, r.b + off + size⟩
def CutOk (r : Region) (off size : Nat) : Prop := r.b + off + size ≤ r.e
instance (r : Region) (off size : Nat) : Decidable (r.CutOk off size) := by
  unfold CutOk; exact inferInstance
end Region

/-- `ByteRegion` / `ByteSlice` -/
structure View where
  src : Bytes
  r : Region
  deriving Repr

/-- the region lies inside the source -/
def View.WF (v : View) : Prop := v.r.b ≤ v.r.e ∧ v.r.e ≤ v.src.length

namespace View
def size (v : View) : Nat := v.r.size
/-- the bytes the view denotes -/
def bytes (v : View) : Bytes := slice v.src v.r.b v.r.size
/-- `cut(offset, size)` -/
def cut (v : View) (off size : Nat) : View := { v with r := v.r.cutRel off size }
/-- `get_slice(offset, size)` = `source.get_slice(region.cut_rel_asize(offset, size))` -/
def getSlice (v : View) (off size : Nat) : Bytes :=
  let r := v.r.cutRel off size
  slice v.src r.b r.size
end View

/-- `ByteStream` -/
structure Stream where
  src : Bytes
  r : Region
  cur : Nat
  deriving Repr

/-- `ByteRegion::stream` / `ByteSlice::stream`: cursor at the beginning of the region. -/
def View.stream (v : View) : Stream := ⟨v.src, v.r, v.r.b⟩

/-- `impl From<ByteRegion> for ByteStream`.  (Pinned code: cursor `Offset::zero()` — defect D1,
    repaired by the `fix:` commit recorded in known_findings.json; the model follows the repaired
    code: cursor at `region.begin()`.) -/
def Stream.ofRegion (v : View) : Stream := ⟨v.src, v.r, v.r.b⟩

namespace Stream
def sizeLeft (s : Stream) : Nat := s.r.e - s.cur
def size (s : Stream) : Nat := s.r.size
def offset (s : Stream) : Nat := s.cur - s.r.b

/-- `Read::read` with a buffer of `n` bytes.  `short` models sources that may return fewer bytes
    than asked (a file behind a `BufReader`): `short = 0` means "as much as possible", otherwise at
    most `short` bytes are returned.  The source itself never returns bytes past its own end. -/
def read (s : Stream) (n short : Nat) : Bytes × Stream :=
  let maxLen := min (min n (s.r.e - s.cur)) (s.src.length - s.cur)
  let got := if short = 0 then maxLen else min short maxLen
  (slice s.src s.cur got, { s with cur := s.cur + got })

/-- a sequence of reads; returns the concatenation of what was read and the final stream -/
def drain (s : Stream) : List (Nat × Nat) → Bytes × Stream
  | [] => ([], s)
  | (n, short) :: rest =>
    let (chunk, s') := s.read n short
    let (more, s'') := drain s' rest
    (chunk ++ more, s'')
end Stream

end Jubako
