/-
L3 — content pack: creator state machine (`creator/content_pack/{creator,cluster,clusterwriter}.rs`),
file layout, and reader (`reader/content_pack/{mod,cluster}.rs`).

The codec is a parameter: the writer receives, per compressed cluster, the compressed payload as a
function of the plain data; the reader receives a decompressor.
-/
import JubakoModel.Model.Open

namespace Jubako

/-- one inserted content, after `detect_compression` has decided (`comp`) -/
structure Item where
  data : Bytes
  comp : Bool
  deriving Repr, DecidableEq

/-- a cluster, open or closed: its id, whether it is a compressed cluster, its blobs in order -/
structure Cluster where
  idx : Nat
  compressed : Bool
  blobs : List Bytes
  deriving Repr, DecidableEq

def Cluster.dataSize (c : Cluster) : Nat := (c.blobs.map List.length).sum
def Cluster.data (c : Cluster) : Bytes := c.blobs.flatten

/-- `ClusterCreator::is_full(size)` -/
def Cluster.isFull (c : Cluster) (size : Nat) : Bool :=
  c.blobs.length == Consts.maxBlobsPerCluster ||
  (c.compressed && !c.blobs.isEmpty && c.dataSize + size > Consts.clusterSize)

structure Creator where
  infos : List (Nat × Nat)      -- per content, insertion order: (cluster id, blob index)
  raw : Option Cluster
  comp : Option Cluster
  next : Nat                    -- next cluster id
  closed : List Cluster         -- handed to the cluster writer, in hand-over order
  deriving Repr

def Creator.init : Creator := ⟨[], none, none, 0, []⟩

/-- `ContentPackCreator::add_content` (after the compression decision).  Returns the new state and
    the content id of the returned address. -/
def Creator.add (s : Creator) (it : Item) : Creator × Nat :=
  let slot := if it.comp then s.comp else s.raw
  -- setup_slot_and_get_to_close
  let (cur, s1) : Cluster × Creator :=
    match slot with
    | some c =>
      if c.isFull it.data.length then
        (⟨s.next, it.comp, []⟩, { s with next := s.next + 1, closed := s.closed ++ [c] })
      else (c, s)
    | none => (⟨s.next, it.comp, []⟩, { s with next := s.next + 1 })
  let info := (cur.idx, cur.blobs.length)
  let cur' := { cur with blobs := cur.blobs ++ [it.data] }
  let s2 := if it.comp then { s1 with comp := some cur' } else { s1 with raw := some cur' }
  ({ s2 with infos := s2.infos ++ [info] }, s.infos.length)

def Creator.addAll (s : Creator) (items : List Item) : Creator := items.foldl (fun s it => (s.add it).1) s

/-- `finalize`: the raw open cluster, then the compressed one, if non-empty -/
def Creator.finalize (s : Creator) : List Cluster × List (Nat × Nat) :=
  let c1 := match s.raw with | some c => if c.blobs.isEmpty then [] else [c] | none => []
  let c2 := match s.comp with | some c => if c.blobs.isEmpty then [] else [c] | none => []
  (s.closed ++ c1 ++ c2, s.infos)

/-- cumulative end offsets of the blobs -/
def endOffsets : List Bytes → Nat → List Nat
  | [], _ => []
  | b :: bs, acc => (acc + b.length) :: endOffsets bs (acc + b.length)

/-- cluster tail (`serialize_cluster_tail`), without CRC.  `rawSize` = stored payload size.
    Offset width: `neededBytes (max dataSize rawSize)` — the repaired code (pinned code used
    `neededBytes dataSize` alone and truncated `rawSize`, defect D6). -/
structure ClusterTail where
  comp : Nat          -- 0 none, 1 lz4, 2 lzma, 3 zstd
  offsetSize : Nat
  blobCount : Nat
  rawSize : Nat
  dataSize : Nat
  offsets : List Nat  -- end offsets of blobs 0 .. count-2
  deriving Repr, DecidableEq

def ClusterTail.encode (t : ClusterTail) : Bytes :=
  [UInt8.ofNat t.comp, UInt8.ofNat t.offsetSize] ++ leBytes t.blobCount 2 ++
  leBytes t.rawSize t.offsetSize ++ leBytes t.dataSize t.offsetSize ++
  (t.offsets.map (fun o => leBytes o t.offsetSize)).flatten

def tailWidth (dataSize rawSize : Nat) : Nat := neededBytes (max dataSize rawSize)

def Cluster.tail (c : Cluster) (compByte rawSize : Nat) : ClusterTail :=
  { comp := compByte, offsetSize := tailWidth c.dataSize rawSize, blobCount := c.blobs.length,
    rawSize := rawSize, dataSize := c.dataSize, offsets := (endOffsets c.blobs 0).dropLast }

/-- `ClusterBuilder::parse` on the tail bytes (CRC already verified) -/
def ClusterTail.decode (bs : Bytes) : Outcome ClusterTail :=
  if bs.length < 4 then .err .format else
  let comp := (bs.getD 0 0).toNat
  if comp > 3 then .err .format else
  let osz := (bs.getD 1 0).toNat
  if osz = 0 ∨ osz > 8 then .err .format else
  let count := leNat (slice bs 2 2)
  do
    let raw ← readUN bs 4 osz
    let data ← readUN bs (4 + osz) osz
    let rec go (i : Nat) (fuel : Nat) (acc : List Nat) : Outcome (List Nat) :=
      match fuel with
      | 0 => .ok acc.reverse
      | fuel + 1 => do
        let v ← readUN bs (4 + 2 * osz + i * osz) osz
        if v ≤ data then go (i + 1) fuel (v :: acc) else .panic "cluster.rs: assert offset valid"
    let offs ← go 0 (count - 1) []
    if comp = 0 ∧ raw ≠ data then .err .format
    else .ok { comp := comp, offsetSize := osz, blobCount := count, rawSize := raw, dataSize := data, offsets := offs }

/-- the codec as seen by the writer model -/
structure Codec where
  /-- compression byte of the pack (0 = no compression) -/
  byte : Nat
  compress : Bytes → Bytes
  /-- decoder outcome: the plain bytes it yields in total, or an error -/
  decompress : Bytes → Option Bytes

def Codec.Sound (c : Codec) : Prop := ∀ d, c.decompress (c.compress d) = some d

/-- bytes of one cluster as written: payload then tail block; also the tail's relative position -/
def Cluster.encode (codec : Codec) (c : Cluster) : Bytes × Nat × Nat :=
  let payload := if c.compressed then codec.compress c.data else c.data
  let t := c.tail (if c.compressed then codec.byte else 0) payload.length
  (payload ++ block t.encode, payload.length, t.encode.length)

/-- lay the clusters out in `arrival` order from `pos`; returns the bytes and, per cluster id, the
    sized offset (tail position, tail size) -/
def layoutClusters (codec : Codec) : List Cluster → Nat → Bytes × List (Nat × (Nat × Nat))
  | [], _ => ([], [])
  | c :: cs, pos =>
    let (bytes, plen, tlen) := c.encode codec
    let (rest, addrs) := layoutClusters codec cs (pos + bytes.length)
    (bytes ++ rest, (c.idx, (pos + plen, tlen)) :: addrs)

def lookupAddr (addrs : List (Nat × (Nat × Nat))) (idx : Nat) : Nat × Nat :=
  match addrs.find? (fun a => a.1 == idx) with
  | some a => a.2
  | none => (0, 0)

structure ContentPackMeta where
  vendor : Bytes
  uuid : Bytes
  freeData : Bytes      -- 24 bytes
  deriving Repr

/-- the whole content pack file for `clusters` laid out in the given (arrival) order -/
def contentPackWrite (H : Bytes → Bytes) (codec : Codec) (m : ContentPackMeta)
    (arrival : List Cluster) (infos : List (Nat × Nat)) : Bytes :=
  let (cbytes, addrs) := layoutClusters codec arrival 128
  let nclusters := arrival.length
  let clusterPtrPos := 128 + cbytes.length
  let ptrTable := block ((List.range nclusters).map (fun i =>
    let a := lookupAddr addrs i; sizedOffsetEncode a.1 a.2)).flatten
  let contentPtrPos := clusterPtrPos + ptrTable.length
  let infoTable := block (infos.map (fun i => contentInfoEncode i.1 i.2)).flatten
  let checkPos := contentPtrPos + infoTable.length
  let ch : ContentHeader := ⟨contentPtrPos, clusterPtrPos, infos.length, nclusters, m.freeData⟩
  let h : PackHeader := ⟨PackKind.content, m.vendor, Consts.versionMajor, Consts.versionMinor, m.uuid, 0,
    checkPos + 37 + 64, checkPos⟩
  framePack H id h (block ch.encode ++ cbytes ++ ptrTable ++ infoTable)

/-! ### Reader -/

/-- split `data` at consecutive end offsets -/
def splitAtOffsets (data : Bytes) : List Nat → Nat → List Bytes
  | [], _ => []
  | e :: es, start => slice data start (e - start) :: splitAtOffsets data es e

/-- a parsed cluster: tail + where its payload sits -/
def clusterAt (f : Bytes) (so : Nat × Nat) : Outcome (ClusterTail × Nat) := do
  let tb ← readBlock f so.1 so.2
  let t ← ClusterTail.decode tb
  if so.1 < t.rawSize then .panic "offset.rs: subtraction underflow"
  else .ok (t, so.1 - t.rawSize)

/-- `Cluster::get_bytes(blob)` given the plain data of the cluster -/
def blobOf (t : ClusterTail) (plain : Bytes) (blob : Nat) : Outcome Bytes :=
  let offs := 0 :: t.offsets ++ [t.dataSize]
  if blob + 1 < offs.length ∧ blob < t.blobCount then
    let b := offs.getD blob 0
    let e := offs.getD (blob + 1) 0
    if b ≤ e then
      -- a region ending beyond the data at hand (file cut short / decoder stopped early, D11
      -- repaired: the reader gets an I/O error, it neither waits nor aborts)
      if e ≤ plain.length then .ok (slice plain b (e - b)) else .err .io
    else .panic "offset.rs: subtraction underflow"
  else .panic "cluster.rs: blob index out of bounds"

/-- `ContentPack::get_content(i)` followed by reading the whole region -/
def contentGet (decompress : Nat → Bytes → Option Bytes) (f : Bytes) (i : Nat) : Outcome (Option Bytes) := do
  let (_, ch) ← contentOpen f
  if i ≥ ch.contentCount then .ok none else
  let infoTable ← readBlock f ch.contentPtrPos (4 * ch.contentCount)
  let (cl, blob) := contentInfoDecode (slice infoTable (4 * i) 4)
  if cl ≥ ch.clusterCount then .err .format else
  let ptrTable ← readBlock f ch.clusterPtrPos (8 * ch.clusterCount)
  let so := sizedOffsetDecode (slice ptrTable (8 * cl) 8)
  let (t, start) ← clusterAt f so
  let payload := slice f start t.rawSize
  if t.comp = 0 then
    let b ← blobOf t payload blob
    .ok (some b)
  else
    -- `decompress` = what the background decoder delivers before it ends or fails (`none`: the
    -- decoder cannot even be set up).  Repaired code (D11): a failing or short decoder marks the
    -- shared buffer as failed and wakes the readers, which get an I/O error for ranges beyond the
    -- published length and the bytes for ranges below it.
    match decompress t.comp payload with
    | none => .err .io
    | some plain => do
      let b ← blobOf t (plain.take t.dataSize) blob
      .ok (some b)

end Jubako
