/-
One open file shared by all readers of a pack file (`bases/io/file.rs`, `FileSource`): a single file
cursor (behind a `BufReader`) protected by a mutex.  Every positioned access of the code has the shape

    lock; seek(offset); read(n); [unlock when the guard goes out of scope]

(`FileSource::read`, `read_exact`, and the small-block arm of `cut`).  Threads interleave at the
granularity of these actions; the lock is the only synchronisation.

`FOp` is one such access; a thread runs a list of them.  The model records what every read returned,
so that "each read returns the bytes at the offset it asked for" can be stated for every schedule.
-/
import JubakoModel.Model.Bytes

namespace Jubako

/-- the actions of one access, as the translator extracts them from the source
    (`Generated.fileSource*Proto`) -/
inductive FAct where
  | lock
  | seek      -- seek to the offset the access was asked for
  | read      -- read at the current cursor
  | unlock
  deriving Repr, DecidableEq

/-- one positioned access: its action list, the offset and the length it was asked for -/
structure FOp where
  acts : List FAct
  off : Nat
  len : Nat
  deriving Repr, DecidableEq

/-- a thread: the actions left of the operation in progress (with its offset / length), the
    operations still to run, what its reads returned so far as (offset asked, length asked, bytes) -/
structure FThread where
  cur : Option (List FAct × Nat × Nat)
  todo : List FOp
  got : List (Nat × Nat × Bytes)
  deriving Repr, DecidableEq

structure FState where
  file : Bytes
  cursor : Nat
  owner : Option Nat            -- the thread holding the mutex
  threads : Nat → FThread

def FState.upd (s : FState) (t : Nat) (th : FThread) : Nat → FThread :=
  fun i => if i = t then th else s.threads i

/-- run the next action of thread `t`, if it is enabled (`none` = blocked or finished) -/
def FState.step (s : FState) (t : Nat) : Option FState :=
  let th := s.threads t
  match th.cur with
  | none =>
    match th.todo with
    | [] => none
    | op :: rest => some { s with threads := s.upd t { th with cur := some (op.acts, op.off, op.len), todo := rest } }
  | some ([], _, _) => some { s with threads := s.upd t { th with cur := none } }
  | some (.lock :: as, off, len) =>
    if s.owner = none then some { s with owner := some t, threads := s.upd t { th with cur := some (as, off, len) } } else none
  | some (.unlock :: as, off, len) =>
    some { s with owner := (if s.owner = some t then none else s.owner), threads := s.upd t { th with cur := some (as, off, len) } }
  | some (.seek :: as, off, len) =>
    some { s with cursor := off, threads := s.upd t { th with cur := some (as, off, len) } }
  | some (.read :: as, off, len) =>
    some { s with cursor := s.cursor + (slice s.file s.cursor len).length,
                  threads := s.upd t { th with cur := some (as, off, len), got := th.got ++ [(off, len, slice s.file s.cursor len)] } }

/-- run a schedule (a list of thread ids); steps of blocked or finished threads are skipped -/
def FState.run (s : FState) : List Nat → FState
  | [] => s
  | t :: rest => match s.step t with
    | some s' => s'.run rest
    | none => s.run rest

/-- the shape of every access in the code: the cursor is set and used under one hold of the lock -/
def atomicAccess : List FAct := [.lock, .seek, .read, .unlock]

/-- threads `0 .. progs.length-1` run the given accesses (offset, length), each with the action list `acts` -/
def FState.init (file : Bytes) (acts : List FAct) (progs : List (List (Nat × Nat))) : FState :=
  ⟨file, 0, none, fun i => ⟨none, (progs.getD i []).map (fun p => ⟨acts, p.1, p.2⟩), []⟩⟩

/-- every read recorded so far returned the bytes at the offset its access asked for -/
def FState.readsExact (s : FState) : Prop :=
  ∀ t, ∀ r ∈ (s.threads t).got, r.2.2 = slice s.file r.1 r.2.1

end Jubako
