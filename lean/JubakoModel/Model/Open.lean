/-
L3 — what `ContentPack::new`, `DirectoryPack::new` and `ManifestPack::new` verify when a pack is
opened (which blocks are CRC-checked before anything is returned), followed by `Pack::check`.
The pack bytes `f` are exactly the reader's region (header at 0).
-/
import JubakoModel.Model.Pack

namespace Jubako

structure ContentHeader where
  contentPtrPos : Nat
  clusterPtrPos : Nat
  contentCount : Nat
  clusterCount : Nat
  freeData : Bytes
  deriving Repr, DecidableEq

def ContentHeader.encode (h : ContentHeader) : Bytes :=
  leBytes h.contentPtrPos 8 ++ leBytes h.clusterPtrPos 8 ++ leBytes h.contentCount 4 ++
  leBytes h.clusterCount 4 ++ zeros 12 ++ h.freeData

def ContentHeader.decode (bs : Bytes) : Outcome ContentHeader :=
  if bs.length < 60 then .err .format
  else .ok { contentPtrPos := leNat (slice bs 0 8), clusterPtrPos := leNat (slice bs 8 8),
             contentCount := leNat (slice bs 16 4), clusterCount := leNat (slice bs 20 4),
             freeData := slice bs 36 24 }

structure DirectoryHeader where
  indexPtrPos : Nat
  entryStorePtrPos : Nat
  valueStorePtrPos : Nat
  indexCount : Nat
  entryStoreCount : Nat
  valueStoreCount : Nat
  freeData : Bytes
  deriving Repr, DecidableEq

def DirectoryHeader.encode (h : DirectoryHeader) : Bytes :=
  leBytes h.indexPtrPos 8 ++ leBytes h.entryStorePtrPos 8 ++ leBytes h.valueStorePtrPos 8 ++
  leBytes h.indexCount 4 ++ leBytes h.entryStoreCount 4 ++ leBytes h.valueStoreCount 1 ++ zeros 3 ++
  h.freeData

def DirectoryHeader.decode (bs : Bytes) : Outcome DirectoryHeader :=
  if bs.length < 60 then .err .format
  else .ok { indexPtrPos := leNat (slice bs 0 8), entryStorePtrPos := leNat (slice bs 8 8),
             valueStorePtrPos := leNat (slice bs 16 8), indexCount := leNat (slice bs 24 4),
             entryStoreCount := leNat (slice bs 28 4), valueStoreCount := leNat (slice bs 32 1),
             freeData := slice bs 36 24 }

/-- header block + kind test, as every `XxxPack::new` starts -/
def openHeader (f : Bytes) (kind : PackKind) : Outcome PackHeader := do
  let hd ← readBlock f 0 60
  let h ← PackHeader.decode hd
  if h.kind = kind then .ok h else .err .format

/-- `ContentPack::new` -/
def contentOpen (f : Bytes) : Outcome (PackHeader × ContentHeader) := do
  let h ← openHeader f .content
  let cb ← readBlock f 64 60
  let ch ← ContentHeader.decode cb
  let _ ← readBlock f ch.contentPtrPos (4 * ch.contentCount)
  let _ ← readBlock f ch.clusterPtrPos (8 * ch.clusterCount)
  .ok (h, ch)

/-- `DirectoryPack::new` -/
def directoryOpen (f : Bytes) : Outcome (PackHeader × DirectoryHeader) := do
  let h ← openHeader f .directory
  let db ← readBlock f 64 60
  let dh ← DirectoryHeader.decode db
  let _ ← readBlock f dh.valueStorePtrPos (8 * dh.valueStoreCount)
  let _ ← readBlock f dh.entryStorePtrPos (8 * dh.entryStoreCount)
  let _ ← readBlock f dh.indexPtrPos (8 * dh.indexCount)
  .ok (h, dh)

/-- tail of a value store: kind 0 = plain (`dataSize:u64`), kind 1 = indexed
    (`count:u64, offsetSize:u8, dataSize:uN, offsets[1..count-1]:uN`) -/
structure ValueStoreTail where
  indexed : Bool
  dataSize : Nat
  offsets : List Nat     -- indexed: count+1 entries, first 0, last dataSize
  deriving Repr, DecidableEq

def readUN (bs : Bytes) (off n : Nat) : Outcome Nat :=
  if off + n ≤ bs.length then .ok (leNat (slice bs off n)) else .err .format

def valueStoreTailDecode (bs : Bytes) : Outcome ValueStoreTail :=
  match bs with
  | [] => .err .format
  | k :: _ =>
    if k = 0 then do
      let ds ← readUN bs 1 8
      .ok ⟨false, ds, []⟩
    else if k = 1 then do
      let count ← readUN bs 1 8
      let osz ← readUN bs 9 1
      if osz = 0 ∨ osz > 8 then .err .format else
      let ds ← readUN bs 10 osz
      let rec go (i : Nat) (fuel : Nat) (acc : List Nat) : Outcome (List Nat) :=
        match fuel with
        | 0 => .ok acc.reverse
        | fuel + 1 => do
          let v ← readUN bs (10 + osz + i * osz) osz
          if v ≤ ds then go (i + 1) fuel (v :: acc) else .panic "value_store.rs: assert offset valid"
      let rest ← go 0 (count - 1) []
      .ok ⟨true, ds, (if count = 0 then [] else 0 :: rest) ++ [ds]⟩
    else .err .format

/-- `parse_data_block::<ValueStore>(sized_offset)`: tail block then the CRC-checked data block
    that ends right before the tail -/
def valueStoreOpen (f : Bytes) (so : Nat × Nat) : Outcome (ValueStoreTail × Bytes) := do
  let tb ← readBlock f so.1 so.2
  let t ← valueStoreTailDecode tb
  if so.1 < t.dataSize + 4 then .panic "offset.rs: subtraction underflow" else
  let d ← readBlock f (so.1 - t.dataSize - 4) t.dataSize
  .ok (t, d)

/-- `ManifestPack::new` -/
def manifestOpen (f : Bytes) : Outcome (PackHeader × ManifestHeader × List PackInfo) := do
  let h ← openHeader f .manifest
  let mb ← readBlock f 64 60
  let m ← ManifestHeader.decode mb
  if h.checkInfoPos < m.packCount * packInfoBlockSize then .panic "offset.rs: subtraction underflow" else
  let base := packInfosOffset h.checkInfoPos m.packCount
  let infos ← (List.range m.packCount).foldlM (fun acc k => do
    let pb ← readBlock f (base + k * packInfoBlockSize) 252
    let info ← PackInfo.decode pb
    pure (acc ++ [info])) []
  if m.valueStore ≠ (0, 0) then
    let _ ← valueStoreOpen f m.valueStore
    pure ()
  if infos.any (fun i => i.kind = .directory) then .ok (h, m, infos)
  else .panic "manifest_pack.rs: directory_pack_info.unwrap()"

/-- open then check, per pack kind — the verdict the per-pack correspondence compares -/
def contentOpenCheck (H : Bytes → Bytes) (f : Bytes) : Outcome Bool := do
  let _ ← contentOpen f
  packCheck H id f

def directoryOpenCheck (H : Bytes → Bytes) (f : Bytes) : Outcome Bool := do
  let _ ← directoryOpen f
  packCheck H id f

def manifestOpenCheck (H : Bytes → Bytes) (f : Bytes) : Outcome Bool := do
  let _ ← manifestOpen f
  manifestCheck H f

end Jubako
