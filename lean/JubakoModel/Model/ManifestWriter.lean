/-
L3 — manifest pack, creator side (`creator/manifest_pack.rs::ManifestPackCreator::finalize`).

Byte layout of the file `finalize` writes (positions relative to the pack origin):

    0                 header block            `block (PackHeader.encode h)`         64 bytes
    64                manifest header block   `block (ManifestHeader.encode mh)`    64 bytes
    128               check-info blocks       one `block (CheckInfo.encode ci)` per pack, in
                                              `add_pack` order (37 bytes for blake3, 5 for none)
    128 + |cb|        value store             `VStore.encode`: data block (the distinct pack free
                                              data, sorted) then tail block; the manifest header
                                              holds the `SizedOffset` of the tail
    po                pack infos              `block (PackInfo.encode i)`, 256 bytes each
    cip = po + n·256  check block             `block (CheckInfo.blake3 (H (manifestMask po n prefix)))`
    cip + 37          mirrored tail           the header block reversed, 64 bytes

`packSize = cip + 37 + 64`, `checkInfoPos = cip`, the manifest header's `packCount` is `n`.

`manifestWrite` is the layout for an arbitrary list of pack infos (what the reader-side theorems
speak about); `manifestCreate` computes the check-info blocks, the value store and the pack infos
from the `PackData`/locator pairs handed to `add_pack`, exactly as `finalize` does.

The pack count is a `u16` in the code (`self.packs.len() as u16`); the model writes `n` itself
(`leBytes n 2` truncates the header field the same way) and is meant for `n < 2^16`.
-/
import JubakoModel.Model.Open
import JubakoModel.Model.DirWriter

namespace Jubako

/-- The manifest pack file for the pack infos `infos`, with `checkBlocks` (the per-pack check-info
    blocks) and the value store `store` between the manifest header and the pack infos. -/
def manifestWrite (H : Bytes → Bytes) (vendor uuid freeData : Bytes) (checkBlocks : Bytes)
    (store : VStore) (infos : List PackInfo) : Bytes :=
  let mid := checkBlocks ++ store.encode.1
  let vs := (128 + checkBlocks.length + store.encode.2.1, store.encode.2.2)
  let n := infos.length
  let po := 128 + mid.length
  let cip := po + n * packInfoBlockSize
  let mh : ManifestHeader := ⟨n, vs, freeData⟩
  let h : PackHeader := ⟨PackKind.manifest, vendor, Consts.versionMajor, Consts.versionMinor, uuid, 0,
    cip + 37 + 64, cip⟩
  framePack H (manifestMask po n) h
    (block mh.encode ++ mid ++ infos.flatMap (fun p => block p.encode))

/-- `creator::PackData` -/
structure PackData where
  uuid : Bytes
  packSize : Nat
  kind : PackKind
  packId : Nat
  freeData : Bytes
  checkInfo : CheckInfo
  deriving Repr, DecidableEq

/-- the check-info blocks written one after the other -/
def checkBlocksOf (packs : List (PackData × Bytes)) : Bytes :=
  packs.flatMap (fun p => block p.1.checkInfo.encode)

/-- the `SizedOffset`s `finalize` records for the check-info blocks laid out from `pos`: the size is
    the number of bytes written, CRC included (`stream_position` difference) -/
def checkInfoSOs : List (PackData × Bytes) → Nat → List (Nat × Nat)
  | [], _ => []
  | p :: ps, pos =>
    (pos, (block p.1.checkInfo.encode).length) ::
      checkInfoSOs ps (pos + (block p.1.checkInfo.encode).length)

/-- the value store of the pack free data: `ValueStore::new_indexed()`, one `add_value` per pack -/
def manifestStore (packs : List (PackData × Bytes)) : VStore :=
  VStore.finalize true (packs.map (fun p => p.1.freeData))

/-- `PackInfo::new(pack_data, 0, free_data_id, check_info_pos, locator)` for every pack -/
def manifestInfos (packs : List (PackData × Bytes)) : List PackInfo :=
  (packs.zip (checkInfoSOs packs 128)).map (fun (p, so) =>
    { uuid := p.1.uuid, packSize := p.1.packSize, checkInfoPos := so, packId := p.1.packId,
      kind := p.1.kind, group := 0, freeDataId := (manifestStore packs).idOf p.1.freeData,
      location := p.2 })

/-- `ManifestPackCreator::finalize` for the packs `(pack_data, locator)` in `add_pack` order -/
def manifestCreate (H : Bytes → Bytes) (vendor uuid freeData : Bytes)
    (packs : List (PackData × Bytes)) : Bytes :=
  manifestWrite H vendor uuid freeData (checkBlocksOf packs) (manifestStore packs)
    (manifestInfos packs)

end Jubako
