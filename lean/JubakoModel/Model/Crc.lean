/-
L1 — CRC-32C as used by Jubako blocks (`bases/block.rs::CUSTOM_ALG`): width 32, polynomial
`Consts.crcPoly` (0x1EDC6F41), init `Consts.crcInit` (0xFFFFFFFF), no reflection, xorout 0, trailer
written big-endian.  Bit-serial, msb-first.
-/
import JubakoModel.Model.Bytes
import JubakoModel.Generated.Consts

namespace Jubako

/-- one bit step of the msb-first CRC register -/
@[inline] def crcStepBit (poly : UInt32) (c : UInt32) : UInt32 :=
  if c >>> 31 = 1 then (c <<< 1) ^^^ poly else c <<< 1

@[inline] def crcStep8 (poly : UInt32) (c : UInt32) : UInt32 :=
  crcStepBit poly (crcStepBit poly (crcStepBit poly (crcStepBit poly
   (crcStepBit poly (crcStepBit poly (crcStepBit poly (crcStepBit poly c)))))))

/-- feed one byte -/
@[inline] def crcByte (poly : UInt32) (c : UInt32) (b : UInt8) : UInt32 :=
  crcStep8 poly (c ^^^ (b.toUInt32 <<< 24))

def crcFeed (poly : UInt32) (c : UInt32) (bs : Bytes) : UInt32 := bs.foldl (crcByte poly) c

def crcPolyU : UInt32 := UInt32.ofNat Consts.crcPoly
def crcInitU : UInt32 := UInt32.ofNat Consts.crcInit

def crc32c (bs : Bytes) : UInt32 := crcFeed crcPolyU crcInitU bs

/-- `Serializer::close` with `BlockCheck::Crc32`: data followed by the big-endian CRC. -/
def block (d : Bytes) : Bytes := d ++ be32 (crc32c d).toNat

/-- `assert_slice_crc` on a full slice (data ‖ crc), for slices of at least 4 bytes. -/
def checkBlock (full : Bytes) : Bool :=
  let n := full.length - 4
  (crc32c (full.take n)).toNat == be32Nat (full.drop n)

end Jubako
