/-
C01 — stored content reads back byte-identical at the address returned on insertion.

Rung 1 (structure level, all insertion sequences, all arrival orders), rung 2 (codecs of the
structures involved) and rung 3, the file-level statement: reading content `i` out of the *bytes*
written by `contentPackWrite` gives back the `i`-th inserted byte string (`c01_file_roundtrip`),
and an address past the count answers "no such content" (`c01_file_past_end`).  The correspondence
check ties `contentPackWrite` / `contentGet` to the Rust writer and reader (`cp.encode`, `cp.decode`).
-/
import JubakoModel.Model.ContentSpec
import JubakoModel.Lemmas.Creator
import JubakoModel.Lemmas.Codec
import JubakoModel.Lemmas.ContentFile
import JubakoModel.Lemmas.FuncsBytes
import JubakoModel.Lemmas.FuncsContent
import JubakoModel.Lemmas.FuncsParse
import JubakoModel.Lemmas.FuncsOpen
import JubakoModel.Lemmas.FuncsCluster

namespace Jubako

/-- the address returned by an insertion is the number of contents inserted before it -/
theorem c01_addr_is_position (s : Creator) (it : Item) : (s.add it).2 = s.infos.length := rfl

/-- … hence the k-th insertion of a sequence returns content id k -/
theorem c01_addr_seq (items : List Item) (it : Item) :
    ((Creator.init.addAll items).add it).2 = items.length := by
  rw [c01_addr_is_position, addAll_infos_length]; simp [Creator.init]

/-- **Every insertion sequence, every arrival order.**  After `finalize`, the pack holds exactly as
    many content infos as insertions, and for whatever order `arrival` in which the compression
    workers and the writer let the clusters land in the file, the i-th address denotes exactly the
    i-th inserted byte string (and the storage class decided for it). -/
theorem c01_roundtrip_structure (items : List Item) (arrival : List Cluster)
    (hp : ((Creator.init.addAll items).finalize).1.Perm arrival) :
    ((Creator.init.addAll items).finalize).2.length = items.length ∧
    ∀ i (_ : i < items.length),
      resolve arrival (((Creator.init.addAll items).finalize).2.getD i (0,0)) =
        some ((items.getD i ⟨[], false⟩).data, (items.getD i ⟨[], false⟩).comp) :=
  ⟨(creator_roundtrip items).1, creator_roundtrip_any_arrival items arrival hp⟩

/-- what the 20/12-bit content-info packing and the cluster tail can represent is respected by
    every insertion sequence: blob indices fit 12 bits, clusters hold 1..4095 blobs, cluster ids are
    0..n-1 each used once -/
theorem c01_indices_fit (items : List Item) :
    let r := (Creator.init.addAll items).finalize
    (r.1.map (·.idx)).Nodup ∧ (∀ c ∈ r.1, c.idx < r.1.length) ∧
    (∀ c ∈ r.1, 1 ≤ c.blobs.length ∧ c.blobs.length ≤ Consts.maxBlobsPerCluster) ∧
    (∀ info ∈ r.2, info.2 < 4096) := creator_ids items

/-- content infos survive their 4-byte encoding for every index the creator can produce
    (cluster id < 2^20 is the format's limit: 2^20 clusters of ≥ 1 byte) -/
theorem c01_content_info_codec (c b : Nat) (hc : c < 2 ^ 20) (hb : b < 2 ^ 12) :
    contentInfoDecode (contentInfoEncode c b) = (c, b) := contentInfo_roundtrip c b hc hb

/-- **File level, every insertion sequence, every arrival order, every sound codec.**  The bytes
    of the content pack written for `items` — clusters laid out in whatever order `arrival` they
    reached the writer — read back, at address `i`, as exactly the `i`-th inserted byte string.
    Hypotheses are the format's own limits (see `contentGet_contentPackWrite` for the field each
    one comes from): compression byte ≤ 3; a non-compressing pack compresses nothing; fixed-size
    vendor/uuid/free-data; < 2^32 contents; ≤ 2^20 clusters; total data < 2^64; file < 2^48 bytes. -/
theorem c01_file_roundtrip (H : Bytes → Bytes) (codec : Codec) (hcodec : codec.Sound)
    (hbyte : codec.byte ≤ 3) (m : ContentPackMeta) (hm : m.WF)
    (items : List Item) (arrival : List Cluster)
    (hp : arrival.Perm ((Creator.init.addAll items).finalize).1)
    (hcomp : codec.byte = 0 → ∀ it ∈ items, it.comp = false)
    (hcount : items.length < 2 ^ 32) (hncl : arrival.length ≤ 2 ^ 20)
    (hdata : totalSize items < 2 ^ 64)
    (hsize : (contentPackWrite H codec m arrival ((Creator.init.addAll items).finalize).2).length < 2 ^ 48)
    (i : Nat) (hi : i < items.length) :
    contentGet codec.decompress'
        (contentPackWrite H codec m arrival ((Creator.init.addAll items).finalize).2) i =
      .ok (some (items[i]).data) :=
  contentGet_contentPackWrite H codec hcodec hbyte m hm items arrival hp hcomp hcount hncl hdata hsize i hi

/-- **An address past the count answers "no such content"** — not an error, not foreign bytes. -/
theorem c01_file_past_end (H : Bytes → Bytes) (codec : Codec) (m : ContentPackMeta) (hm : m.WF)
    (items : List Item) (arrival : List Cluster)
    (hcount : items.length < 2 ^ 32) (hncl : arrival.length ≤ 2 ^ 20)
    (hsize : (contentPackWrite H codec m arrival ((Creator.init.addAll items).finalize).2).length < 2 ^ 48)
    (i : Nat) (hi : items.length ≤ i) :
    contentGet codec.decompress'
        (contentPackWrite H codec m arrival ((Creator.init.addAll items).finalize).2) i = .ok none :=
  contentGet_contentPackWrite_none H codec m hm items arrival hcount hncl hsize i hi

/-- non-vacuity of the file-level theorems: a non-identity codec, a raw cluster with an empty blob
    and a compressed cluster, written in reverse hand-over order (`ContentFileExample`) -/
example := @ContentFileExample.arrival_not_identity

/-- non-vacuity: a 3-item sequence mixing a raw and a compressed cluster, non-identity arrival -/
example :
    let items : List Item := [⟨[1, 2], false⟩, ⟨[3], true⟩, ⟨[], false⟩]
    let r := (Creator.init.addAll items).finalize
    r.1.Perm r.1.reverse ∧ r.1.reverse ≠ r.1 ∧
    resolve r.1.reverse (r.2.getD 1 (0,0)) = some ([3], true) := by
  decide

/-! ### Tie to the source: split rule, width rule and content-info packing are the source's bodies -/

/-- **The creator model's split rule, the tail-width rule and the content-info packing are the bodies
    of `ClusterCreator::is_full`, `needed_bytes` and `ContentInfo::{serialize, parse}` as translated
    from the Rust source on every run** (Generated/Funcs.lean). -/
theorem c01_rules_are_source_rules :
    (∀ (c : Cluster) (size : Nat),
      c.isFull size = Generated.clusterIsFull c.blobs.length c.compressed c.dataSize size) ∧
    (∀ v, Generated.neededBytes v = some (neededBytes v)) ∧
    (∀ cluster blob, contentInfoEncode cluster blob = leBytes (Generated.contentInfoPack cluster blob % 2 ^ 32) 4) ∧
    (∀ bs, contentInfoDecode bs = Generated.contentInfoUnpack (leNat bs)) :=
  ⟨gen_clusterIsFull, gen_neededBytes, gen_contentInfoPack, gen_contentInfoUnpack⟩

/-- non-vacuity: the translated split rule closes a compressed cluster at 4 MiB and any cluster at 4095 blobs -/
example : Generated.clusterIsFull 1 true 4194304 1 = true ∧ Generated.clusterIsFull 1 false 4194304 1 = false ∧
          Generated.clusterIsFull 4095 false 0 0 = true ∧ Generated.clusterIsFull 0 true 0 5000000 = false := by decide

/-- **Reading a content follows the source's order of checks and lookups**: `contentGet` of the reader model is
    `ContentPack::get_content` as translated from `reader/content_pack/mod.rs` on every run, applied to the
    model's three lookups (content-info entry, cluster, blob): an index at or beyond the content count is
    answered `None` before anything else is read; a cluster index at or beyond the cluster count is a format
    error; errors of the lookups are passed on unchanged. -/
theorem c01_get_content_is_source_get_content (decompress : Nat → Bytes → Option Bytes) (f : Bytes) (i : Nat) :
    contentGet decompress f i =
      (contentOpen f).bind fun o =>
        Generated.contentPackGetContent o.2.contentCount o.2.clusterCount (modelInfoAt f o.2) (modelGetCluster f o.2)
          (modelGetBytes decompress f) i :=
  gen_contentGet decompress f i

/-- **The address a content gets and the offsets its cluster records are the source's**:
    `ClusterCreator::add_content` (`creator/content_pack/cluster.rs`) translated on every run, applied to the
    end offsets of a cluster of the creator model, returns (cluster index, number of blobs so far) — the address
    `Creator.add` records — and the end offsets of the cluster with the new blob appended. -/
theorem c01_cluster_step_is_source_step (c : Cluster) (d : Bytes) (h : c.blobs.length < Consts.maxBlobsPerCluster) :
    Generated.clusterAddContent (endOffsets c.blobs 0) c.idx d.length =
      some (endOffsets (c.blobs ++ [d]) 0, (c.idx, c.blobs.length)) :=
  gen_clusterAddContent c d h

/-- **A content pack is opened as the source opens it**: `contentOpen` (the first step of `contentGet`) is
    `ContentPack::new` as translated from `reader/content_pack/mod.rs` on every run: pack header of kind
    "content", content-pack header, then the content-info table (4 bytes per content) and the cluster-pointer
    table (8 bytes per cluster), each read as one checked block. -/
theorem c01_content_open_is_source_open (f : Bytes) :
    contentOpen f =
      Generated.contentPackNew ((readBlock f 0 60).bind fun hd => PackHeader.decode hd)
        ((readBlock f 64 60).bind fun cb => ContentHeader.decode cb)
        (fun w pos count => readBlock f pos (w * count)) :=
  gen_contentOpen f

/-- **The tail of a cluster — where every blob starts and ends — is decoded as the source decodes it**:
    `ClusterBuilder::parse` translated on every run (the offsets loop included: first offset 0 without a read,
    the others read in the header's width and bounded by the data size, the data size last) equals
    `ClusterTail.decode` on every tail whose header passes the model's checks and announces at least one blob. -/
theorem c01_cluster_tail_parser_is_source_parser (bs : Bytes) (c : Nat)
    (h4 : ¬ bs.length < 4) (hcomp : ¬ (bs.getD 0 0).toNat > 3)
    (hosz : ¬ ((bs.getD 1 0).toNat = 0 ∨ (bs.getD 1 0).toNat > 8)) (hcount : leNat (slice bs 2 2) = c + 1) :
    ((Generated.clusterBuilderParse (bs.drop 4) ((bs.getD 0 0).toNat, (bs.getD 1 0).toNat, c + 1)).map'
        (fun r => (r.1.1.1, r.1.1.2.1, r.1.1.2.2, r.1.2))).Same
      ((ClusterTail.decode bs).map' (fun t => (0 :: t.offsets ++ [t.dataSize], t.dataSize, t.comp, t.rawSize))) :=
  gen_clusterBuilderParse bs c h4 hcomp hosz hcount

/-- **… and so is the header in front of it**: `ClusterHeader::parse` (with `CompressionType::parse`) translated on
    every run, followed by the translated rest of `ClusterBuilder::parse`, equals `ClusterTail.decode` on every tail
    announcing at least one blob: compression byte above 3, offset width outside 1..8 and tails shorter than the header
    are format errors in both, with no hypothesis on the header left. -/
theorem c01_cluster_header_and_tail_is_source_parser (bs : Bytes) (c : Nat) (hcount : leNat (slice bs 2 2) = c + 1) :
    (((Generated.clusterHeaderParse bs).bind fun r =>
        Generated.clusterBuilderParse r.2 (srcCompressionToNat r.1.1, r.1.2.1, r.1.2.2)).map'
        (fun r => (r.1.1.1, r.1.1.2.1, r.1.1.2.2, r.1.2))).Same
      ((ClusterTail.decode bs).map' (fun t => (0 :: t.offsets ++ [t.dataSize], t.dataSize, t.comp, t.rawSize))) :=
  gen_clusterTailParse bs c hcount

/-- the hypothesis is satisfiable and the decoding is a value: an uncompressed cluster of two blobs, offsets on
    one byte (raw size 5, data size 5, second blob starts at 2) -/
example : leNat (slice [0, 1, 2, 0, 5, 5, 2] 2 2) = 1 + 1 ∧
    (ClusterTail.decode [0, 1, 2, 0, 5, 5, 2]).map' (fun t => (t.offsets, t.dataSize, t.comp)) = .ok ([2], 5, 0) :=
  ⟨by decide, rfl⟩

end Jubako
