/-
C01 — stored content reads back byte-identical at the address returned on insertion.
(structure level; see DESIGN.md §3.5 for the proof-depth ladder)
-/
import JubakoModel.Model.ContentPack

namespace Jubako

/-- the address returned by the k-th insertion is content id k -/
theorem c01_addr_is_position (s : Creator) (it : Item) : (s.add it).2 = s.infos.length := rfl

end Jubako
