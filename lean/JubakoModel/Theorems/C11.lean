/-
C11 — an unavailable pack is reported as missing, and everything else still reads.

Statements over the model of `Container::new` / `get_pack` / `Container::check`
(Model/Container.lean) and a model file system `FS` (regular files only: a directory at a location
is the same state as no file there).  `Disturbed fs fs' c` (Lemmas/Missing.lean) says that `fs'` is
`fs` with *any subset* of the separately located content packs made unavailable — removed, turned
into a directory, or replaced by a different valid pack — and nothing else is assumed about `fs'`.
Proofs are in Lemmas/Missing.lean (`missing_*`); the statements are repeated here in full.
-/
import JubakoModel.Model.Container
import JubakoModel.Lemmas.Missing
import JubakoModel.Lemmas.FuncsLookup
import JubakoModel.Lemmas.FuncsManifest

namespace Jubako

/-- a pack whose file is absent (or is a directory: not a regular file of the model's file system)
    is not located … -/
theorem c11_absent_file (fs : FS) (u : Bytes) (loc : String) (h : fs.get loc = none) :
    fsLocate fs u loc = .ok none :=
  missing_absent_file fs u loc h

/-- … and neither is a *different valid pack* sitting at the recorded location: identity is the
    uuid, not the location -/
theorem c11_other_pack (fs : FS) (u : Bytes) (loc : String) (f : Bytes) (packs : List PackAt)
    (hf : fs.get loc = some f) (hne : loc ≠ "") (hb : blindOpen f = .ok packs)
    (hn : ∀ p ∈ packs, p.uuid ≠ u) :
    fsLocate fs u loc = .ok none :=
  missing_other_pack fs u loc f packs hf hne hb hn

/-- **Three-way result**: for a pack id listed in the manifest whose pack is neither in the entry
    file nor locatable, `get_pack` answers `missing` with that pack's description — not an error. -/
theorem c11_missing (fs : FS) (c : ContainerView) (packId : Nat) (info : PackInfo)
    (hinfo : (c.infos.filter (fun i => i.kind ≠ .directory)).find? (fun i => i.packId == packId) = some info)
    (hin : packId < ((c.infos.filter (fun i => i.kind ≠ .directory)).map (·.packId)).foldl max 0 + 1)
    (hloc : locate fs c.entryFile c.entryPacks info.uuid (locationString info.location) = .ok none) :
    ∃ i, containerGetPack fs c packId = .ok (.missing i) ∧ i = info :=
  missing_missing fs c packId info hinfo hin hloc


/-- **C11: the container still opens (0).**  A container that opens in `fs` opens to the same view
    in every `fs'` that keeps the entry file and the file holding the *directory* pack (the entry
    file itself when the directory pack is enclosed) — whatever happens to the content packs. -/
theorem c11_still_opens (fs fs' : FS) (entry : String) (c : ContainerView)
    (hopen : containerOpen fs entry = .ok c)
    (hentry : FS.get fs' entry = FS.get fs entry)
    (hdir : ∀ di, (c.infos.filter (fun i => i.kind = .directory)).getLast? = some di →
      c.Encloses di.uuid ∨
      FS.get fs' (locationString di.location) = FS.get fs (locationString di.location)) :
    containerOpen fs' entry = .ok c :=
  missing_still_opens fs fs' entry c hopen hentry hdir

/-- for a container whose directory pack travels in the entry file, every `Disturbed` file system
    still opens it -/
theorem c11_still_opens_disturbed (fs fs' : FS) (entry : String) (c : ContainerView)
    (hopen : containerOpen fs entry = .ok c) (hd : Disturbed fs fs' c)
    (hdir : ∀ di, (c.infos.filter (fun i => i.kind = .directory)).getLast? = some di →
      c.Encloses di.uuid) :
    containerOpen fs' entry = .ok c :=
  missing_still_opens_disturbed fs fs' entry c hopen hd hdir

/-- **C11 frame theorem (1).**  Whatever happens to the rest of the file system — any subset of the
    other packs removed, turned into directories or replaced — `get_pack(packId)` answers exactly
    as before as soon as the entry file is untouched and the pack is enclosed in the entry file or
    its recorded location is untouched.  No assumption on what the answer was: a found pack is found
    with the same bytes, and an error stays the same error. -/
theorem c11_frame (fs fs' : FS) (c : ContainerView) (packId : Nat)
    (hentry : FS.get fs' c.entryFile = FS.get fs c.entryFile)
    (hkeep : ∀ info, c.infoOf packId = some info →
      c.Encloses info.uuid ∨
      FS.get fs' (locationString info.location) = FS.get fs (locationString info.location)) :
    containerGetPack fs' c packId = containerGetPack fs c packId :=
  missing_frame fs fs' c packId hentry hkeep

/-- **C11 missing theorem (2).**  For every listed pack id whose pack is not in the entry file and
    whose recorded location is absent (removed / a directory) or holds only packs with other uuids,
    `get_pack` answers `missing` with exactly that pack's manifest description — whatever the state
    of every other file. -/
theorem c11_missing_of_unavailable (fs' : FS) (c : ContainerView) (packId : Nat) (info : PackInfo)
    (hinfo : c.infoOf packId = some info)
    (hne : ∀ p ∈ c.entryPacks, p.uuid ≠ info.uuid)
    (hun : Unavailable fs' info.uuid (locationString info.location)) :
    containerGetPack fs' c packId = .ok (.missing info) :=
  missing_missing_of_unavailable fs' c packId info hinfo hne hun

/-- … in particular never an error, a panic, a hang, a fault, `unknown` or `found` -/
theorem c11_missing_exclusive (fs' : FS) (c : ContainerView) (packId : Nat) (info : PackInfo)
    (hinfo : c.infoOf packId = some info)
    (hne : ∀ p ∈ c.entryPacks, p.uuid ≠ info.uuid)
    (hun : Unavailable fs' info.uuid (locationString info.location)) :
    (∀ k, containerGetPack fs' c packId ≠ .err k) ∧ (∀ s, containerGetPack fs' c packId ≠ .panic s) ∧
    containerGetPack fs' c packId ≠ .hang ∧ containerGetPack fs' c packId ≠ .fault ∧
    (∀ b, containerGetPack fs' c packId ≠ .ok (.found b)) ∧
    containerGetPack fs' c packId ≠ .ok .unknown :=
  missing_missing_exclusive fs' c packId info hinfo hne hun

/-- **C11 totality (3).**  If `fs'` is `fs` with any subset of the content packs made unavailable,
    every lookup that answered in `fs` answers in `fs'`: with the same answer, or with `missing` and
    the description of the requested pack. -/
theorem c11_total (fs fs' : FS) (c : ContainerView) (hd : Disturbed fs fs' c) (packId : Nat)
    (r : PackLookup) (hok : containerGetPack fs c packId = .ok r) :
    containerGetPack fs' c packId = .ok r ∨
    ∃ info, c.infoOf packId = some info ∧ containerGetPack fs' c packId = .ok (.missing info) :=
  missing_total fs fs' c hd packId r hok

/-- **C11 check (4a).**  If the manifest and the directory pack verify and every *present* content
    pack verifies, the container check passes — regardless of which packs are missing. -/
theorem c11_check_present_ok (H : Bytes → Bytes) (fs' : FS) (c : ContainerView)
    (hm : manifestCheck H c.manifest = .ok true) (hdir : packCheck H id c.dirPack = .ok true)
    (hpacks : ∀ info ∈ c.contentInfos,
      locate fs' c.entryFile c.entryPacks info.uuid (locationString info.location) = .ok none ∨
      ∃ l, locate fs' c.entryFile c.entryPacks info.uuid (locationString info.location) = .ok (some l) ∧
        locatedCheck H fs' l = .ok true) :
    containerCheck H fs' c = .ok true :=
  missing_check_present_ok H fs' c hm hdir hpacks

/-- **C11 check (4b).**  If some present (located) content pack does not verify, the container
    check does not answer `true` — whatever the state of the other packs: an earlier missing pack
    does not stop the walk before a later damaged one. -/
theorem c11_check_damaged (H : Bytes → Bytes) (fs' : FS) (c : ContainerView) (info : PackInfo)
    (l : Located) (hmem : info ∈ c.contentInfos)
    (hloc : locate fs' c.entryFile c.entryPacks info.uuid (locationString info.location) = .ok (some l))
    (hbad : locatedCheck H fs' l ≠ .ok true) :
    containerCheck H fs' c ≠ .ok true :=
  missing_check_damaged H fs' c info l hmem hloc hbad

/-- **C11 check, exact verdict.**  When the manifest and directory checks pass and every content
    pack is either missing or present with a verdict, the container check answers the conjunction
    of the verdicts of the present packs: the missing ones count for nothing, the present ones all
    count. -/
theorem c11_check_verdict (H : Bytes → Bytes) (fs' : FS) (c : ContainerView) (v : PackInfo → Bool)
    (hm : manifestCheck H c.manifest = .ok true) (hdir : packCheck H id c.dirPack = .ok true)
    (hpacks : ∀ info ∈ c.contentInfos,
      (locate fs' c.entryFile c.entryPacks info.uuid (locationString info.location) = .ok none ∧
        v info = true) ∨
      ∃ l, locate fs' c.entryFile c.entryPacks info.uuid (locationString info.location) = .ok (some l) ∧
        locatedCheck H fs' l = .ok (v info)) :
    containerCheck H fs' c = .ok (c.contentInfos.all v) :=
  missing_check_verdict H fs' c v hm hdir hpacks

/-- **C11 check under disturbance.**  A container whose check passes keeps passing when any subset
    of its content packs is made unavailable … -/
theorem c11_check_disturbed_ok (H : Bytes → Bytes) (fs fs' : FS) (c : ContainerView)
    (hd : Disturbed fs fs' c) (h : containerCheck H fs c = .ok true) :
    containerCheck H fs' c = .ok true :=
  missing_check_disturbed_ok H fs fs' c hd h

/-- … and a content pack that did not verify in `fs` and whose source file is untouched in `fs'`
    still makes the check fail in `fs'`, whatever happened to the other packs (no relation between
    `fs` and `fs'` is needed elsewhere). -/
theorem c11_check_disturbed_damaged (H : Bytes → Bytes) (fs fs' : FS) (c : ContainerView)
    (info : PackInfo) (hmem : info ∈ c.contentInfos)
    (hsrc : (c.Encloses info.uuid ∧ FS.get fs' c.entryFile = FS.get fs c.entryFile) ∨
         (¬ c.Encloses info.uuid ∧
          FS.get fs' (locationString info.location) = FS.get fs (locationString info.location)))
    (hbad : stepCheck H fs c info ≠ .ok true) :
    containerCheck H fs' c ≠ .ok true :=
  missing_check_disturbed_damaged H fs fs' c info hmem hsrc hbad


/-- non-vacuity: a concrete model-level container (manifest with four pack infos, directory pack and
    content pack 1 in the entry file, content packs 2 and 3 in their own files) opened by the model,
    with pack 2 removed / replaced by another valid pack, and with pack 2 removed *and* the later pack
    3 damaged: every hypothesis above is discharged there (`MissingExample`) -/
example : Disturbed MissingExample.fs MissingExample.fsRemoved MissingExample.c := MissingExample.disturbed_removed
example : Disturbed MissingExample.fs MissingExample.fsReplaced MissingExample.c := MissingExample.disturbed_replaced

/-! ### Tie to the source: the manifest's lookup of a pack by id -/

/-- the lookup the reader model uses to tell "pack missing (with its description)" from "no such pack" is
    the body of `ManifestPack::get_content_pack_info` translated on every run: the first pack info, in
    manifest order, carrying the id — whatever was looked up before -/
theorem c11_manifest_lookup_is_source_lookup (infos : List PackInfo) (packId : Nat) :
    (infos.find? (fun i => i.packId == packId)).map (·.packId) =
      Generated.manifestPackInfoById (infos.map (·.packId)) packId :=
  gen_manifestLookup infos packId

/-! ### Tie to the source: the check covers the packs that are present -/

/-- **`Container::check` as translated from `reader/jubako.rs` on every run**: it terminates for every
    container and answers `true` exactly when the manifest verifies, the directory pack verifies and every
    listed content pack *that can be located* verifies — a pack that cannot be located is skipped and the
    packs listed after it are still checked; and the reader model's `containerCheck` (the function run
    against the implementation on every altered container), whenever every part answers, is that function
    of the parts' verdicts. -/
theorem c11_container_check_is_source_check :
    (∀ (m d : Bool) (packs : List (Option Bool)),
      Generated.containerCheck m d packs = some (m && d && locatedAllOk packs)) ∧
    (∀ (H : Bytes → Bytes) (fs : FS) (c : ContainerView) (m d : Bool) (vs : List (Option Bool)),
      manifestCheck H c.manifest = .ok m → packCheck H id c.dirPack = .ok d →
      (c.infos.filter (fun i => i.kind ≠ .directory)).map (packCheckStep H fs c) = vs.map Outcome.ok →
      some (containerCheck H fs c) = Outcome.ok <$> Generated.containerCheck m d vs) :=
  ⟨gen_containerCheck, containerCheck_is_source_check⟩

/-- non-vacuity: an unlocated pack listed before a pack that does not verify — the verdict is `false` -/
example : Generated.containerCheck true true [none, some false, some true] = some false ∧
          Generated.containerCheck true true [none, some true] = some true := by decide

/-- **The offsets of the pack infos are the source's**: `PackOffsetsIter::new` / `next`
    (`reader/manifest_pack.rs`, used by `ManifestPack::new` and by `tools::set_location`), translated on every
    run and run until exhaustion, enumerate exactly `packInfosOffset checkInfoPos count + k * 256`, `k < count` —
    the offsets the model reads the pack infos at and rewrites a location at. -/
theorem c11_pack_info_offsets_are_source_offsets (cip count : Nat) :
    drainOffsets packInfoBlockSize (count + 1) (Generated.packOffsetsNew packInfoBlockSize cip count).1
        (Generated.packOffsetsNew packInfoBlockSize cip count).2 =
      (List.range count).map (fun k => packInfosOffset cip count + k * packInfoBlockSize) :=
  gen_packOffsets cip count

/-- **"Missing" is decided where the source decides it**: past the bound on pack ids, `containerGetPack` is
    `Container::_get_pack` as translated from `reader/jubako.rs` on every run, applied to the model's manifest
    lookup and locator chain: not listed in the manifest ⇒ unknown; listed but not found by any locator ⇒ missing,
    with the pack info (uuid, recorded location) of the manifest; found ⇒ handed over. -/
theorem c11_get_pack_is_source_get_pack (fs : FS) (c : ContainerView) (packId : Nat) :
    containerGetPack fs c packId =
      (if packId ≥ (((c.infos.filter (fun i => i.kind ≠ .directory)).map (·.packId)).foldl max 0) + 1 then .ok .unknown
       else
        (Generated.containerGetPackInner
          (fun id => (c.infos.filter (fun i => i.kind ≠ .directory)).find? (fun i => i.packId == id))
          (fun info => (locate fs c.entryFile c.entryPacks info.uuid (locationString info.location)).map'
            (fun o => o.map (bytesOfLocated fs)))
          (fun b => Outcome.ok b) packId).map' lookupOfSrc) :=
  gen_containerGetPack fs c packId

/-- **The manifest is opened as the source opens it**: `manifestOpen` of the model agrees with `ManifestPack::new`
    as translated from `reader/manifest_pack.rs` on every run (pack infos at the offsets of the translated
    iterator, directory pack info apart, others in order, value store, the `unwrap()` of the directory info). -/
theorem c11_manifest_open_is_source_open (f : Bytes)
    (hU : ∀ hd h mb m, readBlock f 0 60 = .ok hd → PackHeader.decode hd = .ok h → readBlock f 64 60 = .ok mb →
      ManifestHeader.decode mb = .ok m → m.packCount * packInfoBlockSize ≤ h.checkInfoPos) :
    ((Generated.manifestPackNew
        ((readBlock f 0 60).bind fun hd => PackHeader.decode hd)
        ((readBlock f 64 60).bind fun mb => ManifestHeader.decode mb)
        (fun h m => (List.range m.packCount).map (fun k => packInfosOffset h.checkInfoPos m.packCount + k * packInfoBlockSize))
        (fun off => (readBlock f off 252).bind fun pb => PackInfo.decode pb)
        (fun so => valueStoreOpen f so)).map' (fun r => (r.1, r.2.1, r.2.2.1, r.2.2.2.1))).Same
      ((manifestOpen f).bind fun r =>
        match (r.2.2.filter isDir).getLast? with
        | some d => .ok (r.1, r.2.1, d, r.2.2.filter (fun i => !isDir i))
        | none => .panic "") :=
  gen_manifestOpen f hU

end Jubako
