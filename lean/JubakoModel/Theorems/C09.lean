/-
C09 — creation is all-or-nothing at the destination path.
(the discipline theorems are added from Lemmas/AtomicFs.lean)
-/
import JubakoModel.Model.AtomicFs
import JubakoModel.Lemmas.AtomicFs
import JubakoModel.Model.BasicCreatorFs
import JubakoModel.Lemmas.BasicCreatorFs
import JubakoModel.Lemmas.FuncsFs

namespace Jubako

/-- a crash point is a prefix: running a prefix then the rest is running the whole trace -/
theorem c09_crash_is_prefix (fs : FSt) (t : List FsOp) (k : Nat) :
    (fs.run (t.take k)).run (t.drop k) = fs.run t := by
  simp only [FSt.run, ← List.foldl_append, List.take_append_drop]


/-- **All-or-nothing at every final path**, for every disciplined trace, every crash point `k`
    (the process dies after the k-th file-system operation) and every initial file system: a
    non-temporary path holds what it held before the run, or the *complete* content of the
    temporary that was renamed onto it — every write that temporary receives in the whole run, never
    a partial file. -/
theorem c09_all_or_nothing {isTemp : FPath → Bool} {entry : FPath} {old : FSt} {t : List FsOp}
    (hd : Discipline isTemp entry (old.files.map (·.1)) t = true) (k : Nat) (d : FPath)
    (hdt : isTemp d = false) :
    (old.run (t.take k)).get d = old.get d ∨
      ∃ src, (src, d) ∈ renamesOf (t.take k) ∧ (old.run (t.take k)).get d = some (allWritesTo src t) :=
  atomic_final hd k d hdt

/-- **The entry-point never appears before the pack files it refers to are complete**: at any
    crash point at which the entry-point has already been renamed, every rename of the whole run
    has already happened and every final path holds its complete content. -/
theorem c09_entry_point_last {isTemp : FPath → Bool} {entry : FPath} {old : FSt} {t : List FsOp}
    (hd : Discipline isTemp entry (old.files.map (·.1)) t = true) (k : Nat) (src : FPath)
    (h : (src, entry) ∈ renamesOf (t.take k)) :
    ∀ s' d', (s', d') ∈ renamesOf t →
      (s', d') ∈ renamesOf (t.take k) ∧ (old.run (t.take k)).get d' = some (allWritesTo s' t) :=
  entry_last hd k src h

/-- a temporary receives all its writes before it is renamed -/
theorem c09_writes_before_rename {isTemp : FPath → Bool} {entry : FPath} {old : FSt} {t : List FsOp}
    (hd : Discipline isTemp entry (old.files.map (·.1)) t = true) :
    ∀ (i j : Nat) (src dst : FPath) (tok : Nat),
      t[i]? = some (FsOp.rename src dst) → t[j]? = some (FsOp.write src tok) → j < i :=
  writes_before_rename hd

/-- **Error return**: a run that ends with every temporary unlinked (what `NamedTempFile::drop`
    does on the error path) leaves no temporary file of this run behind. -/
theorem c09_error_return_clean {isTemp : FPath → Bool} {entry : FPath} {old : FSt} {t : List FsOp}
    (hd : Discipline isTemp entry (old.files.map (·.1)) t = true) (dsf : DiscSt)
    (hrun : discRun isTemp entry (old.files.map (·.1)) ⟨[], [], [], false⟩ t = some dsf)
    (hfin : dsf.live = []) :
    ∀ p, isTemp p = true → p ∈ dsf.created → (old.run t).get p = none :=
  no_stray_temps hd dsf hrun hfin

/-- every prefix of a disciplined trace is disciplined (a crash never turns a good run into a bad
    one) -/
theorem c09_prefix_disciplined (isTemp : FPath → Bool) (entry : FPath) (oldPaths : List FPath)
    (t : List FsOp) (k : Nat) (h : Discipline isTemp entry oldPaths t = true) :
    Discipline isTemp entry oldPaths (t.take k) = true := discipline_take isTemp entry oldPaths t k h

/-! ### The runs of `BasicCreator` (Model/BasicCreatorFs.lean)

`creationTrace m n w` is the file-system trace of a whole creation through the high-level creator
in packaging `m`, with temporaries and final names `n` and **any** number of writes `w` at each
stage.  The correspondence check records the real trace of every run with `strace` and requires it
to be an instance of `creationTrace` (`isCreationInstance`: same creates / renames in the same
order up to the names of the temporaries, every write going to the file being built). -/

/-- **Every creation run is disciplined**, in every packaging, for every amount of data written at
    every stage and every choice of fresh temporary names -/
theorem c09_modes {isTemp : FPath → Bool} {oldPaths : List FPath} (m : ConcatMode) (n : FinNames)
    (w : FinWrites) (hn : NamesOk isTemp oldPaths n) :
    Discipline isTemp n.entry oldPaths (creationTrace m n w) = true :=
  creationTrace_disciplined m n w hn

/-- **Process death at any point of a creation run** (after any `k` file-system operations): the
    destination holds what it held before, or the complete new file; and if it holds the new file,
    every other file of the run (`.jbkc`, `.jbkd`) has been renamed and is complete. -/
theorem c09_creation_crash {isTemp : FPath → Bool} {old : FSt} (m : ConcatMode) (n : FinNames)
    (w : FinWrites) (hn : NamesOk isTemp (old.files.map (·.1)) n) (k : Nat) :
    let t := creationTrace m n w
    let fs := old.run (t.take k)
    (fs.get n.entry = old.get n.entry ∨
      ∃ src, (src, n.entry) ∈ renamesOf (t.take k) ∧ fs.get n.entry = some (allWritesTo src t)) ∧
    (∀ src, (src, n.entry) ∈ renamesOf (t.take k) →
      ∀ s' d', (s', d') ∈ renamesOf t → fs.get d' = some (allWritesTo s' t)) := by
  have hd := creationTrace_disciplined m n w hn
  exact ⟨atomic_final hd k n.entry hn.e, fun src h s' d' h' => (entry_last hd k src h s' d' h').2⟩

/-- **I/O error at any point of a creation run** (the first `k` operations succeeded, then
    `finalize` returns the error and the live temporaries are dropped): the destination holds what
    it held before or the complete new file, and no temporary of the run remains. -/
theorem c09_creation_error_return {isTemp : FPath → Bool} {old : FSt} (m : ConcatMode) (n : FinNames)
    (w : FinWrites) (hn : NamesOk isTemp (old.files.map (·.1)) n) (k : Nat) :
    let t := creationTrace m n w
    let fs := old.run (errorTrace t k)
    (fs.get n.entry = old.get n.entry ∨
      ∃ src, (src, n.entry) ∈ renamesOf (t.take k) ∧ fs.get n.entry = some (allWritesTo src t)) ∧
    (∀ p, isTemp p = true → p ∈ createdOf (t.take k) → fs.get p = none) := by
  have hd := creationTrace_disciplined m n w hn
  intro t fs
  constructor
  · have h1 : fs.get n.entry = (old.run (t.take k)).get n.entry := errorTrace_final old t k n.entry hn.e hd
    rw [h1]
    exact atomic_final hd k n.entry hn.e
  · intro p hp hc
    obtain ⟨dsf, hrun, hlive⟩ := errorTrace_disciplined t k hd
    have hd' : Discipline isTemp n.entry (old.files.map (·.1)) (errorTrace t k) = true := by
      rw [discipline_iff]; exact ⟨dsf, hrun⟩
    apply no_stray_temps hd' dsf hrun hlive p hp
    apply (created_of_create dsf hrun p ?_).1
    simp only [createdOf, List.mem_filterMap] at hc
    obtain ⟨op, hop, hop2⟩ := hc
    cases op <;> simp at hop2
    subst hop2
    exact List.mem_append_left _ hop

/-- non-vacuity: the names the harness uses satisfy the hypotheses; the three traces are distinct -/
example : NamesOk exIsTemp [] (FinNames.ofEntry "out.jbk" ".tmpA" ".tmpB" ".tmpC") := by
  constructor <;> simp [FinNames.ofEntry, exIsTemp, withExtension]
example : (creationTrace .noConcat (FinNames.ofEntry "out.jbk" ".tmpA" ".tmpB" ".tmpC") ⟨[1, 2], [3], [], [4], [5], []⟩).length = 11 := by
  decide

/-- non-vacuity: the creator's shape of run is disciplined; entry-point first is rejected -/
example : Discipline exIsTemp "out.jbk" [] exTrace = true := exTrace_disciplined
example : Discipline exIsTemp "out.jbk" [] exTraceBad = false := exTraceBad_rejected

/-! ### Tie of the modelled creation runs to the source -/

/-- **The order in which the modelled creation runs publish their files is the order of the publishing
    statements of `BasicCreator::finalize` as extracted from `creator/basic_creator.rs` on every run**: the
    extracted sequence of `AtomicOutFile::new` / `close_file` statements is `finalizePublications` (and the
    function contains no other file-system operation), and for every packaging the renames of
    `creationTrace` are, in order, the targets of those statements the packaging executes — the entry point
    last (`c09_modes`, `c09_creation_crash`, `c09_creation_error_return` are about these traces). -/
theorem c09_publication_order_is_source_order :
    Generated.basicCreatorPublications = finalizePublications ∧
    ∀ (m : ConcatMode) (n : FinNames) (w : FinWrites),
      renameTargets (creationTrace m n w) =
        (finalizePublications.filter (PubStmt.runsIn m)).filterMap (PubStmt.target n) :=
  ⟨gen_basicCreatorPublications, creationTrace_renames⟩

end Jubako
