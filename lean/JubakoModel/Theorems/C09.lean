/-
C09 — creation is all-or-nothing at the destination path.
(the discipline theorems are added from Lemmas/AtomicFs.lean)
-/
import JubakoModel.Model.AtomicFs
import JubakoModel.Lemmas.AtomicFs

namespace Jubako

/-- a crash point is a prefix: running a prefix then the rest is running the whole trace -/
theorem c09_crash_is_prefix (fs : FSt) (t : List FsOp) (k : Nat) :
    (fs.run (t.take k)).run (t.drop k) = fs.run t := by
  simp only [FSt.run, ← List.foldl_append, List.take_append_drop]


/-- **All-or-nothing at every final path**, for every disciplined trace, every crash point `k`
    (the process dies after the k-th file-system operation) and every initial file system: a
    non-temporary path holds what it held before the run, or the *complete* content of the
    temporary that was renamed onto it — every write that temporary receives in the whole run, never
    a partial file. -/
theorem c09_all_or_nothing {isTemp : FPath → Bool} {entry : FPath} {old : FSt} {t : List FsOp}
    (hd : Discipline isTemp entry (old.files.map (·.1)) t = true) (k : Nat) (d : FPath)
    (hdt : isTemp d = false) :
    (old.run (t.take k)).get d = old.get d ∨
      ∃ src, (src, d) ∈ renamesOf (t.take k) ∧ (old.run (t.take k)).get d = some (allWritesTo src t) :=
  atomic_final hd k d hdt

/-- **The entry-point never appears before the pack files it refers to are complete**: at any
    crash point at which the entry-point has already been renamed, every rename of the whole run
    has already happened and every final path holds its complete content. -/
theorem c09_entry_point_last {isTemp : FPath → Bool} {entry : FPath} {old : FSt} {t : List FsOp}
    (hd : Discipline isTemp entry (old.files.map (·.1)) t = true) (k : Nat) (src : FPath)
    (h : (src, entry) ∈ renamesOf (t.take k)) :
    ∀ s' d', (s', d') ∈ renamesOf t →
      (s', d') ∈ renamesOf (t.take k) ∧ (old.run (t.take k)).get d' = some (allWritesTo s' t) :=
  entry_last hd k src h

/-- a temporary receives all its writes before it is renamed -/
theorem c09_writes_before_rename {isTemp : FPath → Bool} {entry : FPath} {old : FSt} {t : List FsOp}
    (hd : Discipline isTemp entry (old.files.map (·.1)) t = true) :
    ∀ (i j : Nat) (src dst : FPath) (tok : Nat),
      t[i]? = some (FsOp.rename src dst) → t[j]? = some (FsOp.write src tok) → j < i :=
  writes_before_rename hd

/-- **Error return**: a run that ends with every temporary unlinked (what `NamedTempFile::drop`
    does on the error path) leaves no temporary file of this run behind. -/
theorem c09_error_return_clean {isTemp : FPath → Bool} {entry : FPath} {old : FSt} {t : List FsOp}
    (hd : Discipline isTemp entry (old.files.map (·.1)) t = true) (dsf : DiscSt)
    (hrun : discRun isTemp entry (old.files.map (·.1)) ⟨[], [], [], false⟩ t = some dsf)
    (hfin : dsf.live = []) :
    ∀ p, isTemp p = true → p ∈ dsf.created → (old.run t).get p = none :=
  no_stray_temps hd dsf hrun hfin

/-- every prefix of a disciplined trace is disciplined (a crash never turns a good run into a bad
    one) -/
theorem c09_prefix_disciplined (isTemp : FPath → Bool) (entry : FPath) (oldPaths : List FPath)
    (t : List FsOp) (k : Nat) (h : Discipline isTemp entry oldPaths t = true) :
    Discipline isTemp entry oldPaths (t.take k) = true := discipline_take isTemp entry oldPaths t k h

/-- non-vacuity: the creator's shape of run is disciplined; entry-point first is rejected -/
example : Discipline exIsTemp "out.jbk" [] exTrace = true := exTrace_disciplined
example : Discipline exIsTemp "out.jbk" [] exTraceBad = false := exTraceBad_rejected

end Jubako
