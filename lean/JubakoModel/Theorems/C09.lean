/-
C09 — creation is all-or-nothing at the destination path.
(the discipline theorems are added from Lemmas/AtomicFs.lean)
-/
import JubakoModel.Model.AtomicFs

namespace Jubako

/-- a crash point is a prefix: running a prefix then the rest is running the whole trace -/
theorem c09_crash_is_prefix (fs : FSt) (t : List FsOp) (k : Nat) :
    (fs.run (t.take k)).run (t.drop k) = fs.run t := by
  simp only [FSt.run, ← List.foldl_append, List.take_append_drop]

end Jubako
