/-
C02 — entries read back with exactly the property values they were written with.
-/
import JubakoModel.Model.DirWriter

namespace Jubako

/-- `RangeTrait::get_entry(id)` on a window `(offset, count)` of a store holding `n` entries:
    the absolute entry index handed to the builder, or `none` -/
def windowGet (offset count n k : Nat) : Option Nat :=
  if k < count then (if offset + k < n then some (offset + k) else none) else none

/-- **Each index exposes exactly its declared window, in order, and nothing beyond it.** -/
theorem c02_window (offset count n : Nat) (hin : offset + count ≤ n) :
    (∀ k, k < count → windowGet offset count n k = some (offset + k)) ∧
    (∀ k, count ≤ k → windowGet offset count n k = none) := by
  constructor
  · intro k hk; simp only [windowGet, hk, if_true]; rw [if_pos (by omega)]
  · intro k hk; simp only [windowGet]; rw [if_neg (by omega)]

end Jubako
