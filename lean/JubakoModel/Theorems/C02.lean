/-
C02 — entries read back with exactly the property values they were written with.
-/
import JubakoModel.Model.DirWriter
import JubakoModel.Lemmas.DirCodec
import JubakoModel.Lemmas.DirFile
import JubakoModel.Lemmas.FuncsBytes
import JubakoModel.Lemmas.FuncsDir
import JubakoModel.Lemmas.FuncsSearch
import JubakoModel.Lemmas.FuncsStats
import JubakoModel.Lemmas.FuncsEntry
import JubakoModel.Lemmas.FuncsParse
import JubakoModel.Lemmas.FuncsOpen
import JubakoModel.Lemmas.FuncsCluster

namespace Jubako

/-- `RangeTrait::get_entry(id)` on a window `(offset, count)` of a store holding `n` entries:
    the absolute entry index handed to the builder, or `none` -/
def windowGet (offset count n k : Nat) : Option Nat :=
  if k < count then (if offset + k < n then some (offset + k) else none) else none

/-- **Each index exposes exactly its declared window, in order, and nothing beyond it.** -/
theorem c02_window (offset count n : Nat) (hin : offset + count ≤ n) :
    (∀ k, k < count → windowGet offset count n k = some (offset + k)) ∧
    (∀ k, count ≤ k → windowGet offset count n k = none) := by
  constructor
  · intro k hk; simp only [windowGet, hk, if_true]; rw [if_pos (by omega)]
  · intro k hk; simp only [windowGet]; rw [if_neg (by omega)]

end Jubako

namespace Jubako

/-! ### Integer columns: the width rule never alters a value, and a too-narrow width would -/

/-- every value of an unsigned column survives the column's width `needed_bytes(max)` -/
theorem c02_uint_roundtrip (col : List Nat) (v : Nat) (h : v ∈ col) :
    leNat (leBytes v (neededBytes (listMax col))) = v := uint_roundtrip col v h

/-- … whereas a width that does not fit alters it (what the silent truncation of the writer would
    do: `Representable` is exactly "fits") -/
theorem c02_uint_narrow_alters (v n : Nat) (h : 256 ^ n ≤ v) : leNat (leBytes v n) ≠ v :=
  uint_narrow_alters v n h

/-- two's complement on `n` bytes round-trips exactly the values that fit `n` bytes (sign bit
    included) — `c02_int_width` of the design -/
theorem c02_int_width (v : Int) (n : Nat) (hn : 1 ≤ n) (hn8 : n ≤ 8)
    (hr : -(2 ^ 63 : Int) ≤ v ∧ v < 2 ^ 63) :
    fitsSigned v n ↔ signExtend (leNat (leBytesInt v n)) n = v := by
  constructor
  · exact sint_roundtrip v n hn hn8
  · intro h; apply Classical.byContradiction; intro hf
    exact sint_narrow_alters v n hn hn8 hr hf h

/-- every value of a signed column — negative ones and those needing the sign bit included — fits
    the width the repaired creator derives from `signed_size_key`, and that width is minimal -/
theorem c02_sint_column (col : List Int) (hr : ∀ x ∈ col, -(2 ^ 63 : Int) ≤ x ∧ x < 2 ^ 63)
    (v : Int) (h : v ∈ col) :
    signExtend (leNat (leBytesInt v (neededBytes (listMax (col.map signedSizeKey)))))
      (neededBytes (listMax (col.map signedSizeKey))) = v := by
  have hf := sint_column_fits col hr v h
  have h1 := (neededBytes_spec (listMax (col.map signedSizeKey))).2
  have h8 : neededBytes (listMax (col.map signedSizeKey)) ≤ 8 := by
    apply neededBytes_le_8
    have : ∀ x ∈ col.map signedSizeKey, x < 2 ^ 63 := by
      intro x hx
      obtain ⟨y, _, rfl⟩ := List.mem_map.mp hx
      exact signedSizeKey_lt y
    have hmax : listMax (col.map signedSizeKey) < 2 ^ 63 := by
      unfold listMax
      have gen : ∀ (l : List Nat) (acc : Nat), acc < 2 ^ 63 → (∀ x ∈ l, x < 2 ^ 63) → l.foldl max acc < 2 ^ 63 := by
        intro l
        induction l with
        | nil => intro acc h _; exact h
        | cons x xs ih =>
          intro acc ha hl
          simp only [List.foldl_cons]
          apply ih
          · have := hl x List.mem_cons_self; omega
          · intro y hy; exact hl y (List.mem_cons_of_mem _ hy)
      exact gen _ 0 (by decide) this
    omega
  exact sint_roundtrip v _ h1 h8 hf

theorem c02_sint_width_minimal (v : Int) (hr : -(2 ^ 63 : Int) ≤ v ∧ v < 2 ^ 63) (n : Nat) (hn : 1 ≤ n)
    (hf : fitsSigned v n) : neededBytes (signedSizeKey v) ≤ n := signedSizeKey_min v hr n hn hf

/-! ### Layout header and variant padding -/

/-- every property header the creator writes is parsed back to the same property (kind, sizes,
    default value, name), whatever follows it in the tail -/
theorem c02_property_header_roundtrip (p : RawProp) (rest : Bytes) (hw : p.Writable) :
    RawProp.decode (p.encode ++ rest) = .ok (p, rest) := rawProp_roundtrip p rest hw

/-- variants are padded to exactly the size of the largest one, with padding chunks of 1..16 bytes -/
theorem c02_variant_padding (n : Nat) :
    propsSize (paddingProps n) = n ∧ ∀ p ∈ paddingProps n, p.kind = .padding ∧ 1 ≤ p.size ∧ p.size ≤ 16 :=
  ⟨paddingProps_size n, paddingProps_kind n⟩

/-- non-vacuity: the signed values the pinned code altered are covered -/
example : fitsSigned 128 2 ∧ ¬ fitsSigned 128 1 ∧ fitsSigned (-300) 2 ∧ neededBytes (signedSizeKey 128) = 2 ∧
    neededBytes (signedSizeKey (-300)) = 2 ∧ neededBytes (signedSizeKey (-128)) = 1 := by
  refine ⟨by unfold fitsSigned; omega, by unfold fitsSigned; omega, by unfold fitsSigned; omega, by decide, by decide, by decide⟩

/-! ### File level

`DirIn` is the writer's input (value-store kinds and contents, schema, entries in stored order,
indexes); `dirPackWrite` the bytes of the directory pack; `dirGetEntry f 0 i` what the reader
decodes for entry `i` of the entry store (`DirectoryPack::new`, offset tables, `entryStoreOpen`,
`Layout.decode`, value stores on demand, `decodeEntry`); `expectedEntry` the variant id and the
values paired with their property names, common properties first. -/

/-- **File-level round trip of the directory pack.**  For every writer input `d` (value store
    kinds, schema with variants, entries in stored order, index definitions) that is well formed
    (`DirIn.WF`: names are p-strings, array prefixes ≤ 31 bytes, store indexes exist, at most 255
    stores; every entry carries a variant id iff the schema has variants, one value per property,
    of the declared type, integers within 64 bits, arrays shorter than 2^24 bytes, pack ids
    within 16 bits and content ids within 32 bits) and within the size limits of the format
    (`DirIn.Limits`), decoding entry `i` of the only entry store out of the bytes of the written
    pack returns exactly the variant id and the values of the `i`-th entry given to the writer,
    each paired with its property name, common properties first.

    The composition is the one the correspondence check runs: `dp.encode` = `dirPackWrite`
    (`VStore.finalize` per store, `finalizeSchema`, `serializeEntry`, tails and tables),
    `dp.decode` = `dirGetEntry` (`directoryOpen`, `entryStoreOpen`, `Layout.decode`,
    `valueStoreOpen`, `decodeEntry`).  `H` (the hash of the check block) is arbitrary. -/
theorem c02_file_roundtrip (H : Bytes → Bytes) (vendor uuid freeData : Bytes) (d : DirIn)
    (hwf : d.WF) (hl : d.Limits H vendor uuid freeData) (i : Nat) (hi : i < d.entries.length) :
    dirGetEntry (dirPackWrite H vendor uuid freeData d) 0 i =
      .ok (expectedEntry d.schema d.entries[i]) :=
  dirGetEntry_dirPackWrite H vendor uuid freeData d hwf hl i hi

/-- … and beyond the stored entries the reader finds nothing -/
theorem c02_file_past_end (H : Bytes → Bytes) (vendor uuid freeData : Bytes)
    (d : DirIn) (hwf : d.WF) (hl : d.Limits H vendor uuid freeData) (i : Nat)
    (hi : d.entries.length ≤ i) :
    dirGetEntry (dirPackWrite H vendor uuid freeData d) 0 i = .err .other :=
  dirGetEntry_dirPackWrite_none H vendor uuid freeData d hwf hl i hi


/-- non-vacuity: the three example inputs of Lemmas/DirFile.lean satisfy `DirIn.WF` and
    `DirIn.Limits` (by `decide` / computation), among them unsigned, signed (−129, 128, ±2^15
    boundary), arrays with inline prefix + plain-store remainder, indirect arrays in an indexed
    store, two variants with padding, a content address column with a constant pack id -/
example := @DirFileExample.input
example := @DirFileExample.input2

/-! ### Tie to the source: the width rules are the source's bodies -/

/-- **The column-width rules of the writer model are the bodies of `needed_bytes` and
    `signed_size_key` as translated from the Rust source on every run**: widths are
    `needed_bytes` of the column maximum, and a signed column's maximum is taken over
    `signed_size_key` of its values (for every `i64`). -/
theorem c02_width_rules_are_source_rules :
    (∀ v, Generated.neededBytes v = some (neededBytes v)) ∧
    (∀ v : Int, -(2 : Int) ^ 63 ≤ v → v < (2 : Int) ^ 63 → (signedSizeKey v : Int) = Generated.signedSizeKey v) :=
  ⟨gen_neededBytes, gen_signedSizeKey⟩

/-- non-vacuity: the translated key at the boundaries the signed-width defect (D3) was about -/
example : Generated.signedSizeKey 127 = 254 ∧ Generated.signedSizeKey 128 = 256 ∧ Generated.signedSizeKey (-128) = 254 ∧
          Generated.signedSizeKey (-129) = 256 ∧ Generated.signedSizeKey (-9223372036854775808) = 9223372036854775807 := by decide

/-- **The window rule of `c02_window` is the body of `RangeTrait::get_entry` translated on every run**,
    followed by the store's own bound. -/
theorem c02_window_is_source_window (offset count n k : Nat) :
    windowGet offset count n k =
      (Generated.rangeGetEntry offset count k).bind (fun i => if i < n then some i else none) := by
  rw [gen_rangeGetEntry]
  unfold windowGet
  by_cases h : k < count <;> simp [h]

/-- **The column statistics of the writer model are the source's**: `ValueCounter::process` folded over a
    column and converted (`Option::from`) is `constantOf` — a column is stored as a default exactly when it
    is not empty and all its values are equal — and `PropertySize::process` folded over a column and converted
    (`ByteSize::from`) is `neededBytes (listMax column)`; both bodies, and the two enums, are translated from
    `creator/directory_pack/schema/property.rs` on every run. -/
theorem c02_column_statistics_are_source_statistics :
    (∀ col : List Int,
      Generated.valueCounterDefault (col.foldl Generated.valueCounterProcess Generated.SrcCounter.none) = constantOf col) ∧
    (∀ col : List Nat,
      Generated.propertySizeBytes ((col.map (fun (v : Nat) => (v : Int))).foldl Generated.propertySizeProcess (Generated.SrcSize.auto 0)) =
        neededBytes (listMax col)) :=
  ⟨gen_valueCounter, gen_propertySize⟩

/-- **The writer model's column finalisation is the source's, kind by kind**: feeding a column to the
    translated `Property::process` (schema/property.rs — the per-entry statistics dispatcher) and then the
    translated `Property::finalize` gives, for unsigned, signed (values within `i64`), content-address and
    array columns (inline prefix below 256 bytes, not the indirect-array case of an indexed store), exactly
    the layout property `finalizeProp` of the writer model computes: same width, same default, same
    length-field size, same key size.  `process` never panics on a value of the column's own kind (it
    returns `some`).  Both bodies and the enums `Property` / `Value` are translated on every run. -/
theorem c02_column_finalisation_is_source_finalisation (stores : List VStore) (name : Bytes) (col : List Val) :
    (∀ keySize, (∀ v ∈ col, ∃ n, v = .u n) →
      ∃ p', processColumn (.unsignedInt .none (.auto 0) name) (col.map (fun v => Generated.SrcValue.unsigned (uintOf v : Int))) = some p' ∧
        (finalizeProp stores ⟨name, .uint⟩ col).toSrc = some (Generated.schemaPropertyFinalize keySize p')) ∧
    (∀ keySize, (∀ v ∈ col, -(2 : Int) ^ 63 ≤ sintOf v ∧ sintOf v < (2 : Int) ^ 63) →
      ∃ p', processColumn (.signedInt .none (.auto 0) name) (col.map (fun v => Generated.SrcValue.signed (sintOf v))) = some p' ∧
        (finalizeProp stores ⟨name, .sint⟩ col).toSrc = some (Generated.schemaPropertyFinalize keySize p')) ∧
    (∀ keySize,
      ∃ p', processColumn (.contentAddress .none (.auto 0) (.auto 0) name)
          (col.map (fun v => Generated.SrcValue.content ((packOf v : Int), (cidOf v : Int)))) = some p' ∧
        (finalizeProp stores ⟨name, .content⟩ col).toSrc = some (Generated.schemaPropertyFinalize keySize p')) ∧
    (∀ fixed st, fixed < 256 → ¬ (fixed = 0 ∧ (stores.getD st ⟨false, []⟩).indexed) →
      ∃ p', processColumn (.array (.auto 0) fixed st name)
          (col.map (fun v => Generated.SrcValue.array (((arrayOf v).length : Nat) : Int))) = some p' ∧
        (finalizeProp stores ⟨name, .array fixed st⟩ col).toSrc =
          some (Generated.schemaPropertyFinalize (fun s => (stores.getD s ⟨false, []⟩).keySize) p')) :=
  ⟨fun ks h => gen_finalize_uint stores ks name col h,
   fun ks h => gen_finalize_sint stores ks name col h,
   fun ks => gen_finalize_content stores ks name col,
   fun fixed st hf hi => gen_finalize_array stores name fixed st col hf hi⟩

/-- non-vacuity: a two-entry unsigned column is finalised to a one-byte field without a default, and the
    translated dispatcher agrees -/
example : (finalizeProp [] ⟨[110], .uint⟩ [.u 3, .u 200]).toSrc =
    (processColumn (.unsignedInt .none (.auto 0) [110]) [.unsigned 3, .unsigned 200]).map (Generated.schemaPropertyFinalize (fun _ => 0)) := by
  decide

/-- a finalised property accepts every value of the column it was finalised over (a default is only set when
    every value of the column equals it; array properties always refer to their value store) -/
theorem finalizeProp_valueOK (stores : List VStore) (pd : PropDef) (col : List Val) (v : Val) (hv : v ∈ col) :
    (finalizeProp stores pd col).ValueOK v := by
  unfold finalizeProp
  cases pd.ty with
  | uint =>
    simp only []
    cases hc : constantOf (col.map uintOf) with
    | none => simp [RawProp.ValueOK]
    | some d =>
      have := (constantOf_some _ _ hc).2 (uintOf v) (List.mem_map_of_mem hv)
      simp [RawProp.ValueOK, this]
  | sint =>
    simp only []
    cases hc : constantOf (col.map sintOf) with
    | none => simp [RawProp.ValueOK]
    | some d =>
      have := (constantOf_some _ _ hc).2 (sintOf v) (List.mem_map_of_mem hv)
      simp [RawProp.ValueOK, this]
  | content =>
    simp only []
    cases hc : constantOf (col.map packOf) with
    | none => simp [RawProp.ValueOK]
    | some d =>
      have := (constantOf_some _ _ hc).2 (packOf v) (List.mem_map_of_mem hv)
      simp [RawProp.ValueOK, this]
  | array fixed store =>
    simp only []
    split <;> simp [RawProp.ValueOK]

/-- **The entry serialiser of the writer model is the source's.**  Translated on every run from
    `creator/directory_pack/layout/{property,properties}.rs`:
    * `Property::size` gives, for every finalised property within the header ranges, the size the model's
      layout records (the sum of these is the entry size the reader steps by);
    * `Properties::fill_to_size` terminates and appends exactly the model's variant paddings, for all sizes;
    * the per-key body of `Properties::serialize_entry`, run key after key over a layout, never errs or panics
      on values accepted by the properties (`ValueOK` — which every value of a finalised column is) and writes
      exactly the bytes of the model's `serializeProps`: integers little-endian in the property's width
      (signed ones in two's complement), nothing for a property with a default, pack id then content id,
      array length then inline prefix zero-filled to the inline length then the value-store key, zero bytes
      for paddings, the variant number for the variant id. -/
theorem c02_entry_serialiser_is_source_serialiser (stores : List VStore) :
    (∀ pd col src, (finalizeProp stores pd col).HeaderWF → (finalizeProp stores pd col).toSrc = some src →
      Generated.layoutPropertySize src = (finalizeProp stores pd col).size) ∧
    (∀ cur size, Generated.fillToSize cur size = some ((paddingProps (size - cur)).map (·.size))) ∧
    (∀ pd col v, v ∈ col → (finalizeProp stores pd col).ValueOK v) ∧
    (∀ variant ps vals, (∀ x ∈ pairProps ps vals, x.1.ValueOK x.2) →
      (entryWrites variant (srcPairs stores (pairProps ps vals))).map writesBytes =
        some (serializeProps stores variant ps vals)) :=
  ⟨fun pd col src hw hs => gen_layoutPropertySize _ src hs hw (finalizeProp_kindSize stores pd col),
   gen_fillToSize,
   finalizeProp_valueOK stores,
   fun variant ps vals h => gen_serializeProps stores variant ps vals h⟩

/-- non-vacuity: an entry with an unsigned, a defaulted signed, a content address and an array with a
    two-byte inline prefix — the translated loop writes what the model writes -/
example :
    let stores : List VStore := [⟨false, [[3, 4]]⟩]
    let ps : List RawProp := [⟨2, [120], .uint 2 none⟩, ⟨0, [121], .sint 1 (some (-2))⟩, ⟨3, [99], .content 1 2 none⟩,
      ⟨4, [97], .array (some 1) 2 (some (1, 0)) none⟩, ⟨3, [], .padding⟩]
    let vals : List Val := [.u 513, .s (-2), .content 1 300, .arr [1, 2, 3, 4]]
    (entryWrites none (srcPairs stores (pairProps ps vals))).map writesBytes = some (serializeProps stores none ps vals) ∧
      serializeProps stores none ps vals = [1, 2, 1, 44, 1, 4, 1, 2, 0, 0, 0, 0] := by
  decide

/-- **Reading a value out of an entry follows the source**: `IntProperty::create`, `SignedProperty::create`
    and `ContentProperty::create` (`reader/directory_pack/builder/property.rs`), translated on every run, are
    `decodeProp` of the reader model for unsigned, signed and content-address properties stored in the entry or
    defaulted, and for integers deported to a value store (the entry holds the key): same value, same error when the entry is too short — for every entry, offset and width (the
    special cases of the source for 1, 2, 4 and 8 bytes included). -/
theorem c02_value_decoding_is_source_decoding (stores : Nat → Outcome (ValueStoreTail × Bytes)) (e : Bytes) (off : Nat) (nm : Bytes)
    (g : Nat → Nat → Option Nat → Outcome Bytes) :
    (∀ sz dflt, (Generated.intPropertyCreate e off sz dflt none g).map' Val.u = decodeProp stores e ⟨off, nm, .uint sz dflt⟩) ∧
    (∀ sz dflt, (Generated.signedPropertyCreate e off sz dflt none g).map' Val.s = decodeProp stores e ⟨off, nm, .sint sz dflt⟩) ∧
    (∀ ps cs dflt, 1 ≤ ps → 1 ≤ cs → cs ≤ 4 →
      (Generated.contentPropertyCreate (e.drop off) dflt ps cs).map' (fun x => Val.content x.1.1 x.1.2) =
        decodeProp stores e ⟨off, nm, .content ps cs dflt⟩) ∧
    (∀ vs sz ks store, stores store = .ok vs → sz < 256 →
      (Generated.intPropertyCreate e off sz none (some (ks, store)) (fun _ key size => valueStoreGet vs key size)).map' Val.u =
          decodeProp stores e ⟨off, nm, .deportedInt false sz store (.inr ks)⟩ ∧
      (Generated.signedPropertyCreate e off sz none (some (ks, store)) (fun _ key size => valueStoreGet vs key size)).map' Val.s =
          decodeProp stores e ⟨off, nm, .deportedInt true sz store (.inr ks)⟩) :=
  ⟨fun sz dflt => gen_intPropertyCreate stores e off sz nm dflt g,
   fun sz dflt => gen_signedPropertyCreate stores e off sz nm dflt g,
   fun ps cs dflt h1 h2 h3 => gen_contentPropertyCreate stores e off ps cs nm dflt h1 h2 h3,
   fun vs sz ks store hs hsz => ⟨gen_deportedIntCreate stores vs e off sz ks store nm hs hsz,
     gen_deportedSignedCreate stores vs e off sz ks store nm hs hsz⟩⟩

/-- **Reading an array out of an entry follows the source**: `ArrayProperty::create` translated on every run,
    followed by `resolveArray` (`Array::resolve_to_vec`), is `decodeProp` of the reader model for array
    properties (length field, inline prefix, value-store key; or the header's default), up to the text of the
    panic of `value_id.unwrap()`. -/
theorem c02_array_decoding_is_source_decoding (stores : Nat → Outcome (ValueStoreTail × Bytes)) (e : Bytes) (off : Nat) (nm : Bytes)
    (lenSize : Option Nat) (fixedLen : Nat) (dep : Option (Nat × Nat)) (dflt : Option (Nat × Bytes × Option Nat))
    (hoff : off ≤ e.length) (hl : ∀ l, lenSize = some l → 1 ≤ l ∧ l ≤ 3) (hd : ∀ ks st, dep = some (ks, st) → 1 ≤ ks) :
    ((Generated.arrayPropertyCreate (e.drop off) lenSize fixedLen dep dflt).bind fun r =>
        (resolveArray stores r.1 r.2.1 fixedLen r.2.2).map' Val.arr).Same
      (decodeProp stores e ⟨off, nm, .array lenSize fixedLen dep dflt⟩) :=
  gen_arrayPropertyCreate stores e off nm lenSize fixedLen dep dflt hoff hl hd

/-- **A directory pack is opened as the source opens it**: `directoryOpen` is `DirectoryPack::new` as translated
    from `reader/directory_pack/mod.rs` on every run: pack header of kind "directory", directory-pack header,
    then the three pointer tables (value stores, entry stores, indexes) read as one checked block each. -/
theorem c02_directory_open_is_source_open (f : Bytes) :
    directoryOpen f =
      Generated.directoryPackNew ((readBlock f 0 60).bind fun hd => PackHeader.decode hd)
        ((readBlock f 64 60).bind fun db => DirectoryHeader.decode db)
        (fun w pos count => readBlock f pos (w * count)) :=
  gen_directoryOpen f

/-- **Value-store keys are sized as the source sizes them** (`key_size` of both store kinds, translated on every
    run): by the data size for a plain store, by the number of values for an indexed one. -/
theorem c02_key_size_is_source_key_size (s : VStore) :
    s.keySize = if s.indexed then Generated.indexedStoreKeySize s.values.length else Generated.plainStoreKeySize s.dataSize :=
  gen_keySize s

/-- **The tail of a value store — where every value starts and ends — is decoded as the source decodes it**:
    `ValueStoreBuilder::parse` translated on every run equals `valueStoreTailDecode` on every byte string, the
    offsets loop of the indexed kind included (up to the text of the panic of its bound assertion). -/
theorem c02_value_store_tail_parser_is_source_parser (bs : Bytes) :
    ((Generated.valueStoreBuilderParse bs).map' (fun r => r.1)).Same ((valueStoreTailDecode bs).map' vsTailToSrc) :=
  gen_valueStoreBuilderParse bs

end Jubako
