/-
C07 — concurrent readers of one container always get exactly the stored bytes.

`SV` (Model/SyncVec.lean) is the shared decode buffer as a transition system; a schedule is an
arbitrary list of atomic actions of the decoder and of any number of reader threads.  All statements
quantify over every schedule, every number of readers, every chunking of the decoder's writes, every
cluster content — and, since the repair of D11, over decoders that fail after `avail < total` bytes.
-/
import JubakoModel.Model.SyncVec
import JubakoModel.Lemmas.SyncVec
import JubakoModel.Lemmas.Cache
import JubakoModel.Lemmas.FuncsProto
import JubakoModel.Lemmas.FuncsSync

namespace Jubako

/-- **Reads are exact**: in every state reachable from the initial one, a finished read of
    `[off, end)` returned exactly those bytes of the cluster's plain data — never torn, stale,
    out-of-range or foreign bytes. -/
theorem c07_reads_exact (data : Bytes) (avail n : Nat) (h : avail ≤ data.length) (as : List SVAct) (s : SV)
    (hr : (SV.init data avail n).run as = some s) :
    ∀ (r off end_ : Nat) (res : Bytes), s.readers[r]? = some (RPhase.done off end_ res) →
      res = slice data off (end_ - off) :=
  sv_reads_exact data avail n h as s hr

/-- **Safety invariant** along every schedule: published ≤ written ≤ total, the written prefix is a
    prefix of the data, woken readers only look below the published length, failed readers asked
    for more than the decoder could deliver. -/
theorem c07_invariant (data : Bytes) (avail n : Nat) (h : avail ≤ data.length) (as : List SVAct) (s : SV)
    (hr : (SV.init data avail n).run as = some s) : s.Inv :=
  sv_inv_run _ _ as (sv_inv'_init data avail n h) hr

/-- **No overlap between the writer and the readers**: whenever a reader slices and the decoder
    writes in the same state, every index read is below every index written (reads are below the
    published length, writes at or above the written length). -/
theorem c07_disjoint (s : SV) (hi : s.Inv) (r n i j : Nat)
    (hr : SVAct.readsBelow s (.slice r) = some i) (hw : SVAct.writesFrom s (.write n) = some j) : i ≤ j :=
  sv_read_write_disjoint s hi r n i j hr hw

/-- a write never changes a byte below the written length (hence none below the published one);
    a read changes nothing -/
theorem c07_write_preserves_published (s s' : SV) (n : Nat) (h : s.step (.write n) = some s') :
    s'.buf.take s.buf.length = s.buf ∧ s'.d = s.d := sv_write_preserves_prefix s s' n h

/-- **No reader waits forever** (no lost wake-up, no deadlock), whatever the schedule did before:
    from any reachable state with a waiting reader, the decoder alone — in at most
    `decoderMeasure` of its own steps (two per remaining chunk) — reaches a state in which that
    reader's wake-up is enabled: either enough bytes are published or the failure flag is set. -/
theorem c07_progress (s : SV) (hi : s.Inv) (r off end_ : Nat)
    (hr : s.readers[r]? = some (RPhase.waiting off end_)) :
    ∃ (as : List SVAct) (s' : SV), s.run as = some s' ∧ as.length ≤ s.decoderMeasure ∧
      (∀ a ∈ as, a = .publish ∨ a = .fail ∨ ∃ n, a = .write n) ∧
      s'.readers[r]? = some (RPhase.waiting off end_) ∧ ∃ s'', s'.step (.wake r) = some s'' :=
  sv_progress s hi r off end_ hr

/-- a woken reader can always complete its read -/
theorem c07_woken_reads (s : SV) (r off end_ : Nat) (hr : s.readers[r]? = some (RPhase.woke off end_)) :
    ∃ s', s.step (.slice r) = some s' := slice_enabled s r off end_ hr

/-- **On an undamaged payload no read ever fails**, under any schedule. -/
theorem c07_sound_never_fails (data : Bytes) (n : Nat) (as : List SVAct) (s : SV)
    (hr : (SV.init data data.length n).run as = some s) :
    s.failedFlag = false ∧ ∀ (r off end_ : Nat), s.readers[r]? ≠ some (RPhase.failed off end_) :=
  sv_no_failure_when_sound data n as s hr

/-- **Cache eviction never invalidates a handle**: the LRU of decoded clusters gives a cluster
    either its existing handle or a brand-new one; handles are never shared by two clusters, so a
    region obtained before an eviction keeps denoting the same cluster's buffer. -/
theorem c07_cache_handles_stable (c : LruCache) (idx : Nat) (h : LruInv c) :
    LruInv (c.get idx).2 ∧
    (((c.get idx).1 = c.nextHandle ∧ c.entries.find? (fun e => e.1 == idx) = none) ∨
     (∃ e, c.entries.find? (fun e => e.1 == idx) = some e ∧ (c.get idx).1 = e.2)) := by
  refine ⟨lru_inv_get c idx h, ?_⟩
  rcases lru_get_fresh_or_same c idx with ⟨h1, _, h3⟩ | ⟨e, h1, h2, _⟩
  · exact Or.inl ⟨h1, h3⟩
  · exact Or.inr ⟨e, h1, h2⟩

/-- **No reader is ever given another cluster's buffer through the cache**: over any history of
    lookups (the cache's mutex serialises the lookups of concurrent readers; `idxs` is that order),
    with any capacity — hence any amount of eviction and re-insertion in between — every lookup is
    answered for the index it asked, and a handle that was handed out for one cluster index is never
    handed out for another one. -/
theorem c07_cache_serves_requested_cluster (cap : Nat) (idxs : List Nat) :
    ((⟨cap, [], 0⟩ : LruCache).run idxs).1.map (·.1) = idxs ∧
    ∀ p ∈ ((⟨cap, [], 0⟩ : LruCache).run idxs).1, ∀ q ∈ ((⟨cap, [], 0⟩ : LruCache).run idxs).1,
      p.2 = q.2 → p.1 = q.1 :=
  ⟨lru_run_answers _ idxs, lru_handle_serves_one_cluster cap idxs⟩

/-- non-vacuity: capacity 2, five lookups over three clusters: cluster 0 is evicted and comes back
    with a new handle; handles 0 and 3 both serve cluster 0, nobody else's -/
example : ((⟨2, [], 0⟩ : LruCache).run [0, 1, 2, 0, 1]).1 = [(0, 0), (1, 1), (2, 2), (0, 3), (1, 4)] := by
  decide

/-- non-vacuity: 2 readers, 2 decoder writes, a schedule in which reader 0 is served after the
    first publication while the decoder is still writing, and reader 1 after the second -/
example :
    let data : Bytes := [0, 1, 2, 3, 4, 5, 6, 7, 8, 9, 10, 11, 12, 13, 14, 15, 16, 17, 18, 19]
    ∃ s, (SV.init data data.length 2).run
      [.request 0 1 6, .request 1 10 20, .write 8, .publish, .wake 0, .write 12, .slice 0,
       .publish, .wake 1, .slice 1] = some s ∧
      s.readers[0]? = some (RPhase.done 1 6 [1, 2, 3, 4, 5]) ∧
      s.readers[1]? = some (RPhase.done 10 20 [10, 11, 12, 13, 14, 15, 16, 17, 18, 19]) := by
  refine ⟨_, rfl, ?_, ?_⟩ <;> decide

/-! ### One open file shared by every reader of a pack file -/

/-- **Readers sharing one open file.**  Any number of threads, each running any list of positioned
    accesses of the shape `lock; seek(offset); read(n); unlock` on one shared file cursor, under any
    schedule (any interleaving of the individual actions, blocked threads being skipped): every read
    returns exactly the bytes of the file at the offset its access asked for.  (The cluster tail loads,
    the stream reads of raw contents and the decoders' input reads of one pack file all go through this
    cursor.) -/
theorem c07_shared_file_reads_exact (file : Bytes) (progs : List (List (Nat × Nat))) (sched : List Nat) :
    ((FState.init file atomicAccess progs).run sched).readsExact :=
  (finv_run _ (finv_init file progs) sched).exact

/-- **… and that shape is the shape of the source**: the action sequences of `FileSource::read`,
    `FileSource::read_exact` and of the small-block arm of `FileSource::cut`, extracted from
    `bases/io/file.rs` on every run (Generated/FuncsProto.lean), are `atomicAccess`.  A body that takes the
    lock twice, seeks conditionally or reads through another path no longer extracts. -/
theorem c07_file_access_shape_is_source_shape :
    Generated.fileSourceReadProto = atomicAccess ∧ Generated.fileSourceReadExactProto = atomicAccess ∧
    Generated.fileSourceCutSmallProto = atomicAccess :=
  gen_fileSourceProto

/-- the theorem is not vacuous and the shape matters: two threads reading 2 bytes at offsets 0 and 5 —
    with the cursor set and used under two separate holds of the lock (`lock; seek; unlock; lock; read;
    unlock`) there is a schedule on which the first thread gets the bytes at offset 5 -/
theorem c07_split_lock_access_fails :
    let file : Bytes := [10, 11, 12, 13, 14, 15, 16, 17]
    let split : List FAct := [.lock, .seek, .unlock, .lock, .read, .unlock]
    let s := (FState.init file split [[(0, 2)], [(5, 2)]]).run [0, 0, 0, 0, 1, 1, 1, 1, 0, 0, 0]
    (s.threads 0).got = [(0, 2, [15, 16])] := by
  decide

example :
    let file : Bytes := [10, 11, 12, 13, 14, 15, 16, 17]
    let s := (FState.init file atomicAccess [[(0, 2)], [(5, 2)]]).run [0, 0, 0, 1, 1, 1, 0, 0, 0, 1, 1, 1, 1]
    (s.threads 0).got = [(0, 2, [10, 11])] ∧ (s.threads 1).got = [(5, 2, [15, 16])] := by
  decide

/-! ### Tie of the length-publication protocol to the source -/

/-- **The SyncVec model's decoder turn, publication and failure are the statement sequences of
    `decode_to_end`, and its waiting condition is the closure of `SyncVecRd::wait_for`, as extracted /
    translated from `bases/io/compression.rs` on every run**: the chunk is read first, then — under the
    lock — either the new length is published and *all* waiters are notified, or the failure is recorded,
    all waiters are notified and the decoder stops; a reader keeps waiting while `decoded < end ∧ ¬failed`
    and succeeds iff `decoded ≥ end` (the model's `.wake`). -/
theorem c07_syncvec_protocol_is_source_protocol :
    (Generated.svDecoderLoopShape = decoderTurnStmts ∧ Generated.svDecoderOkShape = decoderPublishStmts ∧
      Generated.svDecoderErrShape = decoderFailStmts) ∧
    (∀ (s : SV) (r off end_ : Nat), s.readers[r]? = some (.waiting off end_) →
      ((s.step (.wake r)).isSome = !Generated.svWaitPredicate s.d s.failedFlag end_) ∧
      (Generated.svWaitResult s.d end_ = true →
        s.step (.wake r) = some { s with readers := s.readers.set r (.woke off end_) })) :=
  ⟨gen_svShapes, wake_iff_source⟩

end Jubako
