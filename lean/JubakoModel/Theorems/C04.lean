/-
C04 — created packs verify; any later change to checksummed bytes makes the check fail.

The hash `H` is an arbitrary function (nothing is assumed about blake3): conclusions have the form
"the check does not answer true, or here is an explicit `H`-collision".
-/
import JubakoModel.Model.Pack

namespace Jubako

/-- two different byte strings with the same hash -/
def HashCollision (H : Bytes → Bytes) (a b : Bytes) : Prop := a ≠ b ∧ H a = H b

/-- **Alteration inside the checked range.**  `f` verifies; `alt` still has a header block and a
    check block that pass their CRCs and decode to the same check position and the same stored
    hash (i.e. the alteration is confined to the bytes the blake3 hash is responsible for — damage
    to the two CRC-protected blocks themselves is the CRC layer, property C05); the masked prefix
    differs.  Then the check of `alt` does not answer `true`, unless the two masked prefixes are an
    explicit collision of `H`. -/
theorem c04_alteration_detected (H mask : Bytes → Bytes) (f alt : Bytes) (cip : Nat) (stored : Bytes)
    (hpf : packCheckParts f = .ok (cip, .blake3 stored))
    (hpa : packCheckParts alt = .ok (cip, .blake3 stored))
    (hf : packCheck H mask f = .ok true)
    (hdiff : mask (alt.take cip) ≠ mask (f.take cip)) :
    packCheck H mask alt ≠ .ok true ∨ HashCollision H (mask (alt.take cip)) (mask (f.take cip)) := by
  by_cases ha : packCheck H mask alt = .ok true
  · right
    refine ⟨hdiff, ?_⟩
    simp only [packCheck, hpf, hpa, bind, Outcome.bind] at hf ha
    split at hf <;> split at ha <;> simp_all
  · left; exact ha

/-- the verdict only depends on the check position, the stored hash and the masked prefix: two
    files that agree on these get the same answer (so bytes outside the checked range and outside
    the two CRC-protected blocks — the mirrored tail — never influence `check`) -/
theorem c04_verdict_depends_only_on_checked (H mask : Bytes → Bytes) (f g : Bytes)
    (hp : packCheckParts f = packCheckParts g)
    (hm : ∀ cip, mask (f.take cip) = mask (g.take cip)) (hl : f.length = g.length) :
    packCheck H mask f = packCheck H mask g := by
  simp only [packCheck, hp]
  cases packCheckParts g with
  | ok a => obtain ⟨cip, ci⟩ := a; cases ci <;> simp [bind, Outcome.bind, hm, hl]
  | _ => rfl

end Jubako
