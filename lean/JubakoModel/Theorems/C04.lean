/-
C04 — created packs verify; any later change to checksummed bytes makes the check fail.

The hash `H` is an arbitrary function (nothing is assumed about blake3): conclusions have the form
"the check does not answer true, or here is an explicit `H`-collision".
-/
import JubakoModel.Model.Pack
import JubakoModel.Lemmas.Codec
import JubakoModel.Lemmas.Mask
import JubakoModel.Lemmas.FuncsCheck
import JubakoModel.Lemmas.FuncsLookup
import JubakoModel.Lemmas.FuncsParse

set_option maxRecDepth 8000

namespace Jubako

/-- two different byte strings with the same hash -/
def HashCollision (H : Bytes → Bytes) (a b : Bytes) : Prop := a ≠ b ∧ H a = H b

/-- **Alteration inside the checked range.**  `f` verifies; `alt` still has a header block and a
    check block that pass their CRCs and decode to the same check position and the same stored
    hash (i.e. the alteration is confined to the bytes the blake3 hash is responsible for — damage
    to the two CRC-protected blocks themselves is the CRC layer, property C05); the masked prefix
    differs.  Then the check of `alt` does not answer `true`, unless the two masked prefixes are an
    explicit collision of `H`. -/
theorem c04_alteration_detected (H mask : Bytes → Bytes) (f alt : Bytes) (cip : Nat) (stored : Bytes)
    (hpf : packCheckParts f = .ok (cip, .blake3 stored))
    (hpa : packCheckParts alt = .ok (cip, .blake3 stored))
    (hf : packCheck H mask f = .ok true)
    (hdiff : mask (alt.take cip) ≠ mask (f.take cip)) :
    packCheck H mask alt ≠ .ok true ∨ HashCollision H (mask (alt.take cip)) (mask (f.take cip)) := by
  by_cases ha : packCheck H mask alt = .ok true
  · right
    refine ⟨hdiff, ?_⟩
    simp only [packCheck, hpf, hpa, bind, Outcome.bind] at hf ha
    split at hf <;> split at ha <;> simp_all
  · left; exact ha

/-- the verdict only depends on the check position, the stored hash and the masked prefix: two
    files that agree on these get the same answer (so bytes outside the checked range and outside
    the two CRC-protected blocks — the mirrored tail — never influence `check`) -/
theorem c04_verdict_depends_only_on_checked (H mask : Bytes → Bytes) (f g : Bytes)
    (hp : packCheckParts f = packCheckParts g)
    (hm : ∀ cip, mask (f.take cip) = mask (g.take cip)) (hl : f.length = g.length) :
    packCheck H mask f = packCheck H mask g := by
  simp only [packCheck, hp]
  cases packCheckParts g with
  | ok a => obtain ⟨cip, ci⟩ := a; cases ci <;> simp [bind, Outcome.bind, hm, hl]
  | _ => rfl

end Jubako

namespace Jubako

/-- **The streaming check reads exactly the pure mask**, whatever buffer sizes the hasher uses
    (`ManifestCheckStream::read` vs `manifestMask`), once the whole source has been delivered. -/
theorem c04_stream_eq_mask (po n : Nat) (src : Bytes) (reqs : List Nat)
    (h : (checkStreamDrain po n 0 src reqs).length = src.length) :
    checkStreamDrain po n 0 src reqs = manifestMask po n src :=
  checkStreamDrain_all po n src reqs h

/-- every read with a non-empty buffer on a non-exhausted source delivers at least one byte, so
    reading until a read returns nothing does deliver the whole source -/
theorem c04_stream_progress (po n pos : Nat) (src : Bytes) (req : Nat) (hr : 0 < req) (hs : src ≠ []) :
    0 < (checkStreamRead po n pos src req).1.length :=
  (checkStreamRead_spec po n pos src req).2.2.2 hr hs

/-- **The only exempt bytes**: a manifest position is read as zero by the check iff it lies in the
    location field or the CRC of one of the `n` pack-info blocks (bytes 38..255 of the block). -/
theorem c04_exempt_exactly (po n p : Nat) :
    maskedPos po n p = true ↔ ∃ k, k < n ∧ po + k * 256 + 38 ≤ p ∧ p < po + (k + 1) * 256 :=
  maskedPos_iff po n p

/-- an alteration of a non-exempt byte below the check position changes the byte string that is
    hashed (for the identity mask of content / directory packs every byte is non-exempt: `n = 0`) -/
theorem c04_unmasked_alteration_changes_hashed (po n cip p : Nat) (f alt : Bytes)
    (hp : p < cip) (hpf : p < f.length) (hpa : p < alt.length)
    (hne : alt[p]? ≠ f[p]?) (hm : maskedPos po n p = false) :
    manifestMask po n (alt.take cip) ≠ manifestMask po n (f.take cip) := by
  intro heq
  have h1 := maskFrom_getElem? po n 0 (alt.take cip) p
  have h2 := maskFrom_getElem? po n 0 (f.take cip) p
  simp only [manifestMask] at heq
  rw [heq, h2] at h1
  simp only [Nat.zero_add, hm, List.getElem?_take, hp, if_true] at h1
  apply hne
  cases ha : alt[p]? <;> cases hf : f[p]? <;> simp_all

theorem manifestMask_zero_blocks (po : Nat) (bs : Bytes) : manifestMask po 0 bs = bs := by
  apply maskFrom_unmasked
  intro i _
  simp only [maskedPos, Nat.zero_mul, Nat.add_zero, Nat.zero_add]
  cases h1 : decide (po ≤ i) <;> cases h2 : decide (i < po) <;> simp_all
  omega

/-- **Created packs verify.**  Any pack laid out as the creators do — header block, body, check
    block holding `H` of the masked prefix, mirrored tail — with a well-formed header whose
    `checkInfoPos`/`packSize` describe that layout, passes `Pack::check`, for every hash function
    with 32-byte output and every mask. -/
theorem c04_created_verifies (H mask : Bytes → Bytes) (h : PackHeader) (body : Bytes)
    (hw : h.WF) (hv : h.major = Consts.versionGateMajor ∧ h.minor = Consts.versionGateMinor)
    (hcip : h.checkInfoPos = 64 + body.length) (hsz : h.packSize = h.checkInfoPos + 37 + 64)
    (hH : ∀ x, (H x).length = 32) :
    packCheck H mask (framePack H mask h body) = .ok true := by
  have hel := PackHeader.encode_length h hw
  have hbl : (block h.encode).length = 64 := by rw [block_length, hel]
  -- header block reads back
  have hrd : readBlock (framePack H mask h body) 0 60 = .ok h.encode := by
    have := readBlock_block [] h.encode (body ++ block (CheckInfo.blake3 (H (mask (block h.encode ++ body)))).encode ++ packTail (block h.encode))
    simp only [List.nil_append, List.length_nil, hel] at this
    simpa [framePack, List.append_assoc] using this
  -- check block reads back
  have hcl : (CheckInfo.blake3 (H (mask (block h.encode ++ body)))).encode.length = 33 := by
    simp [CheckInfo.encode, hH]
  have hrc : readBlock (framePack H mask h body) h.checkInfoPos 33
      = .ok (CheckInfo.blake3 (H (mask (block h.encode ++ body)))).encode := by
    have := readBlock_block (block h.encode ++ body) (CheckInfo.blake3 (H (mask (block h.encode ++ body)))).encode (packTail (block h.encode))
    rw [hcl] at this
    have hl : (block h.encode ++ body).length = h.checkInfoPos := by
      rw [List.length_append, hbl, hcip]
    rw [hl] at this
    simpa [framePack] using this
  have hsize : h.checkInfoSize = some 33 := by
    unfold PackHeader.checkInfoSize
    have h1 : h.checkInfoPos + 68 ≤ h.packSize := by omega
    rw [if_pos h1]
    have h2 : h.packSize - 64 - h.checkInfoPos - 4 = 33 := by omega
    rw [h2]
  have hparts : packCheckParts (framePack H mask h body)
      = .ok (h.checkInfoPos, .blake3 (H (mask (block h.encode ++ body)))) := by
    generalize hF : framePack H mask h body = F at hrd hrc
    unfold packCheckParts
    rw [hrd]
    show (PackHeader.decode h.encode).bind _ = _
    rw [PackHeader.decode_encode h hw hv]
    show (match h.checkInfoSize with | none => _ | some n => _) = _
    rw [hsize]
    show (readBlock F h.checkInfoPos 33).bind _ = _
    rw [hrc]
    show (CheckInfo.decode _).bind _ = _
    rw [CheckInfo.decode_encode _ (by intro x hx; cases hx; exact hH _)]
    rfl
  have htake : (framePack H mask h body).take h.checkInfoPos = block h.encode ++ body := by
    have hl : (block h.encode ++ body).length = h.checkInfoPos := by
      rw [List.length_append, hbl, hcip]
    simp only [framePack, List.append_assoc]
    rw [← List.append_assoc, ← hl, List.take_left']
    rfl
  have hlen : h.checkInfoPos ≤ (framePack H mask h body).length := by
    simp only [framePack, List.length_append, hbl]; omega
  generalize hF : framePack H mask h body = F at hparts htake hlen
  unfold packCheck
  rw [hparts]
  show (if h.checkInfoPos ≤ F.length then Outcome.ok (H (mask (F.take h.checkInfoPos)) == _) else _) = _
  rw [if_pos hlen, htake]
  simp

/-- non-vacuity of `c04_created_verifies`: a header meeting every hypothesis -/
example :
    let h : PackHeader := ⟨.content, [1, 2, 3, 4], 0, 2, List.replicate 16 7, 0, 64 + 3 + 37 + 64, 64 + 3⟩
    h.WF ∧ (h.major = Consts.versionGateMajor ∧ h.minor = Consts.versionGateMinor) ∧
    h.checkInfoPos = 64 + ([1, 2, 3] : Bytes).length ∧ h.packSize = h.checkInfoPos + 37 + 64 := by
  simp [PackHeader.WF, Consts.versionGateMajor, Consts.versionGateMinor]

/-! ### Tie to the source: the check stream of the theorems is the body of `ManifestCheckStream::read` -/

/-- **One `read` of the model's check stream is the body of `ManifestCheckStream::read` as translated
    from `common/check.rs` on every run** (`Generated.checkStreamStep`: how many bytes are asked of the
    source at a given stream offset, and whether they are delivered as zeros), with the block size and
    the number of checked bytes per pack info taken from the source as well.  `c04_stream_eq_mask`
    and `c04_exempt_exactly` are therefore statements about the branch structure and the arithmetic
    that are in the source now. -/
theorem c04_check_stream_is_source_stream (packOff n pos : Nat) (src : Bytes) (req : Nat) :
    checkStreamRead packOff n pos src req =
      (let r := Generated.checkStreamStep packInfoBlockSize packOff (packOff + n * packInfoBlockSize) pos req
       (if r.2 then zeros (src.take r.1).length else src.take r.1, src.drop r.1)) :=
  gen_checkStreamRead packOff n pos src req

/-- non-vacuity: at stream offset 128+38 of a manifest whose pack infos start at 128 the translated
    body asks for the 218 exempt bytes and blanks them; one byte earlier it asks for one checked byte -/
example : Generated.checkStreamStep 256 128 (128 + 2 * 256) (128 + 38) 65536 = (218, true) ∧
          Generated.checkStreamStep 256 128 (128 + 2 * 256) (128 + 37) 65536 = (1, false) := by decide

/-! ### Tie to the source: the container-wide check -/

/-- **`Container::check` as translated from `reader/jubako.rs` on every run**: it terminates for every
    container and answers `true` exactly when the manifest verifies, the directory pack verifies and every
    listed content pack *that can be located* verifies — a pack that cannot be located is skipped and the
    packs listed after it are still checked; and the reader model's `containerCheck` (the function run
    against the implementation on every altered container), whenever every part answers, is that function
    of the parts' verdicts. -/
theorem c04_container_check_is_source_check :
    (∀ (m d : Bool) (packs : List (Option Bool)),
      Generated.containerCheck m d packs = some (m && d && locatedAllOk packs)) ∧
    (∀ (H : Bytes → Bytes) (fs : FS) (c : ContainerView) (m d : Bool) (vs : List (Option Bool)),
      manifestCheck H c.manifest = .ok m → packCheck H id c.dirPack = .ok d →
      (c.infos.filter (fun i => i.kind ≠ .directory)).map (packCheckStep H fs c) = vs.map Outcome.ok →
      some (containerCheck H fs c) = Outcome.ok <$> Generated.containerCheck m d vs) :=
  ⟨gen_containerCheck, containerCheck_is_source_check⟩

/-- non-vacuity: an unlocated pack listed before a pack that does not verify — the verdict is `false` -/
example : Generated.containerCheck true true [none, some false, some true] = some false ∧
          Generated.containerCheck true true [none, some true] = some true := by decide

/-- **The check block and the verdict are the source's**: `CheckInfo::parse` (with `CheckKind::parse`) and
    `CheckInfo::check` (`common/check.rs`), translated on every run: the stored hash is the 32 bytes after a
    kind byte 1, absent after a kind byte 0, anything else is a format error — as `CheckInfo.decode` has it, on
    every byte string; and the verdict is "no hash stored, or the hash of the stream equals the stored hash" —
    the last step of `packCheck`. -/
theorem c04_check_block_is_source_check_block :
    (∀ bs, (Generated.checkInfoParse bs).map' (·.1) = (CheckInfo.decode bs).map' CheckInfo.toSrc) ∧
    (∀ (ci : CheckInfo) (streamHash : Bytes),
      (match ci with | CheckInfo.none => true | CheckInfo.blake3 stored => streamHash == stored) =
        Generated.checkInfoCheck ci.toSrc streamHash) := by
  refine ⟨gen_checkInfoParse, ?_⟩
  intro ci h
  cases ci with
  | none => rfl
  | blake3 stored =>
    simp only [Generated.checkInfoCheck, CheckInfo.toSrc]
    by_cases he : h = stored <;> simp [he]

/-- **Where the check block is looked for is where the source looks**: `PackHeader::check_info_size`
    translated on every run is the size `packCheckParts` reads at `checkInfoPos` — whenever the subtraction does
    not underflow (the model answers "panic" otherwise, as the u64 arithmetic of a debug build does). -/
theorem c04_check_block_size_is_source_size (h : PackHeader) (n : Nat) (hn : h.checkInfoSize = some n) :
    Generated.packHeaderCheckInfoSize h.packSize h.checkInfoPos 64 = n := by
  unfold PackHeader.checkInfoSize at hn
  split at hn
  · simp only [Option.some.injEq] at hn
    subst hn
    simp [Generated.packHeaderCheckInfoSize, Generated.blockCheckSize]
  · simp at hn

/-- **The check block the creators write is the source's**: `CheckInfo::serialize` translated on every run writes
    `CheckInfo.encode` — the bytes `framePack` (over which `c04_created_verifies` is stated) puts in the check
    block: `0` alone, or `1` and the 32 bytes of the hash. -/
theorem c04_check_block_written_is_source_block (ci : CheckInfo) :
    writesBytes (Generated.checkInfoWrites (match ci with | CheckInfo.none => Option.none | CheckInfo.blake3 h => some h)) = ci.encode :=
  gen_checkInfoWrites ci

end Jubako
