/-
C08 — the created container does not depend on how compression workers are scheduled.

`Pipe` (Model/Pipeline.lean) is the cluster pipeline as a transition system; a *schedule* is an
arbitrary list of atomic thread actions.  All statements quantify over every schedule, every number
of workers ≥ 1, every list of clusters (raw and compressed mixed, shorter or longer than the
back-pressure limit).
-/
import JubakoModel.Model.Pipeline
import JubakoModel.Lemmas.Pipeline
import JubakoModel.Lemmas.FuncsPipe
import JubakoModel.Lemmas.Creator
import JubakoModel.Lemmas.ContentFile

namespace Jubako

/-- **Back-pressure invariant**, every reachable state: the counter equals the number of clusters
    in the dispatch queue or held by a worker, and never exceeds `2 × workers`. -/
theorem c08_backpressure_inv (codec : Codec) (cs : List Cluster) (n : Nat) (as : List PAct) (s : Pipe)
    (h : (Pipe.init cs n).run codec as = some s) : s.Inv :=
  pipe_inv_run codec _ _ as (pipe_inv_init cs n) h

/-- **No deadlock**: in every reachable state that is not final, some thread can take a step. -/
theorem c08_no_deadlock (codec : Codec) (cs : List Cluster) (n : Nat) (hn : 0 < n) (as : List PAct)
    (s : Pipe) (h : (Pipe.init cs n).run codec as = some s) (hnf : s.final = false) :
    ∃ a s', s.step codec a = some s' := by
  have hi := c08_backpressure_inv codec cs n as s h
  obtain ⟨hq, hw, _⟩ := pipe_run_maxQ codec _ _ as h
  apply pipe_no_deadlock codec s hi
  · rw [hw]; simpa [Pipe.init] using hn
  · rw [hq]; simp only [Pipe.init]; omega
  · exact hnf

/-- **Termination**: no schedule is longer than the initial measure (6 per cluster); together with
    `c08_no_deadlock`, every maximal schedule ends in a final state. -/
theorem c08_terminates (codec : Codec) (cs : List Cluster) (n : Nat) (as : List PAct) (s : Pipe)
    (h : (Pipe.init cs n).run codec as = some s) : as.length ≤ 6 * cs.length := by
  have := pipe_run_length codec _ _ as h
  have hm : (Pipe.init cs n).measure = 6 * cs.length := by
    simp [Pipe.measure, Pipe.init, Worker.weight]
  omega

/-- **Addresses**: after any schedule, what the writer recorded is exactly the layout of the clusters
    it has written, in the order it wrote them: `addresses[idx]` is the position of the tail of
    cluster `idx` in the produced bytes (relative offsets of worker-built buffers are rebased
    correctly). -/
theorem c08_addresses (codec : Codec) (cs : List Cluster) (n : Nat) (as : List PAct) (s : Pipe)
    (hwf : ClustersWF codec cs) (h : (Pipe.init cs n).run codec as = some s) :
    layoutClusters codec s.done 128 = (s.out, s.addresses) :=
  pipe_addresses codec cs n as s hwf h

/-- **Every completion order**: in a final state the written clusters are a permutation of the
    clusters handed over — nothing lost, nothing written twice. -/
theorem c08_final_perm (codec : Codec) (cs : List Cluster) (n : Nat) (as : List PAct) (s : Pipe)
    (h : (Pipe.init cs n).run codec as = some s) (hf : s.final = true) : s.done.Perm cs :=
  pipe_final_perm codec cs n as s h hf

/-- **Logical content is schedule-independent**: for the clusters produced by any insertion
    sequence, after any complete schedule of the pipeline, every address denotes its own inserted
    bytes in the set of clusters that landed in the file, whatever order they landed in. -/
theorem c08_any_schedule (codec : Codec) (items : List Item) (n : Nat) (as : List PAct) (s : Pipe)
    (h : (Pipe.init ((Creator.init.addAll items).finalize).1 n).run codec as = some s)
    (hf : s.final = true) :
    ∀ i (_ : i < items.length),
      resolve s.done (((Creator.init.addAll items).finalize).2.getD i (0,0)) =
        some ((items.getD i ⟨[], false⟩).data, (items.getD i ⟨[], false⟩).comp) :=
  creator_roundtrip_any_arrival items s.done (c08_final_perm codec _ n as s h hf).symm

/-- **File level**: whatever complete schedule the pipeline follows, the bytes it produced
    (`s.out` with the recorded `s.addresses` = the layout of `s.done`, `c08_addresses`) framed into a
    pack read back, at every address, as the inserted bytes: the container's logical content does
    not depend on how the compression workers were scheduled. -/
theorem c08_file_any_schedule (H : Bytes → Bytes) (codec : Codec) (hcodec : codec.Sound)
    (hbyte : codec.byte ≤ 3) (m : ContentPackMeta) (hm : m.WF) (items : List Item) (n : Nat)
    (as : List PAct) (s : Pipe)
    (h : (Pipe.init ((Creator.init.addAll items).finalize).1 n).run codec as = some s)
    (hf : s.final = true)
    (hcomp : codec.byte = 0 → ∀ it ∈ items, it.comp = false)
    (hcount : items.length < 2 ^ 32) (hncl : s.done.length ≤ 2 ^ 20)
    (hdata : totalSize items < 2 ^ 64)
    (hsize : (contentPackWrite H codec m s.done ((Creator.init.addAll items).finalize).2).length < 2 ^ 48)
    (i : Nat) (hi : i < items.length) :
    contentGet codec.decompress'
        (contentPackWrite H codec m s.done ((Creator.init.addAll items).finalize).2) i =
      .ok (some (items[i]).data) :=
  contentGet_contentPackWrite H codec hcodec hbyte m hm items s.done
    (c08_final_perm codec _ n as s h hf) hcomp hcount hncl hdata hsize i hi

/-- non-vacuity: a concrete schedule with 1 worker in which the raw cluster 1 overtakes the
    compressed cluster 0, reaching a final state -/
example :
    let codec : Codec := ⟨3, fun d => d ++ [0], fun _ => none⟩
    let cs : List Cluster := [⟨0, true, [[1, 2]]⟩, ⟨1, false, [[3]]⟩]
    ∃ s, (Pipe.init cs 1).run codec [.mainSend, .mainSend, .take 0, .write, .finish 0, .release 0, .write] = some s ∧
      s.final = true ∧ s.order = [1, 0] := by
  refine ⟨_, rfl, by decide, by decide⟩

/-- **The actions of the pipeline model are the statement sequences of the source**: on every run the
    statements of `ClusterWriterProxy::write_cluster` (compressed branch: wait while the counter is at the
    limit, increment, send to the workers; raw branch: send to the writer) and of the loop body of
    `ClusterCompressor::run` (receive, compress into a private buffer, send to the writer, lock, decrement,
    notify) are extracted from `creator/content_pack/clusterwriter.rs` and must be exactly the sequences
    that `.mainSend`, `.take`/`.finish`/`.release` of Model/Pipeline.lean stand for — the protocol under
    which `c08_no_deadlock`, `c08_terminates` and `c08_backpressure_inv` are proved. -/
theorem c08_pipeline_statements_are_source_statements :
    Generated.pipelineDispatchShape = mainSendCompressedStmts ∧
    Generated.pipelineRawShape = mainSendRawStmts ∧
    Generated.pipelineWorkerShape = workerTurnStmts :=
  gen_pipelineShapes

end Jubako
