/-
C13 — all views of a stored content (stream, slice, sub-cut, conversions) agree.

Full-strength statements over the model of `reader/byte_{region,slice,stream}.rs` and
`bases/types/range.rs` (Model/View.lean).  Quantifiers: every source, every region inside it, every
nesting of in-range cuts, every sequence of read sizes and every short-read behaviour of the source.
Out-of-range cuts are outside the property (they are `debug_assert`ed in the code): hypothesis
`CutOk`.
-/
import JubakoModel.Model.View
import JubakoModel.Lemmas.Slice
import JubakoModel.Lemmas.FuncsView

namespace Jubako

/-- a view denotes the bytes of its absolute region -/
theorem c13_bytes_def (v : View) : v.bytes = slice v.src v.r.b (v.r.e - v.r.b) := rfl

theorem c13_size (v : View) (hw : v.WF) : v.bytes.length = v.size := by
  obtain ⟨h1, h2⟩ := hw
  simp only [View.bytes, View.size, Region.size]
  apply slice_length; omega

/-- a relative cut denotes the corresponding sub-range of the parent's bytes, and stays inside -/
theorem c13_cut (v : View) (hw : v.WF) (off sz : Nat) (hc : v.r.CutOk off sz) :
    (v.cut off sz).bytes = slice v.bytes off sz ∧ (v.cut off sz).WF ∧ (v.cut off sz).size = sz := by
  obtain ⟨h1, h2⟩ := hw
  unfold Region.CutOk at hc
  refine ⟨?_, ?_, ?_⟩
  · simp only [View.bytes, View.cut, Region.cutRel, Region.size]
    rw [slice_slice _ _ _ _ _ (by omega)]
    congr 1; omega
  · simp only [View.WF, View.cut, Region.cutRel]; omega
  · simp only [View.size, View.cut, Region.cutRel, Region.size]; omega

/-- `get_slice(off, sz)` is the same sub-range -/
theorem c13_getSlice (v : View) (hw : v.WF) (off sz : Nat) (hc : v.r.CutOk off sz) :
    v.getSlice off sz = slice v.bytes off sz := by
  have := (c13_cut v hw off sz hc).1
  simpa [View.getSlice, View.bytes, View.cut] using this

/-- the whole view through `get_slice(0, size)` -/
theorem c13_getSlice_all (v : View) : v.getSlice 0 v.size = v.bytes := by
  simp [View.getSlice, View.bytes, View.size, Region.cutRel, Region.size]

/-- nested cuts, to any depth: every cut in range of the view it is applied to -/
def ValidNested : View → List (Nat × Nat) → Prop
  | _, [] => True
  | v, (off, sz) :: rest => v.r.CutOk off sz ∧ ValidNested (v.cut off sz) rest

/-- the bytes a chain of cuts must denote, computed on plain byte strings -/
def cutBytes : Bytes → List (Nat × Nat) → Bytes
  | bs, [] => bs
  | bs, (off, sz) :: rest => cutBytes (slice bs off sz) rest

theorem c13_nested_cuts (v : View) (hw : v.WF) (cuts : List (Nat × Nat)) (hv : ValidNested v cuts) :
    let v' := cuts.foldl (fun v c => v.cut c.1 c.2) v
    v'.bytes = cutBytes v.bytes cuts ∧ v'.WF := by
  induction cuts generalizing v with
  | nil => exact ⟨rfl, hw⟩
  | cons c rest ih =>
    obtain ⟨off, sz⟩ := c
    obtain ⟨hc, hrest⟩ := hv
    have h := c13_cut v hw off sz hc
    have := ih (v.cut off sz) h.2.1 hrest
    simp only [List.foldl_cons, cutBytes]
    rw [← h.1]
    exact this

/-- stream invariant: cursor inside the region, region inside the source -/
def Stream.WF (s : Stream) : Prop := s.r.b ≤ s.cur ∧ s.cur ≤ s.r.e ∧ s.r.e ≤ s.src.length

theorem stream_read_spec (s : Stream) (hw : s.WF) (n short : Nat) :
    (s.read n short).2.WF ∧ (s.read n short).2.src = s.src ∧ (s.read n short).2.r = s.r ∧
    s.cur ≤ (s.read n short).2.cur ∧ (s.read n short).2.cur - s.cur ≤ n ∧
    (s.read n short).1 = slice s.src s.cur ((s.read n short).2.cur - s.cur) ∧
    (s.read n short).1.length = (s.read n short).2.cur - s.cur ∧
    (0 < n → 0 < s.sizeLeft → 0 < (s.read n short).1.length) := by
  obtain ⟨h1, h2, h3⟩ := hw
  simp only [Stream.read, Stream.WF, Stream.sizeLeft]
  split
  · refine ⟨by omega, trivial, trivial, by omega, by omega, by congr 1; omega, ?_, ?_⟩
    · rw [slice_length] <;> omega
    · intro hn hl; rw [slice_length] <;> omega
  · refine ⟨by omega, trivial, trivial, by omega, by omega, by congr 1; omega, ?_, ?_⟩
    · rw [slice_length] <;> omega
    · intro hn hl; rw [slice_length] <;> omega

theorem stream_drain_spec (s : Stream) (hw : s.WF) (reqs : List (Nat × Nat)) :
    (s.drain reqs).2.WF ∧ (s.drain reqs).2.src = s.src ∧ (s.drain reqs).2.r = s.r ∧
    s.cur ≤ (s.drain reqs).2.cur ∧
    (s.drain reqs).1 = slice s.src s.cur ((s.drain reqs).2.cur - s.cur) := by
  induction reqs generalizing s with
  | nil => simp [Stream.drain, hw, slice_zero_len]
  | cons q rest ih =>
    obtain ⟨n, short⟩ := q
    obtain ⟨hw1, hsrc1, hr1, hle1, _, hchunk, _, _⟩ := stream_read_spec s hw n short
    obtain ⟨hw2, hsrc2, hr2, hle2, hmore⟩ := ih (s.read n short).2 hw1
    simp only [Stream.drain]
    refine ⟨hw2, by rw [hsrc2, hsrc1], by rw [hr2, hr1], by omega, ?_⟩
    rw [hchunk, hmore, hsrc1]
    have : ((s.read n short).2.drain rest).2.cur - s.cur
        = ((s.read n short).2.cur - s.cur)
          + (((s.read n short).2.drain rest).2.cur - (s.read n short).2.cur) := by omega
    rw [this, slice_append]
    congr 2; omega

/-- **Streaming any view with any sequence of read sizes and any short-read behaviour** yields a
    prefix of the view's bytes, exactly as long as the reported offset; size, offset and size_left
    are consistent at the end of every such sequence (hence at every step). -/
theorem c13_stream (v : View) (hw : v.WF) (reqs : List (Nat × Nat)) :
    (v.stream.drain reqs).1 = v.bytes.take (v.stream.drain reqs).2.offset ∧
    (v.stream.drain reqs).1.length = (v.stream.drain reqs).2.offset ∧
    (v.stream.drain reqs).2.size = v.size ∧
    (v.stream.drain reqs).2.offset + (v.stream.drain reqs).2.sizeLeft = v.size := by
  obtain ⟨h1, h2⟩ := hw
  have hs : v.stream.WF := by simp only [Stream.WF, View.stream]; omega
  obtain ⟨⟨hb, he, hl⟩, hsrc, hr, hle, hout⟩ := stream_drain_spec v.stream hs reqs
  generalize v.stream.drain reqs = dr at *
  obtain ⟨out, s'⟩ := dr
  simp only [View.stream] at hsrc hr hle hout hb he hl
  simp only [Stream.offset, Stream.size, Stream.sizeLeft, View.size, View.bytes, hr] at *
  refine ⟨?_, ?_, trivial, ?_⟩
  · rw [hout, slice_take]; simp only [Region.size]; omega
  · rw [hout, slice_length]; omega
  · simp only [Region.size]; omega

/-- a stream that reports nothing left has delivered exactly the bytes of the view -/
theorem c13_stream_complete (v : View) (hw : v.WF) (reqs : List (Nat × Nat))
    (hdone : (v.stream.drain reqs).2.sizeLeft = 0) :
    (v.stream.drain reqs).1 = v.bytes := by
  obtain ⟨h1, _, _, h4⟩ := c13_stream v hw reqs
  have hlen := c13_size v hw
  rw [h1]
  apply List.take_of_length_le
  omega

/-- a read with a non-empty buffer on a stream with bytes left makes progress (so the
    read-until-zero loop of `read_to_end` terminates with `size_left = 0`) -/
theorem c13_read_progress (s : Stream) (hw : s.WF) (n short : Nat) (hn : 0 < n)
    (hl : 0 < s.sizeLeft) : 0 < (s.read n short).1.length :=
  (stream_read_spec s hw n short).2.2.2.2.2.2.2 hn hl

/-- conversions: `From<ByteRegion> for ByteStream` is the same stream as `.stream()`;
    `as_slice` / `From<ByteSlice> for ByteRegion` are the identity on (source, region). -/
theorem c13_conversions (v : View) : Stream.ofRegion v = v.stream := rfl

/-- non-vacuity: a content that does not start at offset 0 of its source, cut twice, streamed with
    uneven and short reads -/
example :
    let v : View := ⟨[1, 2, 3, 4, 5, 6, 7, 8, 9, 10], ⟨3, 9⟩⟩
    v.WF ∧ ValidNested v [(1, 4), (2, 2)] ∧
    ((([(1, 4), (2, 2)] : List (Nat × Nat)).foldl (fun v c => v.cut c.1 c.2) v).bytes = [7, 8]) ∧
    (v.stream.drain [(4, 3), (1, 0), (100, 0)]).1 = [4, 5, 6, 7, 8, 9] ∧
    (v.stream.drain [(4, 3), (1, 0), (100, 0)]).2.sizeLeft = 0 := by
  refine ⟨by simp [View.WF], by simp [ValidNested, Region.CutOk, View.cut, Region.cutRel], by decide, by decide, by decide⟩

/-! ### Tie to the source: region and stream arithmetic are the source's bodies -/

/-- **`Region::cut_rel` and `ByteStream::{size, offset, size_left}` of the model are the bodies
    translated from `bases/types/range.rs` and `reader/byte_stream.rs` on every run.** -/
theorem c13_arithmetic_is_source_arithmetic :
    (∀ (r : Region) (off size : Nat),
      ((r.cutRel off size).b, (r.cutRel off size).e) = Generated.regionCutRel r.b r.e off size) ∧
    (∀ s : Stream, s.sizeLeft = Generated.streamSizeLeft s.r.b s.r.e s.cur) ∧
    (∀ s : Stream, s.size = Generated.streamSize s.r.b s.r.e s.cur) ∧
    (∀ s : Stream, s.offset = Generated.streamOffset s.r.b s.r.e s.cur) :=
  ⟨gen_regionCutRel, gen_streamSizeLeft, gen_streamSize, gen_streamOffset⟩

/-- **A read on a stream asks its source for what the source code asks** (`ByteStream::read`, translated on
    every run): at most the buffer, at most what is left of the region. -/
theorem c13_stream_read_is_source_read (s : Stream) (n short : Nat) :
    let req := Generated.streamReadRequest s.r.b s.r.e s.cur n
    let got := if short = 0 then min req (s.src.length - s.cur) else min short (min req (s.src.length - s.cur))
    s.read n short = (slice s.src s.cur got, { s with cur := s.cur + got }) :=
  gen_streamRead s n short

end Jubako
