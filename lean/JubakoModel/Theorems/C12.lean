/-
C12 — rewriting a pack location changes only that location; the manifest stays valid.

Byte-level statements over the executable model of `tools::set_location` (`setLocationAt`,
Model/Pack.lean) and of the masked manifest check.  `ManifestLayout f h m base infos` (Lemmas/
SetLocation.lean) describes a manifest pack `f`: CRC-valid pack header `h` and manifest header `m`,
and `infos.length` well-formed 256-byte pack-info blocks ending exactly at the check block.  It is
satisfied by every file laid out as the creator does (`ManifestLayout.of_concat`).
-/
import JubakoModel.Lemmas.Rewrite
import JubakoModel.Lemmas.SetLocation
import JubakoModel.Lemmas.FuncsCheck
import JubakoModel.Lemmas.FuncsLookup
import JubakoModel.Lemmas.FuncsManifest
import JubakoModel.Lemmas.FuncsOpen

set_option maxRecDepth 8000

namespace Jubako

/-- **What `set_location` does, on bytes**: for a manifest found at `origin` in any file, naming a
    listed pack splices the re-encoded 256-byte block of the *first* pack info carrying that uuid
    and nothing else; the bytes before the manifest are untouched; the old location is returned.
    Naming a pack that is not listed changes nothing. -/
theorem c12_set_location (file : Bytes) (origin : Nat) (uuid loc : Bytes) (h : PackHeader)
    (m : ManifestHeader) (base : Nat) (infos : List PackInfo)
    (S : ManifestLayout (file.drop origin) h m base infos) (hl : loc.length ≤ Consts.locationPad) :
    setLocationAt file origin uuid loc =
      .ok (file.take origin ++ fileStep base infos (file.drop origin) (uuid, loc), oldLocation infos uuid) :=
  setLocationAt_eq file origin uuid loc h m base infos S hl

theorem c12_unknown_pack (file : Bytes) (origin : Nat) (uuid loc : Bytes) (h : PackHeader)
    (m : ManifestHeader) (base : Nat) (infos : List PackInfo)
    (S : ManifestLayout (file.drop origin) h m base infos)
    (hn : infos.findIdx? (fun p => p.uuid == uuid) = none) :
    setLocationAt file origin uuid loc = .ok (file, none) :=
  setLocationAt_notfound file origin uuid loc h m base infos S hn

/-- **One rewrite, byte level**: length unchanged; bytes change only inside `[38, 256)` of the
    target block (location field + block CRC); the block carries a valid CRC again and decodes to the
    same pack info with the new location; every other pack-info block is untouched; the masked byte
    string hashed by the global check is unchanged. -/
theorem c12_rewrite_one (f : Bytes) (po n : Nat) (infos : List PackInfo) (k : Nat) (loc : Bytes)
    (hm : ManifestAt f po infos) (hn : infos.length = n) (hk : k < infos.length)
    (hw : (infos[k]).WF) (hl : loc.length ≤ Consts.locationPad) :
    let f' := splice f (po + k * 256) (block (setLoc infos[k] loc).encode)
    f'.length = f.length ∧
    (∀ i, (i < po + k * 256 + 38 ∨ po + k * 256 + 256 ≤ i) → f'[i]? = f[i]?) ∧
    readBlock f' (po + k * 256) 252 = .ok (setLoc infos[k] loc).encode ∧
    PackInfo.decode (setLoc infos[k] loc).encode = .ok (setLoc infos[k] loc) ∧
    ManifestAt f' po (infos.set k (setLoc infos[k] loc)) ∧
    manifestMask po n f' = manifestMask po n f :=
  rewrite_one f po n infos k loc hm hn hk hw hl

/-- **Any number of rewrites**: after every history of admissible rewrites the file still holds
    well-formed pack-info blocks decoding to the spec-level result (each location reads back as its
    last write; all other fields and all other packs are unchanged), with unchanged length and
    unchanged masked bytes. -/
theorem c12_histories (po n : Nat) (ops : List (Bytes × Bytes)) (f : Bytes) (infos : List PackInfo)
    (hm : ManifestAt f po infos) (hn : infos.length = n) (hw : ∀ p ∈ infos, p.WF)
    (hl : ∀ op ∈ ops, op.2.length ≤ Consts.locationPad) :
    let r := ops.foldl (fun (st : Bytes × List PackInfo) op => (fileStep po st.2 st.1 op, specStep st.2 op)) (f, infos)
    ManifestAt r.1 po r.2 ∧ r.2 = ops.foldl specStep infos ∧ r.1.length = f.length ∧
    r.2.length = n ∧ (∀ p ∈ r.2, p.WF) ∧ manifestMask po n r.1 = manifestMask po n f :=
  rewrite_histories po n ops f infos hm hn hw hl

/-- **The manifest's global check still verifies**: for every hash function, the verdict of
    `ManifestPack::check` after any history of rewrites is the verdict before it (the CRC-checked
    header and check block are untouched and the masked prefix is identical). -/
theorem c12_check_unchanged (H : Bytes → Bytes) (f : Bytes) (h : PackHeader) (m : ManifestHeader)
    (base : Nat) (infos : List PackInfo) (S : ManifestLayout f h m base infos)
    (ops : List (Bytes × Bytes)) (hl : ∀ op ∈ ops, op.2.length ≤ Consts.locationPad) :
    manifestCheck H (ops.foldl (fun (st : Bytes × List PackInfo) op =>
        (fileStep base st.2 st.1 op, specStep st.2 op)) (f, infos)).1 = manifestCheck H f :=
  manifestCheck_histories H f h m base infos S ops hl

/-- the layout hypothesis is satisfiable by exactly what the creator writes (non-vacuity) -/
example := @ManifestLayout.of_concat

/-! ### Tie to the source -/

/-- the masked check stream under which `c12_check_unchanged` holds is the translated body of
    `ManifestCheckStream::read` (see `c04_check_stream_is_source_stream`) -/
theorem c12_check_stream_is_source_stream (packOff n pos : Nat) (src : Bytes) (req : Nat) :
    checkStreamRead packOff n pos src req =
      (let r := Generated.checkStreamStep packInfoBlockSize packOff (packOff + n * packInfoBlockSize) pos req
       (if r.2 then zeros (src.take r.1).length else src.take r.1, src.drop r.1)) :=
  gen_checkStreamRead packOff n pos src req

/-- **The offsets of the pack infos are the source's**: `PackOffsetsIter::new` / `next`
    (`reader/manifest_pack.rs`, used by `ManifestPack::new` and by `tools::set_location`), translated on every
    run and run until exhaustion, enumerate exactly `packInfosOffset checkInfoPos count + k * 256`, `k < count` —
    the offsets the model reads the pack infos at and rewrites a location at. -/
theorem c12_pack_info_offsets_are_source_offsets (cip count : Nat) :
    drainOffsets packInfoBlockSize (count + 1) (Generated.packOffsetsNew packInfoBlockSize cip count).1
        (Generated.packOffsetsNew packInfoBlockSize cip count).2 =
      (List.range count).map (fun k => packInfosOffset cip count + k * packInfoBlockSize) :=
  gen_packOffsets cip count

/-- **The manifest is opened as the source opens it**: `manifestOpen` of the model agrees with `ManifestPack::new`
    as translated from `reader/manifest_pack.rs` on every run (pack infos at the offsets of the translated
    iterator, directory pack info apart, others in order, value store, the `unwrap()` of the directory info). -/
theorem c12_manifest_open_is_source_open (f : Bytes)
    (hU : ∀ hd h mb m, readBlock f 0 60 = .ok hd → PackHeader.decode hd = .ok h → readBlock f 64 60 = .ok mb →
      ManifestHeader.decode mb = .ok m → m.packCount * packInfoBlockSize ≤ h.checkInfoPos) :
    ((Generated.manifestPackNew
        ((readBlock f 0 60).bind fun hd => PackHeader.decode hd)
        ((readBlock f 64 60).bind fun mb => ManifestHeader.decode mb)
        (fun h m => (List.range m.packCount).map (fun k => packInfosOffset h.checkInfoPos m.packCount + k * packInfoBlockSize))
        (fun off => (readBlock f off 252).bind fun pb => PackInfo.decode pb)
        (fun so => valueStoreOpen f so)).map' (fun r => (r.1, r.2.1, r.2.2.1, r.2.2.2.1))).Same
      ((manifestOpen f).bind fun r =>
        match (r.2.2.filter isDir).getLast? with
        | some d => .ok (r.1, r.2.1, d, r.2.2.filter (fun i => !isDir i))
        | none => .panic "") :=
  gen_manifestOpen f hU

/-- **The pack info `set_location` rewrites is parsed as the source parses it**: `PackInfo::parse` translated on
    every run equals `PackInfo.decode` on every 252-byte block — in particular the location is the p-string at
    offset 38 of the block and the rest of its 213-byte field is skipped, whatever its length up to 213. -/
theorem c12_pack_info_parser_is_source_parser (bs : Bytes) (h252 : bs.length = 252) :
    (Generated.packInfoParse bs).map' (fun r => tupleToInfo r.1) = PackInfo.decode bs :=
  gen_packInfoParse bs h252

end Jubako
