/-
C06 — reading a damaged or truncated file returns a value or an error, never crashes.

What is proved here is the part of the reader that faces *arbitrary* bytes with no checksum in
front of it — exactly where the two crash families of the pinned code lived (D10: files shorter
than a header / truncated files; D11: damaged compressed payloads, see Theorems/C07.lean for the
decoder protocol): for **every** byte string, the blind open (header at 0, mirrored tail, container
pack framing, every locator) yields a value or an error in the model of the repaired code.
Below that layer every decision is taken on bytes that passed a CRC; the outcome classes of the
whole reader on damaged files are compared with the implementation's by the correspondence
(`ct.read`), in debug and release builds.
-/
import JubakoModel.Model.Container
import JubakoModel.Lemmas.DamageFile
import JubakoModel.Lemmas.FuncsSync
import JubakoModel.Lemmas.FuncsParse
import JubakoModel.Lemmas.NoCrash
import JubakoModel.Lemmas.FuncsOpen
import JubakoModel.Lemmas.FuncsCluster

namespace Jubako

theorem openHeader_no_crash (f : Bytes) (k : PackKind) : (openHeader f k).isValueOrError = true := by
  unfold openHeader
  apply bind_no_crash' _ _ (readBlock_no_crash _ _ _)
  intro hd
  apply bind_no_crash' _ _ (packHeader_decode_no_crash _)
  intro h
  split <;> rfl

theorem foldlM_no_crash {α β} (l : List α) (f : β → α → Outcome β) (init : β)
    (hf : ∀ b a, (f b a).isValueOrError = true) : (l.foldlM f init).isValueOrError = true := by
  induction l generalizing init with
  | nil => rfl
  | cons x xs ih =>
    simp only [List.foldlM_cons]
    exact bind_no_crash' _ _ (hf init x) (fun b => ih b)

theorem containerHeader_decode_no_crash (bs : Bytes) : (ContainerHeader.decode bs).isValueOrError = true := by
  unfold ContainerHeader.decode; split <;> rfl

theorem packLocator_decode_no_crash (bs : Bytes) : (PackLocator.decode bs).isValueOrError = true := by
  unfold PackLocator.decode; split <;> rfl

/-- container-pack framing on arbitrary bytes -/
theorem containerPackOpen_no_crash (f : Bytes) (origin size : Nat) :
    (containerPackOpen f origin size).isValueOrError = true := by
  unfold containerPackOpen
  apply bind_no_crash' _ _ (openHeader_no_crash _ _)
  intro h
  apply bind_no_crash' _ _ (readBlock_no_crash _ _ _)
  intro cb
  apply bind_no_crash' _ _ (containerHeader_decode_no_crash _)
  intro ch
  apply foldlM_no_crash
  intro acc k
  apply bind_no_crash' _ _ (readBlock_no_crash _ _ _)
  intro lb
  apply bind_no_crash' _ _ (packLocator_decode_no_crash _)
  intro l
  split <;> rfl

theorem map'_no_crash {α β} (x : Outcome α) (g : α → β) (h : x.isValueOrError = true) :
    (x.map' g).isValueOrError = true := by
  cases x <;> simp_all [Outcome.map', Outcome.isValueOrError]

/-- continuing only on success preserves "value or error" -/
theorem located_no_crash {β} (located : Outcome (PackHeader × Nat)) (hl : located.isValueOrError = true)
    (g : PackHeader → Nat → Outcome β) (hg : ∀ h o, (g h o).isValueOrError = true) :
    (match located with
      | .ok (h, origin) => g h origin
      | .err k => .err k
      | .panic s => .panic s
      | .hang => .hang
      | .fault => .fault).isValueOrError = true := by
  cases located with
  | ok a => obtain ⟨h, o⟩ := a; exact hg h o
  | err k => rfl
  | panic s => simp [Outcome.isValueOrError] at hl
  | hang => simp [Outcome.isValueOrError] at hl
  | fault => simp [Outcome.isValueOrError] at hl

/-- the search for the header (offset 0, else mirrored tail) never crashes -/
theorem headerSearch_no_crash (f : Bytes) :
    (match (do let hd ← readBlock f 0 60; PackHeader.decode hd : Outcome PackHeader) with
      | .ok h => (.ok (h, 0) : Outcome (PackHeader × Nat))
      | e =>
        if f.length < 64 then e.map' (fun h => (h, 0))
        else do
          let tail := (slice f (f.length - 64) 64).reverse
          let hd ← readBlock tail 0 60
          let h ← PackHeader.decode hd
          if f.length < h.packSize then .err .format
          else .ok (h, f.length - h.packSize)).isValueOrError = true := by
  have hr : (do let hd ← readBlock f 0 60; PackHeader.decode hd : Outcome PackHeader).isValueOrError = true :=
    bind_no_crash' _ _ (readBlock_no_crash _ _ _) (fun _ => packHeader_decode_no_crash _)
  generalize (do let hd ← readBlock f 0 60; PackHeader.decode hd : Outcome PackHeader) = r at hr
  have htail : (do
          let tail := (slice f (f.length - 64) 64).reverse
          let hd ← readBlock tail 0 60
          let h ← PackHeader.decode hd
          if f.length < h.packSize then (.err .format : Outcome (PackHeader × Nat))
          else .ok (h, f.length - h.packSize)).isValueOrError = true := by
    apply bind_no_crash' _ _ (readBlock_no_crash _ _ _)
    intro hd
    apply bind_no_crash' _ _ (packHeader_decode_no_crash _)
    intro h
    split <;> rfl
  cases r with
  | ok h => rfl
  | err k => simp only; split; rfl; exact htail
  | panic s => simp [Outcome.isValueOrError] at hr
  | hang => simp [Outcome.isValueOrError] at hr
  | fault => simp [Outcome.isValueOrError] at hr

/-- **Blind open never crashes**: for every byte string — empty, shorter than a header, random,
    truncated at any length, a valid file with any damage — `open_as_container_pack` (repaired
    code) returns a list of packs or an error. -/
theorem c06_blindOpen_no_crash (f : Bytes) : (blindOpen f).isValueOrError = true := by
  unfold blindOpen
  simp only
  split
  · rfl
  · apply located_no_crash _ (headerSearch_no_crash f)
    intro h o
    split
    · split
      · exact containerPackOpen_no_crash _ _ _
      · rfl
    · rfl

/-- … hence locating a pack through the file system (`FsLocator`) never crashes either, whatever
    files the directory holds -/
theorem c06_fsLocate_no_crash (fs : FS) (u : Bytes) (loc : String) :
    (fsLocate fs u loc).isValueOrError = true := by
  unfold fsLocate
  split
  · rfl
  · split
    · rfl
    · exact bind_no_crash' _ _ (c06_blindOpen_no_crash _) (fun _ => rfl)

/-- non-vacuity / witnesses of the repaired behaviour: the inputs that crashed the pinned code -/
example : (blindOpen []).isValueOrError = true ∧ (blindOpen []).isOk = false := by decide
example : (blindOpen (List.replicate 59 7)).isOk = false := by decide
example : (blindOpen (List.replicate 63 0)).isValueOrError = true := c06_blindOpen_no_crash _

/-! ### File level: every read of a damaged copy of a written pack ends with a value or an error

Damaged copies (`BlocksAgree`, Lemmas/Damage.lean) include — with no side condition — every
truncation, every extension with garbage and every alteration within 4 consecutive bytes.  The
reader model contains the panic sites of the Rust reader that sit *behind* a CRC (unchecked
subtractions on stored offsets, `todo!()` on unknown kinds, index out of bounds …); the theorems
show none of them is reachable from a damaged copy of a file the creator wrote: the run on the
damaged copy follows the run on the original block for block until a block fails its check. -/

/-- **Directory pack**: reading any stored entry out of any damaged copy never crashes -/
theorem c06_file_directory_no_crash (H : Bytes → Bytes) (vendor uuid freeData : Bytes) (d : DirIn)
    (hwf : d.WF) (hl : d.Limits H vendor uuid freeData) (g : Bytes)
    (hD : BlocksAgree (dirPackWrite H vendor uuid freeData d) g) (i : Nat) (hi : i < d.entries.length) :
    (dirGetEntry g 0 i).isValueOrError = true := by
  rcases dirGetEntry_damaged H vendor uuid freeData d hwf hl g hD i hi with h | ⟨k, h⟩ <;> rw [h] <;> rfl

/-- … in particular out of the file truncated at any length … -/
theorem c06_file_directory_truncated (H : Bytes → Bytes) (vendor uuid freeData : Bytes) (d : DirIn)
    (hwf : d.WF) (hl : d.Limits H vendor uuid freeData) (n : Nat) (i : Nat) (hi : i < d.entries.length) :
    (dirGetEntry ((dirPackWrite H vendor uuid freeData d).take n) 0 i).isValueOrError = true :=
  c06_file_directory_no_crash H vendor uuid freeData d hwf hl _ (blocksAgree_take _ n) i hi

/-- … extended with any garbage … -/
theorem c06_file_directory_extended (H : Bytes → Bytes) (vendor uuid freeData : Bytes) (d : DirIn)
    (hwf : d.WF) (hl : d.Limits H vendor uuid freeData) (junk : Bytes) (i : Nat) (hi : i < d.entries.length) :
    (dirGetEntry (dirPackWrite H vendor uuid freeData d ++ junk) 0 i).isValueOrError = true :=
  c06_file_directory_no_crash H vendor uuid freeData d hwf hl _ (blocksAgree_append _ junk) i hi

/-- … or with any one byte overwritten -/
theorem c06_file_directory_single_byte (H : Bytes → Bytes) (vendor uuid freeData : Bytes) (d : DirIn)
    (hwf : d.WF) (hl : d.Limits H vendor uuid freeData) (pos : Nat) (b : UInt8) (i : Nat)
    (hi : i < d.entries.length) :
    (dirGetEntry ((dirPackWrite H vendor uuid freeData d).set pos b) 0 i).isValueOrError = true := by
  apply c06_file_directory_no_crash H vendor uuid freeData d hwf hl _ _ i hi
  apply blocksAgree_window4 _ _ pos
  intro k hk
  rw [List.getElem?_set_ne (by omega)]

/-- **Content pack**: reading any content id — stored or past the end — out of any damaged copy
    never crashes, whatever the decoder delivers for a damaged compressed payload (repaired decoder
    protocol, D11: an error or a short output reaches the reader as an I/O error) -/
theorem c06_file_content_no_crash (H : Bytes → Bytes) (codec : Codec) (hcodec : codec.Sound)
    (hbyte : codec.byte ≤ 3) (m : ContentPackMeta) (hm : m.WF)
    (items : List Item) (arrival : List Cluster)
    (hp : arrival.Perm ((Creator.init.addAll items).finalize).1)
    (hcomp : codec.byte = 0 → ∀ it ∈ items, it.comp = false)
    (hcount : items.length < 2 ^ 32) (hncl : arrival.length ≤ 2 ^ 20)
    (hdata : totalSize items < 2 ^ 64)
    (hsize : (contentPackWrite H codec m arrival ((Creator.init.addAll items).finalize).2).length < 2 ^ 48)
    (g : Bytes)
    (hD : BlocksAgree (contentPackWrite H codec m arrival ((Creator.init.addAll items).finalize).2) g)
    (i : Nat) : (contentGet codec.decompress' g i).isValueOrError = true := by
  by_cases hi : i < items.length
  · rcases contentGet_damaged H codec hcodec hbyte m hm items arrival hp hcomp hcount hncl hdata hsize g hD i hi
      with ⟨b, h, _⟩ | ⟨k, h⟩ <;> rw [h] <;> rfl
  · rcases contentGet_damaged_none H codec m hm items arrival hcount hncl hsize g hD i (by omega)
      with h | ⟨k, h⟩ <;> rw [h] <;> rfl

/-- the same for any damaged copy of any file on which the manifest reader succeeds -/
theorem c06_manifest_no_crash (f g : Bytes) (hD : BlocksAgree f g)
    (v : PackHeader × ManifestHeader × List PackInfo) (hf : manifestOpen f = .ok v) :
    (manifestOpen g).isValueOrError = true :=
  (manifestOpen_follows hD).no_crash v hf

/-- non-vacuity: the example content pack of Lemmas/ContentFile.lean truncated at any length -/
example (n i : Nat) :
    (contentGet ContentFileExample.codec.decompress'
      ((contentPackWrite ContentFileExample.hash ContentFileExample.codec ContentFileExample.pmeta
        ContentFileExample.arrival ((Creator.init.addAll ContentFileExample.items).finalize).2).take n)
      i).isValueOrError = true :=
  c06_file_content_no_crash _ _ ContentFileExample.codec_sound (by decide) _ ContentFileExample.pmeta_wf _ _
    ContentFileExample.arrival_perm (by decide) (by decide) (by decide) (by decide)
    ContentFileExample.size_ok _ (blocksAgree_take _ n) i

/-- the decoder protocol under which no reader is left waiting (`c07_progress`, failure included) is the
    statement sequence of `decode_to_end` extracted from the source on every run: on a failing read the
    failure is recorded under the lock, every waiter is notified, and the decoder stops -/
theorem c06_decoder_protocol_is_source_protocol :
    Generated.svDecoderLoopShape = decoderTurnStmts ∧ Generated.svDecoderOkShape = decoderPublishStmts ∧
    Generated.svDecoderErrShape = decoderFailStmts :=
  gen_svShapes

theorem same_isValueOrError {α : Type} (a b : Outcome α) (h : a.Same b) : a.isValueOrError = b.isValueOrError := by
  cases a <;> cases b <;> simp_all [Outcome.Same, Outcome.erase, Outcome.isValueOrError]

theorem map'_isValueOrError {α β : Type} (a : Outcome α) (g : α → β) : (a.map' g).isValueOrError = a.isValueOrError := by
  cases a <;> rfl

/-- **The model's classification of property-header bytes into "value or error" and "crash" is the source's**:
    `RawProperty::parse` translated on every run answers a value or an error exactly on the byte strings on
    which `RawProp.decode` does (the two panics of the source — `todo!()` for the type nibble `0b0100`,
    `array_len_size.unwrap()` for a default array without length field — are where the model has them; they
    sit behind the CRC of the entry-store tail, see the runner). -/
theorem c06_property_parser_crashes_where_source_does (bs : Bytes) :
    (Generated.rawPropertyParse bs).isValueOrError = (RawProp.decode bs).isValueOrError := by
  rw [same_isValueOrError _ _ (gen_rawPropertyParse bs), map'_isValueOrError]

/-- **The blind open whose totality `c06_blindOpen_no_crash` proves is the source's**: `blindOpen` is
    `open_as_container_pack` as translated from `reader/jubako.rs` on every run, applied to the model's header
    parses, cut and container-pack open. -/
theorem c06_blind_open_is_source_open (f : Bytes) :
    blindOpen f =
      Generated.openAsContainerPack f.length
        (if f.length < 60 then .err .format else PackHeader.decode (f.take 60))
        (do let hd ← readBlock f 0 60; PackHeader.decode hd)
        (do let hd ← readBlock (slice f (f.length - 64) 64).reverse 0 60; PackHeader.decode hd)
        (fun origin size => if origin + size ≤ f.length then .ok (origin, size) else .err .format)
        (fun r => containerPackOpen f r.1 r.2)
        (fun r uuid => [⟨uuid, r.1, r.2⟩]) :=
  gen_blindOpen f

/-- **The header decoder whose totality `packHeader_decode_no_crash` proves is the source's**: `PackHeader::parse`
    translated on every run equals `PackHeader.decode` on every 60-byte block. -/
theorem c06_pack_header_parser_is_source_parser (bs : Bytes) (h60 : bs.length = 60) :
    (Generated.packHeaderParse bs).map' (fun r => tupleToHeader r.1) = PackHeader.decode bs :=
  gen_packHeaderParse bs h60

/-- **The one reachable `todo!()` of the entry-store reader is where the model has it**: `EntryStoreBuilder::parse`
    with `StoreKind::parse`, translated on every run, on the tail block of an entry store: kind 0 then the layout;
    kinds 1 and 2 panic (`todo!()`); any other kind is a format error — `modelEntryTail`, the part of
    `entryStoreOpen` that looks at the tail (`entryStoreOpen_tail`). The kind byte sits behind the CRC of the tail
    block. -/
theorem c06_entry_store_tail_is_source_tail (f : Bytes) (so : Nat × Nat) (tb : Bytes) :
    ((Generated.entryStoreBuilderParse tb (fun bs => (Layout.decode bs).map' (fun l => (l, ([] : Bytes))))).map' (·.1)).Same
        (modelEntryTail tb) ∧
    entryStoreOpen f so =
      (readBlock f so.1 so.2).bind fun tb => (modelEntryTail tb).bind fun l =>
        if l.checked then
          let ds := l.entryCount * (l.entrySize + 4)
          if so.1 < ds then .panic "offset.rs: subtraction underflow"
          else if so.1 ≤ f.length then .ok (l, slice f (so.1 - ds) ds) else .err .format
        else
          let ds := l.entryCount * l.entrySize
          if so.1 < ds + 4 then .panic "offset.rs: subtraction underflow"
          else (readBlock f (so.1 - ds - 4) ds).bind fun d => .ok (l, d) :=
  ⟨gen_entryStoreBuilderParse tb, entryStoreOpen_tail f so⟩

end Jubako
