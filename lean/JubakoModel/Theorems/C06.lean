/-
C06 — reading a damaged or truncated file returns a value or an error, never crashes.

What is proved here is the part of the reader that faces *arbitrary* bytes with no checksum in
front of it — exactly where the two crash families of the pinned code lived (D10: files shorter
than a header / truncated files; D11: damaged compressed payloads, see Theorems/C07.lean for the
decoder protocol): for **every** byte string, the blind open (header at 0, mirrored tail, container
pack framing, every locator) yields a value or an error in the model of the repaired code.
Below that layer every decision is taken on bytes that passed a CRC; the outcome classes of the
whole reader on damaged files are compared with the implementation's by the correspondence
(`ct.read`), in debug and release builds.
-/
import JubakoModel.Model.Container

namespace Jubako

theorem readBlock_no_crash (f : Bytes) (off n : Nat) : (readBlock f off n).isValueOrError = true := by
  unfold readBlock
  by_cases h : off + n + 4 ≤ f.length
  · rw [if_pos h]
    by_cases hc : checkBlock (slice f off (n + 4)) = true
    · simp [hc, Outcome.isValueOrError]
    · simp [hc, Outcome.isValueOrError]
  · rw [if_neg h]; rfl

theorem packHeader_decode_no_crash (bs : Bytes) : (PackHeader.decode bs).isValueOrError = true := by
  unfold PackHeader.decode
  by_cases h1 : bs.length < 60
  · rw [if_pos h1]; rfl
  · rw [if_neg h1]
    by_cases h2 : bs.take 3 ≠ [106, 98, 107]
    · rw [if_pos h2]; rfl
    · rw [if_neg h2]
      cases PackKind.ofByte (bs.getD 3 0) with
      | none => rfl
      | some k =>
        simp only
        split <;> rfl

theorem bind_no_crash {α β} (x : Outcome α) (f : α → Outcome β) (hx : x.isValueOrError = true)
    (hf : ∀ a, (f a).isValueOrError = true) : (x.bind f).isValueOrError = true := by
  cases x <;> simp_all [Outcome.bind, Outcome.isValueOrError]

theorem bind_no_crash' {α β} (x : Outcome α) (f : α → Outcome β) (hx : x.isValueOrError = true)
    (hf : ∀ a, (f a).isValueOrError = true) : (x >>= f).isValueOrError = true :=
  bind_no_crash x f hx hf

theorem openHeader_no_crash (f : Bytes) (k : PackKind) : (openHeader f k).isValueOrError = true := by
  unfold openHeader
  apply bind_no_crash' _ _ (readBlock_no_crash _ _ _)
  intro hd
  apply bind_no_crash' _ _ (packHeader_decode_no_crash _)
  intro h
  split <;> rfl

theorem foldlM_no_crash {α β} (l : List α) (f : β → α → Outcome β) (init : β)
    (hf : ∀ b a, (f b a).isValueOrError = true) : (l.foldlM f init).isValueOrError = true := by
  induction l generalizing init with
  | nil => rfl
  | cons x xs ih =>
    simp only [List.foldlM_cons]
    exact bind_no_crash' _ _ (hf init x) (fun b => ih b)

theorem containerHeader_decode_no_crash (bs : Bytes) : (ContainerHeader.decode bs).isValueOrError = true := by
  unfold ContainerHeader.decode; split <;> rfl

theorem packLocator_decode_no_crash (bs : Bytes) : (PackLocator.decode bs).isValueOrError = true := by
  unfold PackLocator.decode; split <;> rfl

/-- container-pack framing on arbitrary bytes -/
theorem containerPackOpen_no_crash (f : Bytes) (origin size : Nat) :
    (containerPackOpen f origin size).isValueOrError = true := by
  unfold containerPackOpen
  apply bind_no_crash' _ _ (openHeader_no_crash _ _)
  intro h
  apply bind_no_crash' _ _ (readBlock_no_crash _ _ _)
  intro cb
  apply bind_no_crash' _ _ (containerHeader_decode_no_crash _)
  intro ch
  apply foldlM_no_crash
  intro acc k
  apply bind_no_crash' _ _ (readBlock_no_crash _ _ _)
  intro lb
  apply bind_no_crash' _ _ (packLocator_decode_no_crash _)
  intro l
  split <;> rfl

theorem map'_no_crash {α β} (x : Outcome α) (g : α → β) (h : x.isValueOrError = true) :
    (x.map' g).isValueOrError = true := by
  cases x <;> simp_all [Outcome.map', Outcome.isValueOrError]

/-- continuing only on success preserves "value or error" -/
theorem located_no_crash {β} (located : Outcome (PackHeader × Nat)) (hl : located.isValueOrError = true)
    (g : PackHeader → Nat → Outcome β) (hg : ∀ h o, (g h o).isValueOrError = true) :
    (match located with
      | .ok (h, origin) => g h origin
      | .err k => .err k
      | .panic s => .panic s
      | .hang => .hang
      | .fault => .fault).isValueOrError = true := by
  cases located with
  | ok a => obtain ⟨h, o⟩ := a; exact hg h o
  | err k => rfl
  | panic s => simp [Outcome.isValueOrError] at hl
  | hang => simp [Outcome.isValueOrError] at hl
  | fault => simp [Outcome.isValueOrError] at hl

/-- the search for the header (offset 0, else mirrored tail) never crashes -/
theorem headerSearch_no_crash (f : Bytes) :
    (match (do let hd ← readBlock f 0 60; PackHeader.decode hd : Outcome PackHeader) with
      | .ok h => (.ok (h, 0) : Outcome (PackHeader × Nat))
      | e =>
        if f.length < 64 then e.map' (fun h => (h, 0))
        else do
          let tail := (slice f (f.length - 64) 64).reverse
          let hd ← readBlock tail 0 60
          let h ← PackHeader.decode hd
          if f.length < h.packSize then .err .format
          else .ok (h, f.length - h.packSize)).isValueOrError = true := by
  have hr : (do let hd ← readBlock f 0 60; PackHeader.decode hd : Outcome PackHeader).isValueOrError = true :=
    bind_no_crash' _ _ (readBlock_no_crash _ _ _) (fun _ => packHeader_decode_no_crash _)
  generalize (do let hd ← readBlock f 0 60; PackHeader.decode hd : Outcome PackHeader) = r at hr
  have htail : (do
          let tail := (slice f (f.length - 64) 64).reverse
          let hd ← readBlock tail 0 60
          let h ← PackHeader.decode hd
          if f.length < h.packSize then (.err .format : Outcome (PackHeader × Nat))
          else .ok (h, f.length - h.packSize)).isValueOrError = true := by
    apply bind_no_crash' _ _ (readBlock_no_crash _ _ _)
    intro hd
    apply bind_no_crash' _ _ (packHeader_decode_no_crash _)
    intro h
    split <;> rfl
  cases r with
  | ok h => rfl
  | err k => simp only; split; rfl; exact htail
  | panic s => simp [Outcome.isValueOrError] at hr
  | hang => simp [Outcome.isValueOrError] at hr
  | fault => simp [Outcome.isValueOrError] at hr

/-- **Blind open never crashes**: for every byte string — empty, shorter than a header, random,
    truncated at any length, a valid file with any damage — `open_as_container_pack` (repaired
    code) returns a list of packs or an error. -/
theorem c06_blindOpen_no_crash (f : Bytes) : (blindOpen f).isValueOrError = true := by
  unfold blindOpen
  simp only
  split
  · rfl
  · apply located_no_crash _ (headerSearch_no_crash f)
    intro h o
    split
    · split
      · exact containerPackOpen_no_crash _ _ _
      · rfl
    · rfl

/-- … hence locating a pack through the file system (`FsLocator`) never crashes either, whatever
    files the directory holds -/
theorem c06_fsLocate_no_crash (fs : FS) (u : Bytes) (loc : String) :
    (fsLocate fs u loc).isValueOrError = true := by
  unfold fsLocate
  split
  · rfl
  · split
    · rfl
    · exact bind_no_crash' _ _ (c06_blindOpen_no_crash _) (fun _ => rfl)

/-- non-vacuity / witnesses of the repaired behaviour: the inputs that crashed the pinned code -/
example : (blindOpen []).isValueOrError = true ∧ (blindOpen []).isOk = false := by decide
example : (blindOpen (List.replicate 59 7)).isOk = false := by decide
example : (blindOpen (List.replicate 63 0)).isValueOrError = true := c06_blindOpen_no_crash _

end Jubako
