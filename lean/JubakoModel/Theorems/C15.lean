/-
C15 — references between entries resolve to the referenced entry's final position.
-/
import JubakoModel.Model.Refs
import JubakoModel.Lemmas.Codec

namespace Jubako

/-- invariant: the cells hold the positions of the current order -/
def CellsOk (s : FinSt) : Prop := ∀ e, s.cells e = s.order.idxOf e

theorem cellsOk_after_setIdx (s : FinSt) : CellsOk (s.step .setIdx) := by
  intro e; rfl

/-- running `finalize`'s step sequence, whatever each sort pass returns, leaves the cells equal to
    the positions in the final order, and the final order is the result of the last pass (or the
    insertion order when the store is not sorted) -/
theorem finalize_cells (order0 : List Nat) (cells0 : Cells) (passes : List (List Nat)) :
    let s := (FinSt.mk order0 cells0).run (finalizeSteps passes)
    CellsOk s ∧ s.order = passes.getLastD order0 := by
  simp only [FinSt.run, finalizeSteps, List.foldl_cons]
  have key : ∀ (passes : List (List Nat)) (s : FinSt), CellsOk s →
      CellsOk ((passes.map (fun p => [FinStep.sort p, FinStep.setIdx])).flatten.foldl FinSt.step s) ∧
      ((passes.map (fun p => [FinStep.sort p, FinStep.setIdx])).flatten.foldl FinSt.step s).order
        = passes.getLastD s.order := by
    intro passes
    induction passes with
    | nil => intro s h; exact ⟨h, rfl⟩
    | cons p rest ih =>
      intro s _
      simp only [List.map_cons, List.flatten_cons, List.cons_append, List.nil_append, List.foldl_cons]
      have h1 : CellsOk ((s.step (.sort p)).step .setIdx) := cellsOk_after_setIdx _
      obtain ⟨a, b⟩ := ih ((s.step (.sort p)).step .setIdx) h1
      refine ⟨a, ?_⟩
      rw [b]
      cases rest with
      | nil => rfl
      | cons q qs => simp [List.getLastD, FinSt.step]
  exact key passes ((FinSt.mk order0 cells0).step .setIdx) (cellsOk_after_setIdx _)

/-- **Handles and references**, for every reference graph and every outcome of the sort passes:
    once `finalize` has run, (1) the handle returned when entry `e` was added reports `e`'s final
    position; (2) a property of any entry bound to entry `t` reads — both when columns are sized
    and when entries are serialised, since no step runs in between — `t`'s final position; this
    holds for forward, backward and self references and chains alike, because it does not depend
    on who refers to whom. -/
theorem c15_refs (order0 : List Nat) (cells0 : Cells) (passes : List (List Nat))
    (refs : Nat → Option Nat) :
    let s := (FinSt.mk order0 cells0).run (finalizeSteps passes)
    let final := passes.getLastD order0
    (∀ e, s.cells e = final.idxOf e) ∧
    (∀ e t, refs e = some t → refValue s.cells t = final.idxOf t) := by
  obtain ⟨h1, h2⟩ := finalize_cells order0 cells0 passes
  simp only at h1 h2 ⊢
  constructor
  · intro e; rw [h1 e, h2]
  · intro e t _; simp only [refValue]; rw [h1 t, h2]

/-- positions of distinct entries of the final order are distinct and below the entry count -/
theorem c15_positions (final : List Nat) (hn : final.Nodup) (e : Nat) (he : e ∈ final) :
    final.idxOf e < final.length ∧ final[final.idxOf e]? = some e := by
  have h := List.idxOf_lt_length_iff.mpr he
  exact ⟨h, by simp [List.getElem?_eq_getElem h]⟩

/-- the reference column is sized from the stored positions: every stored reference fits the
    column width `needed_bytes(max position)` -/
theorem c15_width (positions : List Nat) (p : Nat) (hp : p ∈ positions) :
    leNat (leBytes p (neededBytes (listMax positions))) = p := by
  have hle : p ≤ listMax positions := by
    unfold listMax
    have gen : ∀ (l : List Nat) (acc : Nat), (p ≤ acc ∨ p ∈ l) → p ≤ l.foldl max acc := by
      intro l
      induction l with
      | nil => intro acc h; rcases h with h | h; exact h; cases h
      | cons x xs ih =>
        intro acc h
        simp only [List.foldl_cons]
        apply ih
        rcases h with h | h
        · left; omega
        · rcases List.mem_cons.mp h with h | h
          · left; omega
          · right; exact h
    exact gen positions 0 (Or.inr hp)
  apply leNat_leBytes_of_lt
  have := (neededBytes_spec (listMax positions)).1
  omega

/-- non-vacuity: three entries, a sort that reverses them, self / forward / backward references -/
example :
    let s := (FinSt.mk [0, 1, 2] (fun _ => 0)).run (finalizeSteps [[2, 1, 0]])
    s.cells 0 = 2 ∧ s.cells 1 = 1 ∧ s.cells 2 = 0 ∧ refValue s.cells 2 = 0 := by
  decide

end Jubako
