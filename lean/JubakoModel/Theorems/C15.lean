/-
C15 — references between entries resolve to the referenced entry's final position.
-/
import JubakoModel.Model.Refs
import JubakoModel.Lemmas.Codec
import JubakoModel.Lemmas.Refs
import JubakoModel.Lemmas.MultiStore
import JubakoModel.Lemmas.FuncsStats
import JubakoModel.Lemmas.FuncsEntry
import JubakoModel.Lemmas.FuncsRefs

namespace Jubako

/-- **Handles and references**, for every reference graph and every outcome of the sort passes:
    once `finalize` has run, (1) the handle returned when entry `e` was added reports `e`'s final
    position; (2) a property of any entry bound to entry `t` reads — both when columns are sized
    and when entries are serialised, since no step runs in between — `t`'s final position; this
    holds for forward, backward and self references and chains alike, because it does not depend
    on who refers to whom. -/
theorem c15_refs (order0 : List Nat) (cells0 : Cells) (passes : List (List Nat))
    (refs : Nat → Option Nat) :
    let s := (FinSt.mk order0 cells0).run (finalizeSteps passes)
    let final := passes.getLastD order0
    (∀ e, s.cells e = final.idxOf e) ∧
    (∀ e t, refs e = some t → refValue s.cells t = final.idxOf t) := by
  obtain ⟨h1, h2⟩ := finalize_cells order0 cells0 passes
  simp only at h1 h2 ⊢
  constructor
  · intro e; rw [h1 e, h2]
  · intro e t _; simp only [refValue]; rw [h1 t, h2]

/-- positions of distinct entries of the final order are distinct and below the entry count -/
theorem c15_positions (final : List Nat) (hn : final.Nodup) (e : Nat) (he : e ∈ final) :
    final.idxOf e < final.length ∧ final[final.idxOf e]? = some e := by
  have h := List.idxOf_lt_length_iff.mpr he
  exact ⟨h, by simp [List.getElem?_eq_getElem h]⟩

/-- the reference column is sized from the stored positions: every stored reference fits the
    column width `needed_bytes(max position)` -/
theorem c15_width (positions : List Nat) (p : Nat) (hp : p ∈ positions) :
    leNat (leBytes p (neededBytes (listMax positions))) = p := by
  have hle : p ≤ listMax positions := by
    unfold listMax
    have gen : ∀ (l : List Nat) (acc : Nat), (p ≤ acc ∨ p ∈ l) → p ≤ l.foldl max acc := by
      intro l
      induction l with
      | nil => intro acc h; rcases h with h | h; exact h; cases h
      | cons x xs ih =>
        intro acc h
        simp only [List.foldl_cons]
        apply ih
        rcases h with h | h
        · left; omega
        · rcases List.mem_cons.mp h with h | h
          · left; omega
          · right; exact h
    exact gen positions 0 (Or.inr hp)
  apply leNat_leBytes_of_lt
  have := (neededBytes_spec (listMax positions)).1
  omega

/-! ### File level

`DirRefIn` (Model/Refs.lean) is the writer's input with deferred values: entries in insertion order,
each value plain or a reference to the entry added as number `t`.  `d.finalize passes` is what
`EntryStore::finalize` and the serialisation make of it for an arbitrary outcome `passes` of the
sort passes (empty: unsorted store); `dirPackWrite` / `dirGetEntry` are the file-level writer and
reader of C02. -/

/-- **References at file level.**  For every input with deferred values, every outcome of the sort
    passes whose final order is a permutation of the entries, provided the finalised input is
    well formed and within the format limits (as in `c02_file_roundtrip`): for every entry `e`
    (by insertion number)
    * the handle returned by `add_entry` reports `pos`, the position of `e` in the final order;
    * decoding entry `pos` out of the *bytes of the written pack* gives `e`'s variant and values,
      where every reference to an entry `t` reads as the final position of `t` — forward,
      backward, self references and chains alike, sorted or not. -/
theorem c15_file_refs (H : Bytes → Bytes) (vendor uuid freeData : Bytes) (d : DirRefIn)
    (passes : List (List Nat))
    (hperm : (d.finalOrder passes).Perm (List.range d.entries.length))
    (hwf : (d.finalize passes).WF) (hl : (d.finalize passes).Limits H vendor uuid freeData)
    (e : Nat) (he : e < d.entries.length) :
    let pos := (d.finalOrder passes).idxOf e
    d.boundOf passes e = pos ∧ pos < d.entries.length ∧
    dirGetEntry (dirPackWrite H vendor uuid freeData (d.finalize passes)) 0 pos =
      .ok (expectedEntry d.schema (d.entries[e].resolve (fun t => (d.finalOrder passes).idxOf t))) := by
  obtain ⟨hlen, hget⟩ := d.finalize_entries passes hperm
  obtain ⟨hpos, hent⟩ := hget e he
  refine ⟨d.boundOf_eq passes e, hpos, ?_⟩
  have hi : (d.finalOrder passes).idxOf e < (d.finalize passes).entries.length := by rw [hlen]; exact hpos
  have := dirGetEntry_dirPackWrite H vendor uuid freeData (d.finalize passes) hwf hl _ hi
  rw [this]
  have h2 : (d.finalize passes).entries[(d.finalOrder passes).idxOf e] =
      d.entries[e].resolve (fun t => (d.finalOrder passes).idxOf t) := by
    have := List.getElem?_eq_getElem hi
    rw [hent] at this
    exact (Option.some.inj this).symm
  rw [h2]
  rfl

/-- … in particular the `j`-th value of the stored entry, when it was given as a reference to the
    entry added as number `t`, is the unsigned integer `final position of t` -/
theorem c15_file_ref_value (d : DirRefIn) (passes : List (List Nat)) (e j t : Nat)
    (he : e < d.entries.length) (hj : d.entries[e].values[j]? = some (.ref t)) :
    (d.entries[e].resolve (fun x => (d.finalOrder passes).idxOf x)).values[j]? =
      some (.u ((d.finalOrder passes).idxOf t)) := by
  simp [EntryRefIn.resolve, hj, ValIn.resolve, refValue]

/-- non-vacuity: three entries, a sort that reverses them, self / forward / backward references -/
example :
    let s := (FinSt.mk [0, 1, 2] (fun _ => 0)).run (finalizeSteps [[2, 1, 0]])
    s.cells 0 = 2 ∧ s.cells 1 = 1 ∧ s.cells 2 = 0 ∧ refValue s.cells 2 = 0 := by
  decide

/-! ### Several entry stores in one directory pack -/

/-- **References across entry stores** (the schedule of the repaired `DirectoryPackCreator::finalize`:
    every store is given its final order, then every store sizes its columns, then the stores are
    written).  For any number of stores, any number of entries, any outcome of every sort pass of
    every store: the cells that every sizing pass reads, the cells that every serialisation reads and
    the cells the handles report afterwards are the same, and they hold the final position of every
    entry of every store — whatever refers to whatever, within a store or across stores. -/
theorem c15_multi_store (stores : List StoreIn) :
    let s := (MSt.init stores).run stores (finalizeRepaired stores.length)
    (∀ p ∈ s.sizedAt, ∀ i, i < stores.length → ∀ e, p.2 i e = finalPos stores i e) ∧
    (∀ p ∈ s.writtenAt, ∀ i, i < stores.length → ∀ e, p.2 i e = finalPos stores i e) ∧
    (∀ i, i < stores.length → ∀ e, s.cells i e = finalPos stores i e) := by
  intro s
  have hsort := sorted_all stores stores.length (Nat.le_refl _)
  have hrun : s = (((MSt.init stores).run stores ((List.range stores.length).map MAct.sort)).run stores
      ((List.range stores.length).map MAct.size ++ (List.range stores.length).map MAct.write)) := by
    simp [s, finalizeRepaired, MSt.run, List.foldl_append]
  obtain ⟨h1, h2, h3⟩ := run_size_write stores
    ((MSt.init stores).run stores ((List.range stores.length).map MAct.sort))
    ((List.range stores.length).map MAct.size ++ (List.range stores.length).map MAct.write)
    (by
      intro a ha
      rcases List.mem_append.mp ha with h | h
      · obtain ⟨i, _, rfl⟩ := List.mem_map.mp h; exact Or.inl ⟨i, rfl⟩
      · obtain ⟨i, _, rfl⟩ := List.mem_map.mp h; exact Or.inr ⟨i, rfl⟩)
  rw [← hrun] at h1 h2 h3
  refine ⟨?_, ?_, ?_⟩
  · intro p hp i hi e
    rcases h2 p hp with h | h
    · rw [hsort.sized] at h; cases h
    · rw [h]; exact hsort.done i hi hi e
  · intro p hp i hi e
    rcases h3 p hp with h | h
    · rw [hsort.written] at h; cases h
    · rw [h]; exact hsort.done i hi hi e
  · intro i hi e
    rw [h1]; exact hsort.done i hi hi e

/-- **The pinned schedule (sort and size store after store) does not have this property** — defect
    D13, repaired by `/repo` 7dd7146: with a one-entry store registered before a two-entry store whose
    sort reverses it, the first store's sizing pass reads position 0 for an entry whose final position
    is 1.  (A witness in the model of what `./check C15` found on the real code with 256 and 649
    entries.) -/
theorem c15_multi_store_pinned_schedule_fails :
    let stores := [StoreIn.mk 1 [], StoreIn.mk 2 [[1, 0]]]
    let s := (MSt.init stores).run stores (finalizePinned stores.length)
    (s.sizedAt.head?.map (fun p => p.2 1 0)) = some 0 ∧ finalPos stores 1 0 = 1 := by
  decide

/-- non-vacuity of `c15_multi_store`: the same two stores under the repaired schedule — the sizing
    pass of the first store reads the final position -/
example :
    let stores := [StoreIn.mk 1 [], StoreIn.mk 2 [[1, 0]]]
    let s := (MSt.init stores).run stores (finalizeRepaired stores.length)
    (s.sizedAt.head?.map (fun p => p.2 1 0)) = some 1 := by
  decide

/-- **A deferred value is read when the source sizes and when it serialises, and then treated exactly like a plain
    value**: in `Property::process` (statistics) and in the per-key body of `Properties::serialize_entry`, both
    translated on every run, a `Word` — given as the value `value.get()` returns at that moment — is handled
    as the plain integer of that value, for every property kind.  This is the step `EntryRefIn.resolve` of the
    writer model (a reference replaced by the value of its target's cell) rests on. -/
theorem c15_words_follow_source :
    (∀ k w v, Generated.entryPropertyWrites k (.unsignedWord w) v = Generated.entryPropertyWrites k (.unsigned w) v) ∧
    (∀ k w v, Generated.entryPropertyWrites k (.signedWord w) v = Generated.entryPropertyWrites k (.signed w) v) ∧
    (∀ p w, Generated.schemaPropertyProcess p (.unsignedWord w) = Generated.schemaPropertyProcess p (.unsigned w)) ∧
    (∀ p w, Generated.schemaPropertyProcess p (.signedWord w) = Generated.schemaPropertyProcess p (.signed w)) := by
  refine ⟨?_, ?_, ?_, ?_⟩
  · intro k w v; cases k <;> rfl
  · intro k w v; cases k <;> rfl
  · intro p w; cases p <;> rfl
  · intro p w; cases p <;> rfl

/-- and a reference written under an unsigned property of width `sz` is the little-endian image of the cell -/
example : (Generated.entryPropertyWrites (.unsignedInt 2 none [114]) (.unsignedWord 513) none).map writesBytes = some [1, 2] := by
  decide

/-- **The step sequence `c15_refs` is proved over is the source's**: the statements of `EntryStore::sort`
    extracted from `creator/directory_pack/entry_store.rs` on every run — every `par_sort_unstable_by` and every
    `set_entry_idx`, in textual order, nothing else permuting or numbering the entries — are a renumbering, then
    (sort, renumbering) under the sort keys, then (sort, renumbering) in the retry loop: the kinds of
    `finalizeSteps`, in which every sort pass is immediately followed by a renumbering. -/
theorem c15_sort_steps_are_source_steps (p q : List Nat) :
    (finalizeSteps [p, q]).map FinStep.kind = Generated.entryStoreSortShape ∧
    Generated.entryStoreSortShape.head? = some .setIdx ∧
    (∀ i, Generated.entryStoreSortShape[i]? = some SortStmt.sort → Generated.entryStoreSortShape[i + 1]? = some SortStmt.setIdx) :=
  ⟨gen_entryStoreSortShape p q, sortShape_renumbers_after_every_sort⟩

/-- **All stores are sorted before any is sized, as in the source**: the loops of
    `DirectoryPackCreator::finalize` extracted on every run expand to the schedule `finalizeRepaired` that
    `c15_multi_store` is stated over. -/
theorem c15_finalize_schedule_is_source_schedule (k : Nat) :
    (Generated.directoryFinalizePhases.map (MPhase.acts k)).flatten ++ (List.range k).map MAct.write = finalizeRepaired k :=
  gen_directoryFinalizePhases k

end Jubako
