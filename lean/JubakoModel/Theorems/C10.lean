/-
C10 — a container reads the same however its packs are packaged.
(lookup chain; container-pack layout and blind open theorems are added from Lemmas/Container.lean)
-/
import JubakoModel.Model.Container
import JubakoModel.Lemmas.Container
import JubakoModel.Lemmas.FuncsLookup
import JubakoModel.Lemmas.FuncsOpen

namespace Jubako

/-- **Packs are looked for by identity inside the file at hand first**: a pack present in the
    enclosing container is used whatever its recorded location resolves to. -/
theorem c10_lookup_order (fs : FS) (entryFile : String) (entryPacks : List PackAt) (u : Bytes)
    (loc : String) (p : PackAt) (h : entryPacks.find? (fun q => q.uuid == u) = some p) :
    locate fs entryFile entryPacks u loc = .ok (some ⟨entryFile, p⟩) := by
  simp [locate, h]

/-- … and only then through their recorded location -/
theorem c10_lookup_fallback (fs : FS) (entryFile : String) (entryPacks : List PackAt) (u : Bytes)
    (loc : String) (h : entryPacks.find? (fun q => q.uuid == u) = none) :
    locate fs entryFile entryPacks u loc = fsLocate fs u loc := by
  simp [locate, h]


/-- **A written container pack reads back**: blind open of the file `ContainerPackCreator` /
    `tools::concat` writes (repaired size, D12) finds exactly the packs that were put in, at the
    positions recorded by the locators … -/
theorem c10_container_roundtrip (uuid freeData : Bytes) (packs : List (Bytes × Bytes))
    (hu : uuid.length = 16) (hf : freeData.length = 24) (hpu : ∀ p ∈ packs, p.1.length = 16)
    (hn : packs.length < 2 ^ 16) (hl : (containerPackWrite uuid freeData packs).length < 2 ^ 64) :
    blindOpen (containerPackWrite uuid freeData packs) =
      .ok ((concatLayout packs).2.map (fun l => ⟨l.uuid, l.pos, l.size⟩)) :=
  blindOpen_write_ok uuid freeData packs hu hf hpu hn hl

/-- … and the region a locator designates in the written file is exactly that pack's bytes
    (distinct uuids) -/
theorem c10_locator_region (uuid freeData : Bytes) (packs : List (Bytes × Bytes))
    (hu : uuid.length = 16) (hf : freeData.length = 24) (hn : (packs.map (·.1)).Nodup)
    (u b : Bytes) (h : (u, b) ∈ packs) :
    ((concatLayout packs).2.find? (fun l => l.uuid == u)).map
      (fun l => slice (containerPackWrite uuid freeData packs) l.pos l.size) = some b :=
  containerPackWrite_lookup uuid freeData packs hu hf hn u b h

/-- **Re-assembly by concatenation in any order**: looking a pack up by uuid in the container laid
    out from any permutation of the same packs gives the same bytes (or the same absence). -/
theorem c10_concat_any_order (packs packs' : List (Bytes × Bytes)) (hp : packs.Perm packs')
    (hn : (packs.map (·.1)).Nodup) (u : Bytes) :
    lookupPack (concatLayout packs').1 (concatLayout packs').2 u =
      lookupPack (concatLayout packs).1 (concatLayout packs).2 u :=
  concat_lookup_perm packs packs' hp hn u

/-- **Embedded at the end of another file**: for every prefix whose first bytes are not themselves
    a valid pack header, blind open finds the container through its mirrored tail, with every pack
    region shifted by exactly the prefix length (needs both the tail fallback, D9, and the correct
    declared size, D12). -/
theorem c10_embedded (uuid freeData : Bytes) (packs : List (Bytes × Bytes)) (pre : Bytes)
    (hu : uuid.length = 16) (hf : freeData.length = 24) (hpu : ∀ p ∈ packs, p.1.length = 16)
    (hn : packs.length < 2 ^ 16) (hl : (containerPackWrite uuid freeData packs).length < 2 ^ 64)
    (hv : PackHeader.decode ((pre ++ containerPackWrite uuid freeData packs).take 60) ≠ .err .version)
    (hbad : ∀ h, (do let hd ← readBlock (pre ++ containerPackWrite uuid freeData packs) 0 60
                     PackHeader.decode hd : Outcome PackHeader) ≠ .ok h) :
    blindOpen (pre ++ containerPackWrite uuid freeData packs) =
      .ok ((concatLayout packs).2.map (fun l => ⟨l.uuid, pre.length + l.pos, l.size⟩)) :=
  blindOpen_prefix_write uuid freeData packs pre hu hf hpu hn hl hv hbad

/-- the two prefix hypotheses of `c10_embedded` hold for every prefix that does not start with the
    magic's first byte `j` (non-vacuity, and the common case of a container appended to an
    executable or an image) -/
theorem c10_prefix_hyps (b : UInt8) (rest w : Bytes) (hb : b ≠ 106) :
    PackHeader.decode (((b :: rest) ++ w).take 60) ≠ .err .version ∧
    ∀ h, (do let hd ← readBlock ((b :: rest) ++ w) 0 60
             PackHeader.decode hd : Outcome PackHeader) ≠ .ok h := by
  have key : ∀ bs : Bytes, bs.head? = some b → ∀ h, PackHeader.decode bs ≠ .ok h ∧ PackHeader.decode bs ≠ .err .version := by
    intro bs hbs h
    unfold PackHeader.decode
    by_cases h1 : bs.length < 60
    · rw [if_pos h1]; exact ⟨nofun, nofun⟩
    · rw [if_neg h1]
      have h2 : bs.take 3 ≠ [106, 98, 107] := by
        cases bs with
        | nil => simp at hbs
        | cons x xs =>
          simp only [List.head?_cons, Option.some.injEq] at hbs
          subst hbs
          intro hx
          simp [List.take_succ_cons] at hx
          exact hb hx.1
      rw [if_pos h2]; exact ⟨nofun, nofun⟩
  constructor
  · by_cases hl : ((b :: rest) ++ w).take 60 = []
    · rw [hl]; unfold PackHeader.decode; simp
    · exact (key _ (by simp [List.take_succ_cons]) ⟨.content, [], 0, 0, [], 0, 0, 0⟩).2
  · intro h
    cases hr : readBlock ((b :: rest) ++ w) 0 60 with
    | ok hd =>
      have hd' := (c05_like hr)
      simp only [bind, Outcome.bind]
      exact (key hd hd' h).1
    | err k => simp [bind, Outcome.bind]
    | panic s => simp [bind, Outcome.bind]
    | hang => simp [bind, Outcome.bind]
    | fault => simp [bind, Outcome.bind]
where
  c05_like {f : Bytes} {hd : Bytes} (h : readBlock f 0 60 = .ok hd) : hd.head? = f.head? := by
    unfold readBlock at h
    by_cases h1 : 0 + 60 + 4 ≤ f.length
    · rw [if_pos h1] at h
      by_cases h2 : checkBlock (slice f 0 (60 + 4)) = true
      · simp only [h2, if_true] at h
        cases h
        cases f with
        | nil => simp at h1
        | cons x xs => simp [slice, List.take_succ_cons]
      · simp [h2] at h
    · rw [if_neg h1] at h; cases h

/-! ### Tie to the source: the lookup chain -/

/-- **"Packs are looked for by identity inside the file at hand first and then through their recorded
    location" is the body of `ChainedLocator::locate` as translated from `reader/locator.rs` on every run**:
    the translated loop terminates for every chain and answers with the first locator, in chain order, that
    finds the pack; the reader model's `locate` is that chain over [the packs of the file at hand, the file
    at the recorded location]. -/
theorem c10_lookup_chain_is_source_chain :
    (∀ {α : Type} (answers : List (Option α)), Generated.chainedLocate answers = some (answers.findSome? id)) ∧
    (∀ (fs : FS) (entryFile : String) (entryPacks : List PackAt) (uuid : Bytes) (location : String)
        (r : Option Located), fsLocate fs uuid location = .ok r →
      Outcome.ok <$> Generated.chainedLocate
          [(entryPacks.find? (fun p => p.uuid == uuid)).map (fun p => (⟨entryFile, p⟩ : Located)), r] =
        some (locate fs entryFile entryPacks uuid location)) :=
  ⟨fun a => gen_chainedLocate a, locate_is_chain⟩

/-- **Looking a pack up in the file system follows the source**: `fsLocate` of the container model is
    `FsLocator::locate` as translated from `reader/locator.rs` on every run — the recorded location must name a
    regular file, which is opened blindly and searched by uuid. -/
theorem c10_fs_locate_is_source_locate (fs : FS) (uuid : Bytes) (location : String) :
    fsLocate fs uuid location =
      Generated.fsLocatorLocate (decide (location ≠ "" ∧ (fs.get location).isSome)) (Outcome.ok ((fs.get location).getD []))
        (fun f => blindOpen f)
        (fun packs => (packs.find? (fun p => p.uuid == uuid)).map (fun p => (⟨location, p⟩ : Located))) :=
  gen_fsLocate fs uuid location

/-- **Opening a file without knowing what it holds follows the source**: `blindOpen` of the container model is
    `open_as_container_pack` (`reader/jubako.rs`) as translated on every run, applied to the model's header
    parses: header at 0 (a version mismatch is reported at once), else the mirrored tail for files of at least 64
    bytes, the declared size bounded by the file, the pack at `file size − declared size`; a container pack is
    opened as such, any other pack stands alone under its uuid. -/
theorem c10_blind_open_is_source_open (f : Bytes) :
    blindOpen f =
      Generated.openAsContainerPack f.length
        (if f.length < 60 then .err .format else PackHeader.decode (f.take 60))
        (do let hd ← readBlock f 0 60; PackHeader.decode hd)
        (do let hd ← readBlock (slice f (f.length - 64) 64).reverse 0 60; PackHeader.decode hd)
        (fun origin size => if origin + size ≤ f.length then .ok (origin, size) else .err .format)
        (fun r => containerPackOpen f r.1 r.2)
        (fun r uuid => [⟨uuid, r.1, r.2⟩]) :=
  gen_blindOpen f

/-- **Reading the table of packs of a container pack follows the source**: `containerPackOpen` is
    `ContainerPack::new` (`reader/container_pack.rs`) as translated on every run: the locators are read one
    after the other from the recorded position, each pack region is cut out of the container with a bounds
    check, in table order; the translated loop recurses on the pack count. -/
theorem c10_container_pack_open_is_source_open (f : Bytes) (origin size : Nat) :
    containerPackOpen f origin size =
      (Generated.containerPackNew 36
          (do let hd ← readBlock (slice f origin size) 0 60; PackHeader.decode hd)
          (do let cb ← readBlock (slice f origin size) 64 60; ContainerHeader.decode cb)
          (fun off => (readBlock (slice f origin size) off 32).bind fun lb => PackLocator.decode lb)
          (fun pos sz => if pos + sz ≤ (slice f origin size).length then Outcome.ok (origin + pos, sz) else .err .format)).map'
        (fun r => r.2.map toAt) :=
  gen_containerPackOpen f origin size

end Jubako
