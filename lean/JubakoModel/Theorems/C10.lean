/-
C10 — a container reads the same however its packs are packaged.
(lookup chain; container-pack layout and blind open theorems are added from Lemmas/Container.lean)
-/
import JubakoModel.Model.Container

namespace Jubako

/-- **Packs are looked for by identity inside the file at hand first**: a pack present in the
    enclosing container is used whatever its recorded location resolves to. -/
theorem c10_lookup_order (fs : FS) (entryFile : String) (entryPacks : List PackAt) (u : Bytes)
    (loc : String) (p : PackAt) (h : entryPacks.find? (fun q => q.uuid == u) = some p) :
    locate fs entryFile entryPacks u loc = .ok (some ⟨entryFile, p⟩) := by
  simp [locate, h]

/-- … and only then through their recorded location -/
theorem c10_lookup_fallback (fs : FS) (entryFile : String) (entryPacks : List PackAt) (u : Bytes)
    (loc : String) (h : entryPacks.find? (fun q => q.uuid == u) = none) :
    locate fs entryFile entryPacks u loc = fsLocate fs u loc := by
  simp [locate, h]

end Jubako
