/-
C16 — the compression hint decides how a content is stored.
-/
import JubakoModel.Model.ContentSpec
import JubakoModel.Lemmas.Creator
import JubakoModel.Lemmas.Verbatim
import JubakoModel.Lemmas.FuncsContent

namespace Jubako

inductive Hint where
  | yes | no | detect
  deriving Repr, DecidableEq

/-- `ContentPackCreator::detect_compression`: pack without compression ⇒ raw; `Yes` ⇒ compressed;
    `No` ⇒ raw; `Detect` ⇒ the entropy heuristic's answer `h` (an arbitrary bit here) -/
def detectCompression (packCompresses : Bool) (hint : Hint) (heuristic : Bool) : Bool :=
  if !packCompresses then false
  else match hint with
    | .yes => true
    | .no => false
    | .detect => heuristic

theorem c16_decision (pc : Bool) (hint : Hint) (h : Bool) :
    ((hint = .no ∨ pc = false) → detectCompression pc hint h = false) ∧
    ((hint = .yes ∧ pc = true) → detectCompression pc hint h = true) := by
  cases pc <;> cases hint <;> simp [detectCompression]

/-- an insertion request: bytes, hint, and the heuristic's answer should it be consulted -/
structure Request where
  data : Bytes
  hint : Hint
  heuristic : Bool

def Request.item (pc : Bool) (r : Request) : Item := ⟨r.data, detectCompression pc r.hint r.heuristic⟩

/-- **The hint decides the storage class**, for every insertion sequence and every arrival order:
    the content inserted i-th is found, at its address, in a cluster whose class is
    *uncompressed* when the hint is `no` or the pack does not compress, and *compressed* when the
    hint is `yes` in a compressing pack; in both cases the blob at that address is the inserted
    bytes.  (That an uncompressed cluster holds its blobs verbatim and a compressed one carries the
    pack's algorithm byte is `Cluster.encode`, checked byte-exactly by the correspondence.) -/
theorem c16_hint (pc : Bool) (reqs : List Request) (arrival : List Cluster)
    (hp : ((Creator.init.addAll (reqs.map (Request.item pc))).finalize).1.Perm arrival)
    (i : Nat) (hi : i < reqs.length) :
    let r := reqs.getD i ⟨[], .no, false⟩
    let info := ((Creator.init.addAll (reqs.map (Request.item pc))).finalize).2.getD i (0,0)
    ((r.hint = .no ∨ pc = false) → resolve arrival info = some (r.data, false)) ∧
    ((r.hint = .yes ∧ pc = true) → resolve arrival info = some (r.data, true)) := by
  have h := creator_roundtrip_any_arrival (reqs.map (Request.item pc)) arrival hp i (by simpa using hi)
  have hg : (reqs.map (Request.item pc)).getD i ⟨[], false⟩ = Request.item pc (reqs.getD i ⟨[], .no, false⟩) := by
    simp [List.getD, List.getElem?_map, hi]
  rw [hg] at h
  constructor
  · intro hc
    have hd := (c16_decision pc (reqs.getD i ⟨[], .no, false⟩).hint (reqs.getD i ⟨[], .no, false⟩).heuristic).1 hc
    show resolve arrival _ = _
    rw [h]; simp only [Request.item, hd]
  · intro hc
    have hd := (c16_decision pc (reqs.getD i ⟨[], .no, false⟩).hint (reqs.getD i ⟨[], .no, false⟩).heuristic).2 hc
    show resolve arrival _ = _
    rw [h]; simp only [Request.item, hd]

/-- dedup adder (`CachedContentAdder`): a map from content key to the address of its first
    insertion.  `key` stands for blake3; nothing is assumed about it. -/
def dedupAdd (key : Bytes → Bytes) (st : List (Bytes × Nat) × List Bytes) (d : Bytes) :
    (List (Bytes × Nat) × List Bytes) × Nat :=
  match st.1.find? (fun e => e.1 == key d) with
  | some e => (st, e.2)
  | none => ((st.1 ++ [(key d, st.2.length)], st.2 ++ [d]), st.2.length)

/-- invariant of the dedup adder: every cache entry points to a stored content with that key -/
def DedupInv (key : Bytes → Bytes) (st : List (Bytes × Nat) × List Bytes) : Prop :=
  ∀ e ∈ st.1, ∃ d, st.2[e.2]? = some d ∧ key d = e.1

theorem dedup_inv_step (key : Bytes → Bytes) (st) (d : Bytes) (h : DedupInv key st) :
    DedupInv key (dedupAdd key st d).1 := by
  unfold dedupAdd
  split
  · exact h
  · intro e he
    simp only [List.mem_append, List.mem_singleton] at he
    rcases he with he | he
    · obtain ⟨d', h1, h2⟩ := h e he
      refine ⟨d', ?_, h2⟩
      have : e.2 < st.2.length := by
        rcases Nat.lt_or_ge e.2 st.2.length with hl | hl
        · exact hl
        · simp [List.getElem?_eq_none hl] at h1
      simp [List.getElem?_append_left this, h1]
    · subst he
      exact ⟨d, by simp, rfl⟩

/-- **Dedup**: the address returned for `d` holds a content with the same key as `d` — i.e. the
    same bytes, or an explicit collision of the key function; and a content whose key is already
    cached is not stored again. -/
theorem c16_dedup (key : Bytes → Bytes) (st) (d : Bytes) (h : DedupInv key st) :
    (∃ d', (dedupAdd key st d).1.2[(dedupAdd key st d).2]? = some d' ∧ key d' = key d) ∧
    ((∃ e ∈ st.1, e.1 = key d) → (dedupAdd key st d).1 = st) := by
  constructor
  · unfold dedupAdd
    split
    · rename_i e he
      have hm := List.mem_of_find?_eq_some he
      have hk := List.find?_some he
      obtain ⟨d', h1, h2⟩ := h e hm
      exact ⟨d', h1, by rw [h2]; simpa using hk⟩
    · exact ⟨d, by simp, rfl⟩
  · intro ⟨e, he, hk⟩
    unfold dedupAdd
    split
    · rfl
    · rename_i hnone
      have := List.find?_eq_none.mp hnone e he
      simp [hk] at this


/-! ### File level

`StoredVerbatim f i d` / `StoredCompressed codec f i d` (Lemmas/Verbatim.lean) describe where the
reader's own pointer chain leads for content `i` of the file `f` (`ReaderLocates`: pack header →
content-info entry `i` → cluster pointer → cluster tail): a cluster whose tail says *uncompressed*
(resp. *compressed with the pack's algorithm byte*) and in which the bytes `d` sit contiguously at
the blob offsets recorded in that tail — in the file itself (verbatim), resp. in the decompression
of the stored payload.  The two are mutually exclusive (`not_verbatim_and_compressed`) and each
implies what `contentGet` returns. -/

/-- **(A) An item inserted uncompressed is stored verbatim in an uncompressed cluster**, for every
    insertion sequence and every arrival order of the clusters at the writer.

    Hypotheses: those of `contentGet_contentPackWrite`, without the soundness of the codec (nothing
    is decompressed). -/
theorem c16_file_verbatim (H : Bytes → Bytes) (codec : Codec)
    (hbyte : codec.byte ≤ 3) (m : ContentPackMeta) (hm : m.WF)
    (items : List Item) (arrival : List Cluster)
    (hp : arrival.Perm ((Creator.init.addAll items).finalize).1)
    (hcomp : codec.byte = 0 → ∀ it ∈ items, it.comp = false)
    (hcount : items.length < 2 ^ 32)
    (hncl : arrival.length ≤ 2 ^ 20)
    (hdata : totalSize items < 2 ^ 64)
    (hsize : (contentPackWrite H codec m arrival ((Creator.init.addAll items).finalize).2).length
      < 2 ^ 48)
    (i : Nat) (hi : i < items.length) (hraw : (items[i]).comp = false) :
    StoredVerbatim (contentPackWrite H codec m arrival ((Creator.init.addAll items).finalize).2) i
      (items[i]).data :=
  verbatim_in_file H codec hbyte m hm items arrival hp hcomp hcount hncl hdata hsize i hi hraw

/-- **(B) An item inserted compressed is stored in a cluster compressed with the algorithm of the
    pack.**  Hypotheses: exactly those of `contentGet_contentPackWrite`.  That the pack compresses
    (`codec.byte ≠ 0`) is a conclusion: it follows from `hcomp`. -/
theorem c16_file_compressed (H : Bytes → Bytes) (codec : Codec) (hcodec : codec.Sound)
    (hbyte : codec.byte ≤ 3) (m : ContentPackMeta) (hm : m.WF)
    (items : List Item) (arrival : List Cluster)
    (hp : arrival.Perm ((Creator.init.addAll items).finalize).1)
    (hcomp : codec.byte = 0 → ∀ it ∈ items, it.comp = false)
    (hcount : items.length < 2 ^ 32)
    (hncl : arrival.length ≤ 2 ^ 20)
    (hdata : totalSize items < 2 ^ 64)
    (hsize : (contentPackWrite H codec m arrival ((Creator.init.addAll items).finalize).2).length
      < 2 ^ 48)
    (i : Nat) (hi : i < items.length) (hc : (items[i]).comp = true) :
    StoredCompressed codec
      (contentPackWrite H codec m arrival ((Creator.init.addAll items).finalize).2) i
      (items[i]).data :=
  compressed_in_file H codec hcodec hbyte m hm items arrival hp hcomp hcount hncl hdata hsize i hi hc

/-- **(C) In a pack created without compression every content is stored verbatim.** -/
theorem c16_file_no_compression_verbatim (H : Bytes → Bytes) (codec : Codec)
    (hbyte : codec.byte ≤ 3) (m : ContentPackMeta) (hm : m.WF)
    (items : List Item) (arrival : List Cluster)
    (hp : arrival.Perm ((Creator.init.addAll items).finalize).1)
    (hcomp : codec.byte = 0 → ∀ it ∈ items, it.comp = false)
    (hcount : items.length < 2 ^ 32)
    (hncl : arrival.length ≤ 2 ^ 20)
    (hdata : totalSize items < 2 ^ 64)
    (hsize : (contentPackWrite H codec m arrival ((Creator.init.addAll items).finalize).2).length
      < 2 ^ 48)
    (hnone : codec.byte = 0) (i : Nat) (hi : i < items.length) :
    StoredVerbatim (contentPackWrite H codec m arrival ((Creator.init.addAll items).finalize).2) i
      (items[i]).data :=
  verbatim_of_no_compression H codec hbyte m hm items arrival hp hcomp hcount hncl hdata hsize hnone i hi


/-- non-vacuity (raw, compressed and empty contents of the example pack of Lemmas/ContentFile) -/
example := @ContentFileExample.item0_verbatim
example := @ContentFileExample.item1_compressed
example := @ContentFileExample.item1_not_verbatim

/-- the source-side hint -/
def Hint.toSrc : Hint → Generated.SrcCompHint
  | .yes => .yes | .no => .no | .detect => .detect

/-- **The storage-class decision of the model is the source's**: `ContentPackCreator::detect_compression`
    (`creator/content_pack/creator.rs`) translated on every run — a pack that does not compress stores raw
    whatever the hint; otherwise `Yes` compresses, `No` does not, and only `Detect` consults the entropy
    heuristic (an arbitrary bit here: the head of the content is read and the content rewound, which the
    translation drops). -/
theorem c16_decision_is_source_decision (pc : Bool) (hint : Hint) (h : Bool) :
    detectCompression pc hint h = Generated.detectCompression (!pc) hint.toSrc h := by
  cases pc <;> cases hint <;> rfl

end Jubako
