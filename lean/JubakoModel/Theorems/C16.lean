/-
C16 — the compression hint decides how a content is stored.
(first rung: the decision table; the creator-level statement is added from Lemmas/Creator.lean)
-/
import JubakoModel.Model.ContentSpec

namespace Jubako

inductive Hint where
  | yes | no | detect
  deriving Repr, DecidableEq

/-- `ContentPackCreator::detect_compression`: pack without compression ⇒ raw; `Yes` ⇒ compressed;
    `No` ⇒ raw; `Detect` ⇒ the entropy heuristic's answer `h` -/
def detectCompression (packCompresses : Bool) (hint : Hint) (heuristic : Bool) : Bool :=
  if !packCompresses then false
  else match hint with
    | .yes => true
    | .no => false
    | .detect => heuristic

theorem c16_decision (pc : Bool) (hint : Hint) (h : Bool) :
    ((hint = .no ∨ pc = false) → detectCompression pc hint h = false) ∧
    ((hint = .yes ∧ pc = true) → detectCompression pc hint h = true) := by
  cases pc <;> cases hint <;> simp [detectCompression]

end Jubako
