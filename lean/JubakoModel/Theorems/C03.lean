/-
C03 — sorted stores follow the reader's order; lookup finds exactly what was written.

Part 1 (this file, from Lemmas/Search.lean): `RangeTrait::find`.
Part 2 (from Lemmas/Order.lean): the writer's order on array keys (inline prefix, value id, length)
is the reader's bytewise order, for every key set and both store kinds.
-/
import JubakoModel.Model.Search
import JubakoModel.Lemmas.Search
import JubakoModel.Lemmas.Order
import JubakoModel.Lemmas.DirFile
import JubakoModel.Lemmas.FuncsSearch
import JubakoModel.Lemmas.FuncsOrder

namespace Jubako

/-- **Binary search never lies**: whatever the comparator, an answer is inside the window and
    carries verdict `Equal`. -/
theorem c03_find_binary_sound (cmp : Nat → Ordering) (count i : Nat)
    (h : findOrdered cmp count = some i) : i < count ∧ cmp i = .eq :=
  findOrdered_sound cmp count i h

/-- **Lookup in a sorted window finds a key exactly when one was written**: for any order `ord`
    satisfying the two transitivity laws (`OrdLaws`), any list of keys stored in non-decreasing
    order, any window `[off, off+cnt)` of it and any probe. -/
theorem c03_find_binary {α} (ord : α → α → Ordering) (hl : OrdLaws ord) (keys : List α) (dflt probe : α)
    (hs : keys.Pairwise (fun a b => ord a b ≠ .gt)) (off cnt : Nat) (h : off + cnt ≤ keys.length) :
    (∃ i, i < cnt ∧ ord (keys.getD (off + i) dflt) probe = .eq) ↔
      (findOrdered (fun i => probeCmp ord keys dflt probe (off + i)) cnt).isSome :=
  find_sorted_window ord hl keys dflt probe hs off cnt h

/-- the linear scan finds the first entry carrying the key, or nothing when none does -/
theorem c03_find_linear (cmp : Nat → Ordering) (count i : Nat) :
    findLinear cmp count = some i ↔ (i < count ∧ cmp i = .eq ∧ ∀ j, j < i → cmp j ≠ .eq) :=
  findLinear_some_iff cmp count i

/-- **The two search modes agree** on every window of a sorted store: both succeed or both fail,
    and with unique keys they return the same index. -/
theorem c03_find_agree {α} (ord : α → α → Ordering) (hl : OrdLaws ord) (keys : List α) (dflt probe : α)
    (hs : keys.Pairwise (fun a b => ord a b ≠ .gt)) (off cnt : Nat) (h : off + cnt ≤ keys.length)
    (hu : ∀ i j, i < cnt → j < cnt → ord (keys.getD (off + i) dflt) probe = .eq →
      ord (keys.getD (off + j) dflt) probe = .eq → i = j) :
    findOrdered (fun i => probeCmp ord keys dflt probe (off + i)) cnt =
      findLinear (fun i => probeCmp ord keys dflt probe (off + i)) cnt :=
  find_agree _ cnt (probeCmp_window_mono ord hl keys dflt probe hs off cnt h) hu

/-- non-vacuity: the numeric order satisfies the laws, and a concrete sorted window is searched -/
example : OrdLaws (fun (a b : Nat) => compare a b) := ordLaws_nat
example : findOrdered (fun i => probeCmp (fun (a b : Nat) => compare a b) [1, 4, 9, 16, 25] 0 16 (1 + i)) 3 = some 2 := by
  decide


/-! ### Part 2 — the writer's order is the reader's order -/

/-- **Value ids are monotone in byte order** after finalisation of a store, for every multiset of
    added values: ranks (indexed store) order exactly like the bytes … -/
theorem c03_ids_monotone_indexed (added : List Bytes) (x y : Bytes) (hx : x ∈ added) (hy : y ∈ added) :
    compare ((VStore.finalize true added).idOf x) ((VStore.finalize true added).idOf y) = lexCmp x y := by
  have hs := finalize_strict true added
  have := rankOf_mono (VStore.finalize true added).values hs x y
    ((mem_finalize true added x).mpr hx) ((mem_finalize true added y).mpr hy)
  simpa [VStore.idOf, finalize_indexed] using this

/-- … and byte offsets (plain store) never decrease, strictly increasing after a non-empty value
    (the empty value and the first non-empty one share offset 0; the array length then decides). -/
theorem c03_ids_monotone_plain (added : List Bytes) (x y : Bytes) (hx : x ∈ added) (hy : y ∈ added)
    (hxy : lexCmp x y = .lt) :
    (VStore.finalize false added).idOf x ≤ (VStore.finalize false added).idOf y ∧
    (x ≠ [] → (VStore.finalize false added).idOf x < (VStore.finalize false added).idOf y) := by
  have hs := finalize_strict false added
  have hx' := (mem_finalize false added x).mpr hx
  have hy' := (mem_finalize false added y).mpr hy
  have h1 := offsetOf_mono _ hs x y hx' hy' hxy
  have h2 := fun hne => offsetOf_strict_mono _ hs x y hx' hy' hxy hne
  simpa [VStore.idOf, finalize_indexed] using And.intro h1 h2

/-- **The agreement that is never exercised by the test suite**: for every set of keys added to a
    value store (plain or indexed), every inline prefix length, and every two array keys whose
    rests were added to that store, the order the writer sorts by — (inline prefix bytes, value
    id, total length) — is the order the reader compares by — bytewise on the whole array. -/
theorem c03_writer_order_is_reader_order (indexed : Bool) (added : List Bytes) (fixed : Nat) (a b : Bytes)
    (ha : a.drop fixed ∈ added) (hb : b.drop fixed ∈ added) :
    writerArrCmp (VStore.finalize indexed added) fixed a b = lexCmp a b :=
  writerArrCmp_eq_lexCmp indexed added fixed a b ha hb

/-- the same for arrays without inline prefix in an indexed store (stored as the bare value id) -/
theorem c03_writer_order_indirect (added : List Bytes) (a b : Bytes) (ha : a ∈ added) (hb : b ∈ added) :
    writerIndirectCmp (VStore.finalize true added) a b = lexCmp a b :=
  writerIndirectCmp_eq_lexCmp added a b ha hb

/-- the reader's `Array::cmp` walk over inline prefix then store bytes is the bytewise order -/
theorem c03_reader_walk (a b : Bytes) : arrayCmpWalk a b = lexCmp a b := arrayCmpWalk_eq_lexCmp a b

/-- **Stored order**: whatever order the (parallel, unstable) sort passes leave, an order accepted
    by the code's own post-check `windows(2).all(compare <= )` with the writer's comparator on a
    single array key is non-decreasing in the reader's order. -/
theorem c03_stored_order (indexed : Bool) (added : List Bytes) (fixed : Nat) (out : List Bytes)
    (hmem : ∀ a ∈ out, a.drop fixed ∈ added)
    (hchk : sortedCheck (writerArrCmp (VStore.finalize indexed added) fixed) out = true) :
    sortedCheck lexCmp out = true :=
  stored_order indexed added fixed out hmem hchk

/-- the bytewise order satisfies the laws binary search needs, so `c03_find_binary` and
    `c03_find_agree` apply to stores sorted on an array key -/
theorem c03_lexCmp_laws : OrdLaws lexCmp :=
  ⟨fun a b c h1 h2 => lexCmp_lt_of_le_of_lt a b c h1 h2,
   fun a b c h1 h2 => by
     rcases hc : lexCmp b c with _ | _ | _
     · exact absurd (lexCmp_lt_of_le_of_lt a b c h1 hc) (by rw [h2]; decide)
     · have := (lexCmp_eq_iff b c).mp hc; subst this
       exact absurd h2 h1
     · rfl⟩

/-! ### File level -/

/-- **Stored order (C03) at file level.**  Let common property `k` be an array key (inline prefix
    `fixed`, value store `st`) and let the stored order pass the creator's own post-sort check with
    the writer's comparator on that key (`c03_stored_order`).  Then the keys the reader decodes
    from the written file at positions `0, 1, …` are exactly the written keys, and they are
    non-decreasing in the reader's bytewise order — the precondition of `c03_find_binary`. -/
theorem c03_file_sorted_readback (H : Bytes → Bytes) (vendor uuid freeData : Bytes) (d : DirIn)
    (hwf : d.WF) (hl : d.Limits H vendor uuid freeData) (k fixed st : Nat) (name : Bytes)
    (hp : d.schema.common[k]? = some ⟨name, .array fixed st⟩)
    (hchk : sortedCheck (writerArrCmp (d.stores.getD st vsDflt) fixed) (d.arrayKeys k) = true) :
    (∀ i (hi : i < d.entries.length), ∃ ev,
      dirGetEntry (dirPackWrite H vendor uuid freeData d) 0 i = .ok ev ∧
      ev.values[k]? = some (name, .arr ((d.arrayKeys k).getD i []))) ∧
    sortedCheck lexCmp (d.arrayKeys k) = true :=
  dirfile_sorted_readback H vendor uuid freeData d hwf hl k fixed st name hp hchk


/-- non-vacuity: `DirFileExample.input3`, a store sorted on an array key with duplicates -/
example := @DirFileExample.input3

/-! ### Tie to the source: the search these theorems are about is the body of `RangeTrait::find` -/

/-- **`RangeTrait::find`, translated from `reader/directory_pack/range.rs` on every run
    (`Generated.rangeFind`), terminates for every comparator and every window, and is the model's
    `findOrdered` (when the comparator declares the range ordered) / `findLinear` (otherwise) on the
    comparator shifted by the window's offset** — so `c03_find_binary`, `c03_find_linear` and
    `c03_find_agree` speak about the loop that is in the source now. -/
theorem c03_find_is_source_find (cmpAt : Nat → Ordering) (ordered : Bool) (off count : Nat) :
    Generated.rangeFind cmpAt ordered off count =
      some (if ordered then findOrdered (fun i => cmpAt (off + i)) count
            else findLinear (fun i => cmpAt (off + i)) count) :=
  gen_rangeFind cmpAt ordered off count

/-- non-vacuity: the translated search on a three-entry window at offset 2 finds the middle entry in both modes -/
example : Generated.rangeFind (fun i => compare i 3) true 2 3 = some (some 1) ∧
          Generated.rangeFind (fun i => compare i 3) false 2 3 = some (some 1) := by decide

/-- **The writer's order on array keys that `c03_writer_order_is_reader_order` and `c03_stored_order`
    are about is the body of the creator's `Array::cmp` as translated from
    `creator/directory_pack/value.rs` on every run** (prefix bytes, then value id, then length). -/
theorem c03_writer_order_is_source_order (vs : VStore) (fixed : Nat) (a b : Bytes) :
    writerArrCmp vs fixed a b =
      Generated.writerArrayCmp (lexCmp (a.take fixed) (b.take fixed)) (vs.idOf (a.drop fixed)) (vs.idOf (b.drop fixed))
        a.length b.length :=
  gen_writerArrCmp vs fixed a b

end Jubako
