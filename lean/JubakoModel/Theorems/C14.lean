/-
C14 — written bytes follow the documented layout; old files keep reading the same.

The "independent decoder" is the Lean reader model (Model/*.lean, compiled as the driver): written
from the layout, sharing no code with the library, with its own CRC-32C and blake3.  This file states
the layout facts that pin the format, and collects the per-structure round trips proved in
Lemmas/Codec.lean, Lemmas/DirCodec.lean and Lemmas/Container.lean.
-/
import JubakoModel.Model.Container
import JubakoModel.Model.DirWriter
import JubakoModel.Lemmas.Codec
import JubakoModel.Lemmas.DirCodec
import JubakoModel.Lemmas.Container
import JubakoModel.Lemmas.Layouts
import JubakoModel.Lemmas.ContentFile
import JubakoModel.Lemmas.DirFileG
import JubakoModel.Lemmas.VerifiesB
import JubakoModel.Lemmas.FuncsBytes
import JubakoModel.Lemmas.FuncsContent
import JubakoModel.Lemmas.FuncsCheck
import JubakoModel.Lemmas.FuncsDir
import JubakoModel.Lemmas.FuncsParse
import JubakoModel.Lemmas.FuncsOpen
import JubakoModel.Lemmas.FuncsCluster

namespace Jubako

/-! ### pinned layout facts -/

/-- every block is `data ‖ big-endian CRC-32C(data)` and verifies -/
theorem c14_block_layout (d : Bytes) :
    block d = d ++ be32 (crc32c d).toNat ∧ (block d).length = d.length + 4 ∧ checkBlock (block d) = true :=
  ⟨rfl, block_length d, checkBlock_block d⟩

/-- CRC parameters as coded (regenerated from `bases/block.rs` on every run): polynomial 0x1EDC6F41,
    initial value 0xFFFFFFFF, no final xor — so `crc32c ε = 0xFFFFFFFF` -/
theorem c14_crc_parameters :
    Consts.crcPoly = 0x1EDC6F41 ∧ Consts.crcInit = 0xFFFFFFFF ∧ Consts.crcXorOut = 0 ∧
    (crc32c []).toNat = 0xFFFFFFFF := by
  refine ⟨by decide, by decide, by decide, by decide⟩

/-- the pack header is 60 bytes (+ CRC = 64) with the magic, kind, version, uuid, sizes at fixed
    offsets; it round-trips -/
theorem c14_pack_header (h : PackHeader) (hw : h.WF)
    (hv : h.major = Consts.versionGateMajor ∧ h.minor = Consts.versionGateMinor) :
    h.encode.length = 60 ∧ PackHeader.decode h.encode = .ok h ∧
    h.encode.take 3 = [106, 98, 107] ∧ h.encode.getD 3 0 = h.kind.byte := by
  refine ⟨PackHeader.encode_length h hw, PackHeader.decode_encode h hw hv, ?_, ?_⟩
  · simp [PackHeader.encode]
  · simp [PackHeader.encode]

/-- format version gate (0, 2), read out of the source -/
theorem c14_version : Consts.versionMajor = 0 ∧ Consts.versionMinor = 2 ∧
    Consts.versionGateMajor = Consts.versionMajor ∧ Consts.versionGateMinor = Consts.versionMinor := by
  refine ⟨by decide, by decide, by decide, by decide⟩

/-- the tail of a pack is its 64-byte header block byte-reversed -/
theorem c14_tail_mirror (H mask : Bytes → Bytes) (h : PackHeader) (body : Bytes) (hw : h.WF) :
    (framePack H mask h body).drop ((framePack H mask h body).length - 64) = (block h.encode).reverse := by
  have hl : (block h.encode).reverse.length = 64 := by
    rw [List.length_reverse, block_length, PackHeader.encode_length h hw]
  simp only [framePack, packTail]
  rw [List.length_append, hl]
  simp

/-- declared pack size = check position + check block + 64-byte tail, for the three pack kinds
    with a blake3 check (37 bytes) and for container packs (5 bytes, repaired D12) -/
theorem c14_pack_size (H mask : Bytes → Bytes) (h : PackHeader) (body : Bytes) (hw : h.WF)
    (hcip : h.checkInfoPos = 64 + body.length) (hH : ∀ x, (H x).length = 32) :
    (framePack H mask h body).length = h.checkInfoPos + 37 + 64 := by
  simp only [framePack, packTail, List.length_append, List.length_reverse, block_length,
    PackHeader.encode_length h hw, CheckInfo.encode, List.length_cons, hH, hcip]

theorem c14_container_pack_size (uuid freeData : Bytes) (packs : List (Bytes × Bytes))
    (hu : uuid.length = 16) (hf : freeData.length = 24) (hpu : ∀ p ∈ packs, p.1.length = 16) :
    (containerPackWrite uuid freeData packs).length = (cpwHeader uuid packs).packSize :=
  containerPackWrite_length_packSize uuid freeData packs hu hf hpu

/-- sized offset = `offset << 16 | size` on 8 little-endian bytes; content info = `cluster << 12 |
    blob` on 4 -/
theorem c14_sized_offset (o s : Nat) (ho : o < 2 ^ 48) (hs : s < 2 ^ 16) :
    sizedOffsetEncode o s = leBytes (o * 65536 + s) 8 ∧ sizedOffsetDecode (sizedOffsetEncode o s) = (o, s) := by
  refine ⟨?_, sizedOffset_roundtrip o s ho hs⟩
  unfold sizedOffsetEncode
  rw [Nat.mod_eq_of_lt hs, Nat.mod_eq_of_lt (by omega)]

theorem c14_content_info (c b : Nat) (hc : c < 2 ^ 20) (hb : b < 2 ^ 12) :
    contentInfoEncode c b = leBytes (c * 4096 + b) 4 ∧ contentInfoDecode (contentInfoEncode c b) = (c, b) := by
  refine ⟨?_, contentInfo_roundtrip c b hc hb⟩
  unfold contentInfoEncode
  rw [Nat.mod_eq_of_lt hb, Nat.mod_eq_of_lt (by omega)]

/-- integers are little-endian on exactly the announced width -/
theorem c14_le_integers (v n : Nat) (h : v < 256 ^ n) : (leBytes v n).length = n ∧ leNat (leBytes v n) = v :=
  ⟨leBytes_length v n, leNat_leBytes_of_lt v n h⟩

/-! ### layouts translated from the source

`Generated/Layouts.lean` is written on every run by `tools/extract_layouts.py`, a translator for the
bodies of `Serializable::serialize` and `Parsable::parse` of the fixed-layout structures: it lists,
for the writer and for the reader, the fields in source order with their widths in bytes.  The
theorems below are therefore re-checked against what the Rust source says *now*. -/

/-- in the source, the writer and the reader of every fixed-layout structure go through the same
    fields, in the same order, with the same widths -/
theorem c14_source_writer_reader_agree :
    Generated.packHeaderSer = Generated.packHeaderPar ∧
    Generated.packInfoSer = Generated.packInfoPar ∧
    Generated.packLocatorSer = Generated.packLocatorPar ∧
    Generated.containerHeaderSer = Generated.containerHeaderPar ∧
    Generated.contentHeaderSer = Generated.contentHeaderPar ∧
    Generated.directoryHeaderSer = Generated.directoryHeaderPar ∧
    Generated.manifestHeaderSer = Generated.manifestHeaderPar := source_writer_reader_agree

/-- **the model's encoders are the source's layouts**: each encoder is the concatenation of its
    fields in the order the Rust `serialize` writes them -/
theorem c14_encoders_follow_source (ph : PackHeader) (pi : PackInfo) (pl : PackLocator)
    (ch : ContainerHeader) (coh : ContentHeader) (dh : DirectoryHeader) (mh : ManifestHeader) :
    ph.encode = srcLayoutBytes Generated.packHeaderSer (packHeaderField ph) ∧
    pi.encode = srcLayoutBytes Generated.packInfoSer (packInfoField pi) ∧
    pl.encode = srcLayoutBytes Generated.packLocatorSer (packLocatorField pl) ∧
    ch.encode = srcLayoutBytes Generated.containerHeaderSer (containerHeaderField ch) ∧
    coh.encode = srcLayoutBytes Generated.contentHeaderSer (contentHeaderField coh) ∧
    dh.encode = srcLayoutBytes Generated.directoryHeaderSer (directoryHeaderField dh) ∧
    mh.encode = srcLayoutBytes Generated.manifestHeaderSer (manifestHeaderField mh) :=
  ⟨packHeader_layout ph, packInfo_layout pi, packLocator_layout pl, containerHeader_layout ch,
   contentHeader_layout coh, directoryHeader_layout dh, manifestHeader_layout mh⟩

/-- … so every field of a written pack header sits at the offset, and has the width, that the
    source's `serialize` implies (offsets 0, 4, 8, 9, 10, 26, 27, 32, 40, 48; 60 bytes) -/
theorem c14_pack_header_fields (h : PackHeader) (hw : h.WF) :
    h.encode.length = srcLayoutSize Generated.packHeaderSer ∧
    ∀ n off w, (n, off, w) ∈ srcFieldOffsets Generated.packHeaderSer 0 →
      slice h.encode off w = packHeaderField h n := by
  rw [packHeader_layout h]
  exact ⟨srcLayoutBytes_length _ _ (packHeader_widths h hw), srcLayoutBytes_slice _ _ (packHeader_widths h hw)⟩

/-- the offsets at which the model's decoders read are those implied by the source's `parse`
    (the decoders of Model/Pack.lean, Open.lean, Container.lean use these literals) -/
theorem c14_reader_offsets :
    (srcFieldOffsets Generated.packHeaderPar 0).map (fun p => (p.2.1, p.2.2)) =
      [(0, 4), (4, 4), (8, 1), (9, 1), (10, 16), (26, 1), (27, 5), (32, 8), (40, 8), (48, 12)] ∧
    (srcFieldOffsets Generated.packInfoPar 0).map (fun p => (p.2.1, p.2.2)) =
      [(0, 16), (16, 8), (24, 8), (32, 2), (34, 1), (35, 1), (36, 2), (38, 214)] ∧
    (srcFieldOffsets Generated.packLocatorPar 0).map (fun p => (p.2.1, p.2.2)) = [(0, 16), (16, 8), (24, 8)] ∧
    (srcFieldOffsets Generated.containerHeaderPar 0).map (fun p => (p.2.1, p.2.2)) =
      [(0, 8), (8, 2), (10, 26), (36, 24)] ∧
    (srcFieldOffsets Generated.contentHeaderPar 0).map (fun p => (p.2.1, p.2.2)) =
      [(0, 8), (8, 8), (16, 4), (20, 4), (24, 12), (36, 24)] ∧
    (srcFieldOffsets Generated.directoryHeaderPar 0).map (fun p => (p.2.1, p.2.2)) =
      [(0, 8), (8, 8), (16, 8), (24, 4), (28, 4), (32, 1), (33, 3), (36, 24)] ∧
    (srcFieldOffsets Generated.manifestHeaderPar 0).map (fun p => (p.2.1, p.2.2)) =
      [(0, 2), (2, 8), (10, 26), (36, 24)] := by
  refine ⟨?_, ?_, ?_, ?_, ?_, ?_, ?_⟩ <;> decide

/-! ### per-structure round trips (decode ∘ encode = id) -/

theorem c14_pack_info_roundtrip (p : PackInfo) (hw : p.WF) :
    p.encode.length = 252 ∧ PackInfo.decode p.encode = .ok p :=
  ⟨PackInfo.encode_length p hw, PackInfo.decode_encode p hw⟩

theorem c14_manifest_header_roundtrip (m : ManifestHeader) (h1 : m.packCount < 2 ^ 16)
    (h2 : m.valueStore.1 < 2 ^ 48) (h3 : m.valueStore.2 < 2 ^ 16) (h4 : m.freeData.length = 24) :
    ManifestHeader.decode m.encode = .ok m := ManifestHeader.decode_encode m h1 h2 h3 h4

theorem c14_check_info_roundtrip (c : CheckInfo) (h : ∀ x, c = .blake3 x → x.length = 32) :
    CheckInfo.decode c.encode = .ok c := CheckInfo.decode_encode c h

theorem c14_pack_locator_roundtrip (l : PackLocator) (hu : l.uuid.length = 16) (hs : l.size < 2 ^ 64)
    (hp : l.pos < 2 ^ 64) : l.encode.length = 32 ∧ PackLocator.decode l.encode = .ok l :=
  ⟨PackLocator.encode_length l hu, PackLocator.decode_encode l hu hs hp⟩

theorem c14_container_header_roundtrip (h : ContainerHeader) (h1 : h.locatorsPos < 2 ^ 64)
    (h2 : h.packCount < 2 ^ 16) (h3 : h.freeData.length = 24) :
    ContainerHeader.decode h.encode = .ok h := ContainerHeader.decode_encode h h1 h2 h3

theorem c14_property_header_roundtrip (p : RawProp) (rest : Bytes) (hw : p.Writable) :
    RawProp.decode (p.encode ++ rest) = .ok (p, rest) := rawProp_roundtrip p rest hw

theorem c14_container_pack_roundtrip (uuid freeData : Bytes) (packs : List (Bytes × Bytes))
    (hu : uuid.length = 16) (hf : freeData.length = 24) (hpu : ∀ p ∈ packs, p.1.length = 16)
    (hn : packs.length < 2 ^ 16) (hl : (containerPackWrite uuid freeData packs).length < 2 ^ 64) :
    containerPackOpen (containerPackWrite uuid freeData packs) 0 (containerPackWrite uuid freeData packs).length =
      .ok ((concatLayout packs).2.map (fun l => ⟨l.uuid, l.pos, l.size⟩)) :=
  containerPackOpen_write uuid freeData packs hu hf hpu hn hl

/-! ### File level: the byte layout of each pack kind as the writer models produce it

`contentPackWrite`, `dirPackWrite`, `manifestWrite`, `containerPackWrite` are the writer models the
correspondence check compares byte for byte with the files the Rust creators produce
(`cp.encode`, `dp.encode`, `ct.open` on created containers).  For every input they produce exactly:
pack header block ‖ kind header block ‖ body parts ‖ check block ‖ header block reversed. -/

/-- content pack = header ‖ content header ‖ clusters (payload ‖ tail block, in arrival order) ‖
    cluster pointer table ‖ content info table ‖ blake3 check block ‖ mirrored header -/
theorem c14_content_pack_file_layout (H : Bytes → Bytes) (codec : Codec) (m : ContentPackMeta)
    (arrival : List Cluster) (infos : List (Nat × Nat)) :
    contentPackWrite H codec m arrival infos =
      block (cfHeader codec m arrival infos).encode ++
        (block (cfCH codec m arrival infos).encode ++ (cfBytes codec arrival ++
          (block (cfPtrData codec arrival) ++ (block (cfInfoData infos) ++
            cfTrailer H codec m arrival infos)))) ∧
    (cfCH codec m arrival infos).clusterPtrPos = 128 + (cfBytes codec arrival).length ∧
    (cfCH codec m arrival infos).contentPtrPos =
      128 + (cfBytes codec arrival).length + (block (cfPtrData codec arrival)).length ∧
    (cfHeader codec m arrival infos).checkInfoPos =
      (cfCH codec m arrival infos).contentPtrPos + (block (cfInfoData infos)).length ∧
    (cfHeader codec m arrival infos).packSize = (cfHeader codec m arrival infos).checkInfoPos + 37 + 64 :=
  ⟨contentPackWrite_eq H codec m arrival infos, rfl, rfl, rfl, rfl⟩

/-- directory pack = header ‖ directory header ‖ index tails ‖ entry data block ‖ entry store tail ‖
    value stores ‖ three pointer tables ‖ check block ‖ mirrored header -/
theorem c14_directory_pack_file_layout (H : Bytes → Bytes) (vendor uuid freeData : Bytes) (d : DirIn) :
    dirPackWrite H vendor uuid freeData d =
      block (d.header vendor uuid).encode ++ (block (d.dh freeData).encode ++
        (d.idxBytes ++ (block d.entryBytes ++ (block d.esTail ++ (d.vsBytes ++
          (block d.t1 ++ (block d.t2 ++ (block d.t3 ++ d.trailer H vendor uuid freeData)))))))) :=
  dirPackWrite_eq H vendor uuid freeData d

/-- manifest pack = header ‖ manifest header ‖ copies of the packs' check blocks and the free-data
    store ‖ one 256-byte block per pack info ‖ check block (over the masked prefix) ‖ mirrored header -/
theorem c14_manifest_pack_file_layout (H : Bytes → Bytes) (vendor uuid freeData checkBlocks : Bytes)
    (store : VStore) (infos : List PackInfo) :
    manifestWrite H vendor uuid freeData checkBlocks store infos =
      block (mwHeader vendor uuid checkBlocks store infos).encode ++
        block (mwMH freeData checkBlocks store infos).encode ++ mwMid checkBlocks store ++
        (infos.flatMap fun p => block p.encode) ++
        mwTrailer H vendor uuid freeData checkBlocks store infos :=
  manifestWrite_eq H vendor uuid freeData checkBlocks store infos

/-- container pack = header ‖ container header ‖ the packs back to back ‖ locator table ‖
    `block [0]` ‖ mirrored header -/
theorem c14_container_pack_file_layout (uuid freeData : Bytes) (packs : List (Bytes × Bytes)) :
    containerPackWrite uuid freeData packs =
      block (cpwHeader uuid packs).encode ++ (block (cpwCH freeData packs).encode ++ (cpwBody packs ++
        (locTable (layoutLocs 0 packs) ++ (block CheckInfo.none.encode ++
          (block (cpwHeader uuid packs).encode).reverse)))) :=
  containerPackWrite_eq uuid freeData packs

/-! ### Tie to the source: bit packing of sized offsets and content infos -/

/-- **`SizedOffset` and `ContentInfo` are packed and unpacked by the model exactly as by the bodies of
    their `serialize` / `parse` translated from the Rust source on every run** (shift amounts, masks,
    which half is which). -/
theorem c14_bit_packing_follows_source :
    (∀ offset size, sizedOffsetEncode offset size = leBytes (Generated.sizedOffsetPack offset size % 2 ^ 64) 8) ∧
    (∀ bs, sizedOffsetDecode bs = ((Generated.sizedOffsetUnpack (leNat bs)).2, (Generated.sizedOffsetUnpack (leNat bs)).1)) ∧
    (∀ cluster blob, contentInfoEncode cluster blob = leBytes (Generated.contentInfoPack cluster blob % 2 ^ 32) 4) ∧
    (∀ bs, contentInfoDecode bs = Generated.contentInfoUnpack (leNat bs)) :=
  ⟨gen_sizedOffsetPack, gen_sizedOffsetUnpack, gen_contentInfoPack, gen_contentInfoUnpack⟩

/-- **The cluster tail the model writes is the byte image of the writes of `serialize_cluster_tail` as
    translated from the Rust source on every run** (order of the fields, the width rule, the blob count
    as `u16`, all end offsets but the last). -/
theorem c14_cluster_tail_follows_source (c : Cluster) (comp raw : Nat) :
    (c.tail comp raw).encode =
      (let r := Generated.clusterTailWrites comp c.blobs.length c.dataSize (endOffsets c.blobs 0) raw
       [UInt8.ofNat r.1.1, UInt8.ofNat r.1.2.1] ++ leBytes r.1.2.2 2 ++ writesBytes r.2) :=
  gen_clusterTail c comp raw

/-- **Declared pack sizes follow the source** (`gen_packSizes`): what the writer models put in the
    `packSize` field is what the four creators' bodies compute now. -/
theorem c14_pack_sizes_follow_source (cip : Nat) :
    Generated.contentPackSize cip 64 = cip + 37 + 64 ∧
    Generated.directoryPackSize cip 64 = cip + 37 + 64 ∧
    Generated.manifestPackSize cip 64 = cip + 37 + 64 ∧
    Generated.containerPackSize cip 64 = cip + 5 + 64 :=
  gen_packSizes cip

/-- **Value-store tails follow the source** (`gen_vstoreTail`): the tail bytes the writer model emits
    for plain and indexed stores are the byte image of the writes of the two `serialize_tail` bodies as
    translated from `creator/directory_pack/value_store.rs` on every run. -/
theorem c14_value_store_tails_follow_source (s : VStore) :
    s.tailBytes = writesBytes (if s.indexed then Generated.indexedStoreTailWrites s.values s.dataSize
                               else Generated.plainStoreTailWrites s.dataSize) :=
  gen_vstoreTail s

/-- **Index tails follow the source** (`gen_indexTail`): field order and widths of the index tail the
    writer model emits are those of `Index::serialize_tail` as translated on every run (widths from the
    struct definition and the type table of the source). -/
theorem c14_index_tail_follows_source (i : IndexInfo) (hfd : i.freeData.length = 4) (hn : i.name.length < 256) :
    i.encode = writesBytes (Generated.indexTailWrites i.storeId i.count i.offset i.freeData i.key i.name) :=
  gen_indexTail i hfd hn

/-- **Cluster header and index header follow the source's layouts** (translated on every run by
    tools/extract_layouts.py): writer and reader of the cluster header agree on `(compression : 1,
    offset width : 1, blob count : 2)`, which are the first four bytes of the model's cluster tail; the
    reader of an index tail takes fields of 4, 4, 4, 4 and 1 bytes and then the name (p-string) — the
    widths the model's `IndexInfo.decode` takes, and the widths the translated writer
    (`Generated.indexTailWrites`) writes. -/
theorem c14_cluster_and_index_headers_follow_source :
    Generated.clusterHeaderSer = Generated.clusterHeaderPar ∧
    (srcFieldOffsets Generated.clusterHeaderPar 0).map (fun p => (p.2.1, p.2.2)) = [(0, 1), (1, 1), (2, 2)] ∧
    (∀ t : ClusterTail, t.encode.take 4 =
      srcLayoutBytes Generated.clusterHeaderSer (fun n =>
        if n = "compression" then [UInt8.ofNat t.comp] else if n = "offset_size" then [UInt8.ofNat t.offsetSize]
        else if n = "blob_count" then leBytes t.blobCount 2 else [])) ∧
    (srcFieldOffsets Generated.indexHeaderPar 0).map (fun p => (p.2.1, p.2.2)) =
      [(0, 4), (4, 4), (8, 4), (12, 4), (16, 1), (17, 0)] ∧
    (∀ a b c fd k nm, ((Generated.indexTailWrites a b c fd k nm).map (·.2)).take 5 =
      (Generated.indexHeaderPar.map (·.2)).take 5) := by
  refine ⟨by decide, by decide, ?_, by decide, ?_⟩
  · intro t
    simp [ClusterTail.encode, srcLayoutBytes, Generated.clusterHeaderSer, leBytes]
  · intro a b c fd k nm
    simp [Generated.indexTailWrites, Generated.indexHeaderPar]

/-- **The layout header follows the source** (`gen_propertyHeader`): for every property kind the creator
    writes, the header bytes of the writer model are the byte image of the writes of
    `Property::serialize` (`creator/directory_pack/layout/property.rs`) translated on every run — the
    `SrcProperty` type it is stated over is itself generated from the Rust `enum Property` (variants and
    field order), the key-type constants from `enum PropType`. -/
theorem c14_property_header_follows_source (p : RawProp) (src : Generated.SrcProperty)
    (hs : p.toSrc = some src) (hw : p.HeaderWF) :
    p.encode = writesBytes (Generated.propertyWrites src) :=
  gen_propertyHeader p src hs hw

/-- non-vacuity: an unsigned 2-byte column stored as a default, a content address with 2-byte pack ids
    and an array with a 3-byte inline prefix whose remainder sits in value store 1 -/
example :
    (RawProp.mk 0 [120] (.uint 2 (some 513))).toSrc = some (.unsignedInt 2 (some 513) [120]) ∧
    (RawProp.mk 0 [120] (.uint 2 (some 513))).HeaderWF ∧
    (RawProp.mk 3 [99] (.content 2 1 none)).HeaderWF ∧
    (RawProp.mk 6 [97] (.array (some 1) 3 (some (2, 1)) none)).HeaderWF := by
  refine ⟨rfl, ?_, ?_, ?_⟩ <;> simp [RawProp.HeaderWF]

/-- **The entry-store tail follows the source** (`gen_entryStoreTail`): kind byte, entry count, flag and the
    whole layout header (entry size, variant count, property count, every property header) of the writer
    model are the byte image of the writes of `EntryStore::serialize_tail`, `Entry::serialize` and
    `Property::serialize` as translated on every run. -/
theorem c14_entry_store_tail_follows_source (l : LayoutOut) (n : Nat) (srcC : List Generated.SrcProperty)
    (srcV : List (List Generated.SrcProperty))
    (hc : l.common.map RawProp.toSrc = srcC.map some)
    (hv : l.variants.flatten.map RawProp.toSrc = srcV.flatten.map some)
    (hlen : srcV.length = l.variants.length)
    (hw : ∀ p ∈ l.common ++ l.variants.flatten, p.HeaderWF) (hn : n < 2 ^ 32) :
    entryStoreTail l n = writesBytes (Generated.entryStoreTailWrites n
      (Generated.entryLayoutWrites l.entrySize (l.common ++ l.variants.flatten).length srcC srcV)) :=
  gen_entryStoreTail l n srcC srcV hc hv hlen hw hn

/-- **The reader's decoding of a property header follows the source**: `RawProperty::parse`
    (`reader/directory_pack/raw_layout.rs`, with `PropType::try_from` and `ByteSize::try_from`), translated on
    every run into a sequential parser over a byte list, is `RawProp.decode` of the reader model on every byte
    string — same property, same unread rest, same kind of failure. -/
theorem c14_property_header_parser_follows_source (bs : Bytes) :
    (Generated.rawPropertyParse bs).Same ((RawProp.decode bs).map' (fun x => (x.1.toSrcRaw, x.2))) :=
  gen_rawPropertyParse bs

/-- non-vacuity: a signed 3-byte property with a default -/
example : Generated.rawPropertyParse [0b0011_1010, 0x03, 0x02, 0xF1, 1, 97, 9] =
    .ok ((0, .signedInt 3 (some (-982525)), [97]), [9]) := by rfl

/-- **The reader's decoding of the property list of a layout follows the source**: `RawLayout::parse` (a count
    byte, then that many `RawProperty::parse`), translated on every run, is `rawLayoutDecode` of the reader
    model on every byte string; the translated loop recurses on the count, so it terminates. -/
theorem c14_raw_layout_parser_follows_source (bs : Bytes) :
    ((Generated.rawLayoutParse bs).map' (·.1)).Same ((rawLayoutDecode bs).map' (List.map RawProp.toSrcRaw)) :=
  gen_rawLayoutParse bs

/-- **The reader's decoding of an index header follows the source**: `IndexHeader::parse` translated on every run
    is `IndexInfo.decode` on every byte string. -/
theorem c14_index_header_parser_follows_source (bs : Bytes) :
    (Generated.indexHeaderParse bs).map' (fun r => (⟨r.1.1, r.1.2.1, r.1.2.2.1, r.1.2.2.2.1, r.1.2.2.2.2.1, r.1.2.2.2.2.2⟩ : IndexInfo)) =
      IndexInfo.decode bs :=
  gen_indexHeaderParse bs

/-- **The reader's decoding of the pack header follows the source** (and with it the rule that makes old files keep
    reading or be refused cleanly): `PackHeader::parse` translated on every run is `PackHeader.decode` on every
    60-byte block, the version gate included and in the source's order. -/
theorem c14_pack_header_parser_follows_source (bs : Bytes) (h60 : bs.length = 60) :
    (Generated.packHeaderParse bs).map' (fun r => tupleToHeader r.1) = PackHeader.decode bs :=
  gen_packHeaderParse bs h60

/-- **The reader's decoding of the four kind headers and of the pack locator follows the source**: their
    `parse` functions, translated on every run into sequential parsers, equal the model's `decode` functions on
    every block of the size the reader hands them. -/
theorem c14_kind_headers_parser_follows_source :
    (∀ bs : Bytes, bs.length = 60 →
      (Generated.containerHeaderParse bs).map' (fun r => (⟨r.1.1, r.1.2.1, r.1.2.2⟩ : ContainerHeader)) = ContainerHeader.decode bs) ∧
    (∀ bs : Bytes, bs.length = 60 →
      (Generated.contentHeaderParse bs).map' (fun r => (⟨r.1.1, r.1.2.1, r.1.2.2.1, r.1.2.2.2.1, r.1.2.2.2.2⟩ : ContentHeader)) =
        ContentHeader.decode bs) ∧
    (∀ bs : Bytes, bs.length = 60 →
      (Generated.directoryHeaderParse bs).map'
          (fun r => (⟨r.1.1, r.1.2.1, r.1.2.2.1, r.1.2.2.2.1, r.1.2.2.2.2.1, r.1.2.2.2.2.2.1, r.1.2.2.2.2.2.2⟩ : DirectoryHeader)) =
        DirectoryHeader.decode bs) ∧
    (∀ bs : Bytes, bs.length = 60 →
      (Generated.manifestHeaderParse bs).map' (fun r => (⟨r.1.1, (r.1.2.1 / 65536, r.1.2.1 % 65536), r.1.2.2⟩ : ManifestHeader)) =
        ManifestHeader.decode bs) ∧
    (∀ bs : Bytes, bs.length = 32 →
      (Generated.packLocatorParse bs).map' (fun r => (⟨r.1.1, r.1.2.1, r.1.2.2⟩ : PackLocator)) = PackLocator.decode bs) :=
  ⟨gen_containerHeaderParse, gen_contentHeaderParse, gen_directoryHeaderParse, gen_manifestHeaderParse, gen_packLocatorParse⟩

/-- **The reader's decoding of a pack info follows the source**: `PackInfo::parse` translated on every run equals
    `PackInfo.decode` on every 252-byte block. -/
theorem c14_pack_info_parser_follows_source (bs : Bytes) (h252 : bs.length = 252) :
    (Generated.packInfoParse bs).map' (fun r => tupleToInfo r.1) = PackInfo.decode bs :=
  gen_packInfoParse bs h252

/-- **The head of an entry-store layout is decoded as the source decodes it**: `Layout.decode` is `layoutHead`
    followed by the splitting of the properties (`layoutDecode_head`), and `layoutHead` is the statements of
    `Layout::parse` up to that splitting, translated on every run (entry count, per-entry-CRC flag, entry size,
    variant count, property list). The splitting itself (`splitVariants`) stays hand-modelled. -/
theorem c14_layout_head_follows_source (bs : Bytes) :
    Layout.decode bs = (layoutHead bs).bind layoutRest ∧
    ((Generated.layoutParseHead bs).map' (fun r => (r.1.1, r.1.2.1, r.1.2.2.1, r.1.2.2.2.1, r.1.2.2.2.2))).Same
      ((layoutHead bs).map' (fun h => (h.1, h.2.1, h.2.2.1, h.2.2.2.1, h.2.2.2.2.map RawProp.toSrcRaw))) :=
  ⟨layoutDecode_head bs, gen_layoutParseHead bs⟩

/-- **The fixed-width wrappers read the widths the layout says**: `Count<u8|u16|u32|u64>::parse`, `Size::parse` and
    `Offset::parse`, translated on every run, are little-endian reads of 1, 2, 4, 8, 8 and 8 bytes. The tables of the
    other translated parsers write `takeLE bs w` for a call to one of them; this theorem is what makes that entry a
    checked one rather than a trusted one. -/
theorem c14_fixed_width_wrappers_follow_source (bs : Bytes) :
    Generated.countU8Parse bs = takeLE bs 1 ∧ Generated.countU16Parse bs = takeLE bs 2 ∧
    Generated.countU32Parse bs = takeLE bs 4 ∧ Generated.countU64Parse bs = takeLE bs 8 ∧
    Generated.sizeParse bs = takeLE bs 8 ∧ Generated.offsetParse bs = takeLE bs 8 :=
  gen_fixedWidthParsers bs

/-- … and so do the index and identifier wrappers: `Idx<u8|u16|u32|u64>::parse` and `Id<u8|u16>::parse`, translated on
    every run, are little-endian reads of 1, 2, 4, 8 and 1, 2 bytes. -/
theorem c14_index_wrappers_follow_source (bs : Bytes) :
    Generated.idxU8Parse bs = takeLE bs 1 ∧ Generated.idxU16Parse bs = takeLE bs 2 ∧
    Generated.idxU32Parse bs = takeLE bs 4 ∧ Generated.idxU64Parse bs = takeLE bs 8 ∧
    Generated.idU8Parse bs = takeLE bs 1 ∧ Generated.idU16Parse bs = takeLE bs 2 :=
  gen_indexWrappers bs

/-- **The cluster header is decoded as the source decodes it**: `ClusterHeader::parse` with `CompressionType::parse`,
    translated on every run, answers on every byte string what the reader model computes from the first four bytes
    of a cluster tail: compression byte 0..3 (anything else a format error), offset width 1..8, blob count on two
    bytes little-endian, the rest of the tail after byte 4. -/
theorem c14_cluster_header_parser_follows_source (bs : Bytes) :
    (Generated.clusterHeaderParse bs).map' (fun r => ((srcCompressionToNat r.1.1, r.1.2.1, r.1.2.2), r.2)) =
      clusterHeaderModel bs ∧
    (∀ c, leNat (slice bs 2 2) = c + 1 →
      (((Generated.clusterHeaderParse bs).bind fun r =>
          Generated.clusterBuilderParse r.2 (srcCompressionToNat r.1.1, r.1.2.1, r.1.2.2)).map'
          (fun r => (r.1.1.1, r.1.1.2.1, r.1.1.2.2, r.1.2))).Same
        ((ClusterTail.decode bs).map' (fun t => (0 :: t.offsets ++ [t.dataSize], t.dataSize, t.comp, t.rawSize)))) :=
  ⟨gen_clusterHeaderParse bs, fun c h => gen_clusterTailParse bs c h⟩

/-- the header model is a value on a well-formed header and an error on each malformed class -/
example : clusterHeaderModel [2, 3, 1, 1, 9] = .ok ((2, 3, 257), [9]) ∧ clusterHeaderModel [4, 3, 1, 1] = .err .format ∧
    clusterHeaderModel [0, 9, 1, 1] = .err .format ∧ clusterHeaderModel [0, 1, 1] = .err .format :=
  ⟨rfl, rfl, rfl, rfl⟩

end Jubako
