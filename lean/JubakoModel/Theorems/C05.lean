/-
C05 — damaged metadata is reported, never silently decoded into different values.
(the CRC burst theorem is added from Lemmas/CrcWindow.lean)
-/
import JubakoModel.Model.Container
import JubakoModel.Lemmas.CrcWindow
import JubakoModel.Lemmas.Mask

namespace Jubako

/-- a block is handed to a parser only after its CRC has been verified over exactly the bytes that
    are parsed: whatever `readBlock` returns is the data part of a block whose check passes -/
theorem c05_readBlock_checked (f : Bytes) (off n : Nat) (d : Bytes) (h : readBlock f off n = .ok d) :
    off + n + 4 ≤ f.length ∧ checkBlock (slice f off (n + 4)) = true ∧ d = (slice f off (n + 4)).take n := by
  unfold readBlock at h
  by_cases h1 : off + n + 4 ≤ f.length
  · rw [if_pos h1] at h
    by_cases h2 : checkBlock (slice f off (n + 4)) = true
    · simp only [h2, if_true] at h
      cases h
      exact ⟨h1, h2, rfl⟩
    · simp [h2] at h
  · rw [if_neg h1] at h; cases h

/-- two files that agree on a block's bytes give the same parse of that block: the reader's view
    of a structure depends on nothing but the (verified) bytes of its block -/
theorem c05_block_local (f g : Bytes) (off n : Nat)
    (h : slice f off (n + 4) = slice g off (n + 4)) (hf : off + n + 4 ≤ f.length) (hg : off + n + 4 ≤ g.length) :
    readBlock f off n = readBlock g off n := by
  unfold readBlock
  rw [if_pos hf, if_pos hg, h]


/-- **Every alteration confined to 4 consecutive bytes of a block is detected** — data bytes, CRC
    bytes, or a window straddling both; this covers every single-byte alteration (any mask) and
    every alteration of up to 32 consecutive bits, the whole exhaustive family of the property.
    (CRC-32C as coded: polynomial 0x1EDC6F41 from `Generated/Consts.lean`, msb-first, init
    0xFFFFFFFF, no final xor.) -/
theorem c05_crc_detects_window (d alt : Bytes) (hl : alt.length = (block d).length) (i : Nat)
    (hsame : ∀ k, k < alt.length → (k < i ∨ i + 4 ≤ k) → alt[k]? = (block d)[k]?)
    (hdiff : alt ≠ block d) : checkBlock alt = false :=
  crc_detects_byte_change d alt hl i hsame hdiff

/-- … so the reader reports it: a file whose block at `off` was `block d` and that differs from it,
    inside that block, only within 4 consecutive bytes, fails `readBlock` with `Corrupted` instead
    of handing altered bytes to any parser -/
theorem c05_damaged_block_reported (f alt : Bytes) (off : Nat) (d : Bytes)
    (hf : slice f off (d.length + 4) = block d) (hlen : off + d.length + 4 ≤ alt.length)
    (i : Nat)
    (hsame : ∀ k, k < d.length + 4 → (k < i ∨ i + 4 ≤ k) → alt[off + k]? = f[off + k]?)
    (hdiff : slice alt off (d.length + 4) ≠ slice f off (d.length + 4)) :
    readBlock alt off d.length = .err .corrupted := by
  have hbl : (block d).length = d.length + 4 := by rw [block_length]
  have hal : (slice alt off (d.length + 4)).length = d.length + 4 := slice_length _ _ _ (by omega)
  have hchk : checkBlock (slice alt off (d.length + 4)) = false := by
    apply c05_crc_detects_window d _ (by rw [hal, hbl]) i
    · intro k hk hw
      rw [hal] at hk
      rw [← hf, slice_getElem?, slice_getElem?, if_pos hk, if_pos hk]
      exact hsame k hk hw
    · rw [← hf]; exact hdiff
  unfold readBlock
  rw [if_pos hlen]
  simp [hchk]

/-- the linearity behind it, reusable for wider damage: the check of `block d ⊕ e` passes iff the
    error pattern alone has CRC register 0 — an explicit CRC collision of the pattern -/
theorem c05_collision_characterisation (d e : Bytes) (he : e.length = (block d).length) :
    checkBlock (xorBytes (block d) e) = true ↔ crcFeed crcPolyU 0 e = 0 := by
  have h4 : 4 ≤ (xorBytes (block d) e).length := by
    simp [xorBytes, List.length_zipWith, he, block_length]
  rw [checkBlock_iff _ h4]
  have hz : crcInitU = crcInitU ^^^ 0 := by simp
  rw [hz, crcFeed_xor crcInitU 0 (block d) e he.symm]
  have hb : crcFeed crcPolyU crcInitU (block d) = 0 :=
    (checkBlock_iff _ (by rw [block_length]; omega)).mp (checkBlock_block d)
  rw [hb]; simp

end Jubako
