/-
C05 — damaged metadata is reported, never silently decoded into different values.
(the CRC burst theorem is added from Lemmas/CrcWindow.lean)
-/
import JubakoModel.Model.Container
import JubakoModel.Lemmas.CrcWindow
import JubakoModel.Lemmas.Mask
import JubakoModel.Lemmas.DamageFile
import JubakoModel.Model.DirLayout
import JubakoModel.Lemmas.FuncsParse
import JubakoModel.Lemmas.FuncsCheck

namespace Jubako

/-- a block is handed to a parser only after its CRC has been verified over exactly the bytes that
    are parsed: whatever `readBlock` returns is the data part of a block whose check passes -/
theorem c05_readBlock_checked (f : Bytes) (off n : Nat) (d : Bytes) (h : readBlock f off n = .ok d) :
    off + n + 4 ≤ f.length ∧ checkBlock (slice f off (n + 4)) = true ∧ d = (slice f off (n + 4)).take n := by
  unfold readBlock at h
  by_cases h1 : off + n + 4 ≤ f.length
  · rw [if_pos h1] at h
    by_cases h2 : checkBlock (slice f off (n + 4)) = true
    · simp only [h2, if_true] at h
      cases h
      exact ⟨h1, h2, rfl⟩
    · simp [h2] at h
  · rw [if_neg h1] at h; cases h

/-- two files that agree on a block's bytes give the same parse of that block: the reader's view
    of a structure depends on nothing but the (verified) bytes of its block -/
theorem c05_block_local (f g : Bytes) (off n : Nat)
    (h : slice f off (n + 4) = slice g off (n + 4)) (hf : off + n + 4 ≤ f.length) (hg : off + n + 4 ≤ g.length) :
    readBlock f off n = readBlock g off n := by
  unfold readBlock
  rw [if_pos hf, if_pos hg, h]


/-- **Every alteration confined to 4 consecutive bytes of a block is detected** — data bytes, CRC
    bytes, or a window straddling both; this covers every single-byte alteration (any mask) and
    every alteration of up to 32 consecutive bits, the whole exhaustive family of the property.
    (CRC-32C as coded: polynomial 0x1EDC6F41 from `Generated/Consts.lean`, msb-first, init
    0xFFFFFFFF, no final xor.) -/
theorem c05_crc_detects_window (d alt : Bytes) (hl : alt.length = (block d).length) (i : Nat)
    (hsame : ∀ k, k < alt.length → (k < i ∨ i + 4 ≤ k) → alt[k]? = (block d)[k]?)
    (hdiff : alt ≠ block d) : checkBlock alt = false :=
  crc_detects_byte_change d alt hl i hsame hdiff

/-- … so the reader reports it: a file whose block at `off` was `block d` and that differs from it,
    inside that block, only within 4 consecutive bytes, fails `readBlock` with `Corrupted` instead
    of handing altered bytes to any parser -/
theorem c05_damaged_block_reported (f alt : Bytes) (off : Nat) (d : Bytes)
    (hf : slice f off (d.length + 4) = block d) (hlen : off + d.length + 4 ≤ alt.length)
    (i : Nat)
    (hsame : ∀ k, k < d.length + 4 → (k < i ∨ i + 4 ≤ k) → alt[off + k]? = f[off + k]?)
    (hdiff : slice alt off (d.length + 4) ≠ slice f off (d.length + 4)) :
    readBlock alt off d.length = .err .corrupted := by
  have hbl : (block d).length = d.length + 4 := by rw [block_length]
  have hal : (slice alt off (d.length + 4)).length = d.length + 4 := slice_length _ _ _ (by omega)
  have hchk : checkBlock (slice alt off (d.length + 4)) = false := by
    apply c05_crc_detects_window d _ (by rw [hal, hbl]) i
    · intro k hk hw
      rw [hal] at hk
      rw [← hf, slice_getElem?, slice_getElem?, if_pos hk, if_pos hk]
      exact hsame k hk hw
    · rw [← hf]; exact hdiff
  unfold readBlock
  rw [if_pos hlen]
  simp [hchk]

/-- the linearity behind it, reusable for wider damage: the check of `block d ⊕ e` passes iff the
    error pattern alone has CRC register 0 — an explicit CRC collision of the pattern -/
theorem c05_collision_characterisation (d e : Bytes) (he : e.length = (block d).length) :
    checkBlock (xorBytes (block d) e) = true ↔ crcFeed crcPolyU 0 e = 0 := by
  have h4 : 4 ≤ (xorBytes (block d) e).length := by
    simp [xorBytes, List.length_zipWith, he, block_length]
  rw [checkBlock_iff _ h4]
  have hz : crcInitU = crcInitU ^^^ 0 := by simp
  rw [hz, crcFeed_xor crcInitU 0 (block d) e he.symm]
  have hb : crcFeed crcPolyU crcInitU (block d) = 0 :=
    (checkBlock_iff _ (by rw [block_length]; omega)).mp (checkBlock_block d)
  rw [hb]; simp

/-! ### File level: damaged copies of written packs

`BlocksAgree f g` ("`g` is a damaged copy of `f`"): every CRC-checked block that verifies in `f`
is found unchanged at the same place in `g`, or does not verify there — i.e. no damaged block passes
its CRC with other bytes.  The three theorems below show it needs **no hypothesis** for the damage
families the property quantifies over exhaustively; for wider overwrites it is exactly the "no
CRC-32 collision" side condition (`c05_collision_characterisation`). -/

/-- truncation at any length is a damaged copy -/
theorem c05_damage_truncation (f : Bytes) (k : Nat) : BlocksAgree f (f.take k) := blocksAgree_take f k

/-- any bytes appended make a damaged copy -/
theorem c05_damage_extension (f junk : Bytes) : BlocksAgree f (f ++ junk) := blocksAgree_append f junk

/-- any alteration confined to 4 consecutive bytes makes a damaged copy -/
theorem c05_damage_window (f g : Bytes) (i : Nat)
    (hsame : ∀ k, (k < i ∨ i + 4 ≤ k) → g[k]? = f[k]?) : BlocksAgree f g := blocksAgree_window4 f g i hsame

/-- … in particular overwriting any one byte with any value (every position × every mask) -/
theorem c05_damage_single_byte (f : Bytes) (pos : Nat) (b : UInt8) : BlocksAgree f (f.set pos b) := by
  apply blocksAgree_window4 f _ pos
  intro k hk
  rw [List.getElem?_set_ne (by omega)]

/-- **Directory pack, file level.**  For every well-formed writer input and every damaged copy `g`
    of the bytes the writer produced, entry `i` read out of `g` is exactly the entry that was
    written — variant id and every property value — or the read fails with an error value.  Never
    another value. -/
theorem c05_file_directory_entry (H : Bytes → Bytes) (vendor uuid freeData : Bytes) (d : DirIn)
    (hwf : d.WF) (hl : d.Limits H vendor uuid freeData) (g : Bytes)
    (hD : BlocksAgree (dirPackWrite H vendor uuid freeData d) g) (i : Nat) (hi : i < d.entries.length) :
    dirGetEntry g 0 i = .ok (expectedEntry d.schema d.entries[i]) ∨ ∃ k, dirGetEntry g 0 i = .err k :=
  dirGetEntry_damaged H vendor uuid freeData d hwf hl g hD i hi

/-- … unconditionally for every single-byte alteration of the written file -/
theorem c05_file_directory_single_byte (H : Bytes → Bytes) (vendor uuid freeData : Bytes) (d : DirIn)
    (hwf : d.WF) (hl : d.Limits H vendor uuid freeData) (pos : Nat) (b : UInt8)
    (i : Nat) (hi : i < d.entries.length) :
    dirGetEntry ((dirPackWrite H vendor uuid freeData d).set pos b) 0 i =
        .ok (expectedEntry d.schema d.entries[i]) ∨
      ∃ k, dirGetEntry ((dirPackWrite H vendor uuid freeData d).set pos b) 0 i = .err k :=
  dirGetEntry_damaged H vendor uuid freeData d hwf hl _ (c05_damage_single_byte _ pos b) i hi

/-- **Content pack, file level.**  For every insertion sequence, arrival order and sound codec, and
    every damaged copy `g` of the written pack: content `i` read out of `g` has exactly the stored
    size (only its raw bytes may differ — cluster payloads carry no CRC; that is the case the pack
    check of C04 covers), or the read fails with an error value; a content id past the count is
    still "no such content" or an error.  `decompress'` is whatever the decoder delivers, also on
    a damaged payload. -/
theorem c05_file_content_shape (H : Bytes → Bytes) (codec : Codec) (hcodec : codec.Sound)
    (hbyte : codec.byte ≤ 3) (m : ContentPackMeta) (hm : m.WF)
    (items : List Item) (arrival : List Cluster)
    (hp : arrival.Perm ((Creator.init.addAll items).finalize).1)
    (hcomp : codec.byte = 0 → ∀ it ∈ items, it.comp = false)
    (hcount : items.length < 2 ^ 32) (hncl : arrival.length ≤ 2 ^ 20)
    (hdata : totalSize items < 2 ^ 64)
    (hsize : (contentPackWrite H codec m arrival ((Creator.init.addAll items).finalize).2).length < 2 ^ 48)
    (g : Bytes)
    (hD : BlocksAgree (contentPackWrite H codec m arrival ((Creator.init.addAll items).finalize).2) g) :
    (∀ i (hi : i < items.length),
      (∃ b, contentGet codec.decompress' g i = .ok (some b) ∧ b.length = (items[i]).data.length) ∨
        ∃ k, contentGet codec.decompress' g i = .err k) ∧
    (∀ i, items.length ≤ i →
      contentGet codec.decompress' g i = .ok none ∨ ∃ k, contentGet codec.decompress' g i = .err k) :=
  ⟨fun i hi => contentGet_damaged H codec hcodec hbyte m hm items arrival hp hcomp hcount hncl hdata hsize g hD i hi,
   fun i hi => contentGet_damaged_none H codec m hm items arrival hcount hncl hsize g hD i hi⟩

/-- the manifest reader follows too: the pack list of a damaged manifest is the written one, or an error -/
theorem c05_manifest_follows (f g : Bytes) (hD : BlocksAgree f g) (v : PackHeader × ManifestHeader × List PackInfo)
    (hf : manifestOpen f = .ok v) : manifestOpen g = .ok v ∨ ∃ k, manifestOpen g = .err k := by
  rcases manifestOpen_follows hD v hf with ⟨v', h1, h2⟩ | he
  · subst h2; exact Or.inl h1
  · exact Or.inr he

/-- non-vacuity: the example directory pack of Lemmas/DirFile.lean, one byte overwritten -/
example (pos : Nat) (b : UInt8) :
    dirGetEntry ((dirPackWrite DirFileExample.hash DirFileExample.vendor DirFileExample.uuid
        DirFileExample.freeData DirFileExample.input).set pos b) 0 1 =
      .ok (expectedEntry DirFileExample.input.schema DirFileExample.input.entries[1]) ∨
    ∃ k, dirGetEntry ((dirPackWrite DirFileExample.hash DirFileExample.vendor DirFileExample.uuid
        DirFileExample.freeData DirFileExample.input).set pos b) 0 1 = .err k :=
  c05_file_directory_single_byte _ _ _ _ _ DirFileExample.input_wf DirFileExample.limits pos b 1 (by decide)

/-! ### Lookup of an index by name over damaged index tails -/

/-- **An index never disappears silently** (`DirectoryPack::get_index_from_name`, the scan the reader
    model runs, `lookupIndexByName`): if the lookup answers "no such index", then every index tail of
    the pack was read without error and none of them carries the name.  Equivalently: when the tail of
    the named index, or any tail listed before it, is damaged (does not read), the answer is that error —
    never "no such index", never another index. -/
theorem c05_index_lookup_none (ios : List (Outcome IndexInfo)) (name : Bytes)
    (h : lookupIndexByName ios name = .ok none) :
    ∀ r ∈ ios, ∃ i, r = .ok i ∧ i.name ≠ name := by
  induction ios with
  | nil => intro r hr; cases hr
  | cons x rest ih =>
    cases x with
    | ok i =>
      simp only [lookupIndexByName] at h
      by_cases hn : (i.name == name) = true
      · simp [hn] at h
      · simp only [hn] at h
        intro r hr
        rcases List.mem_cons.mp hr with rfl | hr
        · exact ⟨i, rfl, by simpa using hn⟩
        · exact ih h r hr
    | err k => simp [lookupIndexByName] at h
    | panic s => simp [lookupIndexByName] at h
    | hang => simp [lookupIndexByName] at h
    | fault => simp [lookupIndexByName] at h

/-- … and what it finds is the first index carrying the name, all tails before it having been read. -/
theorem c05_index_lookup_some (ios : List (Outcome IndexInfo)) (name : Bytes) (i : IndexInfo)
    (h : lookupIndexByName ios name = .ok (some i)) :
    i.name = name ∧ .ok i ∈ ios := by
  induction ios with
  | nil => simp [lookupIndexByName] at h
  | cons x rest ih =>
    cases x with
    | ok j =>
      simp only [lookupIndexByName] at h
      by_cases hn : (j.name == name) = true
      · simp only [hn, if_true] at h
        have : j = i := by simpa using h
        subst this
        exact ⟨by simpa using hn, List.mem_cons_self⟩
      · simp only [hn] at h
        obtain ⟨a, b⟩ := ih h
        exact ⟨a, List.mem_cons_of_mem _ b⟩
    | err k => simp [lookupIndexByName] at h
    | panic s => simp [lookupIndexByName] at h
    | hang => simp [lookupIndexByName] at h
    | fault => simp [lookupIndexByName] at h

/-- non-vacuity: with the tail of the first of two indexes damaged, looking either name up is an error -/
example :
    lookupIndexByName [.err .format, .ok ⟨0, 1, 0, [0, 0, 0, 0], 0, [97]⟩] [109] = .err .format ∧
    lookupIndexByName [.err .format, .ok ⟨0, 1, 0, [0, 0, 0, 0], 0, [97]⟩] [97] = .err .format := ⟨rfl, rfl⟩

/-- **How the reader interprets the bytes of a property header is what the source does** (`RawProperty::parse`
    translated on every run): in particular every byte string the source rejects with a format error is
    rejected by the model, and conversely — a damaged header is never decoded by one and reported by the other. -/
theorem c05_property_parser_is_source_parser (bs : Bytes) :
    (Generated.rawPropertyParse bs).Same ((RawProp.decode bs).map' (fun x => (x.1.toSrcRaw, x.2))) :=
  gen_rawPropertyParse bs

/-- **The check every block read goes through is the source's**: `checkBlock` — over which
    `c05_crc_detects_window` and `c05_damaged_block_reported` are stated — is `assert_slice_crc` as translated from
    `bases/block.rs` on every run: a block is accepted iff the CRC-32C of its data equals its last four bytes read
    big-endian, and refused as "corrupted" otherwise. -/
theorem c05_block_check_is_source_check (full : Bytes) :
    Generated.assertSliceCrc (fun d => (crc32c d).toNat) be32Nat full =
      if checkBlock full then .ok () else .err .corrupted :=
  gen_assertSliceCrc full

end Jubako
