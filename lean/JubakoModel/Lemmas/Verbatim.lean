/-
C16, file level: where the bytes of an inserted content sit in the written content pack.

`contentGet_contentPackWrite` (ContentFile.lean) says what the reader returns.  The statements here
say what the *file* holds: following the same chain of reads as `contentGet` (content header →
content info `i` → cluster pointer → cluster tail), the cluster reached is
* an uncompressed cluster (tail byte 0) that holds the inserted bytes verbatim and contiguous at the
  blob's offsets, when the item was inserted uncompressed (`verbatim_in_file`,
  `verbatim_of_no_compression`);
* a cluster carrying the pack's compression byte whose stored payload is `codec.compress` of plain
  data holding the inserted bytes at the blob's offsets, when the item was inserted compressed
  (`compressed_in_file`).
-/
import JubakoModel.Lemmas.ContentFile

namespace Jubako

set_option linter.unusedSimpArgs false
set_option linter.unusedVariables false
set_option maxRecDepth 8000

/-! ### 1. what the reader's chain of reads reaches -/

/-- The chain of reads `contentGet f i` performs reaches the cluster tail `t`, whose payload starts
    at byte `start` of the file, and blob number `blob` in it:
    the pack opens with content header `ch`; `i` is a content of the pack; the content info table
    and the cluster pointer table are the blocks read at the positions the header gives;
    `(cl, blob)` is entry `i` of the info table; `cl` is a cluster of the pack; the sized offset
    `so` is entry `cl` of the pointer table; the cluster tail parsed at `so` is `t` and
    `start = so.1 - t.rawSize`.

    Every component is a function of `f` and `i` (`ReaderLocates.unique`), and these are exactly
    the reads of `contentGet` (`contentGet_of_locates`). -/
def ReaderLocates (f : Bytes) (i : Nat) (t : ClusterTail) (start blob : Nat) : Prop :=
  ∃ (h : PackHeader) (ch : ContentHeader) (infoTable ptrTable : Bytes),
    contentOpen f = .ok (h, ch) ∧
    i < ch.contentCount ∧
    readBlock f ch.contentPtrPos (4 * ch.contentCount) = .ok infoTable ∧
    readBlock f ch.clusterPtrPos (8 * ch.clusterCount) = .ok ptrTable ∧
    (contentInfoDecode (slice infoTable (4 * i) 4)).2 = blob ∧
    (contentInfoDecode (slice infoTable (4 * i) 4)).1 < ch.clusterCount ∧
    clusterAt f (sizedOffsetDecode
      (slice ptrTable (8 * (contentInfoDecode (slice infoTable (4 * i) 4)).1) 8)) = .ok (t, start)

/-- the reader reaches one cluster and one blob only -/
theorem ReaderLocates.unique {f : Bytes} {i : Nat} {t t' : ClusterTail} {start start' blob blob' : Nat}
    (h1 : ReaderLocates f i t start blob) (h2 : ReaderLocates f i t' start' blob') :
    t = t' ∧ start = start' ∧ blob = blob' := by
  obtain ⟨h, ch, it, pt, ho, -, hi, hp, hb, -, hc⟩ := h1
  obtain ⟨h', ch', it', pt', ho', -, hi', hp', hb', -, hc'⟩ := h2
  rw [ho] at ho'
  have e1 : ch = ch' := by injection ho' with e; exact (Prod.mk.inj e).2
  subst e1
  rw [hi] at hi'
  have e2 : it = it' := by injection hi'
  subst e2
  rw [hp] at hp'
  have e3 : pt = pt' := by injection hp'
  subst e3
  rw [hc] at hc'
  have e4 : (t, start) = (t', start') := by injection hc'
  obtain ⟨e5, e6⟩ := Prod.mk.inj e4
  exact ⟨e5, e6, hb.symm.trans hb'⟩

/-- start of blob `blob` inside the plain data of the cluster, as `blobOf` computes it from the
    tail -/
def ClusterTail.blobStart (t : ClusterTail) (blob : Nat) : Nat :=
  (0 :: t.offsets ++ [t.dataSize]).getD blob 0

/-- end of blob `blob` inside the plain data of the cluster -/
def ClusterTail.blobEnd (t : ClusterTail) (blob : Nat) : Nat :=
  (0 :: t.offsets ++ [t.dataSize]).getD (blob + 1) 0

/-- `ReaderLocates` lists exactly the reads of `contentGet`: once it holds, `contentGet` is the
    extraction of the blob from the payload at `start`. -/
theorem contentGet_of_locates (dec : Nat → Bytes → Option Bytes) (f : Bytes) (i : Nat)
    (t : ClusterTail) (start blob : Nat) (h : ReaderLocates f i t start blob) :
    contentGet dec f i =
      (if t.comp = 0 then do
          let b ← blobOf t (slice f start t.rawSize) blob
          .ok (some b)
        else
          match dec t.comp (slice f start t.rawSize) with
          | none => .err .io
          | some plain => do
            let b ← blobOf t (plain.take t.dataSize) blob
            .ok (some b)) := by
  obtain ⟨hd, ch, it, pt, ho, hi, hit, hpt, hb, hcl, hc⟩ := h
  unfold contentGet
  rw [ho]
  simp only [Outcome.ok_bind]
  rw [if_neg (by omega), hit]
  simp only [Outcome.ok_bind]
  rw [if_neg (by omega), hpt]
  simp only [Outcome.ok_bind, hc, hb]
  rfl

theorem readBlock_ok_bounds (f : Bytes) (off n : Nat) (d : Bytes) (h : readBlock f off n = .ok d) :
    off + n + 4 ≤ f.length := by
  unfold readBlock at h
  split at h
  · assumption
  · cases h

/-- a cluster the reader parsed has its payload inside the file, ending where the tail begins -/
theorem clusterAt_ok_bounds (f : Bytes) (so : Nat × Nat) (t : ClusterTail) (start : Nat)
    (h : clusterAt f so = .ok (t, start)) : start + t.rawSize = so.1 ∧ so.1 ≤ f.length := by
  unfold clusterAt at h
  cases hr : readBlock f so.1 so.2 with
  | ok tb =>
    have hb := readBlock_ok_bounds f so.1 so.2 tb hr
    rw [hr] at h; simp only [Outcome.ok_bind] at h
    cases hd : ClusterTail.decode tb with
    | ok t' =>
      rw [hd] at h; simp only [Outcome.ok_bind] at h
      split at h
      · cases h
      · injection h with h
        obtain ⟨e1, e2⟩ := Prod.mk.inj h
        subst e1; subst e2
        omega
    | _ => rw [hd] at h; cases h
  | _ => rw [hr] at h; cases h

theorem ReaderLocates.payload_in_file {f : Bytes} {i : Nat} {t : ClusterTail} {start blob : Nat}
    (h : ReaderLocates f i t start blob) : start + t.rawSize ≤ f.length := by
  obtain ⟨_, _, _, _, -, -, -, -, -, -, hc⟩ := h
  have := clusterAt_ok_bounds f _ t start hc
  omega

/-- `blobOf` from the offsets of the tail -/
theorem blobOf_of_bounds (t : ClusterTail) (plain : Bytes) (blob len : Nat)
    (h1 : blob ≤ t.offsets.length) (h2 : blob < t.blobCount)
    (h3 : t.blobEnd blob = t.blobStart blob + len) (h4 : t.blobEnd blob ≤ plain.length) :
    blobOf t plain blob = .ok (slice plain (t.blobStart blob) len) := by
  unfold ClusterTail.blobStart ClusterTail.blobEnd at *
  unfold blobOf
  simp only
  rw [if_pos ⟨by simp only [List.length_append, List.length_cons, List.length_nil]; omega, h2⟩,
    if_pos (by omega), if_pos h4, h3, Nat.add_sub_cancel_left]

/-! ### 2. offsets recorded in the tail of a cluster -/

theorem tail_bounds (c : Cluster) (cb raw : Nat) (hne : c.blobs ≠ []) :
    0 :: (c.tail cb raw).offsets ++ [(c.tail cb raw).dataSize] = 0 :: endOffsets c.blobs 0 := by
  simp only [Cluster.tail, Cluster.dataSize_eq, List.cons_append,
    endOffsets_dropLast_append c.blobs hne]

theorem tail_blobStart (c : Cluster) (cb raw : Nat) (k : Nat) (hk : k < c.blobs.length) :
    (c.tail cb raw).blobStart k = lenSum (c.blobs.take k) := by
  have hne : c.blobs ≠ [] := by
    intro h; rw [h] at hk; simp at hk
  unfold ClusterTail.blobStart
  rw [tail_bounds c cb raw hne]
  exact bounds_getD c.blobs k (by omega)

theorem tail_blobEnd (c : Cluster) (cb raw : Nat) (k : Nat) (hk : k < c.blobs.length) :
    (c.tail cb raw).blobEnd k = (c.tail cb raw).blobStart k + (c.blobs.getD k []).length := by
  have hne : c.blobs ≠ [] := by
    intro h; rw [h] at hk; simp at hk
  rw [tail_blobStart c cb raw k hk]
  unfold ClusterTail.blobEnd
  rw [tail_bounds c cb raw hne, bounds_getD c.blobs (k + 1) (by omega)]
  exact lenSum_take_succ c.blobs k hk

/-- the blob sits in the plain data of its cluster at the offsets the tail records -/
theorem tail_blob_in_data (c : Cluster) (cb raw : Nat) (k : Nat) (hk : k < c.blobs.length) :
    slice c.data ((c.tail cb raw).blobStart k) (c.blobs.getD k []).length = c.blobs.getD k [] ∧
    (c.tail cb raw).blobEnd k ≤ c.data.length := by
  refine ⟨?_, ?_⟩
  · rw [tail_blobStart c cb raw k hk]
    exact slice_flatten c.blobs k hk
  · rw [tail_blobEnd c cb raw k hk, tail_blobStart c cb raw k hk, ← lenSum_take_succ c.blobs k hk,
      Cluster.data_length, Cluster.dataSize_eq]
    exact lenSum_take_le c.blobs (k + 1)

/-! ### 3. locating the cluster of content `i` in the written file -/

/-- In the written file the reader's chain for content `i` reaches the tail of the cluster `c` the
    content info names, and the stored payload of `c` sits right before it.  (These are the
    intermediate facts of `contentGet_write_core`.) -/
theorem locate_write_core (H : Bytes → Bytes) (codec : Codec)
    (m : ContentPackMeta) (hm : m.WF) (arrival : List Cluster) (infos : List (Nat × Nat))
    (hnd : (arrival.map (·.idx)).Nodup)
    (hidx : ∀ c ∈ arrival, c.idx < arrival.length)
    (hbl : ∀ c ∈ arrival, 1 ≤ c.blobs.length ∧ c.blobs.length ≤ 4095)
    (hds : ∀ c ∈ arrival, c.dataSize < 2 ^ 64)
    (hbyte : codec.byte ≤ 3)
    (hcb : ∀ c ∈ arrival, c.compressed = true → codec.byte ≠ 0)
    (hcount : infos.length < 2 ^ 32) (hncl : arrival.length ≤ 2 ^ 20)
    (hsize : (contentPackWrite H codec m arrival infos).length < 2 ^ 48)
    (i : Nat) (hi : i < infos.length) (c : Cluster) (hc : c ∈ arrival)
    (hci : c.idx = (infos.getD i (0, 0)).1)
    (hk : (infos.getD i (0, 0)).2 < c.blobs.length) :
    ∃ start : Nat,
      ReaderLocates (contentPackWrite H codec m arrival infos) i
        (c.tail (if c.compressed then codec.byte else 0) (c.payload codec).length) start
        (infos.getD i (0, 0)).2 ∧
      slice (contentPackWrite H codec m arrival infos) start (c.payload codec).length =
        c.payload codec := by
  have hcpl := cfCheckPos_le_length H codec m arrival infos hm
  obtain ⟨hopen, hinfo, hptr⟩ := contentOpen_contentPackWrite H codec m arrival infos hm hcount
    (by omega) (by omega)
  have hsl := cfInfoData_slice infos i hi
  generalize hinf : infos.getD i (0, 0) = info at hci hk hsl
  obtain ⟨ci, k⟩ := info
  simp only at hci hk hsl
  subst hci
  obtain ⟨hb1, hb2⟩ := hbl c hc
  have hcidx := hidx c hc
  -- content info decodes
  have hdi : contentInfoDecode (slice (cfInfoData infos) (4 * i) 4) = (c.idx, k) := by
    rw [hsl]; exact contentInfo_roundtrip _ _ (by omega) (by omega)
  -- position of the cluster
  obtain ⟨l1, l2, harr⟩ := List.append_of_mem hc
  have hne : ∀ x ∈ l1, x.idx ≠ c.idx := by
    have := hnd
    rw [harr, List.map_append, List.map_cons, List.nodup_append] at this
    intro x hx
    exact this.2.2 x.idx (List.mem_map_of_mem hx) c.idx (List.mem_cons_self ..)
  have hso : lookupAddr (cfAddrs codec arrival 128) c.idx =
      (128 + (cfBytes codec l1).length + (c.encode codec).2.1, (c.encode codec).2.2) := by
    rw [harr]; exact lookupAddr_cfAddrs codec l1 c l2 128 hne
  have hcbs : cfBytes codec arrival =
      cfBytes codec l1 ++ ((c.encode codec).1 ++ cfBytes codec l2) := by
    rw [harr, cfBytes_append, cfBytes_cons]
  have hWF := cfHeader_WF codec m arrival infos hm (by omega)
  have hel := PackHeader.encode_length _ hWF
  have hcl := ContentHeader.encode_length (cfCH codec m arrival infos) hm.2.2
  have hf : contentPackWrite H codec m arrival infos =
      (block (cfHeader codec m arrival infos).encode ++
        (block (cfCH codec m arrival infos).encode ++ cfBytes codec l1)) ++ (c.encode codec).1 ++
      (cfBytes codec l2 ++ (block (cfPtrData codec arrival) ++ (block (cfInfoData infos) ++
            cfTrailer H codec m arrival infos))) := by
    rw [contentPackWrite_eq, hcbs]
    simp only [List.append_assoc]
  generalize hA : (block (cfHeader codec m arrival infos).encode ++
        (block (cfCH codec m arrival infos).encode ++ cfBytes codec l1)) = A at hf
  generalize hZ : (cfBytes codec l2 ++ (block (cfPtrData codec arrival) ++ (block (cfInfoData infos) ++
            cfTrailer H codec m arrival infos))) = Z at hf
  have hAl : A.length = 128 + (cfBytes codec l1).length := by
    rw [← hA]; simp only [List.length_append, block_length, hel, hcl]; omega
  rw [← hAl] at hso
  have hflen : (contentPackWrite H codec m arrival infos).length =
      A.length + ((c.encode codec).2.1 + ((c.encode codec).2.2 + 4)) + Z.length := by
    rw [hf, List.length_append, List.length_append, Cluster.encode_fst_length]
  have hplen : (c.encode codec).2.1 =
      (if c.compressed then (codec.compress c.data).length else c.data.length) := by
    rw [Cluster.encode_eq]; exact Cluster.payload_length codec c
  have hdsc := hds c hc
  have hw : c.WFTail (if c.compressed then codec.byte else 0)
      (if c.compressed then (codec.compress c.data).length else c.data.length) := by
    rw [← hplen]
    refine ⟨hb1, by omega, ?_, hdsc, by omega, ?_⟩
    · split <;> omega
    · intro h0
      cases hcc : c.compressed with
      | true => rw [hcc] at h0; exact absurd h0 (hcb c hc hcc)
      | false => rw [hplen, hcc]; exact Cluster.data_length c
  have htl : (c.encode codec).2.2 < 2 ^ 16 :=
    Cluster.tail_encode_length_lt c _ _ hdsc (show (c.encode codec).2.1 < 2 ^ 64 by omega) hb2
  have hsod : sizedOffsetDecode (slice (cfPtrData codec arrival) (8 * c.idx) 8) =
      (A.length + (c.encode codec).2.1, (c.encode codec).2.2) := by
    rw [cfPtrData_slice codec arrival c.idx hcidx, hso]
    exact sizedOffset_roundtrip _ _ (by omega) htl
  have hcat := clusterAt_encode codec c A Z hw
  have hpay := payload_slice codec c A Z
  rw [← hf] at hcat hpay
  generalize hF : contentPackWrite H codec m arrival infos = F at hopen hinfo hptr hcat hpay
  refine ⟨A.length, ⟨cfHeader codec m arrival infos, cfCH codec m arrival infos, cfInfoData infos,
    cfPtrData codec arrival, hopen, hi, hinfo, hptr, ?_, ?_, ?_⟩, hpay⟩
  · rw [hdi]
  · rw [hdi]; exact hcidx
  · rw [hdi]
    show clusterAt F (sizedOffsetDecode (slice (cfPtrData codec arrival) (8 * c.idx) 8)) = _
    rw [hsod]
    exact hcat

/-! ### 4. the statements -/

/-- **Content `i` of the file `f` is stored verbatim**: the reader's chain of reads for `i`
    reaches a cluster tail `t` (payload at `start`) and a blob number `blob` such that
    * the tail says "uncompressed" (`t.comp = 0`), so stored size = data size;
    * `blob` is a blob of the cluster (below the blob count, and the tail has offsets for it), and
      the tail records `[blobStart, blobEnd)` of length `d.length` for it, inside the payload;
    * the `d.length` bytes of the file at `start + blobStart` are `d`. -/
def StoredVerbatim (f : Bytes) (i : Nat) (d : Bytes) : Prop :=
  ∃ (t : ClusterTail) (start blob : Nat),
    ReaderLocates f i t start blob ∧
    t.comp = 0 ∧ t.rawSize = t.dataSize ∧
    blob < t.blobCount ∧ blob ≤ t.offsets.length ∧
    t.blobEnd blob = t.blobStart blob + d.length ∧
    t.blobEnd blob ≤ t.rawSize ∧
    slice f (start + t.blobStart blob) d.length = d

/-- **Content `i` of the file `f` is stored compressed with the codec of the pack**: the reader's
    chain of reads for `i` reaches a cluster tail `t` (payload at `start`) and a blob number `blob`
    such that
    * the tail carries the compression byte of the pack, which is not "none";
    * the stored payload — the `t.rawSize` bytes of the file at `start` — is `codec.compress plain`
      for plain data `plain` of the size the tail records, and `codec.decompress` gives `plain`
      back from the stored payload;
    * `blob` is a blob of the cluster, the tail records `[blobStart, blobEnd)` of length `d.length`
      for it inside the plain data, and the bytes of `plain` there are `d`. -/
def StoredCompressed (codec : Codec) (f : Bytes) (i : Nat) (d : Bytes) : Prop :=
  ∃ (t : ClusterTail) (start blob : Nat) (plain : Bytes),
    ReaderLocates f i t start blob ∧
    t.comp = codec.byte ∧ codec.byte ≠ 0 ∧
    slice f start t.rawSize = codec.compress plain ∧
    codec.decompress (slice f start t.rawSize) = some plain ∧
    plain.length = t.dataSize ∧
    blob < t.blobCount ∧ blob ≤ t.offsets.length ∧
    t.blobEnd blob = t.blobStart blob + d.length ∧
    t.blobEnd blob ≤ plain.length ∧
    slice plain (t.blobStart blob) d.length = d

/-- the cluster of content `i`, with the side conditions of `locate_write_core` discharged from the
    creator invariants -/
theorem locate_content (H : Bytes → Bytes) (codec : Codec)
    (hbyte : codec.byte ≤ 3) (m : ContentPackMeta) (hm : m.WF)
    (items : List Item) (arrival : List Cluster)
    (hp : arrival.Perm ((Creator.init.addAll items).finalize).1)
    (hcomp : codec.byte = 0 → ∀ it ∈ items, it.comp = false)
    (hcount : items.length < 2 ^ 32)
    (hncl : arrival.length ≤ 2 ^ 20)
    (hdata : totalSize items < 2 ^ 64)
    (hsize : (contentPackWrite H codec m arrival ((Creator.init.addAll items).finalize).2).length
      < 2 ^ 48)
    (i : Nat) (hi : i < items.length) :
    ∃ (c : Cluster) (start blob : Nat),
      c.compressed = (items[i]).comp ∧
      (c.compressed = true → codec.byte ≠ 0) ∧
      blob < c.blobs.length ∧
      c.blobs.getD blob [] = (items[i]).data ∧
      ReaderLocates (contentPackWrite H codec m arrival ((Creator.init.addAll items).finalize).2) i
        (c.tail (if c.compressed then codec.byte else 0) (c.payload codec).length) start blob ∧
      slice (contentPackWrite H codec m arrival ((Creator.init.addAll items).finalize).2) start
        (c.payload codec).length = c.payload codec := by
  have inv := creatorInv_addAll items
  have inv2 := creatorSizeInv_addAll items
  obtain ⟨he1, he2⟩ := inv.finalize_eq
  rw [he1] at hp
  rw [he2] at hsize ⊢
  generalize hs : Creator.init.addAll items = s at inv inv2 hp hsize ⊢
  have hmem : ∀ c, c ∈ arrival ↔ c ∈ s.allClusters := fun c => hp.mem_iff
  obtain ⟨c, hc, hci, hblob, hkind⟩ := inv.located i hi
  have hgd : (items.getD i ⟨[], false⟩) = items[i] := by
    rw [List.getD_eq_getElem?_getD, List.getElem?_eq_getElem hi]; rfl
  rw [hgd] at hblob hkind
  obtain ⟨hk, hkd⟩ := List.getElem?_eq_some_iff.1 hblob
  have hcbAll : ∀ x ∈ arrival, x.compressed = true → codec.byte ≠ 0 := by
    intro x hx hxc h0
    obtain ⟨it, hit, hitc⟩ := inv2.comp_origin x ((hmem x).1 hx) hxc
    rw [hcomp h0 it hit] at hitc
    exact Bool.noConfusion hitc
  have hcin : c ∈ arrival := (hmem c).2 hc
  obtain ⟨start, hloc, hpay⟩ := locate_write_core H codec m hm arrival s.infos
    ((hp.map _).nodup_iff.2 inv.ids_nodup)
    (by
      intro x hx
      rw [hp.length_eq, inv.count]
      exact inv.ids_lt x ((hmem x).1 hx))
    (by
      intro x hx
      have := inv.nonempty x ((hmem x).1 hx)
      simpa only [Consts.maxBlobsPerCluster] using this)
    (by
      intro x hx
      have := inv2.data_le x ((hmem x).1 hx)
      omega)
    hbyte hcbAll (by rw [inv.infos_len]; exact hcount) hncl hsize i
    (by rw [inv.infos_len]; exact hi) c hcin hci hk
  refine ⟨c, start, (s.infos.getD i (0, 0)).2, hkind, hcbAll c hcin, hk, ?_, hloc, hpay⟩
  rw [List.getD_eq_getElem?_getD, hblob]; rfl

/-- **(A) An item inserted uncompressed is stored verbatim in an uncompressed cluster**, for every
    insertion sequence and every arrival order of the clusters at the writer.

    Hypotheses: those of `contentGet_contentPackWrite`, without the soundness of the codec (nothing
    is decompressed). -/
theorem verbatim_in_file (H : Bytes → Bytes) (codec : Codec)
    (hbyte : codec.byte ≤ 3) (m : ContentPackMeta) (hm : m.WF)
    (items : List Item) (arrival : List Cluster)
    (hp : arrival.Perm ((Creator.init.addAll items).finalize).1)
    (hcomp : codec.byte = 0 → ∀ it ∈ items, it.comp = false)
    (hcount : items.length < 2 ^ 32)
    (hncl : arrival.length ≤ 2 ^ 20)
    (hdata : totalSize items < 2 ^ 64)
    (hsize : (contentPackWrite H codec m arrival ((Creator.init.addAll items).finalize).2).length
      < 2 ^ 48)
    (i : Nat) (hi : i < items.length) (hraw : (items[i]).comp = false) :
    StoredVerbatim (contentPackWrite H codec m arrival ((Creator.init.addAll items).finalize).2) i
      (items[i]).data := by
  obtain ⟨c, start, blob, hkind, -, hk, hd, hloc, hpay⟩ :=
    locate_content H codec hbyte m hm items arrival hp hcomp hcount hncl hdata hsize i hi
  rw [hraw] at hkind
  generalize contentPackWrite H codec m arrival ((Creator.init.addAll items).finalize).2 = F
    at hloc hpay ⊢
  have hpl : c.payload codec = c.data := by
    unfold Cluster.payload; rw [hkind]; rfl
  rw [hpl] at hloc hpay
  have hcb : (if c.compressed = true then codec.byte else 0) = 0 := by rw [hkind]; rfl
  rw [hcb] at hloc
  obtain ⟨hsl, hle⟩ := tail_blob_in_data c 0 c.data.length blob hk
  have hend := tail_blobEnd c 0 c.data.length blob hk
  rw [hd] at hsl hend
  generalize ht : c.tail 0 c.data.length = t at hloc hsl hle hend
  have hraw' : t.rawSize = c.data.length := by subst ht; rfl
  have hds' : t.dataSize = c.data.length := by subst ht; exact (Cluster.data_length c).symm
  have hcnt : t.blobCount = c.blobs.length := by subst ht; rfl
  have hcomp0 : t.comp = 0 := by subst ht; rfl
  have hol : t.offsets.length = c.blobs.length - 1 := by
    subst ht; simp only [Cluster.tail, List.length_dropLast, endOffsets_length]
  refine ⟨t, start, blob, hloc, hcomp0, by rw [hraw', hds'], by rw [hcnt]; exact hk, by omega, hend,
    by rw [hraw']; exact hle, ?_⟩
  rw [← slice_slice F start c.data.length (t.blobStart blob) _ (by omega), hpay]
  exact hsl

/-- **(B) An item inserted compressed is stored in a cluster compressed with the algorithm of the
    pack.**  Hypotheses: exactly those of `contentGet_contentPackWrite`.  That the pack compresses
    (`codec.byte ≠ 0`) is a conclusion: it follows from `hcomp`. -/
theorem compressed_in_file (H : Bytes → Bytes) (codec : Codec) (hcodec : codec.Sound)
    (hbyte : codec.byte ≤ 3) (m : ContentPackMeta) (hm : m.WF)
    (items : List Item) (arrival : List Cluster)
    (hp : arrival.Perm ((Creator.init.addAll items).finalize).1)
    (hcomp : codec.byte = 0 → ∀ it ∈ items, it.comp = false)
    (hcount : items.length < 2 ^ 32)
    (hncl : arrival.length ≤ 2 ^ 20)
    (hdata : totalSize items < 2 ^ 64)
    (hsize : (contentPackWrite H codec m arrival ((Creator.init.addAll items).finalize).2).length
      < 2 ^ 48)
    (i : Nat) (hi : i < items.length) (hc : (items[i]).comp = true) :
    StoredCompressed codec
      (contentPackWrite H codec m arrival ((Creator.init.addAll items).finalize).2) i
      (items[i]).data := by
  obtain ⟨c, start, blob, hkind, hnz, hk, hd, hloc, hpay⟩ :=
    locate_content H codec hbyte m hm items arrival hp hcomp hcount hncl hdata hsize i hi
  rw [hc] at hkind
  have hnz' := hnz hkind
  generalize contentPackWrite H codec m arrival ((Creator.init.addAll items).finalize).2 = F
    at hloc hpay ⊢
  have hpl : c.payload codec = codec.compress c.data := by
    unfold Cluster.payload; rw [hkind]; rfl
  rw [hpl] at hloc hpay
  have hcb : (if c.compressed = true then codec.byte else 0) = codec.byte := by rw [hkind]; rfl
  rw [hcb] at hloc
  obtain ⟨hsl, hle⟩ := tail_blob_in_data c codec.byte (codec.compress c.data).length blob hk
  have hend := tail_blobEnd c codec.byte (codec.compress c.data).length blob hk
  rw [hd] at hsl hend
  generalize ht : c.tail codec.byte (codec.compress c.data).length = t at hloc hsl hle hend
  have hraw' : t.rawSize = (codec.compress c.data).length := by subst ht; rfl
  have hds' : t.dataSize = c.data.length := by subst ht; exact (Cluster.data_length c).symm
  have hcnt : t.blobCount = c.blobs.length := by subst ht; rfl
  have hcompb : t.comp = codec.byte := by subst ht; rfl
  have hol : t.offsets.length = c.blobs.length - 1 := by
    subst ht; simp only [Cluster.tail, List.length_dropLast, endOffsets_length]
  refine ⟨t, start, blob, c.data, hloc, hcompb, hnz', by rw [hraw']; exact hpay,
    by rw [hraw', hpay]; exact hcodec c.data, hds'.symm, by rw [hcnt]; exact hk, by omega, hend,
    hle, hsl⟩

/-- **(C) In a pack created without compression every content is stored verbatim.** -/
theorem verbatim_of_no_compression (H : Bytes → Bytes) (codec : Codec)
    (hbyte : codec.byte ≤ 3) (m : ContentPackMeta) (hm : m.WF)
    (items : List Item) (arrival : List Cluster)
    (hp : arrival.Perm ((Creator.init.addAll items).finalize).1)
    (hcomp : codec.byte = 0 → ∀ it ∈ items, it.comp = false)
    (hcount : items.length < 2 ^ 32)
    (hncl : arrival.length ≤ 2 ^ 20)
    (hdata : totalSize items < 2 ^ 64)
    (hsize : (contentPackWrite H codec m arrival ((Creator.init.addAll items).finalize).2).length
      < 2 ^ 48)
    (hnone : codec.byte = 0) (i : Nat) (hi : i < items.length) :
    StoredVerbatim (contentPackWrite H codec m arrival ((Creator.init.addAll items).finalize).2) i
      (items[i]).data :=
  verbatim_in_file H codec hbyte m hm items arrival hp hcomp hcount hncl hdata hsize i hi
    (hcomp hnone _ (List.getElem_mem hi))

/-! ### 5. the two classes exclude each other; what they mean for the reader -/

/-- a content is not both: the tail byte the reader finds is one value -/
theorem not_verbatim_and_compressed (codec : Codec) (f : Bytes) (i : Nat) (d d' : Bytes)
    (h1 : StoredVerbatim f i d) (h2 : StoredCompressed codec f i d') : False := by
  obtain ⟨t, start, blob, hl, h0, -⟩ := h1
  obtain ⟨t', start', blob', plain, hl', hb, hnz, -⟩ := h2
  obtain ⟨e, -, -⟩ := hl.unique hl'
  subst e
  rw [h0] at hb
  exact hnz hb.symm

/-- `StoredVerbatim` alone — a statement about the bytes of `f`, whoever wrote them — makes the
    reader return `d`, with any decompressor: the decompressor is not called -/
theorem StoredVerbatim.contentGet_eq {f : Bytes} {i : Nat} {d : Bytes} (h : StoredVerbatim f i d)
    (dec : Nat → Bytes → Option Bytes) : contentGet dec f i = .ok (some d) := by
  obtain ⟨t, start, blob, hl, h0, hrd, hb1, hb2, hend, hle, hsl⟩ := h
  have hin := hl.payload_in_file
  have hpl : (slice f start t.rawSize).length = t.rawSize := slice_length f start t.rawSize hin
  rw [contentGet_of_locates dec f i t start blob hl, if_pos h0,
    blobOf_of_bounds t _ blob d.length hb2 hb1 hend (by rw [hpl]; exact hle),
    slice_slice f start t.rawSize _ _ (by omega), hsl]
  rfl

/-- `StoredCompressed` alone makes the reader, given the decompressor of the codec, return `d` -/
theorem StoredCompressed.contentGet_eq {codec : Codec} {f : Bytes} {i : Nat} {d : Bytes}
    (h : StoredCompressed codec f i d) : contentGet codec.decompress' f i = .ok (some d) := by
  obtain ⟨t, start, blob, plain, hl, hb, hnz, -, hdec, hpl, hb1, hb2, hend, hle, hsl⟩ := h
  have hne : ¬ t.comp = 0 := by rw [hb]; exact hnz
  rw [contentGet_of_locates codec.decompress' f i t start blob hl, if_neg hne]
  show (match codec.decompress (slice f start t.rawSize) with
    | none => _
    | some plain => _) = _
  rw [hdec]
  simp only
  rw [← hpl, List.take_length,
    blobOf_of_bounds t plain blob d.length hb2 hb1 hend hle, hsl]
  rfl

/-! ### 6. non-vacuity: the hypotheses hold on concrete packs, and the two classes are told apart -/

namespace ContentFileExample

/-- the file of `ContentFileExample`: codec byte 1, items raw `[1, 2]`, compressed `[3, 4, 5]`,
    raw `[]`; clusters written in reverse hand-over order -/
def file : Bytes :=
  contentPackWrite hash codec pmeta arrival ((Creator.init.addAll items).finalize).2

/-- the raw item is verbatim in the file, in an uncompressed cluster -/
theorem item0_verbatim : StoredVerbatim file 0 [1, 2] :=
  verbatim_in_file hash codec (by decide) pmeta pmeta_wf items arrival arrival_perm (by decide)
    (by decide) (by decide) (by decide) size_ok 0 (by decide) rfl

/-- the compressed item is in a cluster compressed with the codec of the pack -/
theorem item1_compressed : StoredCompressed codec file 1 [3, 4, 5] :=
  compressed_in_file hash codec codec_sound (by decide) pmeta pmeta_wf items arrival arrival_perm
    (by decide) (by decide) (by decide) (by decide) size_ok 1 (by decide) rfl

/-- the empty raw item, second blob of the raw cluster -/
theorem item2_verbatim : StoredVerbatim file 2 [] :=
  verbatim_in_file hash codec (by decide) pmeta pmeta_wf items arrival arrival_perm (by decide)
    (by decide) (by decide) (by decide) size_ok 2 (by decide) rfl

/-- … and the statements discriminate: the compressed item is *not* stored verbatim, the raw one
    is *not* stored compressed -/
theorem item1_not_verbatim (d : Bytes) : ¬ StoredVerbatim file 1 d :=
  fun h => not_verbatim_and_compressed codec file 1 d _ h item1_compressed

theorem item0_not_compressed (d : Bytes) : ¬ StoredCompressed codec file 0 d :=
  fun h => not_verbatim_and_compressed codec file 0 _ d item0_verbatim h

/-- nothing is stored in a file that does not open -/
theorem empty_file_stores_nothing (i : Nat) (d : Bytes) : ¬ StoredVerbatim [] i d := by
  intro h
  have := h.contentGet_eq (fun _ _ => none)
  have hopen : contentOpen [] = .err .format := rfl
  unfold contentGet at this
  rw [hopen] at this
  cases this

/-- a pack created without compression (byte 0; the compressor is never called) -/
def rawCodec : Codec := ⟨0, fun _ => [], fun _ => none⟩
def rawItems : List Item := [⟨[1, 2], false⟩, ⟨[], false⟩, ⟨[9], false⟩]
def rawArrival : List Cluster := ((Creator.init.addAll rawItems).finalize).1

theorem raw_size_ok :
    (contentPackWrite hash rawCodec pmeta rawArrival
      ((Creator.init.addAll rawItems).finalize).2).length < 2 ^ 48 := by
  rw [contentPackWrite_length _ _ _ _ _ pmeta_wf, cfCheckPos_eq]
  simp only [cfTrailer, List.length_append, List.length_reverse, block_length, CheckInfo.encode,
    List.length_cons, hash, List.length_replicate]
  decide

/-- every content of the pack without compression is verbatim in the file — here with a codec whose
    compressor destroys the data and whose decompressor always fails -/
theorem raw_pack_all_verbatim (i : Nat) (hi : i < rawItems.length) :
    StoredVerbatim (contentPackWrite hash rawCodec pmeta rawArrival
      ((Creator.init.addAll rawItems).finalize).2) i (rawItems[i]).data :=
  verbatim_of_no_compression hash rawCodec (by decide) pmeta pmeta_wf rawItems rawArrival
    (List.Perm.refl _) (by decide) (by decide) (by decide) (by decide) raw_size_ok rfl i hi

end ContentFileExample

end Jubako
