/-
The decoder's statement sequences and the readers' wait condition extracted / translated from
`bases/io/compression.rs` on every run (Generated/FuncsSync.lean) are those of the SyncVec model.
-/
import JubakoModel.Model.SyncVec
import JubakoModel.Generated.FuncsSync

namespace Jubako

theorem gen_svShapes :
    Generated.svDecoderLoopShape = decoderTurnStmts ∧ Generated.svDecoderOkShape = decoderPublishStmts ∧
    Generated.svDecoderErrShape = decoderFailStmts := by
  refine ⟨?_, ?_, ?_⟩ <;> decide

/-- the closure given to `wait_while` in `SyncVecRd::wait_for` is the model's waiting condition, and the
    outcome after the wait (`Ok` iff the published length reaches `end`) is the model's `woke` / `failed` -/
theorem gen_svWait (s : SV) (end_ : Nat) :
    Generated.svWaitPredicate s.d s.failedFlag end_ = s.keepsWaiting end_ ∧
    Generated.svWaitResult s.d end_ = decide (s.d ≥ end_) := by
  constructor
  · simp only [Generated.svWaitPredicate, SV.keepsWaiting]
    cases s.failedFlag <;> by_cases h : s.d < end_ <;> simp [h]
  · simp only [Generated.svWaitResult]
    by_cases h : s.d < end_
    · simp [h] <;> omega
    · simp [h] <;> omega

/-- `.wake r` of the model is enabled exactly when the translated wait condition is false, and it leads to
    `woke` exactly when the translated result is `Ok` -/
theorem wake_iff_source (s : SV) (r off end_ : Nat) (hr : s.readers[r]? = some (.waiting off end_)) :
    ((s.step (.wake r)).isSome = !Generated.svWaitPredicate s.d s.failedFlag end_) ∧
    (Generated.svWaitResult s.d end_ = true →
      s.step (.wake r) = some { s with readers := s.readers.set r (.woke off end_) }) := by
  obtain ⟨h1, h2⟩ := gen_svWait s end_
  constructor
  · rw [h1]
    simp only [SV.step, hr, SV.keepsWaiting]
    by_cases hd : s.d ≥ end_
    · have : ¬ s.d < end_ := by omega
      simp [hd, this]
    · have : s.d < end_ := by omega
      cases hf : s.failedFlag <;> simp [hd, this, hf]
  · intro h
    rw [h2] at h
    have hd : s.d ≥ end_ := by simpa using h
    simp [SV.step, hr, hd]

end Jubako
