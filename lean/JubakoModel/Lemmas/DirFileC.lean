/-
Directory pack, file-level round trip — part C (layer L1): the entry codec, at the level of raw
property lists.

`decodeProp` on the bytes `serializeProp` wrote returns the value, for every property shape the
creator writes; `decodeEntry` on `serializeProps` returns all the values (common part, variant id,
variant part).
-/
import JubakoModel.Lemmas.DirFileB

namespace Jubako

set_option linter.unusedSimpArgs false
set_option linter.unusedVariables false
set_option maxRecDepth 8000

/-- the store the creator model uses for an out-of-range store index -/
abbrev vsDflt : VStore := ⟨false, []⟩

/-! ### 1. one property -/

/-- value `v` is representable in a property of kind `k` (raw-layout level; the schema-level
    well-formedness `DirIn.WF` implies it for the finalised schema). -/
def fitsKind (stores : List VStore) : PropKind → Val → Prop
  | .uint sz none, .u n => n < 256 ^ sz
  | .uint _ (some d), .u n => n = d
  | .sint sz none, .s i => 1 ≤ sz ∧ sz ≤ 8 ∧ fitsSigned i sz
  | .sint _ (some d), .s i => i = d
  | .content ps cs none, .content p c => p < 256 ^ ps ∧ p < 65536 ∧ c < 256 ^ cs
  | .content _ cs (some d), .content p c => p = d ∧ c < 256 ^ cs
  | .array (some ls) fixed (some (ks, st)) none, .arr a =>
    a.length < 256 ^ ls ∧ st < stores.length ∧ a.drop fixed ∈ (stores.getD st vsDflt).values ∧
      ks = (stores.getD st vsDflt).keySize
  | .array none fixed (some (ks, st)) none, .arr a =>
    fixed = 0 ∧ st < stores.length ∧ (stores.getD st vsDflt).indexed = true ∧
      a ∈ (stores.getD st vsDflt).values ∧ ks = (stores.getD st vsDflt).keySize
  | _, _ => False

theorem entryLE_at (A b Z : Bytes) (off n : Nat) (ho : A.length = off) (hb : b.length = n) :
    entryLE (A ++ (b ++ Z)) off n = .ok (leNat b) := by
  subst ho; subst hb
  have : A.length + b.length ≤ (A ++ (b ++ Z)).length := by simp
  simp only [entryLE, this, if_true, slice_at A b Z _ _ rfl rfl]

/-- the reader's view of the value stores agrees with the creator's stores -/
def StoresAgree (stores : List VStore) (getVS : Nat → Outcome (ValueStoreTail × Bytes)) : Prop :=
  ∀ st, st < stores.length →
    getVS st = .ok ((stores.getD st vsDflt).tail, (stores.getD st vsDflt).data)

theorem take_pad (a : Bytes) (fixed : Nat) :
    (a.take fixed ++ zeros (fixed - (a.take fixed).length)).take (min a.length fixed) =
      a.take fixed := by
  have hl : (a.take fixed).length = min a.length fixed := by simp [Nat.min_comm]
  rw [← hl, List.take_left']
  rfl

/-- **L1, one property**: the value written by `serializeProp` at offset `A.length` of an entry is
    the value `decodeProp` returns. -/
theorem decodeProp_serializeProp (stores : List VStore)
    (getVS : Nat → Outcome (ValueStoreTail × Bytes)) (hvs : StoresAgree stores getVS)
    (p : RawProp) (v : Val) (variant : Option Nat) (A Z : Bytes)
    (hf : fitsKind stores p.kind v) :
    decodeProp getVS (A ++ (serializeProp stores p v variant ++ Z)) ⟨A.length, p.name, p.kind⟩ =
      .ok v := by
  obtain ⟨size, name, kind⟩ := p
  simp only at hf ⊢
  cases kind with
  | padding => cases v <;> simp [fitsKind] at hf
  | variantId => cases v <;> simp [fitsKind] at hf
  | deportedInt a b c d => cases v <;> simp [fitsKind] at hf
  | uint sz dflt =>
    cases dflt with
    | some d =>
      cases v <;> simp only [fitsKind] at hf
      subst hf
      simp [decodeProp]
    | none =>
      cases v <;> simp only [fitsKind] at hf
      rename_i n
      have := entryLE_at A (leBytes n sz) Z A.length sz rfl (leBytes_length _ _)
      simp only [decodeProp, serializeProp, uintOf, this, Outcome.ok_bind,
        leNat_leBytes_of_lt n sz hf]
  | sint sz dflt =>
    cases dflt with
    | some d =>
      cases v <;> simp only [fitsKind] at hf
      subst hf
      simp [decodeProp]
    | none =>
      cases v <;> simp only [fitsKind] at hf
      rename_i i
      obtain ⟨h1, h8, hfs⟩ := hf
      have := entryLE_at A (leBytesInt i sz) Z A.length sz rfl
        (by simp [leBytesInt, leBytes_length])
      simp only [decodeProp, serializeProp, sintOf, this, Outcome.ok_bind,
        sint_roundtrip i sz h1 h8 hfs]
  | content ps cs dflt =>
    cases dflt with
    | some d =>
      cases v <;> simp only [fitsKind] at hf
      rename_i pk c
      obtain ⟨rfl, hc⟩ := hf
      have := entryLE_at A (leBytes c cs) Z A.length cs rfl (leBytes_length _ _)
      simp only [decodeProp, serializeProp, cidOf, List.nil_append, this, Outcome.ok_bind,
        leNat_leBytes_of_lt c cs hc]
    | none =>
      cases v <;> simp only [fitsKind] at hf
      rename_i pk c
      obtain ⟨hp, hp16, hc⟩ := hf
      have h1 := entryLE_at A (leBytes pk ps) (leBytes c cs ++ Z) A.length ps rfl
        (leBytes_length _ _)
      have h2 := entryLE_at (A ++ leBytes pk ps) (leBytes c cs) Z (A.length + ps) cs
        (by simp [leBytes_length]) (leBytes_length _ _)
      simp only [List.append_assoc] at h1 h2
      simp only [decodeProp, serializeProp, cidOf, packOf, List.append_assoc, h1, h2,
        Outcome.ok_bind, leNat_leBytes_of_lt c cs hc, leNat_leBytes_of_lt pk ps hp,
        Nat.mod_eq_of_lt hp16]
  | array lenSize fixed dep dflt =>
    cases dflt with
    | some x => cases v <;> cases lenSize <;> cases dep <;> simp [fitsKind] at hf
    | none =>
      cases dep with
      | none => cases v <;> cases lenSize <;> simp [fitsKind] at hf
      | some kst =>
        obtain ⟨ks, st⟩ := kst
        cases lenSize with
        | none =>
          cases v <;> simp only [fitsKind] at hf
          rename_i a
          obtain ⟨rfl, hst, hix, hmem, rfl⟩ := hf
          generalize hS : stores.getD st vsDflt = S at hix hmem
          have hagree := hvs st hst
          rw [hS] at hagree
          have hid := VStore.idOf_lt S a hmem
          have h1 := entryLE_at A (leBytes (S.idOf a) S.keySize) Z (A.length + 0 + 0) S.keySize
            rfl (leBytes_length _ _)
          have hb : A.length + 0 + 0 ≤ (A ++ (leBytes (S.idOf a) S.keySize ++ Z)).length := by
            simp
          simp only [decodeProp, serializeProp, arrayOf, hS, h1, Outcome.ok_bind, hb, if_true,
            Outcome.pure_eq_ok, resolveArray, hagree, Option.map_none,
            valueStoreGet_unsized S hix a hmem, leNat_leBytes_of_lt _ _ hid, slice_zero_len,
            List.take_nil, List.nil_append]
        | some ls =>
          cases v <;> simp only [fitsKind] at hf
          rename_i a
          obtain ⟨hal, hst, hmem, rfl⟩ := hf
          generalize hS : stores.getD st vsDflt = S at hmem
          have hagree := hvs st hst
          rw [hS] at hagree
          have hid := VStore.idOf_lt S (a.drop fixed) hmem
          have hpl : (a.take fixed).length ≤ fixed := by simp; omega
          generalize hB : a.take fixed ++ zeros (fixed - (a.take fixed).length) = B
          have hBl : B.length = fixed := by
            subst hB; simp only [List.length_append, zeros_length]; omega
          generalize hK : leBytes (S.idOf (a.drop fixed)) S.keySize = K
          have hKl : K.length = S.keySize := by subst hK; exact leBytes_length _ _
          have he : A ++ (leBytes a.length ls ++ a.take fixed ++
              zeros (fixed - (a.take fixed).length) ++ K ++ Z) =
              A ++ (leBytes a.length ls ++ (B ++ (K ++ Z))) := by
            subst hB; simp only [List.append_assoc]
          have h1 := entryLE_at A (leBytes a.length ls) (B ++ (K ++ Z)) A.length ls rfl
            (leBytes_length _ _)
          have h2 : slice (A ++ (leBytes a.length ls ++ (B ++ (K ++ Z)))) (A.length + ls) fixed =
              B := by
            rw [← List.append_assoc]
            exact slice_at _ _ _ _ _ (by simp [leBytes_length]) hBl
          have h3 : entryLE (A ++ (leBytes a.length ls ++ (B ++ (K ++ Z))))
              (A.length + ls + fixed) S.keySize = .ok (leNat K) := by
            have := entryLE_at (A ++ (leBytes a.length ls ++ B)) K Z (A.length + ls + fixed)
              S.keySize (by simp [leBytes_length, hBl]; omega) hKl
            simpa only [List.append_assoc] using this
          have hb : A.length + ls + fixed ≤
              (A ++ (leBytes a.length ls ++ (B ++ (K ++ Z)))).length := by
            simp [leBytes_length, hBl]; omega
          have hK' : leNat K = S.idOf (a.drop fixed) := by
            subst hK; exact leNat_leBytes_of_lt _ _ hid
          have hhead : B.take (min a.length fixed) = a.take fixed := by
            subst hB; exact take_pad a fixed
          have hdl : a.length - min a.length fixed = (a.drop fixed).length := by
            simp only [List.length_drop]; omega
          simp only [decodeProp, serializeProp, arrayOf, hS, hK, he, h1, h2, h3, Outcome.ok_bind,
            hb, if_true, Outcome.pure_eq_ok, resolveArray, hagree, Option.map_some,
            leNat_leBytes_of_lt _ _ hal, hK', hhead, hdl, valueStoreGet_sized S _ hmem,
            List.take_append_drop]

/-- `serializeProp` writes exactly `p.size` bytes for every property the creator can write -/
theorem serializeProp_length (stores : List VStore) (p : RawProp) (v : Val) (variant : Option Nat)
    (hw : p.Writable) : (serializeProp stores p v variant).length = p.size := by
  obtain ⟨size, name, kind⟩ := p
  obtain ⟨-, hw⟩ := hw
  simp only at hw
  cases kind with
  | padding => simp [serializeProp, zeros_length]
  | variantId => simp only at hw; simp [serializeProp, hw]
  | deportedInt a b c d => simp at hw
  | uint sz dflt =>
    cases dflt with
    | none => simp [serializeProp, leBytes_length, hw.2.2]
    | some d => simp [serializeProp, hw.2.2.1]
  | sint sz dflt =>
    cases dflt with
    | none => simp [serializeProp, leBytesInt, leBytes_length, hw.2.2]
    | some d => simp [serializeProp, hw.2.2.1]
  | content ps cs dflt =>
    cases dflt with
    | none => simp [serializeProp, leBytes_length, hw.2.2.2]
    | some d => simp [serializeProp, leBytes_length, hw.2.2.2.1]
  | array lenSize fixed dep dflt =>
    cases dflt with
    | some x => cases lenSize <;> cases dep <;> simp at hw
    | none =>
      cases dep with
      | none => cases lenSize <;> simp at hw
      | some kst =>
        obtain ⟨ks, st⟩ := kst
        cases lenSize with
        | none =>
          simp only at hw
          simp [serializeProp, leBytes_length, hw.2.2.2.2]
        | some ls =>
          simp only at hw
          simp only [serializeProp, List.length_append, leBytes_length, zeros_length,
            List.length_take, hw.2.2.2.2.2.2]
          omega

/-! ### 2. property lists -/

/-- values left once the properties `ps` have taken theirs -/
def restVals : List RawProp → List Val → List Val
  | [], vals => vals
  | p :: ps, vals =>
    if p.kind = .padding ∨ p.kind = .variantId then restVals ps vals
    else match vals with
      | [] => []
      | _ :: vs => restVals ps vs

/-- (name, value) pairs of the addressable properties of `ps`, in order -/
def expectedVals : List RawProp → List Val → List (Bytes × Val)
  | [], _ => []
  | p :: ps, vals =>
    if p.kind = .padding ∨ p.kind = .variantId then expectedVals ps vals
    else match vals with
      | [] => []
      | v :: vs => (p.name, v) :: expectedVals ps vs

/-- every addressable property of `ps` has a value, representable in it -/
def PropsFit (stores : List VStore) : List RawProp → List Val → Prop
  | [], _ => True
  | p :: ps, vals =>
    if p.kind = .padding ∨ p.kind = .variantId then PropsFit stores ps vals
    else match vals with
      | [] => False
      | v :: vs => fitsKind stores p.kind v ∧ PropsFit stores ps vs

theorem serializeProps_append (stores : List VStore) (variant : Option Nat)
    (ps qs : List RawProp) (vals : List Val) :
    serializeProps stores variant (ps ++ qs) vals =
      serializeProps stores variant ps vals ++ serializeProps stores variant qs (restVals ps vals) := by
  induction ps generalizing vals with
  | nil => simp [serializeProps, restVals]
  | cons p ps ih =>
    simp only [List.cons_append, serializeProps, restVals]
    split
    · rw [ih, List.append_assoc]
    · cases vals with
      | nil =>
        simp only [List.append_assoc]
        rw [ih]
        congr 2
        -- the remaining properties get no value either way
        have : ∀ l : List RawProp, restVals l [] = [] := by
          intro l
          induction l with
          | nil => rfl
          | cons q l ihl => simp only [restVals]; split <;> simp [ihl]
        rw [this]
      | cons v vs => simp only [List.append_assoc]; rw [ih]

theorem restVals_nil (l : List RawProp) : restVals l [] = [] := by
  induction l with
  | nil => rfl
  | cons q l ihl => simp only [restVals]; split <;> simp [ihl]

theorem expectedVals_nil (l : List RawProp) : expectedVals l [] = [] := by
  induction l with
  | nil => rfl
  | cons q l ihl => simp only [expectedVals]; split <;> simp [ihl]

theorem expectedVals_append' (ps qs : List RawProp) (vals : List Val) :
    expectedVals (ps ++ qs) vals = expectedVals ps vals ++ expectedVals qs (restVals ps vals) := by
  induction ps generalizing vals with
  | nil => simp [expectedVals, restVals]
  | cons p ps ih =>
    simp only [List.cons_append, expectedVals, restVals]
    split
    · exact ih vals
    · cases vals with
      | nil => simp only [List.nil_append, expectedVals_nil]
      | cons v vs => simp only [List.cons_append]; rw [ih vs]

theorem PropsFit_append (stores : List VStore) (ps qs : List RawProp) (vals : List Val) :
    PropsFit stores (ps ++ qs) vals ↔
      PropsFit stores ps vals ∧ (PropsFit stores ps vals → PropsFit stores qs (restVals ps vals)) := by
  induction ps generalizing vals with
  | nil => simp [PropsFit, restVals]
  | cons p ps ih =>
    simp only [List.cons_append, PropsFit, restVals]
    split
    · exact ih vals
    · cases vals with
      | nil => simp
      | cons v vs =>
        simp only
        rw [ih vs]
        constructor
        · rintro ⟨h1, h2, h3⟩; exact ⟨⟨h1, h2⟩, fun _ => h3 h2⟩
        · rintro ⟨⟨h1, h2⟩, h3⟩; exact ⟨h1, h2, fun _ => h3 ⟨h1, h2⟩⟩

theorem serializeProps_length (stores : List VStore) (variant : Option Nat) (ps : List RawProp)
    (vals : List Val) (hw : ∀ p ∈ ps, p.Writable) :
    (serializeProps stores variant ps vals).length = propsSize ps := by
  induction ps generalizing vals with
  | nil => simp [serializeProps, propsSize]
  | cons p ps ih =>
    have hp := hw p (List.mem_cons_self ..)
    have hps : ∀ q ∈ ps, q.Writable := fun q hq => hw q (List.mem_cons_of_mem _ hq)
    simp only [serializeProps, propsSize_cons]
    split
    · rw [List.length_append, serializeProp_length stores p _ variant hp, ih _ hps]
    · cases vals with
      | nil => simp only; rw [List.length_append, serializeProp_length stores p _ variant hp, ih _ hps]
      | cons v vs =>
        simp only; rw [List.length_append, serializeProp_length stores p _ variant hp, ih _ hps]

/-- the step function of `decodeEntry`'s folds -/
def decStep (getVS : Nat → Outcome (ValueStoreTail × Bytes)) (e : Bytes)
    (acc : List (Bytes × Val)) (p : PropAt) : Outcome (List (Bytes × Val)) := do
  let v ← decodeProp getVS e p
  pure (acc ++ [(p.name, v)])

/-- **L1, property list**: folding `decodeProp` over the placed properties of `ps` reads the values
    `serializeProps` wrote, wherever the serialised properties sit in the entry. -/
theorem decodeProps_serializeProps (stores : List VStore)
    (getVS : Nat → Outcome (ValueStoreTail × Bytes)) (hvs : StoresAgree stores getVS)
    (variant : Option Nat) (e : Bytes) (ps : List RawProp) (vals : List Val)
    (hw : ∀ p ∈ ps, p.Writable) (hf : PropsFit stores ps vals) (A Z : Bytes)
    (he : e = A ++ (serializeProps stores variant ps vals ++ Z)) (acc : List (Bytes × Val)) :
    (placeProps A.length ps).foldlM (decStep getVS e) acc = .ok (acc ++ expectedVals ps vals) := by
  induction ps generalizing vals A acc with
  | nil => simp [placeProps, expectedVals]
  | cons p ps ih =>
    have hp := hw p (List.mem_cons_self ..)
    have hps : ∀ q ∈ ps, q.Writable := fun q hq => hw q (List.mem_cons_of_mem _ hq)
    simp only [placeProps, expectedVals]
    simp only [PropsFit] at hf
    simp only [serializeProps] at he
    by_cases hst : p.kind = .padding ∨ p.kind = .variantId
    · rw [if_pos hst] at hf he ⊢
      rw [if_pos hst]
      have hl := serializeProp_length stores p (.u 0) variant hp
      have := ih vals hps hf (A ++ serializeProp stores p (.u 0) variant)
        (by rw [he]; simp only [List.append_assoc]) acc
      rw [List.length_append, hl] at this
      exact this
    · rw [if_neg hst] at hf he ⊢
      rw [if_neg hst]
      cases vals with
      | nil => exact absurd hf (by simp)
      | cons v vs =>
        simp only at hf he ⊢
        obtain ⟨hfv, hfr⟩ := hf
        have hl := serializeProp_length stores p v variant hp
        have hd := decodeProp_serializeProp stores getVS hvs p v variant A
          (serializeProps stores variant ps vs ++ Z) hfv
        have he' : e = A ++ (serializeProp stores p v variant ++
            (serializeProps stores variant ps vs ++ Z)) := by
          rw [he]; simp only [List.append_assoc]
        rw [← he'] at hd
        have := ih vs hps hfr (A ++ serializeProp stores p v variant)
          (by rw [he]; simp only [List.append_assoc]) (acc ++ [(p.name, v)])
        rw [List.length_append, hl] at this
        rw [List.foldlM_cons]
        simp only [decStep, hd, Outcome.ok_bind, Outcome.pure_eq_ok]
        rw [this, List.append_assoc, List.singleton_append]

/-! ### 3. whole entries -/

theorem decodeEntry_eq (getVS : Nat → Outcome (ValueStoreTail × Bytes)) (l : Layout) (e : Bytes) :
    decodeEntry getVS l e = (do
      let common ← l.common.foldlM (decStep getVS e) []
      match l.variantIdOffset with
      | none => .ok ⟨none, common⟩
      | some off => do
        let vid ← entryLE e off 1
        match l.variants[vid]? with
        | none => .ok ⟨some vid, common⟩
        | some (_, props) => do
          let vv ← props.foldlM (decStep getVS e) []
          .ok ⟨some vid, common ++ vv⟩) := rfl

/-- **L1, entry without variants** -/
theorem decodeEntry_common (stores : List VStore)
    (getVS : Nat → Outcome (ValueStoreTail × Bytes)) (hvs : StoresAgree stores getVS)
    (common : List RawProp) (vals : List Val) (entrySize n : Nat)
    (hw : ∀ p ∈ common, p.Writable) (hf : PropsFit stores common vals) :
    decodeEntry getVS (layoutOf common [] entrySize n) (serializeProps stores none common vals) =
      .ok ⟨none, expectedVals common vals⟩ := by
  have := decodeProps_serializeProps stores getVS hvs none
    (serializeProps stores none common vals) common vals hw hf [] [] (by simp) []
  simp only [List.length_nil, List.nil_append] at this
  rw [decodeEntry_eq]
  simp only [layoutOf, this, Outcome.ok_bind, List.length_nil, ne_eq, not_true_eq_false, if_false]

/-- **L1, entry with a variant**: common part, variant id byte, the variant's properties.
    `hvi256`: the variant id is one byte in the entry. -/
theorem decodeEntry_variant (stores : List VStore)
    (getVS : Nat → Outcome (ValueStoreTail × Bytes)) (hvs : StoresAgree stores getVS)
    (common : List RawProp) (vars : List (Bytes × List RawProp)) (vi : Nat) (vals : List Val)
    (entrySize n : Nat) (hvi : vi < vars.length) (hvi256 : vi < 256)
    (hw : ∀ p ∈ common, p.Writable) (hwv : ∀ p ∈ (vars.getD vi ([], [])).2, p.Writable)
    (hf : PropsFit stores (common ++ (rawVariants vars).getD vi []) vals) :
    decodeEntry getVS (layoutOf common vars entrySize n)
        (serializeProps stores (some vi) (common ++ (rawVariants vars).getD vi []) vals) =
      .ok ⟨some vi, expectedVals (common ++ (rawVariants vars).getD vi []) vals⟩ := by
  have hgv : (rawVariants vars).getD vi [] =
      vidProp (vars.getD vi ([], [])).1 :: (vars.getD vi ([], [])).2 := by
    simp only [rawVariants, List.getD_eq_getElem?_getD, List.getElem?_map,
      List.getElem?_eq_getElem hvi]
    rfl
  generalize hb : vars.getD vi ([], []) = b at hgv hwv
  have hbget : vars[vi]? = some b := by
    rw [← hb, List.getD_eq_getElem?_getD, List.getElem?_eq_getElem hvi]; rfl
  rw [hgv] at hf ⊢
  rw [PropsFit_append] at hf
  obtain ⟨hfc, hfv⟩ := hf
  have hfv := hfv hfc
  have hvk : (vidProp b.1).kind = .padding ∨ (vidProp b.1).kind = .variantId := Or.inr rfl
  simp only [PropsFit, hvk, if_true] at hfv
  rw [serializeProps_append, expectedVals_append']
  simp only [serializeProps, expectedVals, hvk, if_true, restVals]
  generalize hC : serializeProps stores (some vi) common vals = C
  generalize hrv : restVals common vals = rv at hfv
  have hCl : C.length = propsSize common := by
    rw [← hC]; exact serializeProps_length stores (some vi) common vals hw
  have hsp : serializeProp stores (vidProp b.1) (.u 0) (some vi) = [UInt8.ofNat vi] := by
    simp [serializeProp, vidProp]
  rw [hsp]
  generalize hV : serializeProps stores (some vi) b.2 rv = V
  generalize hE : C ++ ([UInt8.ofNat vi] ++ V) = E
  have h1 := decodeProps_serializeProps stores getVS hvs (some vi) E common vals hw hfc []
    ([UInt8.ofNat vi] ++ V) (by rw [hC, ← hE]; rfl) []
  simp only [List.length_nil, List.nil_append] at h1
  have h2 := decodeProps_serializeProps stores getVS hvs (some vi) E b.2 rv hwv hfv
    (C ++ [UInt8.ofNat vi]) [] (by rw [hV, ← hE]; simp only [List.append_assoc, List.append_nil])
    []
  simp only [List.length_append, List.length_cons, List.length_nil, hCl, List.nil_append] at h2
  have h3 : entryLE E (propsSize common) 1 = .ok vi := by
    have := entryLE_at C [UInt8.ofNat vi] V (propsSize common) 1 hCl rfl
    rw [hE] at this
    rw [this]
    simp [leNat, toNat_ofNat_u8, Nat.mod_eq_of_lt hvi256]
  have hne : vars.length ≠ 0 := by omega
  rw [decodeEntry_eq]
  simp only [layoutOf, h1, Outcome.ok_bind, hne, ne_eq, not_false_eq_true, if_true, h3,
    List.getElem?_map, hbget, Option.map_some, h2]

end Jubako
