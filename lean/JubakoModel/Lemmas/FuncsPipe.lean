/-
The statement sequences of the back-pressure protocol extracted from the source on every run
(Generated/FuncsPipe.lean) are the ones the actions of the pipeline model stand for.
-/
import JubakoModel.Model.Pipeline
import JubakoModel.Generated.FuncsPipe

namespace Jubako

theorem gen_pipelineShapes :
    Generated.pipelineDispatchShape = mainSendCompressedStmts ∧
    Generated.pipelineRawShape = mainSendRawStmts ∧
    Generated.pipelineWorkerShape = workerTurnStmts := by
  refine ⟨?_, ?_, ?_⟩ <;> decide

end Jubako
