/-
Directory pack, file-level round trip — part G (layers L4/L5): the written file segment by
segment, and what the reader's open functions (`directoryOpen`, `entryStoreOpen`,
`valueStoreOpen`) return on it.
-/
import JubakoModel.Lemmas.DirFileF

namespace Jubako

set_option linter.unusedSimpArgs false
set_option linter.unusedVariables false
set_option maxRecDepth 8000

/-! ### 1. the two layout folds of `dirPackWrite` in closed form -/

def dfIdxBytes (tails : List Bytes) : Bytes := (tails.map block).flatten

/-- (position, size) of the index tails laid out from `pos` -/
def dfIdxSOs : List Bytes → Nat → List (Nat × Nat)
  | [], _ => []
  | t :: ts, pos => (pos, t.length) :: dfIdxSOs ts (pos + t.length + 4)

theorem dfIdxBytes_cons (t : Bytes) (ts : List Bytes) :
    dfIdxBytes (t :: ts) = block t ++ dfIdxBytes ts := by simp [dfIdxBytes]

theorem idx_fold (tails : List Bytes) (b0 : Bytes) (s0 : List (Nat × Nat)) (p0 : Nat) :
    tails.foldl (fun (acc : Bytes × List (Nat × Nat) × Nat) t =>
      (acc.1 ++ block t, acc.2.1 ++ [(acc.2.2, t.length)], acc.2.2 + t.length + 4)) (b0, s0, p0) =
    (b0 ++ dfIdxBytes tails, s0 ++ dfIdxSOs tails p0, p0 + (dfIdxBytes tails).length) := by
  induction tails generalizing b0 s0 p0 with
  | nil => simp [dfIdxBytes, dfIdxSOs]
  | cons t ts ih =>
    simp only [List.foldl_cons, ih, dfIdxBytes_cons, dfIdxSOs, List.append_assoc,
      List.singleton_append, List.length_append, block_length]
    refine Prod.ext rfl (Prod.ext rfl ?_)
    simp only
    omega

def dfVsBytes (stores : List VStore) : Bytes := (stores.map (fun s => s.encode.1)).flatten

/-- (tail position, tail size) of the value stores laid out from `pos` -/
def dfVsSOs : List VStore → Nat → List (Nat × Nat)
  | [], _ => []
  | s :: ss, pos => (pos + s.encode.2.1, s.encode.2.2) :: dfVsSOs ss (pos + s.encode.1.length)

theorem dfVsBytes_cons (s : VStore) (ss : List VStore) :
    dfVsBytes (s :: ss) = s.encode.1 ++ dfVsBytes ss := by simp [dfVsBytes]

theorem dfVsBytes_append (a b : List VStore) : dfVsBytes (a ++ b) = dfVsBytes a ++ dfVsBytes b := by
  simp [dfVsBytes]

theorem vs_fold (stores : List VStore) (b0 : Bytes) (s0 : List (Nat × Nat)) (p0 : Nat) :
    stores.foldl (fun (acc : Bytes × List (Nat × Nat) × Nat) s =>
      let (b, rel, tl) := s.encode
      (acc.1 ++ b, acc.2.1 ++ [(acc.2.2 + rel, tl)], acc.2.2 + b.length)) (b0, s0, p0) =
    (b0 ++ dfVsBytes stores, s0 ++ dfVsSOs stores p0, p0 + (dfVsBytes stores).length) := by
  induction stores generalizing b0 s0 p0 with
  | nil => simp [dfVsBytes, dfVsSOs]
  | cons s ss ih =>
    simp only [List.foldl_cons, ih, dfVsBytes_cons, dfVsSOs, List.append_assoc,
      List.singleton_append, List.length_append]
    refine Prod.ext rfl (Prod.ext rfl ?_)
    simp only
    omega

theorem dfVsSOs_length (stores : List VStore) (pos : Nat) :
    (dfVsSOs stores pos).length = stores.length := by
  induction stores generalizing pos with
  | nil => rfl
  | cons s ss ih => simp [dfVsSOs, ih]

theorem dfIdxSOs_length (tails : List Bytes) (pos : Nat) :
    (dfIdxSOs tails pos).length = tails.length := by
  induction tails generalizing pos with
  | nil => rfl
  | cons s ss ih => simp [dfIdxSOs, ih]

/-- where the `k`-th store lands -/
theorem dfVsSOs_at (l1 : List VStore) (s : VStore) (l2 : List VStore) (pos : Nat) :
    (dfVsSOs (l1 ++ s :: l2) pos)[l1.length]? =
      some (pos + (dfVsBytes l1).length + s.encode.2.1, s.encode.2.2) := by
  induction l1 generalizing pos with
  | nil => simp [dfVsSOs, dfVsBytes]
  | cons a l1 ih =>
    simp only [List.cons_append, dfVsSOs, List.length_cons, List.getElem?_cons_succ, ih,
      dfVsBytes_cons, List.length_append, Nat.add_assoc]

/-! ### 2. the written file, segment by segment -/

/-- table of sized offsets (without CRC) -/
def soTable (sos : List (Nat × Nat)) : Bytes :=
  (sos.map (fun so => sizedOffsetEncode so.1 so.2)).flatten

theorem soTable_length (sos : List (Nat × Nat)) : (soTable sos).length = 8 * sos.length :=
  flatten_fixed_length sos _ 8 (fun x => sizedOffsetEncode_length x.1 x.2)

theorem soTable_slice (sos : List (Nat × Nat)) (k : Nat) (hk : k < sos.length) :
    slice (soTable sos) (8 * k) 8 = sizedOffsetEncode (sos.getD k (0, 0)).1 (sos.getD k (0, 0)).2 :=
  slice_flatten_fixed sos _ 8 (fun x => sizedOffsetEncode_length x.1 x.2) k (0, 0) hk

namespace DirIn

def idxTails (d : DirIn) : List Bytes :=
  d.indexes.map (fun ix => (⟨0, ix.count, ix.offset, zeros 4, 0, ix.name⟩ : IndexInfo).encode)

def idxBytes (d : DirIn) : Bytes := dfIdxBytes d.idxTails

/-- start of the entry data block -/
def pos1 (d : DirIn) : Nat := 128 + d.idxBytes.length

/-- the serialised entries, one after the other -/
def entryBytes (d : DirIn) : Bytes := (d.entries.map (serializeEntry d.stores d.layout)).flatten

def esTail (d : DirIn) : Bytes := entryStoreTail d.layout d.entries.length

/-- position of the entry-store tail -/
def esPos (d : DirIn) : Nat := d.pos1 + (block d.entryBytes).length

/-- start of the value stores -/
def pos2 (d : DirIn) : Nat := d.pos1 + (block d.entryBytes).length + d.esTail.length + 4

def vsBytes (d : DirIn) : Bytes := dfVsBytes d.stores

/-- start of the three offset tables -/
def pos3 (d : DirIn) : Nat := d.pos2 + d.vsBytes.length

def t1 (d : DirIn) : Bytes := soTable (dfIdxSOs d.idxTails 128)
def t2 (d : DirIn) : Bytes := soTable (dfVsSOs d.stores d.pos2)
def t3 (d : DirIn) : Bytes := soTable [(d.esPos, d.esTail.length)]

def checkPos (d : DirIn) : Nat :=
  d.pos3 + (block d.t1).length + (block d.t2).length + (block d.t3).length

/-- the directory pack header `dirPackWrite` writes -/
def dh (d : DirIn) (freeData : Bytes) : DirectoryHeader :=
  ⟨d.pos3, d.pos3 + (block d.t1).length + (block d.t2).length, d.pos3 + (block d.t1).length,
    d.indexes.length, 1, d.stores.length, freeData⟩

/-- the pack header `dirPackWrite` writes -/
def header (d : DirIn) (vendor uuid : Bytes) : PackHeader :=
  ⟨PackKind.directory, vendor, Consts.versionMajor, Consts.versionMinor, uuid, 0,
    d.checkPos + 37 + 64, d.checkPos⟩

/-- everything between the two headers and the check block -/
def body (d : DirIn) : Bytes :=
  d.idxBytes ++ (block d.entryBytes ++ (block d.esTail ++ (d.vsBytes ++
    (block d.t1 ++ (block d.t2 ++ block d.t3)))))

/-- check block and mirrored tail -/
def trailer (d : DirIn) (H : Bytes → Bytes) (vendor uuid freeData : Bytes) : Bytes :=
  block (CheckInfo.blake3 (H (block (d.header vendor uuid).encode ++
    (block (d.dh freeData).encode ++ d.body)))).encode ++
  (block (d.header vendor uuid).encode).reverse

end DirIn

theorem dirPackWrite_eq (H : Bytes → Bytes) (vendor uuid freeData : Bytes) (d : DirIn) :
    dirPackWrite H vendor uuid freeData d =
      block (d.header vendor uuid).encode ++ (block (d.dh freeData).encode ++
        (d.idxBytes ++ (block d.entryBytes ++ (block d.esTail ++ (d.vsBytes ++
          (block d.t1 ++ (block d.t2 ++ (block d.t3 ++ d.trailer H vendor uuid freeData)))))))) := by
  have hst : (d.storeKinds.zipIdx.map
      (fun (x : Bool × Nat) => match x with
        | (ix, i) => VStore.finalize ix (addedTo d.schema d.entries i))) = d.stores := rfl
  unfold dirPackWrite
  simp only [hst]
  rw [show finalizeSchema d.stores d.schema d.entries = d.layout from rfl]
  rw [show (d.indexes.map (fun ix =>
      (⟨0, ix.count, ix.offset, zeros 4, 0, ix.name⟩ : IndexInfo).encode)) = d.idxTails from rfl]
  rw [idx_fold, vs_fold]
  simp only [List.nil_append, framePack, packTail, id, List.append_assoc, DirIn.trailer,
    DirIn.header, DirIn.dh, DirIn.checkPos, DirIn.body, DirIn.t1, DirIn.t2, DirIn.t3, DirIn.pos3,
    DirIn.pos2, DirIn.esPos, DirIn.pos1, DirIn.vsBytes, DirIn.idxBytes, DirIn.esTail,
    DirIn.entryBytes, soTable, List.length_map]

end Jubako
