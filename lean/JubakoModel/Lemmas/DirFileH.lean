/-
Directory pack, file-level round trip — part H (layers L4/L5): opening the written file.
-/
import JubakoModel.Lemmas.DirFileG

namespace Jubako

set_option linter.unusedSimpArgs false
set_option linter.unusedVariables false
set_option maxRecDepth 8000

/-! ### 1. directory pack header codec -/

theorem DirectoryHeader.encode_length (h : DirectoryHeader) (hf : h.freeData.length = 24) :
    h.encode.length = 60 := by
  simp [DirectoryHeader.encode, leBytes_length, zeros_length, hf]

/-- field widths: three `u64` positions, two `u32` counts, the value store count on one byte -/
theorem DirectoryHeader.decode_encode (h : DirectoryHeader) (h1 : h.indexPtrPos < 2 ^ 64)
    (h2 : h.entryStorePtrPos < 2 ^ 64) (h3 : h.valueStorePtrPos < 2 ^ 64)
    (h4 : h.indexCount < 2 ^ 32) (h5 : h.entryStoreCount < 2 ^ 32) (h6 : h.valueStoreCount < 256)
    (hf : h.freeData.length = 24) : DirectoryHeader.decode h.encode = .ok h := by
  have hlen := DirectoryHeader.encode_length h hf
  obtain ⟨ip, ep, vp, ic, ec, vc, fd⟩ := h
  simp only at h1 h2 h3 h4 h5 h6 hf
  have e : DirectoryHeader.encode ⟨ip, ep, vp, ic, ec, vc, fd⟩ =
      leBytes ip 8 ++ (leBytes ep 8 ++ (leBytes vp 8 ++ (leBytes ic 4 ++ (leBytes ec 4 ++
        (leBytes vc 1 ++ (zeros 3 ++ fd)))))) := by
    simp [DirectoryHeader.encode]
  rw [e] at hlen ⊢
  generalize hbs : (leBytes ip 8 ++ (leBytes ep 8 ++ (leBytes vp 8 ++ (leBytes ic 4 ++
    (leBytes ec 4 ++ (leBytes vc 1 ++ (zeros 3 ++ fd))))))) = bs at hlen ⊢
  have s1 : slice bs 0 8 = leBytes ip 8 := by subst hbs; seg_simp [hf]
  have s2 : slice bs 8 8 = leBytes ep 8 := by subst hbs; seg_simp [hf]
  have s3 : slice bs 16 8 = leBytes vp 8 := by subst hbs; seg_simp [hf]
  have s4 : slice bs 24 4 = leBytes ic 4 := by subst hbs; seg_simp [hf]
  have s5 : slice bs 28 4 = leBytes ec 4 := by subst hbs; seg_simp [hf]
  have s6 : slice bs 32 1 = leBytes vc 1 := by subst hbs; seg_simp [hf]
  have s7 : slice bs 36 24 = fd := by subst hbs; seg_simp [hf]
  have h8 : (256 : Nat) ^ 8 = 2 ^ 64 := by decide
  have h32 : (256 : Nat) ^ 4 = 2 ^ 32 := by decide
  have h11 : (256 : Nat) ^ 1 = 256 := by decide
  simp only [DirectoryHeader.decode, hlen, s1, s2, s3, s4, s5, s6, s7,
    leNat_leBytes_of_lt _ 8 (h8 ▸ h1), leNat_leBytes_of_lt _ 8 (h8 ▸ h2),
    leNat_leBytes_of_lt _ 8 (h8 ▸ h3), leNat_leBytes_of_lt _ 4 (h32 ▸ h4),
    leNat_leBytes_of_lt _ 4 (h32 ▸ h5), leNat_leBytes_of_lt _ 1 (h11.symm ▸ h6)]
  simp

/-! ### 2. blocks inside a file -/

theorem readBlock_at (f pre X post : Bytes) (pos n : Nat) (hf : f = pre ++ (block X ++ post))
    (hp : pre.length = pos) (hn : X.length = n) : readBlock f pos n = .ok X := by
  subst hf; subst hp; subst hn
  exact readBlock_block' pre X post

/-! ### 3. the written file -/

theorem DirIn.header_WF (d : DirIn) (vendor uuid : Bytes) (hv : vendor.length = 4)
    (hu : uuid.length = 16) (hs : d.checkPos + 37 + 64 < 2 ^ 64) : (d.header vendor uuid).WF := by
  refine ⟨hv, hu, ?_, ?_, ?_, hs, ?_⟩
  · show Consts.versionMajor < 256; decide
  · show Consts.versionMinor < 256; decide
  · show 0 < 256; decide
  show d.checkPos < 2 ^ 64
  omega

theorem DirIn.t1_length (d : DirIn) : d.t1.length = 8 * d.indexes.length := by
  simp [DirIn.t1, soTable_length, dfIdxSOs_length, DirIn.idxTails]

theorem DirIn.t2_length (d : DirIn) : d.t2.length = 8 * d.stores.length := by
  simp [DirIn.t2, soTable_length, dfVsSOs_length]

theorem DirIn.t3_length (d : DirIn) : d.t3.length = 8 := by
  simp [DirIn.t3, soTable_length]

theorem dirPackWrite_length (H : Bytes → Bytes) (vendor uuid freeData : Bytes) (d : DirIn)
    (hv : vendor.length = 4) (hu : uuid.length = 16) (hfd : freeData.length = 24) :
    (dirPackWrite H vendor uuid freeData d).length =
      d.checkPos + (d.trailer H vendor uuid freeData).length := by
  have hel : (d.header vendor uuid).encode.length = 60 := by
    simp [PackHeader.encode, DirIn.header, zeros_length, leBytes_length, Consts.headerPad1,
      Consts.headerPad2, hv, hu]
  have hdl := DirectoryHeader.encode_length (d.dh freeData) hfd
  rw [dirPackWrite_eq]
  simp only [List.length_append, block_length, hel, hdl, DirIn.checkPos, DirIn.pos3, DirIn.pos2,
    DirIn.pos1]
  omega

/-- **L5, opening the written pack**: `DirectoryPack::new` returns the headers written, the three
    offset tables read back, and so do the entry-store tail and the entry data block (L4). -/
theorem directoryOpen_dirPackWrite (H : Bytes → Bytes) (vendor uuid freeData : Bytes) (d : DirIn)
    (hv : vendor.length = 4) (hu : uuid.length = 16) (hfd : freeData.length = 24)
    (hns : d.stores.length < 256) (hni : d.indexes.length < 2 ^ 32)
    (hsize : (dirPackWrite H vendor uuid freeData d).length < 2 ^ 48) :
    directoryOpen (dirPackWrite H vendor uuid freeData d) =
        .ok (d.header vendor uuid, d.dh freeData) ∧
    readBlock (dirPackWrite H vendor uuid freeData d) (d.dh freeData).valueStorePtrPos
        (8 * d.stores.length) = .ok d.t2 ∧
    readBlock (dirPackWrite H vendor uuid freeData d) (d.dh freeData).entryStorePtrPos (8 * 1) =
        .ok d.t3 ∧
    readBlock (dirPackWrite H vendor uuid freeData d) (d.dh freeData).indexPtrPos
        (8 * d.indexes.length) = .ok d.t1 ∧
    readBlock (dirPackWrite H vendor uuid freeData d) d.esPos d.esTail.length = .ok d.esTail ∧
    readBlock (dirPackWrite H vendor uuid freeData d) d.pos1 d.entryBytes.length =
        .ok d.entryBytes := by
  have hlen := dirPackWrite_length H vendor uuid freeData d hv hu hfd
  have hWF := d.header_WF vendor uuid hv hu (by
    have : d.checkPos ≤ (dirPackWrite H vendor uuid freeData d).length := by rw [hlen]; omega
    omega)
  have hel := PackHeader.encode_length _ hWF
  have hdl := DirectoryHeader.encode_length (d.dh freeData) hfd
  have hcp : d.checkPos ≤ (dirPackWrite H vendor uuid freeData d).length := by rw [hlen]; omega
  rw [dirPackWrite_eq] at hsize hcp ⊢
  generalize hT : d.trailer H vendor uuid freeData = T at hsize hcp ⊢
  generalize hHB : block (d.header vendor uuid).encode = HB at hsize hcp ⊢
  generalize hDB : block (d.dh freeData).encode = DB at hsize hcp ⊢
  have hHBl : HB.length = 64 := by rw [← hHB, block_length, hel]
  have hDBl : DB.length = 64 := by rw [← hDB, block_length, hdl]
  generalize hF : HB ++ (DB ++ (d.idxBytes ++ (block d.entryBytes ++ (block d.esTail ++
    (d.vsBytes ++ (block d.t1 ++ (block d.t2 ++ (block d.t3 ++ T)))))))) = F at hsize hcp
  -- the tables
  have ht2 : readBlock F (d.dh freeData).valueStorePtrPos (8 * d.stores.length) = .ok d.t2 :=
    readBlock_at F (HB ++ (DB ++ (d.idxBytes ++ (block d.entryBytes ++ (block d.esTail ++
      (d.vsBytes ++ block d.t1)))))) d.t2 (block d.t3 ++ T) _ _
      (by rw [← hF]; simp only [List.append_assoc])
      (by simp only [List.length_append, hHBl, hDBl, block_length, DirIn.dh, DirIn.pos3,
            DirIn.pos2, DirIn.pos1]; omega)
      d.t2_length
  have ht3 : readBlock F (d.dh freeData).entryStorePtrPos (8 * 1) = .ok d.t3 :=
    readBlock_at F (HB ++ (DB ++ (d.idxBytes ++ (block d.entryBytes ++ (block d.esTail ++
      (d.vsBytes ++ (block d.t1 ++ block d.t2))))))) d.t3 T _ _
      (by rw [← hF]; simp only [List.append_assoc])
      (by simp only [List.length_append, hHBl, hDBl, block_length, DirIn.dh, DirIn.pos3,
            DirIn.pos2, DirIn.pos1]; omega)
      d.t3_length
  have ht1 : readBlock F (d.dh freeData).indexPtrPos (8 * d.indexes.length) = .ok d.t1 :=
    readBlock_at F (HB ++ (DB ++ (d.idxBytes ++ (block d.entryBytes ++ (block d.esTail ++
      d.vsBytes))))) d.t1 (block d.t2 ++ (block d.t3 ++ T)) _ _
      (by rw [← hF]; simp only [List.append_assoc])
      (by simp only [List.length_append, hHBl, hDBl, block_length, DirIn.dh, DirIn.pos3,
            DirIn.pos2, DirIn.pos1]; omega)
      d.t1_length
  have hes : readBlock F d.esPos d.esTail.length = .ok d.esTail :=
    readBlock_at F (HB ++ (DB ++ (d.idxBytes ++ block d.entryBytes))) d.esTail
      (d.vsBytes ++ (block d.t1 ++ (block d.t2 ++ (block d.t3 ++ T)))) _ _
      (by rw [← hF]; simp only [List.append_assoc])
      (by simp only [List.length_append, hHBl, hDBl, block_length, DirIn.esPos, DirIn.pos1]; omega)
      rfl
  have hed : readBlock F d.pos1 d.entryBytes.length = .ok d.entryBytes :=
    readBlock_at F (HB ++ (DB ++ d.idxBytes)) d.entryBytes
      (block d.esTail ++ (d.vsBytes ++ (block d.t1 ++ (block d.t2 ++ (block d.t3 ++ T))))) _ _
      (by rw [← hF]; simp only [List.append_assoc])
      (by simp only [List.length_append, hHBl, hDBl, DirIn.pos1]; omega)
      rfl
  refine ⟨?_, ht2, ht3, ht1, hes, hed⟩
  have hoh := openHeader_block (d.header vendor uuid) (DB ++ (d.idxBytes ++ (block d.entryBytes ++
    (block d.esTail ++ (d.vsBytes ++ (block d.t1 ++ (block d.t2 ++ (block d.t3 ++ T))))))))
    hWF ⟨rfl, rfl⟩
  rw [show (d.header vendor uuid).kind = PackKind.directory from rfl, hHB, hF] at hoh
  have hdb : readBlock F 64 60 = .ok (d.dh freeData).encode :=
    readBlock_at F HB (d.dh freeData).encode (d.idxBytes ++ (block d.entryBytes ++
      (block d.esTail ++ (d.vsBytes ++ (block d.t1 ++ (block d.t2 ++ (block d.t3 ++ T)))))))
      64 60 (by rw [← hF, hDB]) hHBl hdl
  have hcpv : d.checkPos < 2 ^ 48 := by omega
  have hdd : DirectoryHeader.decode (d.dh freeData).encode = .ok (d.dh freeData) := by
    have h1 : d.pos3 + (block d.t1).length + (block d.t2).length ≤ d.checkPos := by
      simp only [DirIn.checkPos]; omega
    have h2 : 8 * d.indexes.length ≤ d.checkPos := by
      simp only [DirIn.checkPos, block_length, d.t1_length]; omega
    apply DirectoryHeader.decode_encode _ _ _ _ _ _ _ hfd
    · show d.pos3 < 2 ^ 64; omega
    · show d.pos3 + (block d.t1).length + (block d.t2).length < 2 ^ 64; omega
    · show d.pos3 + (block d.t1).length < 2 ^ 64; omega
    · exact hni
    · show 1 < 2 ^ 32; decide
    · exact hns
  unfold directoryOpen
  rw [hoh, Outcome.ok_bind_eq, hdb, Outcome.ok_bind_eq, hdd, Outcome.ok_bind_eq]
  rw [show (d.dh freeData).valueStoreCount = d.stores.length from rfl,
    show (d.dh freeData).entryStoreCount = 1 from rfl,
    show (d.dh freeData).indexCount = d.indexes.length from rfl,
    ht2, Outcome.ok_bind_eq, ht3, Outcome.ok_bind_eq, ht1, Outcome.ok_bind_eq]

end Jubako
