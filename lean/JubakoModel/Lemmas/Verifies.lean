/-
C04, first sentence: **"Every pack and container the creator produces passes its own integrity
check."** — entry point (imports parts A–E) and non-vacuity: every main theorem is instantiated on
concrete data, with every hypothesis discharged, *for every hash function with 32-byte output*.

* part A `VerifiesA.lean` — content and directory packs
* part B `VerifiesB.lean` — manifest packs written by `manifestWrite` (Model/ManifestWriter.lean)
* part C `VerifiesC.lean` — container packs and `Container::check`, for any packs that verify
* part D `VerifiesD.lean` — the writers' packs verify; `manifestCreate` (the creator's inputs)
* part E `VerifiesE.lean` — containers assembled from created packs
-/
import JubakoModel.Lemmas.VerifiesE

namespace Jubako

set_option linter.unusedSimpArgs false
set_option linter.unusedVariables false
set_option maxRecDepth 100000

namespace VerifiesExample

/-! ### content pack: the clusters of `ContentFileExample` (one raw cluster with two blobs, one
    compressed cluster), arriving in reverse order -/

open ContentFileExample (codec items arrival)

/-- uuid 5…5 (the directory pack below has uuid 7…7, the manifest 10…10) -/
def cmeta : ContentPackMeta := ⟨[1, 2, 3, 4], List.replicate 16 5, List.replicate 24 9⟩
def cinfos : List (Nat × Nat) := ((Creator.init.addAll items).finalize).2

theorem cmeta_wf : cmeta.WF := ⟨rfl, rfl, rfl⟩

theorem content_size : cfCheckPos codec arrival cinfos + 37 + 64 < 2 ^ 48 := by
  rw [cfCheckPos_eq]; decide

theorem content_limits (H : Bytes → Bytes) :
    (CreatedPack.content codec cmeta arrival cinfos).Limits H :=
  ⟨cmeta_wf, by decide, by decide, by have := content_size; omega⟩

example (H : Bytes → Bytes) (hH : ∀ x, (H x).length = 32) :
    packCheck H id (contentPackWrite H codec cmeta arrival cinfos) = .ok true :=
  content_created_verifies H codec cmeta arrival cinfos cmeta_wf
    (by have := content_size; omega) hH

example (H : Bytes → Bytes) (hH : ∀ x, (H x).length = 32) :
    contentOpenCheck H (contentPackWrite H codec cmeta arrival cinfos) = .ok true :=
  content_created_openCheck H codec cmeta arrival cinfos cmeta_wf (by decide) (by decide)
    (by have := content_size; omega) hH

/-! ### directory pack: the input of `DirFileExample` (two value stores, variants, one index) -/

open DirFileExample (vendor uuid freeData input hstores hlayout)

theorem dir_limits (H : Bytes → Bytes) (hH : ∀ x, (H x).length = 32) :
    input.Limits H vendor uuid freeData where
  vendorLen := rfl
  uuidLen := rfl
  freeDataLen := rfl
  entryCount := by decide
  indexCount := by decide
  entrySize := by rw [hlayout]; decide
  propCount := by rw [hlayout]; decide
  storeTails := by rw [hstores]; decide
  entryTail := by rw [hlayout]; decide
  fileSize := by
    rw [dirPackWrite_length_formula H vendor uuid freeData input rfl rfl rfl hH]
    simp only [DirIn.entryBytes, DirIn.esTail, hlayout, hstores]
    decide

theorem directory_limits (H : Bytes → Bytes) (hH : ∀ x, (H x).length = 32) :
    (CreatedPack.directory vendor uuid freeData input).Limits H :=
  ⟨rfl, rfl, rfl, by rw [hstores]; decide, by decide, (dir_limits H hH).fileSize⟩

example (H : Bytes → Bytes) (hH : ∀ x, (H x).length = 32) :
    packCheck H id (dirPackWrite H vendor uuid freeData input) = .ok true :=
  directory_created_verifies H vendor uuid freeData input (dir_limits H hH) hH

example (H : Bytes → Bytes) (hH : ∀ x, (H x).length = 32) :
    directoryOpenCheck H (dirPackWrite H vendor uuid freeData input) = .ok true :=
  directory_created_openCheck H vendor uuid freeData input rfl rfl rfl (by rw [hstores]; decide)
    (by decide) (dir_limits H hH).fileSize hH

/-! ### manifest pack: `ManifestPackCreator::finalize` for the two packs above (content pack
    added first, as `BasicCreator` does; empty locators = one-file container) -/

def mvendor : Bytes := [1, 2, 3, 4]
def muuid : Bytes := List.replicate 16 10
def mfree : Bytes := List.replicate 24 0

/-- the `PackData` of the two packs; sizes and stored hashes are those a creator would record (the
    theorems do not depend on them), the two packs have different free data -/
def packData : List (PackData × Bytes) :=
  [(⟨List.replicate 16 5, 311, .content, 1, List.replicate 24 9, .blake3 (List.replicate 32 1)⟩, []),
   (⟨List.replicate 16 7, 403, .directory, 0, List.replicate 24 8, .blake3 (List.replicate 32 2)⟩, [])]

/-- what `finalize` computes: check-info blocks at 128 and 165 (37 bytes each, CRC included), free
    data ids = ranks in the sorted value store -/
theorem manifestInfos_packData :
    manifestInfos packData =
      [⟨List.replicate 16 5, 311, (128, 37), 1, .content, 0, 1, []⟩,
       ⟨List.replicate 16 7, 403, (165, 37), 0, .directory, 0, 0, []⟩] := by decide

theorem create_limits : ManifestCreateLimits mvendor muuid mfree packData where
  vendorLen := rfl
  uuidLen := rfl
  freeDataLen := rfl
  packsWF := by
    intro p hp
    simp only [packData, List.mem_cons, List.not_mem_nil, or_false] at hp
    rcases hp with rfl | rfl
    · refine ⟨rfl, by decide, by decide, by decide, ?_⟩
      intro x hx; injection hx with hx; rw [← hx]; rfl
    · refine ⟨rfl, by decide, by decide, by decide, ?_⟩
      intro x hx; injection hx with hx; rw [← hx]; rfl
  count := by decide
  storeTail := by decide
  fileSize := by
    rw [manifestInfos_packData]
    simp only [mwCheckPos, mwBase, mwMid, List.length_append, VStore.encode_eq, block_length,
      VStore.data_length]
    decide

/-- the creator's manifest opens to one pack info per `add_pack`, in order -/
example (H : Bytes → Bytes) :
    (manifestOpen (manifestCreate H mvendor muuid mfree packData)).map' (·.2.2) =
      .ok [⟨List.replicate 16 5, 311, (128, 37), 1, .content, 0, 1, []⟩,
           ⟨List.replicate 16 7, 403, (165, 37), 0, .directory, 0, 0, []⟩] := by
  rw [manifestOpen_manifestCreate create_limits (by decide), ← manifestInfos_packData]
  rfl

/-- … verifies … -/
example (H : Bytes → Bytes) (hH : ∀ x, (H x).length = 32) :
    manifestCheck H (manifestCreate H mvendor muuid mfree packData) = .ok true :=
  manifestCreate_verifies create_limits hH

example (H : Bytes → Bytes) (hH : ∀ x, (H x).length = 32) :
    manifestOpenCheck H (manifestCreate H mvendor muuid mfree packData) = .ok true :=
  manifestCreate_openCheck create_limits (by decide) hH

/-- … has the layout the C12 theorems need (pack infos at 128 + 2·37 + value store) … -/
example (H : Bytes → Bytes) :
    ∃ h m base, ManifestLayout (manifestCreate H mvendor muuid mfree packData) h m base
      (manifestInfos packData) :=
  ⟨_, _, _, manifestCreate_layout create_limits⟩

/-- … and still verifies after the content pack is relocated twice, an unknown uuid is tried, and
    the directory pack is relocated -/
example (H : Bytes → Bytes) (hH : ∀ x, (H x).length = 32) :
    manifestCheck H ([(List.replicate 16 5, [97, 98]), (List.replicate 16 99, [120]),
        (List.replicate 16 5, []), (List.replicate 16 7, [47, 100])].foldl
      (fun (st : Bytes × List PackInfo) op =>
        (fileStep (mwBase (checkBlocksOf packData) (manifestStore packData)) st.2 st.1 op,
          specStep st.2 op))
      (manifestCreate H mvendor muuid mfree packData, manifestInfos packData)).1 = .ok true :=
  manifestCreate_verifies_after_relocations create_limits hH _ (by decide)

/-- the tool itself (`setLocationAt`) on the created manifest: succeeds, reports the old location,
    and the file it writes verifies -/
example (H : Bytes → Bytes) (hH : ∀ x, (H x).length = 32) :
    ∃ f', setLocationAt (manifestCreate H mvendor muuid mfree packData) 0 (List.replicate 16 5)
        [97, 98] = .ok (f', some []) ∧ manifestCheck H f' = .ok true := by
  obtain ⟨f', h1, h2, -⟩ := manifest_created_set_location (H := H) create_limits.toLimits hH
    (List.replicate 16 5) [97, 98] (by decide)
  refine ⟨f', ?_, h2⟩
  rw [show manifestCreate H mvendor muuid mfree packData = manifestWrite H mvendor muuid mfree
    (checkBlocksOf packData) (manifestStore packData) (manifestInfos packData) from rfl, h1,
    manifestInfos_packData]
  rfl

/-! ### one-file container: content pack, directory pack, manifest — the order `BasicCreator`
    writes them in -/

def cuuid : Bytes := List.replicate 16 30
def cfree : Bytes := List.replicate 24 0

def theManifest : CreatedPack :=
  .manifest mvendor muuid mfree (checkBlocksOf packData) (manifestStore packData)
    (manifestInfos packData)

def cps : List CreatedPack :=
  [.content codec cmeta arrival cinfos, .directory vendor uuid freeData input, theManifest]

theorem manifest_limits (H : Bytes → Bytes) : theManifest.Limits H :=
  ⟨create_limits.toLimits, manifestInfos_any_directory packData (by decide)⟩

theorem packs_limits (H : Bytes → Bytes) (hH : ∀ x, (H x).length = 32) :
    ∀ p ∈ cps, p.Limits H := by
  intro p hp
  simp only [cps, List.mem_cons, List.not_mem_nil, or_false] at hp
  rcases hp with rfl | rfl | rfl
  · exact content_limits H
  · exact directory_limits H hH
  · exact manifest_limits H

theorem container_limits (H : Bytes → Bytes) (hH : ∀ x, (H x).length = 32) :
    ContainerLimits H cuuid cfree cps where
  uuidLen := rfl
  freeDataLen := rfl
  packs := packs_limits H hH
  count := by decide
  fileSize := by
    have hu : ∀ p ∈ createdPacks H cps, p.1.length = 16 := by
      intro p hp
      obtain ⟨q, hq, rfl⟩ := List.mem_map.mp hp
      exact q.uuid_length H (packs_limits H hH q hq)
    have hc : (contentPackWrite H codec cmeta arrival cinfos).length < 2 ^ 48 := by
      have := content_size
      rw [contentPackWrite_frame, framePack_length H id _ _
        (cfHeader_WF codec cmeta arrival cinfos cmeta_wf (by omega)) hH,
        ← cfCheckPos_body codec cmeta arrival cinfos cmeta_wf]
      exact this
    have hd := (dir_limits H hH).fileSize
    have hm : (manifestWrite H mvendor muuid mfree (checkBlocksOf packData) (manifestStore packData)
        (manifestInfos packData)).length < 2 ^ 48 := by
      rw [manifestWrite_length create_limits.toLimits hH]
      exact create_limits.fileSize
    rw [createdContainer, containerPackWrite_length cuuid cfree _ rfl rfl hu, cpwCheckPos,
      locTable_length _ (layoutLocs_uuid_length 0 _ hu), layoutLocs_length]
    simp only [createdPacks, cps, theManifest, CreatedPack.bytes, CreatedPack.uuid, cpwBody,
      List.map_cons, List.map_nil, List.flatten_cons, List.flatten_nil, List.length_append,
      List.length_nil, List.length_cons]
    omega

/-- `ContainerPack::check` on the created container: three packs found, all verify -/
example (H : Bytes → Bytes) (hH : ∀ x, (H x).length = 32) :
    ∃ ps, blindOpen (createdContainer H cuuid cfree cps) = .ok ps ∧ ps.length = 3 ∧
      packsCheck H (createdContainer H cuuid cfree cps) ps = .ok true := by
  obtain ⟨h1, h2⟩ := created_container_pack_verifies (container_limits H hH) hH
  refine ⟨_, h1, ?_, h2⟩
  simp [createdPackAts, concatLayout_eq, layoutLocs_length, createdPacks, cps]

/-- `Container::new` then `Container::check` on the file system holding only that file: the
    container opens, to the pack infos `finalize` computed, and the check answers `true` -/
example (H : Bytes → Bytes) (hH : ∀ x, (H x).length = 32) :
    ∃ c, containerOpen [("e", createdContainer H cuuid cfree cps)] "e" = .ok c ∧
      c.infos = manifestInfos packData ∧
      containerCheck H [("e", createdContainer H cuuid cfree cps)] c = .ok true := by
  obtain ⟨c, h1, h2, -, h4⟩ := created_container_opens_and_verifies (container_limits H hH) hH
    [("e", createdContainer H cuuid cfree cps)] "e" rfl mvendor muuid mfree (checkBlocksOf packData)
    (manifestStore packData) (manifestInfos packData)
    (by simp [cps, theManifest])
    (by
      intro p hp hk
      simp only [cps, List.mem_cons, List.not_mem_nil, or_false] at hp
      rcases hp with rfl | rfl | rfl
      · cases hk
      · cases hk
      · rfl)
    (by rw [manifestInfos_packData]; decide)
    (by rw [manifestInfos_packData]; decide)
    (by rw [manifestInfos_packData]; decide)
  exact ⟨c, h1, h2, h4⟩

end VerifiesExample

end Jubako
