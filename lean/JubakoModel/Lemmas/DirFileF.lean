/-
Directory pack, file-level round trip — part F: the writer's input `DirIn`: its value stores, its
finalised layout, and — for a well-formed input — layout round trip (L2) and entry round trip (L1)
instantiated on it.
-/
import JubakoModel.Lemmas.DirFileE

namespace Jubako

set_option linter.unusedSimpArgs false
set_option linter.unusedVariables false
set_option maxRecDepth 8000

/-! ### 1. the stores and the layout `dirPackWrite` computes -/

def DirIn.stores (d : DirIn) : List VStore :=
  d.storeKinds.zipIdx.map (fun x => VStore.finalize x.1 (addedTo d.schema d.entries x.2))

def DirIn.layout (d : DirIn) : LayoutOut := finalizeSchema d.stores d.schema d.entries

def DirIn.common (d : DirIn) : List RawProp := fsCommon d.stores d.schema d.entries

def DirIn.vars (d : DirIn) : List (Bytes × List RawProp) :=
  fsVars (fsBodies d.stores d.schema d.entries)

def DirIn.entrySize (d : DirIn) : Nat :=
  propsSize d.common +
    (if d.schema.variants.length = 0 then 0 else fsMx (fsBodies d.stores d.schema d.entries))

theorem DirIn.layout_eq (d : DirIn) : d.layout = ⟨d.common, rawVariants d.vars, d.entrySize⟩ :=
  finalizeSchema_eq d.stores d.schema d.entries

theorem DirIn.common_eq (d : DirIn) :
    d.common = finList d.stores (columnCommon d.entries) d.schema.common := rfl

theorem DirIn.stores_length (d : DirIn) : d.stores.length = d.storeKinds.length := by
  simp [DirIn.stores]

theorem DirIn.stores_getD (d : DirIn) (st : Nat) (hst : st < d.storeKinds.length) :
    d.stores.getD st vsDflt =
      VStore.finalize (d.storeKinds.getD st false) (addedTo d.schema d.entries st) := by
  simp only [DirIn.stores, List.getD_eq_getElem?_getD, List.getElem?_map, List.getElem?_zipIdx,
    List.getElem?_eq_getElem hst, Option.map_some, Option.getD_some, Nat.zero_add]

theorem DirIn.mem_store (d : DirIn) (st : Nat) (hst : st < d.storeKinds.length) (x : Bytes) :
    x ∈ (d.stores.getD st vsDflt).values ↔ x ∈ addedTo d.schema d.entries st := by
  rw [d.stores_getD st hst, mem_finalize]

theorem DirIn.vars_length (d : DirIn) : d.vars.length = d.schema.variants.length := by
  simp [DirIn.vars, fsVars_length, fsBodies_length]

/-! ### 2. what the stores received -/

theorem mem_addedTo (sch : SchemaDef) (entries : List EntryIn) (e : EntryIn) (he : e ∈ entries)
    (p : PropDef) (v : Val) (hpv : (p, v) ∈ (sch.propsOf e.variant).zip e.values)
    (fixed st : Nat) (hty : p.ty = .array fixed st) :
    (arrayOf v).drop fixed ∈ addedTo sch entries st := by
  unfold addedTo
  rw [List.mem_flatten]
  refine ⟨_, List.mem_map.2 ⟨e, he, rfl⟩, ?_⟩
  rw [List.mem_filterMap]
  refine ⟨(p, v), hpv, ?_⟩
  simp only [hty, if_true]

/-! ### 3. columns -/

theorem mem_columnCommon (entries : List EntryIn) (e : EntryIn) (he : e ∈ entries) (k : Nat) :
    e.values.getD k (.u 0) ∈ columnCommon entries k :=
  List.mem_map.2 ⟨e, he, rfl⟩

theorem mem_columnVariant (nc : Nat) (entries : List EntryIn) (e : EntryIn) (he : e ∈ entries)
    (vi : Nat) (hv : e.variant = some vi) (k : Nat) :
    e.values.getD (nc + k) (.u 0) ∈ columnVariant nc entries vi k :=
  List.mem_map.2 ⟨e, List.mem_filter.2 ⟨he, by simp [hv]⟩, rfl⟩

theorem getD_inRange (vals : List Val) (h : ∀ v ∈ vals, v.inRange) (k : Nat) :
    (vals.getD k (.u 0)).inRange := by
  rw [List.getD_eq_getElem?_getD]
  cases hk : vals[k]? with
  | none => simp only [Option.getD_none, Val.inRange]; decide
  | some v => exact h v (List.mem_of_getElem? hk)

theorem columnCommon_inRange (d : DirIn) (hwf : d.WF) (k : Nat) :
    ∀ w ∈ columnCommon d.entries k, w.inRange := by
  intro w hw
  obtain ⟨e, he, rfl⟩ := List.mem_map.1 hw
  exact getD_inRange _ (hwf.2.2.2 e he).2.2.1 k

theorem columnVariant_inRange (d : DirIn) (hwf : d.WF) (nc vi k : Nat) :
    ∀ w ∈ columnVariant nc d.entries vi k, w.inRange := by
  intro w hw
  obtain ⟨e, he, rfl⟩ := List.mem_map.1 hw
  exact getD_inRange _ (hwf.2.2.2 e (List.mem_filter.1 he).1).2.2.1 _

/-! ### 4. limits on the stores -/

/-- ids are stored on at most 7 bytes (3 bits of the complement byte of an array property header)
    — stated on the stores the writer finalises -/
def DirIn.KeysOk (d : DirIn) : Prop := StoreKeysOk d.stores

/-! ### 5. every property header of the finalised schema is writable -/

theorem paddingProps_writable (n : Nat) : ∀ p ∈ paddingProps n, p.Writable := by
  fun_induction paddingProps n with
  | case1 => simp
  | case2 n h ih =>
    intro p hp
    rcases List.mem_cons.mp hp with rfl | hp
    · exact ⟨by simp, rfl, by show 1 ≤ 16; omega, by show 16 ≤ 16; omega⟩
    · exact ih p hp
  | case3 n h =>
    intro p hp
    rcases List.mem_singleton.mp hp with rfl
    exact ⟨by simp, rfl, by show 1 ≤ n + 1; omega, by show n + 1 ≤ 16; omega⟩

theorem DirIn.propDef_writable (d : DirIn) (hwf : d.WF) (hk : d.KeysOk) (p : PropDef)
    (hp : p.WF d.storeKinds.length) (col : List Val) (hcol : ∀ w ∈ col, w.inRange) :
    (finalizeProp d.stores p col).Writable :=
  finalizeProp_writable d.stores hk p col (by rw [d.stores_length]; exact hp)
    (by rw [d.stores_length]; exact Nat.le_of_lt hwf.1) hcol

theorem DirIn.common_writable (d : DirIn) (hwf : d.WF) (hk : d.KeysOk) :
    ∀ p ∈ d.common, p.Writable ∧ p.kind ≠ .variantId := by
  intro q hq
  obtain ⟨j, p, hj, rfl⟩ := finList_mem _ _ _ q hq
  refine ⟨d.propDef_writable hwf hk p (hwf.2.1 p (List.mem_of_getElem? hj)) _
    (columnCommon_inRange d hwf j), ?_⟩
  intro h
  exact finalizeProp_nonstruct d.stores p _ (Or.inr h)

theorem DirIn.vars_getElem? (d : DirIn) (vi : Nat) :
    d.vars[vi]? = d.schema.variants[vi]?.map (fun v =>
      (v.1, fsBody d.stores d.schema d.entries vi v.2 ++
        paddingProps (fsMx (fsBodies d.stores d.schema d.entries) -
          (1 + propsSize (fsBody d.stores d.schema d.entries vi v.2))))) := by
  simp only [DirIn.vars, fsVars, List.getElem?_map, fsBodies_getElem?, Option.map_map]
  rfl

theorem DirIn.vars_writable (d : DirIn) (hwf : d.WF) (hk : d.KeysOk) :
    ∀ b ∈ d.vars, b.1.length ≤ 255 ∧ (∀ p ∈ b.2, p.Writable ∧ p.kind ≠ .variantId) ∧
      propsSize d.common + 1 + propsSize b.2 = d.entrySize := by
  intro b hb
  have hsize := fsVars_size _ b hb
  obtain ⟨vi, hvi⟩ := List.mem_iff_getElem?.1 hb
  rw [d.vars_getElem?] at hvi
  cases hv : d.schema.variants[vi]? with
  | none => rw [hv] at hvi; cases hvi
  | some v =>
    rw [hv] at hvi
    simp only [Option.map_some, Option.some.injEq] at hvi
    have hvm : v ∈ d.schema.variants := List.mem_of_getElem? hv
    obtain ⟨hvn, hvp⟩ := hwf.2.2.1 v hvm
    have hne : d.schema.variants.length ≠ 0 := by
      intro h0
      rw [List.eq_nil_of_length_eq_zero h0] at hvm
      cases hvm
    refine ⟨by rw [← hvi]; exact hvn, ?_, ?_⟩
    · intro q hq
      rw [← hvi] at hq
      rcases List.mem_append.1 hq with hq | hq
      · obtain ⟨j, p, hj, rfl⟩ := finList_mem _ _ _ q hq
        refine ⟨d.propDef_writable hwf hk p (hvp p (List.mem_of_getElem? hj)) _
          (columnVariant_inRange d hwf _ vi j), ?_⟩
        intro h
        exact finalizeProp_nonstruct d.stores p _ (Or.inr h)
      · refine ⟨paddingProps_writable _ q hq, ?_⟩
        rw [(paddingProps_kind _ q hq).1]
        intro h; cases h
    · simp only [DirIn.entrySize, if_neg hne]
      omega

/-! ### 6. L2 on the writer's input -/

/-- the layout the reader sees -/
def DirIn.readerLayout (d : DirIn) : Layout :=
  layoutOf d.common d.vars d.entrySize d.entries.length

/-- **L2 for the writer's input**: the entry-store tail `dirPackWrite` writes is kind byte 0
    followed by bytes `Layout.decode` maps to `d.readerLayout`. -/
theorem DirIn.layout_decode (d : DirIn) (hwf : d.WF) (hk : d.KeysOk)
    (hn : d.entries.length < 2 ^ 32) (hes : d.entrySize < 2 ^ 16)
    (hpc : (d.common ++ (rawVariants d.vars).flatten).length < 256) :
    entryStoreTail d.layout d.entries.length = 0 :: layoutBytes d.layout d.entries.length ∧
    Layout.decode (layoutBytes d.layout d.entries.length) = .ok d.readerLayout := by
  refine ⟨entryStoreTail_eq _ _, ?_⟩
  rw [d.layout_eq]
  have hvc : d.vars.length < 256 := by
    have h1 : (rawVariants d.vars).length ≤ (rawVariants d.vars).flatten.length := by
      rw [List.length_flatten]
      have : ∀ (l : List (List RawProp)), (∀ x ∈ l, 1 ≤ x.length) →
          l.length ≤ (l.map List.length).sum := by
        intro l
        induction l with
        | nil => intro _; simp
        | cons x xs ih =>
          intro h
          have := ih (fun y hy => h y (List.mem_cons_of_mem _ hy))
          have := h x (List.mem_cons_self ..)
          simp only [List.length_cons, List.map_cons, List.sum_cons]
          omega
      apply this
      intro x hx
      simp only [rawVariants, List.mem_map] at hx
      obtain ⟨b, -, rfl⟩ := hx
      simp
    have h2 : (rawVariants d.vars).length = d.vars.length := by simp [rawVariants]
    rw [List.length_append] at hpc
    omega
  exact Layout_decode_layoutBytes d.common d.vars d.entrySize d.entries.length
    (d.common_writable hwf hk) (d.vars_writable hwf hk) hn hes hvc hpc

/-! ### 7. L1 on the writer's input -/

/-- what the reader must return for entry `e`: its variant id and its values paired with the
    property names, common properties first -/
def expectedEntry (sch : SchemaDef) (e : EntryIn) : EntryVal :=
  ⟨e.variant, ((sch.propsOf e.variant).map PropDef.name).zip e.values⟩

theorem zip_append_drop {α β} (a b : List α) (l : List β) (h : a.length ≤ l.length) :
    (a ++ b).zip l = a.zip l ++ b.zip (l.drop a.length) := by
  induction a generalizing l with
  | nil => simp
  | cons x a ih =>
    cases l with
    | nil => simp at h
    | cons y l =>
      simp only [List.cons_append, List.zip_cons_cons, List.length_cons, List.drop_succ_cons]
      rw [ih l (by simpa using h)]

/-- one value of a well-formed entry is representable in the property finalised against a column
    that contains it -/
theorem DirIn.value_fits (d : DirIn) (hwf : d.WF) (e : EntryIn) (he : e ∈ d.entries) (k : Nat)
    (p : PropDef) (v : Val) (hp : (d.schema.propsOf e.variant)[k]? = some p)
    (hv : e.values[k]? = some v) (col : List Val) (hmem : v ∈ col)
    (hcol : ∀ w ∈ col, w.inRange) (hpwf : p.WF d.storeKinds.length) :
    fitsKind d.stores (finalizeProp d.stores p col).kind v := by
  have hewf := hwf.2.2.2 e he
  have hzip : (p, v) ∈ (d.schema.propsOf e.variant).zip e.values :=
    List.mem_of_getElem? (List.getElem?_zip_eq_some.2 ⟨hp, hv⟩)
  refine finalizeProp_fits d.stores p col v hmem (hewf.2.2.2 (p, v) hzip) hcol ?_
  intro fixed st a hty hva
  have hst : st < d.storeKinds.length := by
    have := hpwf.2
    rw [hty] at this
    exact this.2
  refine ⟨by rw [d.stores_length]; exact hst, ?_⟩
  rw [d.mem_store st hst]
  have := mem_addedTo d.schema d.entries e he p v hzip fixed st hty
  rw [hva] at this
  exact this

theorem DirIn.common_fits (d : DirIn) (hwf : d.WF) (e : EntryIn) (he : e ∈ d.entries) :
    PropsFit d.stores d.common e.values := by
  have hewf := hwf.2.2.2 e he
  apply PropsFit_nonstruct _ _ _ (finList_nonstruct _ _ _)
  · rw [finList_length, hewf.2.1, SchemaDef.propsOf.eq_def, List.length_append]
    omega
  · intro j q v hq hv
    rw [finList_getElem?] at hq
    cases hj : d.schema.common[j]? with
    | none => rw [hj] at hq; cases hq
    | some p =>
      rw [hj] at hq
      simp only [Option.map_some, Option.some.injEq] at hq
      subst hq
      have hjl : j < d.schema.common.length := (List.getElem?_eq_some_iff.1 hj).1
      refine d.value_fits hwf e he j p v ?_ hv _ ?_ (columnCommon_inRange d hwf j)
        (hwf.2.1 p (List.mem_of_getElem? hj))
      · rw [SchemaDef.propsOf.eq_def, List.getElem?_append_left hjl]; exact hj
      · have := mem_columnCommon d.entries e he j
        rw [List.getD_eq_getElem?_getD, hv] at this
        exact this

theorem DirIn.common_length (d : DirIn) : d.common.length = d.schema.common.length :=
  finList_length _ _ _

/-- **L1 for an entry without variant** -/
theorem DirIn.entry_roundtrip_none (d : DirIn) (hwf : d.WF) (hk : d.KeysOk)
    (getVS : Nat → Outcome (ValueStoreTail × Bytes)) (hvs : StoresAgree d.stores getVS)
    (e : EntryIn) (he : e ∈ d.entries) (hv : e.variant = none) :
    decodeEntry getVS d.readerLayout (serializeEntry d.stores d.layout e) =
      .ok (expectedEntry d.schema e) := by
  have hewf := hwf.2.2.2 e he
  have hnov : d.schema.variants = [] := by
    have := hewf.1; rw [hv] at this; exact this
  have hvars : d.vars = [] := by
    apply List.eq_nil_of_length_eq_zero
    rw [d.vars_length, hnov]; rfl
  have := decodeEntry_common d.stores getVS hvs d.common e.values d.entrySize d.entries.length
    (fun p hp => (d.common_writable hwf hk p hp).1) (d.common_fits hwf e he)
  have hcns : ∀ p ∈ d.common, ¬ p.structural := finList_nonstruct _ _ _
  simp only [serializeEntry, hv, d.layout_eq, DirIn.readerLayout, hvars]
  rw [this, expectedVals_nonstruct _ _ hcns]
  simp only [expectedEntry, hv, d.common_eq, finList_names, SchemaDef.propsOf,
    List.append_nil]

/-- **L1 for an entry of variant `vi`** -/
theorem DirIn.entry_roundtrip_some (d : DirIn) (hwf : d.WF) (hk : d.KeysOk)
    (getVS : Nat → Outcome (ValueStoreTail × Bytes)) (hvs : StoresAgree d.stores getVS)
    (e : EntryIn) (he : e ∈ d.entries) (vi : Nat) (hv : e.variant = some vi) (hvi256 : vi < 256) :
    decodeEntry getVS d.readerLayout (serializeEntry d.stores d.layout e) =
      .ok (expectedEntry d.schema e) := by
  have hewf := hwf.2.2.2 e he
  have hvi : vi < d.schema.variants.length := by
    have := hewf.1; rw [hv] at this; exact this
  have hvil : vi < d.vars.length := by rw [d.vars_length]; exact hvi
  -- the variant
  have hget := d.vars_getElem? vi
  rw [List.getElem?_eq_getElem hvi] at hget
  simp only [Option.map_some] at hget
  generalize hV : d.schema.variants[vi] = V at hget
  have hVm : V ∈ d.schema.variants := by rw [← hV]; exact List.getElem_mem _
  have hVget : d.schema.variants.getD vi ([], []) = V := by
    rw [List.getD_eq_getElem?_getD, List.getElem?_eq_getElem hvi, hV]; rfl
  generalize hB : fsBody d.stores d.schema d.entries vi V.2 = body at hget
  generalize hP : paddingProps (fsMx (fsBodies d.stores d.schema d.entries) -
      (1 + propsSize body)) = pad at hget
  have hgetD : d.vars.getD vi ([], []) = (V.1, body ++ pad) := by
    rw [List.getD_eq_getElem?_getD, hget]; rfl
  have hmemv : (V.1, body ++ pad) ∈ d.vars := List.mem_of_getElem? hget
  have hgv : (rawVariants d.vars).getD vi [] = vidProp V.1 :: (body ++ pad) := by
    simp only [rawVariants, List.getD_eq_getElem?_getD, List.getElem?_map, hget]
    rfl
  have hpad : ∀ p ∈ pad, p.structural := by rw [← hP]; exact paddingProps_struct _
  have hbns : ∀ p ∈ body, ¬ p.structural := by rw [← hB]; exact finList_nonstruct _ _ _
  have hcns : ∀ p ∈ d.common, ¬ p.structural := finList_nonstruct _ _ _
  have hvk : (vidProp V.1).kind = .padding ∨ (vidProp V.1).kind = .variantId := Or.inr rfl
  have hprops : d.schema.propsOf e.variant = d.schema.common ++ V.2 := by
    simp only [SchemaDef.propsOf, hv, hVget]
  have hlen : e.values.length = d.schema.common.length + V.2.length := by
    rw [hewf.2.1, hprops, List.length_append]
  -- representability
  have hfit : PropsFit d.stores (d.common ++ (rawVariants d.vars).getD vi []) e.values := by
    rw [hgv, PropsFit_append]
    refine ⟨d.common_fits hwf e he, fun _ => ?_⟩
    rw [restVals_nonstruct _ _ hcns, d.common_length]
    simp only [PropsFit, hvk, if_true]
    rw [PropsFit_append]
    refine ⟨?_, fun _ => PropsFit_struct _ _ _ hpad⟩
    apply PropsFit_nonstruct _ _ _ hbns
    · rw [← hB, fsBody, finList_length, List.length_drop]; omega
    · intro j q v hq hvj
      rw [← hB, fsBody, finList_getElem?] at hq
      cases hj : V.2[j]? with
      | none => rw [hj] at hq; cases hq
      | some p =>
        rw [hj] at hq
        simp only [Option.map_some, Option.some.injEq] at hq
        subst hq
        rw [List.getElem?_drop] at hvj
        refine d.value_fits hwf e he (d.schema.common.length + j) p v ?_ hvj _ ?_
          (columnVariant_inRange d hwf _ vi j)
          ((hwf.2.2.1 V hVm).2 p (List.mem_of_getElem? hj))
        · rw [hprops, List.getElem?_append_right (Nat.le_add_right _ _), Nat.add_sub_cancel_left]
          exact hj
        · have := mem_columnVariant d.schema.common.length d.entries e he vi hv j
          rw [List.getD_eq_getElem?_getD, hvj] at this
          exact this
  have hwv : ∀ p ∈ (d.vars.getD vi ([], [])).2, p.Writable := by
    rw [hgetD]
    intro p hp
    exact ((d.vars_writable hwf hk _ hmemv).2.1 p hp).1
  have := decodeEntry_variant d.stores getVS hvs d.common d.vars vi e.values d.entrySize
    d.entries.length hvil hvi256 (fun p hp => (d.common_writable hwf hk p hp).1) hwv hfit
  simp only [serializeEntry, hv, d.layout_eq, DirIn.readerLayout]
  rw [this, hgv, expectedVals_append', restVals_nonstruct _ _ hcns, d.common_length]
  simp only [expectedVals, hvk, if_true]
  rw [expectedVals_append', expectedVals_struct _ _ hpad, List.append_nil,
    expectedVals_nonstruct _ _ hcns, expectedVals_nonstruct _ _ hbns]
  rw [hv] at hprops
  simp only [expectedEntry, hv, hprops, List.map_append]
  rw [zip_append_drop _ _ _ (by simp only [List.length_map]; omega), List.length_map]
  simp only [d.common_eq, finList_names, ← hB, fsBody]

/-- **L1 for the writer's input**: every well-formed entry reads back with exactly the values
    written.  `hvi256`: the variant id is one byte of the entry. -/
theorem DirIn.entry_roundtrip (d : DirIn) (hwf : d.WF) (hk : d.KeysOk)
    (hvc : d.schema.variants.length ≤ 256)
    (getVS : Nat → Outcome (ValueStoreTail × Bytes)) (hvs : StoresAgree d.stores getVS)
    (e : EntryIn) (he : e ∈ d.entries) :
    decodeEntry getVS d.readerLayout (serializeEntry d.stores d.layout e) =
      .ok (expectedEntry d.schema e) := by
  cases hv : e.variant with
  | none => exact d.entry_roundtrip_none hwf hk getVS hvs e he hv
  | some vi =>
    have := (hwf.2.2.2 e he).1
    rw [hv] at this
    exact d.entry_roundtrip_some hwf hk getVS hvs e he vi hv (by simp only at this; omega)

end Jubako
