/-
C12 — rewriting a pack location changes only that location; the manifest stays valid.

Byte-level statements over the model of `tools::set_location` (Model/Pack.lean: `setLocationAt`
= find the pack-info block by uuid, `splice` the re-encoded block with a fresh CRC in place) and of
the masked manifest check.  The refinement is to the trivial spec "a list of pack infos; an update
replaces the location of the first info carrying the uuid".
-/
import JubakoModel.Model.Pack
import JubakoModel.Lemmas.Codec
import JubakoModel.Lemmas.Mask

set_option maxRecDepth 8000

namespace Jubako

/-- `f` holds `infos` as consecutive pack-info blocks starting at `po` -/
def ManifestAt (f : Bytes) (po : Nat) (infos : List PackInfo) : Prop :=
  po + infos.length * 256 ≤ f.length ∧
  ∀ k (hk : k < infos.length), slice f (po + k * 256) 256 = block (infos[k]).encode

/-- spec-level update -/
def setLoc (p : PackInfo) (loc : Bytes) : PackInfo := { p with location := loc }

theorem setLoc_WF (p : PackInfo) (loc : Bytes) (hw : p.WF) (hl : loc.length ≤ Consts.locationPad) :
    (setLoc p loc).WF := by
  unfold PackInfo.WF setLoc at *; simp only; omega

theorem block_encode_length (p : PackInfo) (hw : p.WF) : (block p.encode).length = 256 := by
  rw [block_length, PackInfo.encode_length p hw]

/-- the re-encoded block keeps the 38 checked bytes -/
theorem setLoc_fixed_prefix (p : PackInfo) (loc : Bytes) (hw : p.WF)
    (hl : loc.length ≤ Consts.locationPad) :
    (block (setLoc p loc).encode).take 38 = (block p.encode).take 38 := by
  have h1 := PackInfo.encodeFixed_length p hw
  have h2 := PackInfo.encodeFixed_length (setLoc p loc) (setLoc_WF p loc hw hl)
  have hf : (setLoc p loc).encodeFixed = p.encodeFixed := rfl
  simp only [block, PackInfo.encode, List.append_assoc]
  rw [List.take_append_of_le_length (by omega), List.take_append_of_le_length (by omega), hf]

/-- **One rewrite, byte level.**  Rewriting the location of the k-th pack info of a manifest:
    * the file keeps its length and changes only inside the location field and CRC of that block
      (bytes `[38, 256)` of the block);
    * the block again carries a valid CRC and decodes to the same pack info with the new location;
    * every other pack-info block is untouched;
    * the masked byte string the manifest's global check hashes is unchanged. -/
theorem rewrite_one (f : Bytes) (po n : Nat) (infos : List PackInfo) (k : Nat) (loc : Bytes)
    (hm : ManifestAt f po infos) (hn : infos.length = n) (hk : k < infos.length)
    (hw : (infos[k]).WF) (hl : loc.length ≤ Consts.locationPad) :
    let f' := splice f (po + k * 256) (block (setLoc infos[k] loc).encode)
    f'.length = f.length ∧
    (∀ i, (i < po + k * 256 + 38 ∨ po + k * 256 + 256 ≤ i) → f'[i]? = f[i]?) ∧
    readBlock f' (po + k * 256) 252 = .ok (setLoc infos[k] loc).encode ∧
    PackInfo.decode (setLoc infos[k] loc).encode = .ok (setLoc infos[k] loc) ∧
    ManifestAt f' po (infos.set k (setLoc infos[k] loc)) ∧
    manifestMask po n f' = manifestMask po n f := by
  obtain ⟨hlen, hblk⟩ := hm
  have hw' := setLoc_WF _ loc hw hl
  have hnl : (block (setLoc infos[k] loc).encode).length = 256 := block_encode_length _ hw'
  have hin : po + k * 256 + (block (setLoc infos[k] loc).encode).length ≤ f.length := by
    rw [hnl]
    have : (k + 1) * 256 ≤ infos.length * 256 := Nat.mul_le_mul_right 256 hk
    omega
  have hpre := setLoc_fixed_prefix infos[k] loc hw hl
  refine ⟨splice_length _ _ _ hin, ?_, ?_, PackInfo.decode_encode _ hw', ?_, ?_⟩
  · intro i hi
    rcases hi with hi | hi
    · by_cases h0 : i < po + k * 256
      · exact splice_getElem?_outside _ _ _ _ hin (Or.inl h0)
      · -- inside the first 38 bytes of the block: same bytes
        have hi' : i = po + k * 256 + (i - (po + k * 256)) := by omega
        rw [hi', splice_getElem?_inside _ _ _ _ hin (by rw [hnl]; omega)]
        have hold : f[po + k * 256 + (i - (po + k * 256))]? = (block infos[k].encode)[i - (po + k * 256)]? := by
          rw [← hblk k hk, slice_getElem?]; simp; omega
        rw [hold]
        have e1 : (block (setLoc infos[k] loc).encode)[i - (po + k * 256)]?
            = ((block (setLoc infos[k] loc).encode).take 38)[i - (po + k * 256)]? := by
          rw [List.getElem?_take]; simp; omega
        have e2 : (block infos[k].encode)[i - (po + k * 256)]?
            = ((block infos[k].encode).take 38)[i - (po + k * 256)]? := by
          rw [List.getElem?_take]; simp; omega
        rw [e1, e2, hpre]
    · exact splice_getElem?_outside _ _ _ _ hin (Or.inr (by rw [hnl]; omega))
  · -- the rewritten block reads back with a valid CRC
    have hs := slice_splice_same f (block (setLoc infos[k] loc).encode) (po + k * 256) hin
    rw [hnl] at hs
    have hle : po + k * 256 + 252 + 4 ≤ (splice f (po + k * 256) (block (setLoc infos[k] loc).encode)).length := by
      rw [splice_length _ _ _ hin]; omega
    simp only [readBlock, hle, if_true]
    have : slice (splice f (po + k * 256) (block (setLoc infos[k] loc).encode)) (po + k * 256) (252 + 4)
        = block (setLoc infos[k] loc).encode := hs
    rw [this, checkBlock_block]
    simp only [if_true, block]
    rw [← PackInfo.encode_length _ hw', List.take_left']
    rfl
  · refine ⟨by rw [splice_length _ _ _ hin, List.length_set]; exact hlen, ?_⟩
    intro j hj
    rw [List.length_set] at hj
    by_cases hjk : j = k
    · subst hjk
      have hs := slice_splice_same f (block (setLoc infos[j] loc).encode) (po + j * 256) hin
      rw [hnl] at hs
      simp only [List.getElem_set_self]
      exact hs
    · have hd : po + j * 256 + 256 ≤ po + k * 256 ∨ po + k * 256 + (block (setLoc infos[k] loc).encode).length ≤ po + j * 256 := by
        rw [hnl]
        rcases Nat.lt_or_gt_of_ne hjk with h | h
        · left; have : (j + 1) * 256 ≤ k * 256 := Nat.mul_le_mul_right 256 h; omega
        · right; have : (k + 1) * 256 ≤ j * 256 := Nat.mul_le_mul_right 256 h; omega
      rw [slice_splice_disjoint _ _ _ _ _ hin hd, List.getElem_set_ne (Ne.symm hjk)]
      exact hblk j hj
  · apply manifestMask_splice po n k f _ (by omega) hnl
    · have : (k + 1) * 256 ≤ infos.length * 256 := Nat.mul_le_mul_right 256 hk
      omega
    · rw [hblk k hk]; exact hpre

/-- spec of a history of rewrites on the list of pack infos: each (uuid, location) replaces the
    location of the first info carrying that uuid; an unknown uuid changes nothing -/
def specStep (infos : List PackInfo) (op : Bytes × Bytes) : List PackInfo :=
  match infos.findIdx? (fun p => p.uuid == op.1) with
  | some k => infos.set k (setLoc (infos.getD k default) op.2)
  | none => infos
where default : PackInfo := ⟨[], 0, (0, 0), 0, .content, 0, 0, []⟩

/-- the byte-level counterpart of one step, on a file whose pack infos are `infos` -/
def fileStep (po : Nat) (infos : List PackInfo) (f : Bytes) (op : Bytes × Bytes) : Bytes :=
  match infos.findIdx? (fun p => p.uuid == op.1) with
  | some k => splice f (po + k * 256) (block (setLoc (infos.getD k specStep.default) op.2).encode)
  | none => f

/-- **Any number of rewrites.**  After every history of admissible rewrites the file still holds
    well-formed pack-info blocks that decode to the spec-level result (so every location reads back
    as its last write, all other fields and all other packs are unchanged), its length is
    unchanged, and the masked byte string hashed by the manifest check is the original one — hence
    the manifest's global check gives the same verdict as before the history, for any hash
    function.  Naming a pack that is not listed changes nothing. -/
theorem rewrite_histories (po n : Nat) (ops : List (Bytes × Bytes)) (f : Bytes) (infos : List PackInfo)
    (hm : ManifestAt f po infos) (hn : infos.length = n) (hw : ∀ p ∈ infos, p.WF)
    (hl : ∀ op ∈ ops, op.2.length ≤ Consts.locationPad) :
    let r := ops.foldl (fun (st : Bytes × List PackInfo) op => (fileStep po st.2 st.1 op, specStep st.2 op)) (f, infos)
    ManifestAt r.1 po r.2 ∧ r.2 = ops.foldl specStep infos ∧ r.1.length = f.length ∧
    r.2.length = n ∧ (∀ p ∈ r.2, p.WF) ∧ manifestMask po n r.1 = manifestMask po n f := by
  induction ops generalizing f infos with
  | nil => exact ⟨hm, rfl, rfl, hn, hw, rfl⟩
  | cons op rest ih =>
    simp only [List.foldl_cons]
    have hl' : ∀ o ∈ rest, o.2.length ≤ Consts.locationPad := fun o ho => hl o (List.mem_cons_of_mem _ ho)
    have hlo : op.2.length ≤ Consts.locationPad := hl op List.mem_cons_self
    cases hfi : infos.findIdx? (fun p => p.uuid == op.1) with
    | none =>
      have e1 : fileStep po infos f op = f := by simp [fileStep, hfi]
      have e2 : specStep infos op = infos := by simp [specStep, hfi]
      rw [e1, e2]
      exact ih f infos hm hn hw hl'
    | some k =>
      have hk : k < infos.length := by
        have := List.findIdx?_eq_some_iff_getElem.mp hfi
        exact this.1
      have hgd : infos[k]?.getD specStep.default = infos[k] := by simp [hk]
      have e1 : fileStep po infos f op = splice f (po + k * 256) (block (setLoc infos[k] op.2).encode) := by
        simp [fileStep, hfi, hgd]
      have e2 : specStep infos op = infos.set k (setLoc infos[k] op.2) := by
        simp [specStep, hfi, hgd]
      have hwk : (infos[k]).WF := hw _ (List.getElem_mem hk)
      obtain ⟨h1, _, _, _, h5, h6⟩ := rewrite_one f po n infos k op.2 hm hn hk hwk hlo
      rw [e1, e2]
      have hw2 : ∀ p ∈ infos.set k (setLoc infos[k] op.2), p.WF := by
        intro p hp
        rcases List.mem_or_eq_of_mem_set hp with h | h
        · exact hw p h
        · rw [h]; exact setLoc_WF _ _ hwk hlo
      have := ih _ _ h5 (by rw [List.length_set]; exact hn) hw2 hl'
      obtain ⟨a, b, c, d, e, g⟩ := this
      exact ⟨a, b, by rw [c, h1], d, e, by rw [g, h6]⟩

/-- non-vacuity: a two-pack manifest region satisfies `ManifestAt` with well-formed infos, so a
    rewrite history over it meets every hypothesis of `rewrite_histories` -/
def exP1 : PackInfo := ⟨List.replicate 16 1, 300, (128, 37), 0, .directory, 0, 0, [97]⟩
def exP2 : PackInfo := ⟨List.replicate 16 2, 900, (165, 37), 1, .content, 0, 0, []⟩

example : exP1.WF ∧ exP2.WF ∧
    ManifestAt ([9, 9, 9] ++ (block exP1.encode ++ (block exP2.encode ++ [7]))) 3 [exP1, exP2] := by
  have w1 : exP1.WF := by simp [PackInfo.WF, exP1, Consts.locationPad]
  have w2 : exP2.WF := by simp [PackInfo.WF, exP2, Consts.locationPad]
  have l1 := block_encode_length _ w1
  have l2 := block_encode_length _ w2
  refine ⟨w1, w2, ?_, ?_⟩
  · simp only [List.length_append, l1, l2, List.length_cons, List.length_nil]; omega
  · intro k hk
    have hk2 : k = 0 ∨ k = 1 := by simp at hk; omega
    rcases hk2 with rfl | rfl
    · have := slice_append_right [9, 9, 9] (block exP1.encode ++ (block exP2.encode ++ [7])) 0 256
      simp only [List.length_cons, List.length_nil, Nat.zero_add, Nat.add_zero, Nat.zero_mul] at this ⊢
      rw [this, ← l1]
      exact slice_append_left _ _
    · have h : ([9, 9, 9] ++ block exP1.encode).length = 259 := by simp [l1]
      have := slice_append_right ([9, 9, 9] ++ block exP1.encode) (block exP2.encode ++ [7]) 0 256
      rw [h] at this
      simp only [List.append_assoc, Nat.add_zero, Nat.one_mul, List.getElem_cons_succ, List.getElem_cons_zero] at this ⊢
      rw [this, ← l2]
      exact slice_append_left _ _

end Jubako
