/-
Directory pack, file-level round trip — part D: from the schema-level well-formedness of the
writer's input (`DirIn.WF`: decidable predicates on names, types and value ranges) to the raw-level
facts parts B and C need about the finalised schema (`finalizeSchema`): every property header is
writable, every value of every entry is representable in its property, variants are padded to a
common size.
-/
import JubakoModel.Lemmas.DirFileC

namespace Jubako

set_option linter.unusedSimpArgs false
set_option linter.unusedVariables false
set_option maxRecDepth 8000

/-! ### 1. well-formedness of the writer's input -/

/-- value ranges the format can carry: integers are 64 bits, array lengths are at most 3 bytes
    (`lenSize` is 2 bits of the property header), pack ids are 16 bits and content ids 32 bits -/
def Val.inRange : Val → Prop
  | .u n => n < 2 ^ 64
  | .s i => -(2 ^ 63 : Int) ≤ i ∧ i < 2 ^ 63
  | .arr b => b.length < 2 ^ 24
  | .content p c => p < 2 ^ 16 ∧ c < 2 ^ 32

instance (v : Val) : Decidable v.inRange := by
  cases v <;> simp only [Val.inRange] <;> infer_instance

/-- the value has the type the schema declares for the property -/
def Val.hasType : PDef → Val → Prop
  | .uint, .u _ => True
  | .sint, .s _ => True
  | .array _ _, .arr _ => True
  | .content, .content _ _ => True
  | _, _ => False

instance (t : PDef) (v : Val) : Decidable (Val.hasType t v) := by
  cases t <;> cases v <;> simp only [Val.hasType] <;> infer_instance

/-- property definition: the name is a p-string (one length byte); the inline prefix of an array
    is 5 bits of the property header, its store index one byte and must name an existing store -/
def PropDef.WF (nstores : Nat) (p : PropDef) : Prop :=
  p.name.length ≤ 255 ∧
  match p.ty with
  | .array fixed st => fixed ≤ 31 ∧ st < nstores
  | _ => True

instance (n : Nat) (p : PropDef) : Decidable (p.WF n) := by
  unfold PropDef.WF; cases p.ty <;> simp only <;> infer_instance

/-- property definitions an entry with variant `variant` carries values for -/
def SchemaDef.propsOf (sch : SchemaDef) (variant : Option Nat) : List PropDef :=
  sch.common ++ (match variant with | some vi => (sch.variants.getD vi ([], [])).2 | none => [])

/-- an entry carries a variant id iff the schema has variants (and then an existing one), exactly
    one value per property, of the declared type and in range -/
def EntryIn.WF (sch : SchemaDef) (e : EntryIn) : Prop :=
  (match e.variant with
    | none => sch.variants = []
    | some vi => vi < sch.variants.length) ∧
  e.values.length = (sch.propsOf e.variant).length ∧
  (∀ v ∈ e.values, v.inRange) ∧
  (∀ pv ∈ (sch.propsOf e.variant).zip e.values, Val.hasType pv.1.ty pv.2)

instance (sch : SchemaDef) (e : EntryIn) : Decidable (e.WF sch) := by
  unfold EntryIn.WF; cases e.variant <;> simp only <;> infer_instance

/-- well-formed writer input.  `storeKinds.length < 256`: the value store count is one byte of the
    directory pack header (and store indexes are one byte in property headers). -/
def DirIn.WF (d : DirIn) : Prop :=
  d.storeKinds.length < 256 ∧
  (∀ p ∈ d.schema.common, p.WF d.storeKinds.length) ∧
  (∀ v ∈ d.schema.variants, v.1.length ≤ 255 ∧ ∀ p ∈ v.2, p.WF d.storeKinds.length) ∧
  (∀ e ∈ d.entries, e.WF d.schema)

instance (d : DirIn) : Decidable d.WF := by unfold DirIn.WF; infer_instance

/-! ### 2. column statistics -/

theorem listMax_lt (l : List Nat) (b : Nat) (hb : 0 < b) (h : ∀ x ∈ l, x < b) : listMax l < b := by
  unfold listMax
  have gen : ∀ (l : List Nat) (acc : Nat), acc < b → (∀ x ∈ l, x < b) → l.foldl max acc < b := by
    intro l
    induction l with
    | nil => intro acc h _; exact h
    | cons x xs ih =>
      intro acc ha hl
      simp only [List.foldl_cons]
      apply ih
      · have := hl x List.mem_cons_self; omega
      · intro y hy; exact hl y (List.mem_cons_of_mem _ hy)
  exact gen l 0 hb h

theorem constantOf_some {α} [DecidableEq α] (l : List α) (d : α) (h : constantOf l = some d) :
    d ∈ l ∧ ∀ x ∈ l, x = d := by
  cases l with
  | nil => simp [constantOf] at h
  | cons y ys =>
    simp only [constantOf] at h
    split at h
    · rename_i hall
      simp only [Option.some.injEq] at h
      subst h
      refine ⟨List.mem_cons_self .., ?_⟩
      intro x hx
      rcases List.mem_cons.1 hx with rfl | hx
      · rfl
      · simpa using List.all_eq_true.1 hall x hx
    · cases h

theorem uintOf_lt (w : Val) (h : w.inRange) : uintOf w < 2 ^ 64 := by
  cases w <;> simp only [uintOf, Val.inRange] at * <;> omega

theorem sintOf_range (w : Val) (h : w.inRange) : -(2 ^ 63 : Int) ≤ sintOf w ∧ sintOf w < 2 ^ 63 := by
  cases w <;> simp only [sintOf, Val.inRange] at * <;> omega

theorem packOf_lt (w : Val) (h : w.inRange) : packOf w < 2 ^ 16 := by
  cases w <;> simp only [packOf, Val.inRange] at * <;> omega

theorem cidOf_lt (w : Val) (h : w.inRange) : cidOf w < 2 ^ 32 := by
  cases w <;> simp only [cidOf, Val.inRange] at * <;> omega

theorem arrayOf_lt (w : Val) (h : w.inRange) : (arrayOf w).length < 2 ^ 24 := by
  cases w <;> simp only [arrayOf, Val.inRange, List.length_nil] at * <;> omega

theorem neededBytes_le_of_lt (v k : Nat) (hk : 1 ≤ k) (h : v < 256 ^ k) : neededBytes v ≤ k :=
  neededBytes_min v k hk h

theorem listMax_map_lt {α} (col : List α) (f : α → Nat) (b : Nat) (hb : 0 < b)
    (h : ∀ w ∈ col, f w < b) : listMax (col.map f) < b :=
  listMax_lt _ b hb (by
    intro x hx
    obtain ⟨w, hw, rfl⟩ := List.mem_map.1 hx
    exact h w hw)

theorem sintWidth_le_8 (col : List Val) :
    neededBytes (listMax (col.map (fun v => signedSizeKey (sintOf v)))) ≤ 8 := by
  apply neededBytes_le_8
  have := listMax_map_lt col (fun v => signedSizeKey (sintOf v)) (2 ^ 63) (by decide)
    (fun w _ => signedSizeKey_lt _)
  omega

theorem sint_fits_col (col : List Val) (hcol : ∀ w ∈ col, w.inRange) (i : Int)
    (hi : i ∈ col.map sintOf) :
    fitsSigned i (neededBytes (listMax (col.map (fun v => signedSizeKey (sintOf v))))) := by
  have := sint_column_fits (col.map sintOf) (by
    intro x hx
    obtain ⟨w, hw, rfl⟩ := List.mem_map.1 hx
    exact sintOf_range w (hcol w hw)) i hi
  simpa only [List.map_map, Function.comp_def] using this

/-! ### 3. one finalised property -/

theorem finalizeProp_name (stores : List VStore) (p : PropDef) (col : List Val) :
    (finalizeProp stores p col).name = p.name := by
  unfold finalizeProp
  cases p.ty <;> simp only <;> split <;> rfl

theorem finalizeProp_nonstruct (stores : List VStore) (p : PropDef) (col : List Val) :
    ¬ ((finalizeProp stores p col).kind = .padding ∨ (finalizeProp stores p col).kind = .variantId) := by
  unfold finalizeProp
  cases p.ty <;> simp only <;> split <;> simp

/-- bounds on the key size of the stores an array property may use (`ks` is 3 bits of the
    complement byte of the property header) -/
def StoreKeysOk (stores : List VStore) : Prop :=
  ∀ st, st < stores.length → (stores.getD st vsDflt).keySize ≤ 7

/-- **every property header the creator derives is writable** -/
theorem finalizeProp_writable (stores : List VStore) (hks : StoreKeysOk stores) (p : PropDef)
    (col : List Val) (hp : p.WF stores.length) (hs256 : stores.length ≤ 256)
    (hcol : ∀ w ∈ col, w.inRange) : (finalizeProp stores p col).Writable := by
  obtain ⟨hname, hty⟩ := hp
  refine ⟨by rw [finalizeProp_name]; exact hname, ?_⟩
  unfold finalizeProp
  cases hpt : p.ty with
  | uint =>
    have h1 := (neededBytes_spec (listMax (col.map uintOf))).2
    have h8 : neededBytes (listMax (col.map uintOf)) ≤ 8 :=
      neededBytes_le_8 _ (listMax_map_lt col uintOf _ (by decide) (fun w hw => uintOf_lt w (hcol w hw)))
    cases hd : constantOf (col.map uintOf) with
    | some d => exact ⟨h1, h8, rfl, uint_column_fits _ d (constantOf_some _ d hd).1⟩
    | none => exact ⟨h1, h8, rfl⟩
  | sint =>
    have h1 := (neededBytes_spec (listMax (col.map (fun v => signedSizeKey (sintOf v))))).2
    have h8 := sintWidth_le_8 col
    cases hd : constantOf (col.map sintOf) with
    | some d => exact ⟨h1, h8, rfl, sint_fits_col col hcol d (constantOf_some _ d hd).1⟩
    | none => exact ⟨h1, h8, rfl⟩
  | content =>
    have hp1 := (neededBytes_spec (listMax (col.map packOf))).2
    have hp2 : neededBytes (listMax (col.map packOf)) ≤ 2 :=
      neededBytes_le_of_lt _ 2 (by omega) (by
        have := listMax_map_lt col packOf (2 ^ 16) (by decide) (fun w hw => packOf_lt w (hcol w hw))
        have h2 : (256 : Nat) ^ 2 = 2 ^ 16 := by decide
        omega)
    have hc1 := (neededBytes_spec (listMax (col.map cidOf))).2
    have hc4 : neededBytes (listMax (col.map cidOf)) ≤ 4 :=
      neededBytes_le_of_lt _ 4 (by omega) (by
        have := listMax_map_lt col cidOf (2 ^ 32) (by decide) (fun w hw => cidOf_lt w (hcol w hw))
        have h2 : (256 : Nat) ^ 4 = 2 ^ 32 := by decide
        omega)
    cases hd : constantOf (col.map packOf) with
    | some d => exact ⟨by omega, hc1, hc4, rfl, uint_column_fits _ d (constantOf_some _ d hd).1⟩
    | none => exact ⟨by omega, hc1, hc4, rfl⟩
  | array fixed st =>
    rw [hpt] at hty
    simp only at hty
    obtain ⟨hfx, hst⟩ := hty
    have hk7 := hks st hst
    have hk1 : 1 ≤ (stores.getD st vsDflt).keySize := by
      unfold VStore.keySize; split <;> exact (neededBytes_spec _).2
    simp only
    by_cases h0 : fixed = 0 ∧ (stores.getD st vsDflt).indexed = true
    · rw [if_pos h0]
      exact ⟨rfl, hk1, hk7, by omega, rfl⟩
    · rw [if_neg h0]
      have hl1 := (neededBytes_spec (listMax (col.map (fun v => (arrayOf v).length)))).2
      have hl3 : neededBytes (listMax (col.map (fun v => (arrayOf v).length))) ≤ 3 :=
        neededBytes_le_of_lt _ 3 (by omega) (by
          have := listMax_map_lt col (fun v => (arrayOf v).length) (2 ^ 24) (by decide)
            (fun w hw => arrayOf_lt w (hcol w hw))
          have h2 : (256 : Nat) ^ 3 = 2 ^ 24 := by decide
          omega)
      exact ⟨hl1, hl3, hfx, hk1, hk7, by omega, rfl⟩

/-- **every value of a column is representable in the property derived from the column** -/
theorem finalizeProp_fits (stores : List VStore) (p : PropDef) (col : List Val) (v : Val)
    (hv : v ∈ col) (hty : Val.hasType p.ty v) (hcol : ∀ w ∈ col, w.inRange)
    (harr : ∀ fixed st a, p.ty = .array fixed st → v = .arr a →
      st < stores.length ∧ a.drop fixed ∈ (stores.getD st vsDflt).values) :
    fitsKind stores (finalizeProp stores p col).kind v := by
  unfold finalizeProp
  cases hpt : p.ty with
  | uint =>
    rw [hpt] at hty
    cases v <;> simp only [Val.hasType] at hty
    rename_i n
    have hn : n ∈ col.map uintOf := List.mem_map.2 ⟨_, hv, rfl⟩
    cases hd : constantOf (col.map uintOf) with
    | some d => exact (constantOf_some _ d hd).2 n hn
    | none => exact uint_column_fits _ n hn
  | sint =>
    rw [hpt] at hty
    cases v <;> simp only [Val.hasType] at hty
    rename_i i
    have hi : i ∈ col.map sintOf := List.mem_map.2 ⟨_, hv, rfl⟩
    cases hd : constantOf (col.map sintOf) with
    | some d => exact (constantOf_some _ d hd).2 i hi
    | none => exact ⟨(neededBytes_spec _).2, sintWidth_le_8 col, sint_fits_col col hcol i hi⟩
  | content =>
    rw [hpt] at hty
    cases v <;> simp only [Val.hasType] at hty
    rename_i pk c
    have hpk : pk ∈ col.map packOf := List.mem_map.2 ⟨_, hv, rfl⟩
    have hc : c ∈ col.map cidOf := List.mem_map.2 ⟨_, hv, rfl⟩
    have hr := hcol _ hv
    simp only [Val.inRange] at hr
    cases hd : constantOf (col.map packOf) with
    | some d => exact ⟨(constantOf_some _ d hd).2 pk hpk, uint_column_fits _ c hc⟩
    | none => exact ⟨uint_column_fits _ pk hpk, by omega, uint_column_fits _ c hc⟩
  | array fixed st =>
    rw [hpt] at hty
    cases v <;> simp only [Val.hasType] at hty
    rename_i a
    obtain ⟨hst, hmem⟩ := harr fixed st a hpt rfl
    have hl : a.length ∈ col.map (fun v => (arrayOf v).length) := List.mem_map.2 ⟨_, hv, rfl⟩
    simp only
    by_cases h0 : fixed = 0 ∧ (stores.getD st vsDflt).indexed = true
    · rw [if_pos h0]
      obtain ⟨rfl, hix⟩ := h0
      simp only [List.drop_zero] at hmem
      exact ⟨rfl, hst, hix, hmem, rfl⟩
    · rw [if_neg h0]
      exact ⟨uint_column_fits _ _ hl, hst, hmem, rfl⟩

end Jubako
