/-
The cluster cache over whole histories: under any sequence of lookups (the mutex makes lookups of
concurrent readers a sequence), a handle is only ever handed out for one cluster index — no reader
can be given another cluster's decoded buffer — whatever is evicted in between.
-/
import JubakoModel.Model.SyncVec

namespace Jubako

/-- run a sequence of lookups from cache `c`; the answers `(requested index, handle)` in order -/
def LruCache.run (c : LruCache) : List Nat → List (Nat × Nat) × LruCache
  | [] => ([], c)
  | idx :: rest =>
    let (h, c') := c.get idx
    let (out, c'') := c'.run rest
    ((idx, h) :: out, c'')

/-- what is known after some lookups: `hist` = every `(index, handle)` pair answered so far -/
structure CacheHistInv (c : LruCache) (hist : List (Nat × Nat)) : Prop where
  entries_in_hist : ∀ e ∈ c.entries, e ∈ hist
  hist_lt : ∀ p ∈ hist, p.2 < c.nextHandle
  functional : ∀ p ∈ hist, ∀ q ∈ hist, p.2 = q.2 → p.1 = q.1

theorem cacheHistInv_get (c : LruCache) (hist : List (Nat × Nat)) (idx : Nat)
    (hi : CacheHistInv c hist) :
    CacheHistInv (c.get idx).2 ((idx, (c.get idx).1) :: hist) := by
  unfold LruCache.get
  cases hf : c.entries.find? (fun e => e.1 == idx) with
  | some e =>
    have hmem : e ∈ c.entries := List.mem_of_find?_eq_some hf
    have hidx : e.1 = idx := by
      have := List.find?_some hf
      simpa using this
    have he : e ∈ hist := hi.entries_in_hist e hmem
    have heq : (idx, e.2) = e := by rw [← hidx]
    simp only
    refine ⟨?_, ?_, ?_⟩
    · intro x hx
      rcases List.mem_cons.1 hx with rfl | hx
      · rw [heq]; exact List.mem_cons_of_mem _ he
      · exact List.mem_cons_of_mem _ (hi.entries_in_hist x (List.mem_filter.1 hx).1)
    · intro p hp
      rcases List.mem_cons.1 hp with rfl | hp
      · exact hi.hist_lt e he
      · exact hi.hist_lt p hp
    · intro p hp q hq hpq
      have hp' : p ∈ hist := by
        rcases List.mem_cons.1 hp with rfl | hp
        · rw [heq]; exact he
        · exact hp
      have hq' : q ∈ hist := by
        rcases List.mem_cons.1 hq with rfl | hq
        · rw [heq]; exact he
        · exact hq
      exact hi.functional p hp' q hq' hpq
  | none =>
    simp only
    refine ⟨?_, ?_, ?_⟩
    · intro x hx
      have := List.mem_of_mem_take hx
      rcases List.mem_cons.1 this with rfl | hx'
      · exact List.mem_cons_self
      · exact List.mem_cons_of_mem _ (hi.entries_in_hist x hx')
    · intro p hp
      rcases List.mem_cons.1 hp with rfl | hp
      · exact Nat.lt_succ_self _
      · exact Nat.lt_succ_of_lt (hi.hist_lt p hp)
    · intro p hp q hq hpq
      rcases List.mem_cons.1 hp with rfl | hp <;> rcases List.mem_cons.1 hq with rfl | hq
      · rfl
      · have := hi.hist_lt q hq; simp only at hpq; omega
      · have := hi.hist_lt p hp; simp only at hpq; omega
      · exact hi.functional p hp q hq hpq

theorem cacheHistInv_run (c : LruCache) (hist : List (Nat × Nat)) (idxs : List Nat)
    (hi : CacheHistInv c hist) :
    CacheHistInv (c.run idxs).2 ((c.run idxs).1.reverse ++ hist) ∧
    ∀ p ∈ (c.run idxs).1, p.1 ∈ idxs := by
  induction idxs generalizing c hist with
  | nil => exact ⟨by simpa [LruCache.run] using hi, by intro p hp; cases hp⟩
  | cons idx rest ih =>
    have h1 := cacheHistInv_get c hist idx hi
    obtain ⟨h2, h3⟩ := ih (c.get idx).2 _ h1
    simp only [LruCache.run]
    refine ⟨?_, ?_⟩
    · simpa [List.reverse_cons, List.append_assoc] using h2
    · intro p hp
      rcases List.mem_cons.1 hp with rfl | hp
      · exact List.mem_cons_self
      · exact List.mem_cons_of_mem _ (h3 p hp)

/-- **A handle serves one cluster only**, over any history of lookups starting from an empty cache:
    two lookups that were answered with the same handle asked for the same cluster index. -/
theorem lru_handle_serves_one_cluster (cap : Nat) (idxs : List Nat) :
    ∀ p ∈ ((⟨cap, [], 0⟩ : LruCache).run idxs).1, ∀ q ∈ ((⟨cap, [], 0⟩ : LruCache).run idxs).1,
      p.2 = q.2 → p.1 = q.1 := by
  have h0 : CacheHistInv (⟨cap, [], 0⟩ : LruCache) [] := by
    refine ⟨?_, ?_, ?_⟩
    · intro e he; cases he
    · intro p hp; cases hp
    · intro p hp; cases hp
  obtain ⟨h, _⟩ := cacheHistInv_run _ [] idxs h0
  intro p hp q hq hpq
  exact h.functional p (by simp [hp]) q (by simp [hq]) hpq

/-- every lookup is answered for the index it asked -/
theorem lru_run_answers (c : LruCache) (idxs : List Nat) : (c.run idxs).1.map (·.1) = idxs := by
  induction idxs generalizing c with
  | nil => rfl
  | cons idx rest ih => simp [LruCache.run, ih]

end Jubako
