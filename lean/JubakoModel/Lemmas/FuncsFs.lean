/-
The publication statements of `BasicCreator::finalize` extracted from the source on every run
(Generated/FuncsFs.lean) are the sequence the creation traces of Model/BasicCreatorFs.lean follow.
-/
import JubakoModel.Model.BasicCreatorFs
import JubakoModel.Generated.FuncsFs

namespace Jubako

theorem gen_basicCreatorPublications : Generated.basicCreatorPublications = finalizePublications := by decide

theorem renameTargets_append (a b : List FsOp) : renameTargets (a ++ b) = renameTargets a ++ renameTargets b := by
  simp [renameTargets]

theorem renameTargets_wr (p : FPath) (toks : List Nat) : renameTargets (wr p toks) = [] := by
  induction toks with
  | nil => rfl
  | cons t ts ih => simpa [renameTargets, wr] using ih

theorem renameTargets_nil : renameTargets [] = [] := rfl
theorem renameTargets_create (p : FPath) (l : List FsOp) : renameTargets (FsOp.create p :: l) = renameTargets l := rfl
theorem renameTargets_rename (a b : FPath) (l : List FsOp) :
    renameTargets (FsOp.rename a b :: l) = b :: renameTargets l := rfl

/-- **The renames of the modelled creation run of every packaging are, in order, the publishing statements
    of the source that the packaging executes** — in particular the entry point is published by the last
    of them, after every pack file it refers to. -/
theorem creationTrace_renames (m : ConcatMode) (n : FinNames) (w : FinWrites) :
    renameTargets (creationTrace m n w) =
      (finalizePublications.filter (PubStmt.runsIn m)).filterMap (PubStmt.target n) := by
  cases m with
  | oneFile =>
    rw [show finalizePublications.filter (PubStmt.runsIn ConcatMode.oneFile) = [PubStmt.publishEntryContainer] from by decide]
    simp [creationTrace, renameTargets_append, renameTargets_wr, renameTargets_create, renameTargets_rename,
      renameTargets_nil, PubStmt.target] <;> rfl
  | twoFiles =>
    rw [show finalizePublications.filter (PubStmt.runsIn ConcatMode.twoFiles) =
      [PubStmt.publishContentFile, PubStmt.tempEntryContainer, PubStmt.publishEntryContainer] from by decide]
    simp [creationTrace, renameTargets_append, renameTargets_wr, renameTargets_create, renameTargets_rename,
      renameTargets_nil, PubStmt.target] <;> rfl
  | noConcat =>
    rw [show finalizePublications.filter (PubStmt.runsIn ConcatMode.noConcat) =
      [PubStmt.publishContentFile, PubStmt.tempDirectory, PubStmt.publishDirectory, PubStmt.tempEntryManifest,
       PubStmt.publishEntryManifest] from by decide]
    simp [creationTrace, renameTargets_append, renameTargets_wr, renameTargets_create, renameTargets_rename,
      renameTargets_nil, PubStmt.target] <;> rfl

end Jubako
