/-
Lemmas on the shared decode buffer model (`Model/SyncVec.lean`): safety for every schedule,
disjointness of reads and writes, progress of waiting readers, LRU handle uniqueness.
-/
import JubakoModel.Model.SyncVec
import JubakoModel.Lemmas.Slice

namespace Jubako

/-! ## list / slice helpers -/

set_option linter.unusedVariables false in
/-- (the bound `h` is not needed: `take` saturates) -/
theorem take_append_slice (data : Bytes) (k n : Nat) (h : k + n ≤ data.length) :
    data.take k ++ slice data k n = data.take (k + n) := by
  simp only [slice]; rw [List.take_add]

theorem slice_take_take (data : Bytes) (m d off len : Nat) (h1 : d ≤ m) (h2 : off + len ≤ d) :
    slice ((data.take m).take d) off len = slice data off len := by
  simp only [slice, List.take_take, List.drop_take]
  congr 1; omega

theorem readers_set_cases {l : List RPhase} {r j : Nat} {x y : RPhase}
    (h : (l.set r x)[j]? = some y) : (j = r ∧ y = x) ∨ l[j]? = some y := by
  rw [List.getElem?_set] at h
  split at h
  · split at h
    · left; simp at h; exact ⟨by omega, h.symm⟩
    · simp at h
  · right; exact h

/-! ## the strengthened invariant

`SV.Inv` is not inductive: from a state with `failedFlag = true`, `d < avail` and a reader waiting
for `end_ ≤ avail` (which satisfies `SV.Inv`), `.wake r` yields a `failed off end_` reader with
`end_ ≤ avail`.  Reachable states also satisfy: once failed, `d = buf.length = avail < total`. -/

def SV.Inv' (s : SV) : Prop :=
  s.Inv ∧ (s.failedFlag = true → s.d = s.avail ∧ s.buf.length = s.d ∧ s.avail < s.total)

theorem SV.Inv'.inv {s : SV} (h : s.Inv') : s.Inv := h.1

theorem sv_inv'_init (data : Bytes) (avail n : Nat) (h : avail ≤ data.length) :
    (SV.init data avail n).Inv' := by
  refine ⟨⟨?_, ?_, ?_, ?_, ?_, ?_, ?_, ?_, ?_⟩, ?_⟩ <;>
    simp [SV.init, SV.total, List.getElem?_replicate, h]
  all_goals (intro r off end_; split <;> simp)

theorem sv_inv_init (data : Bytes) (avail n : Nat) (h : avail ≤ data.length) :
    (SV.init data avail n).Inv := (sv_inv'_init data avail n h).1

/-! ## steps preserve the invariant -/

/-- ghost fields never change -/
theorem sv_step_ghost (s s' : SV) (a : SVAct) (h : s.step a = some s') :
    s'.data = s.data ∧ s'.avail = s.avail := by
  cases a <;> simp only [SV.step] at h
  case write n => split at h <;> simp at h; subst h; simp
  case publish => split at h <;> simp at h; subst h; simp
  case fail => split at h <;> simp at h; subst h; simp
  case request r off end_ =>
    split at h
    · split at h <;> simp at h; subst h; simp
    · simp at h
  case wake r =>
    split at h
    · split at h
      · simp at h; subst h; simp
      · split at h <;> simp at h; subst h; simp
    · simp at h
  case slice r =>
    split at h
    · simp at h; subst h; simp
    · simp at h

/-- the decoder's actions preserve `SV.Inv` itself -/
theorem sv_inv_step_decoder (s s' : SV) (a : SVAct) (hi : s.Inv)
    (ha : a = .publish ∨ a = .fail ∨ ∃ n, a = .write n) (h : s.step a = some s') : s'.Inv := by
  obtain ⟨h1, h2, h3, h4, h5, h6, h7, h8, h9⟩ := hi
  rcases ha with rfl | rfl | ⟨n, rfl⟩ <;>
    simp only [SV.step, Option.ite_none_right_eq_some, Option.some.injEq] at h <;>
    obtain ⟨hc, rfl⟩ := h <;>
    obtain ⟨data, avail, buf, d, ff, readers⟩ := s <;>
    simp only [SV.total] at *
  · refine ⟨?_, ?_, ?_, ?_, ?_, ?_, ?_, ?_, ?_⟩ <;> simp only [SV.total] <;> try assumption
    · omega
    · intro r off end_ hr; have := h6 r off end_ hr; omega
  · refine ⟨?_, ?_, ?_, ?_, ?_, ?_, ?_, ?_, ?_⟩ <;> simp only [SV.total] <;> try assumption
    · intro r off end_ hr; exact ⟨trivial, (h9 r off end_ hr).2⟩
  · obtain ⟨hn1, hn2, hbd, hff, hav, htot⟩ := hc
    have hlen : (buf ++ slice data buf.length n).length = buf.length + n := by
      rw [List.length_append, slice_length _ _ _ htot]
    refine ⟨?_, ?_, ?_, ?_, ?_, ?_, ?_, ?_, ?_⟩ <;> simp only [SV.total, hlen] <;> try assumption
    · omega
    · rw [← take_append_slice data buf.length n htot, ← h5]

theorem sv_inv_step' (s s' : SV) (a : SVAct) (hi : s.Inv') (h : s.step a = some s') : s'.Inv' := by
  obtain ⟨hinv, hf⟩ := hi
  cases a with
  | write n =>
    refine ⟨sv_inv_step_decoder s s' _ hinv (Or.inr (Or.inr ⟨n, rfl⟩)) h, ?_⟩
    simp only [SV.step, Option.ite_none_right_eq_some, Option.some.injEq] at h
    obtain ⟨hc, rfl⟩ := h
    intro hff; simp only [] at hff; simp [hff] at hc
  | publish =>
    refine ⟨sv_inv_step_decoder s s' _ hinv (Or.inl rfl) h, ?_⟩
    simp only [SV.step, Option.ite_none_right_eq_some, Option.some.injEq] at h
    obtain ⟨hc, rfl⟩ := h
    intro hff; simp only [] at hff; simp [hff] at hc
  | fail =>
    refine ⟨sv_inv_step_decoder s s' _ hinv (Or.inr (Or.inl rfl)) h, ?_⟩
    simp only [SV.step, Option.ite_none_right_eq_some, Option.some.injEq] at h
    obtain ⟨hc, rfl⟩ := h
    intro _; simp only [SV.total] at *; omega
  | request r off end_ =>
    obtain ⟨h1, h2, h3, h4, h5, h6, h7, h8, h9⟩ := hinv
    simp only [SV.step] at h
    split at h
    · simp only [Option.ite_none_right_eq_some, Option.some.injEq] at h
      obtain ⟨hc, rfl⟩ := h
      refine ⟨⟨h1, h2, h3, h4, h5, ?_, ?_, ?_, ?_⟩, hf⟩
      · intro j o e hr
        rcases readers_set_cases hr with ⟨_, hx⟩ | hr'
        · cases hx
        · exact h6 j o e hr'
      · intro j o e res hr
        rcases readers_set_cases hr with ⟨_, hx⟩ | hr'
        · cases hx
        · exact h7 j o e res hr'
      · intro j o e hr
        rcases readers_set_cases hr with ⟨_, hx⟩ | hr'
        · cases hx; exact hc
        · exact h8 j o e hr'
      · intro j o e hr
        rcases readers_set_cases hr with ⟨_, hx⟩ | hr'
        · cases hx
        · exact h9 j o e hr'
    · simp at h
  | wake r =>
    obtain ⟨h1, h2, h3, h4, h5, h6, h7, h8, h9⟩ := hinv
    simp only [SV.step] at h
    split at h
    · rename_i off end_ hw
      have hw8 := h8 r off end_ hw
      split at h
      · rename_i hc
        simp only [Option.some.injEq] at h; subst h
        refine ⟨⟨h1, h2, h3, h4, h5, ?_, ?_, ?_, ?_⟩, hf⟩
        · intro j o e hr
          rcases readers_set_cases hr with ⟨_, hx⟩ | hr'
          · cases hx; exact ⟨hw8.1, hc⟩
          · exact h6 j o e hr'
        · intro j o e res hr
          rcases readers_set_cases hr with ⟨_, hx⟩ | hr'
          · cases hx
          · exact h7 j o e res hr'
        · intro j o e hr
          rcases readers_set_cases hr with ⟨_, hx⟩ | hr'
          · cases hx
          · exact h8 j o e hr'
        · intro j o e hr
          rcases readers_set_cases hr with ⟨_, hx⟩ | hr'
          · cases hx
          · exact h9 j o e hr'
      · rename_i hc
        simp only [Option.ite_none_right_eq_some, Option.some.injEq] at h
        obtain ⟨hff, rfl⟩ := h
        have hf' := hf hff
        refine ⟨⟨h1, h2, h3, h4, h5, ?_, ?_, ?_, ?_⟩, hf⟩
        · intro j o e hr
          rcases readers_set_cases hr with ⟨_, hx⟩ | hr'
          · cases hx
          · exact h6 j o e hr'
        · intro j o e res hr
          rcases readers_set_cases hr with ⟨_, hx⟩ | hr'
          · cases hx
          · exact h7 j o e res hr'
        · intro j o e hr
          rcases readers_set_cases hr with ⟨_, hx⟩ | hr'
          · cases hx
          · exact h8 j o e hr'
        · intro j o e hr
          rcases readers_set_cases hr with ⟨_, hx⟩ | hr'
          · cases hx; exact ⟨hff, by show s.avail < end_; omega⟩
          · exact h9 j o e hr'
    · simp at h
  | slice r =>
    obtain ⟨h1, h2, h3, h4, h5, h6, h7, h8, h9⟩ := hinv
    simp only [SV.step] at h
    split at h
    · rename_i off end_ hw
      have hw6 := h6 r off end_ hw
      simp only [Option.some.injEq] at h; subst h
      refine ⟨⟨h1, h2, h3, h4, h5, ?_, ?_, ?_, ?_⟩, hf⟩
      · intro j o e hr
        rcases readers_set_cases hr with ⟨_, hx⟩ | hr'
        · cases hx
        · exact h6 j o e hr'
      · intro j o e res hr
        rcases readers_set_cases hr with ⟨_, hx⟩ | hr'
        · cases hx
          have := slice_take_take s.data s.buf.length s.d off (end_ - off) h1 (by omega)
          rw [← h5] at this
          exact this
        · exact h7 j o e res hr'
      · intro j o e hr
        rcases readers_set_cases hr with ⟨_, hx⟩ | hr'
        · cases hx
        · exact h8 j o e hr'
      · intro j o e hr
        rcases readers_set_cases hr with ⟨_, hx⟩ | hr'
        · cases hx
        · exact h9 j o e hr'
    · simp at h

/-- `SV.Inv` alone is not inductive: a concrete `SV.Inv` state from which `.wake 0` leads to a
    state violating `SV.Inv` (so `sv_inv_step` / `sv_inv_run` are false with `hi : s.Inv`). -/
theorem sv_inv_not_inductive :
    ∃ (s s' : SV) (a : SVAct), s.Inv ∧ s.step a = some s' ∧ ¬ s'.Inv := by
  refine ⟨⟨[0, 0], 1, [], 0, true, [.waiting 0 1]⟩, ⟨[0, 0], 1, [], 0, true, [.failed 0 1]⟩,
    .wake 0, ?_, by simp [SV.step], ?_⟩
  · refine ⟨?_, ?_, ?_, ?_, ?_, ?_, ?_, ?_, ?_⟩ <;> simp [SV.total]
    all_goals (intro r; cases r <;> simp)
  · intro h
    have := (h.2.2.2.2.2.2.2.2 0 0 1 (by simp)).2
    simp at this

/-- The step theorem holds for the strengthened `SV.Inv'`, which implies `SV.Inv`. -/
theorem sv_inv_step (s s' : SV) (a : SVAct) (hi : s.Inv') (h : s.step a = some s') : s'.Inv :=
  (sv_inv_step' s s' a hi h).1

theorem sv_inv_run' (s s' : SV) (as : List SVAct) (hi : s.Inv') (h : s.run as = some s') :
    s'.Inv' := by
  induction as generalizing s with
  | nil => simp [SV.run] at h; subst h; exact hi
  | cons a as ih =>
    simp only [SV.run] at h
    cases hs : s.step a with
    | none => simp [hs] at h
    | some s1 =>
      simp [hs] at h
      exact ih s1 (sv_inv_step' s s1 a hi hs) h

theorem sv_inv_run (s s' : SV) (as : List SVAct) (hi : s.Inv') (h : s.run as = some s') : s'.Inv :=
  (sv_inv_run' s s' as hi h).1

theorem sv_data_const_run (s s' : SV) (as : List SVAct) (h : s.run as = some s') :
    s'.data = s.data ∧ s'.avail = s.avail := by
  induction as generalizing s with
  | nil => simp [SV.run] at h; subst h; exact ⟨rfl, rfl⟩
  | cons a as ih =>
    simp only [SV.run] at h
    cases hs : s.step a with
    | none => simp [hs] at h
    | some s1 =>
      simp [hs] at h
      have h1 := sv_step_ghost s s1 a hs
      have h2 := ih s1 h
      exact ⟨h2.1.trans h1.1, h2.2.trans h1.2⟩

/-! ## headline safety -/

theorem sv_reads_exact (data : Bytes) (avail n : Nat) (h : avail ≤ data.length) (as : List SVAct)
    (s : SV) (hr : (SV.init data avail n).run as = some s) :
    ∀ (r off end_ : Nat) (res : Bytes), s.readers[r]? = some (RPhase.done off end_ res) →
      res = slice data off (end_ - off) := by
  have hi := sv_inv_run _ _ as (sv_inv'_init data avail n h) hr
  have hd := (sv_data_const_run _ _ as hr).1
  obtain ⟨h1, h2, h3, h4, h5, h6, h7, h8, h9⟩ := hi
  intro r off end_ res hx
  have := h7 r off end_ res hx
  rw [hd] at this
  exact this

theorem sv_data_const (data : Bytes) (avail n : Nat) (as : List SVAct)
    (s : SV) (hr : (SV.init data avail n).run as = some s) : s.data = data ∧ s.avail = avail :=
  sv_data_const_run _ _ as hr

/-- readers on an undamaged payload never fail -/
theorem sv_no_failure_when_sound (data : Bytes) (n : Nat) (as : List SVAct) (s : SV)
    (hr : (SV.init data data.length n).run as = some s) :
    s.failedFlag = false ∧ ∀ (r off end_ : Nat), s.readers[r]? ≠ some (RPhase.failed off end_) := by
  have hi := sv_inv_run' _ _ as (sv_inv'_init data data.length n (Nat.le_refl _)) hr
  have hd := sv_data_const_run _ _ as hr
  obtain ⟨⟨h1, h2, h3, h4, h5, h6, h7, h8, h9⟩, hf⟩ := hi
  have hff : s.failedFlag = false := by
    cases hx : s.failedFlag with
    | false => rfl
    | true =>
      have := (hf hx).2.2
      simp only [SV.total, hd.1, hd.2, SV.init] at this
      omega
  refine ⟨hff, ?_⟩
  intro r off end_ hx
  have := (h9 r off end_ hx).1
  rw [hff] at this
  cases this

/-! ## disjointness: reads are below `d`, writes at or above `buf.length ≥ d` -/

theorem sv_disjoint (s : SV) (hi : s.Inv) : s.d ≤ s.buf.length := hi.1

/-- a write never changes an index below the written length (in particular none below `d`) -/
theorem sv_write_preserves_prefix (s s' : SV) (n : Nat) (h : s.step (.write n) = some s') :
    s'.buf.take s.buf.length = s.buf ∧ s'.d = s.d := by
  simp only [SV.step, Option.ite_none_right_eq_some, Option.some.injEq] at h
  obtain ⟨_, rfl⟩ := h
  simp

/-- a read changes nothing in the shared buffer -/
theorem sv_slice_readonly (s s' : SV) (r : Nat) (h : s.step (.slice r) = some s') :
    s'.buf = s.buf ∧ s'.d = s.d := by
  simp only [SV.step] at h
  split at h
  · simp only [Option.some.injEq] at h; subst h; exact ⟨rfl, rfl⟩
  · simp at h

/-- the index sets touched by any read and any write enabled in the same state are disjoint:
    every read index is `< readsBelow ≤ writesFrom ≤` every written index -/
theorem sv_read_write_disjoint (s : SV) (hi : s.Inv) (r n i j : Nat)
    (hr : SVAct.readsBelow s (.slice r) = some i) (hw : SVAct.writesFrom s (.write n) = some j) :
    i ≤ j := by
  simp only [SVAct.readsBelow, SVAct.writesFrom, Option.some.injEq] at hr hw
  subst hr; subst hw; exact hi.1

/-- what a reader copies lies entirely below the published length -/
theorem sv_slice_below_d (s : SV) (hi : s.Inv) (r off end_ : Nat)
    (hr : s.readers[r]? = some (RPhase.woke off end_)) : off ≤ end_ ∧ end_ ≤ s.d ∧ s.d ≤ s.buf.length :=
  ⟨(hi.2.2.2.2.2.1 r off end_ hr).1, (hi.2.2.2.2.2.1 r off end_ hr).2, hi.1⟩

/-! ## progress -/

/-- the decoder's own next action -/
def decoderNext (s : SV) : Option SVAct :=
  if s.failedFlag then none
  else if s.d < s.buf.length then some .publish
  else if s.buf.length < s.avail then
    some (.write (min Consts.decodeChunk (s.avail - s.buf.length)))
  else if s.avail < s.total then some .fail else none

theorem decoderNext_cases (s : SV) (a : SVAct) (h : decoderNext s = some a) :
    s.failedFlag = false ∧
    ((a = .publish ∧ s.d < s.buf.length) ∨
     (a = .write (min Consts.decodeChunk (s.avail - s.buf.length)) ∧ ¬ s.d < s.buf.length ∧
        s.buf.length < s.avail) ∨
     (a = .fail ∧ ¬ s.d < s.buf.length ∧ ¬ s.buf.length < s.avail ∧ s.avail < s.total)) := by
  unfold decoderNext at h
  split at h
  · simp at h
  · rename_i hff
    refine ⟨by simpa using hff, ?_⟩
    split at h
    · rename_i h1; simp at h; exact Or.inl ⟨h.symm, h1⟩
    · rename_i h1
      split at h
      · rename_i h2; simp at h; exact Or.inr (Or.inl ⟨h.symm, h1, h2⟩)
      · rename_i h2
        split at h
        · rename_i h3; simp at h; exact Or.inr (Or.inr ⟨h.symm, h1, h2, h3⟩)
        · simp at h

theorem decoderNext_is_decoder (s : SV) (a : SVAct) (h : decoderNext s = some a) :
    a = .publish ∨ a = .fail ∨ ∃ n, a = .write n := by
  rcases (decoderNext_cases s a h).2 with ⟨rfl, _⟩ | ⟨rfl, _⟩ | ⟨rfl, _⟩
  · exact Or.inl rfl
  · exact Or.inr (Or.inr ⟨_, rfl⟩)
  · exact Or.inr (Or.inl rfl)

theorem decoderNext_enabled (s : SV) (hi : s.Inv) (a : SVAct) (h : decoderNext s = some a) :
    ∃ s', s.step a = some s' := by
  obtain ⟨h1, h2, h3, h4, -⟩ := hi
  obtain ⟨hff, hc⟩ := decoderNext_cases s a h
  have hk : Consts.decodeChunk = 4096 := rfl
  rcases hc with ⟨rfl, c1⟩ | ⟨rfl, c1, c2⟩ | ⟨rfl, c1, c2, c3⟩ <;> simp only [SV.step]
  · exact ⟨_, if_pos ⟨c1, by simp [hff]⟩⟩
  · exact ⟨_, if_pos ⟨by omega, by omega, by omega, by simp [hff], by omega, by omega⟩⟩
  · exact ⟨_, if_pos ⟨by omega, by omega, c3, by simp [hff]⟩⟩

theorem decoderMeasure_failed (s : SV) (h : s.failedFlag = true) : s.decoderMeasure = 0 := by
  simp [SV.decoderMeasure, h]

theorem decoderMeasure_alive (s : SV) (h : s.failedFlag = false) :
    s.decoderMeasure = 2 * (s.avail - s.buf.length) + (if s.d < s.buf.length then 1 else 0) +
      (if s.avail < s.total then 1 else 0) := by
  simp [SV.decoderMeasure, h]

theorem decoderNext_measure (s s' : SV) (hi : s.Inv) (a : SVAct) (h : decoderNext s = some a)
    (hs : s.step a = some s') : s'.decoderMeasure < s.decoderMeasure := by
  obtain ⟨h1, h2, h3, h4, -⟩ := hi
  obtain ⟨hff, hc⟩ := decoderNext_cases s a h
  have hk : Consts.decodeChunk = 4096 := rfl
  rw [decoderMeasure_alive s hff]
  rcases hc with ⟨rfl, c1⟩ | ⟨rfl, c1, c2⟩ | ⟨rfl, c1, c2, c3⟩ <;>
    simp only [SV.step, Option.ite_none_right_eq_some, Option.some.injEq] at hs <;>
    obtain ⟨hc, rfl⟩ := hs
  · rw [decoderMeasure_alive { s with d := s.buf.length } hff]
    show 2 * (s.avail - s.buf.length) + (if s.buf.length < s.buf.length then 1 else 0) +
      (if s.avail < s.total then 1 else 0) < _
    rw [if_pos c1, if_neg (Nat.lt_irrefl _)]
    omega
  · obtain ⟨g1, g2, g3, g4, g5, g6⟩ := hc
    have hlen : (s.buf ++ slice s.data s.buf.length
        (min Consts.decodeChunk (s.avail - s.buf.length))).length
        = s.buf.length + min Consts.decodeChunk (s.avail - s.buf.length) := by
      rw [List.length_append, slice_length _ _ _ g6]
    rw [decoderMeasure_alive { s with buf := (s.buf ++ slice s.data s.buf.length
        (min Consts.decodeChunk (s.avail - s.buf.length))) } hff]
    show 2 * (s.avail - (s.buf ++ slice s.data s.buf.length
        (min Consts.decodeChunk (s.avail - s.buf.length))).length) +
      (if s.d < (s.buf ++ slice s.data s.buf.length
        (min Consts.decodeChunk (s.avail - s.buf.length))).length then 1 else 0) +
      (if s.avail < s.total then 1 else 0) < _
    rw [hlen, if_neg c1]
    have : (if s.d < s.buf.length + min Consts.decodeChunk (s.avail - s.buf.length) then 1 else 0)
        ≤ 1 := by split <;> omega
    omega
  · rw [decoderMeasure_failed _ rfl, if_pos c3]
    omega

theorem decoder_done (s : SV) (hi : s.Inv) (h : decoderNext s = none) :
    s.failedFlag = true ∨ s.d = s.total := by
  obtain ⟨h1, h2, h3, h4, -⟩ := hi
  unfold decoderNext at h
  split at h
  · rename_i hff; exact Or.inl hff
  · split at h
    · simp at h
    · split at h
      · simp at h
      · split at h
        · simp at h
        · right; omega

theorem wake_enabled_when_done (s : SV) (hi : s.Inv) (hd : s.failedFlag = true ∨ s.d = s.total)
    (r off end_ : Nat) (hr : s.readers[r]? = some (RPhase.waiting off end_)) :
    ∃ s', s.step (.wake r) = some s' := by
  have h8 := hi.2.2.2.2.2.2.2.1 r off end_ hr
  simp only [SV.step, hr]
  by_cases hc : s.d ≥ end_
  · exact ⟨_, if_pos hc⟩
  · rw [if_neg hc]
    rcases hd with hff | hd
    · exact ⟨_, if_pos hff⟩
    · omega

theorem slice_enabled (s : SV) (r off end_ : Nat)
    (hr : s.readers[r]? = some (RPhase.woke off end_)) : ∃ s', s.step (.slice r) = some s' := by
  simp only [SV.step, hr]
  exact ⟨_, rfl⟩

/-- the decoder's actions do not touch the readers -/
theorem decoder_step_readers (s s' : SV) (a : SVAct)
    (ha : a = .publish ∨ a = .fail ∨ ∃ n, a = .write n) (h : s.step a = some s') :
    s'.readers = s.readers := by
  rcases ha with rfl | rfl | ⟨n, rfl⟩ <;>
    simp only [SV.step, Option.ite_none_right_eq_some, Option.some.injEq] at h <;>
    obtain ⟨_, rfl⟩ := h <;> rfl

/-- no reader waits forever: from any state satisfying the invariant, at most `decoderMeasure`
    decoder actions (which are all enabled, whatever the other threads do in between does not
    matter for them) lead to a state where the waiting reader can be woken -/
theorem sv_progress (s : SV) (hi : s.Inv) (r off end_ : Nat)
    (hr : s.readers[r]? = some (RPhase.waiting off end_)) :
    ∃ (as : List SVAct) (s' : SV), s.run as = some s' ∧ as.length ≤ s.decoderMeasure ∧
      (∀ a ∈ as, a = .publish ∨ a = .fail ∨ ∃ n, a = .write n) ∧
      s'.readers[r]? = some (RPhase.waiting off end_) ∧ ∃ s'', s'.step (.wake r) = some s'' := by
  generalize hm : s.decoderMeasure = m
  induction m using Nat.strongRecOn generalizing s with
  | _ m ih =>
    cases hn : decoderNext s with
    | none =>
      exact ⟨[], s, rfl, by simp, by simp, hr,
        wake_enabled_when_done s hi (decoder_done s hi hn) r off end_ hr⟩
    | some a =>
      obtain ⟨s1, hs1⟩ := decoderNext_enabled s hi a hn
      have hlt := decoderNext_measure s s1 hi a hn hs1
      have hdec := decoderNext_is_decoder s a hn
      have hi1 := sv_inv_step_decoder s s1 a hi hdec hs1
      have hr1 : s1.readers[r]? = some (RPhase.waiting off end_) := by
        rw [decoder_step_readers s s1 a hdec hs1]; exact hr
      obtain ⟨as, s', hrun, hlen, hall, hr', hw⟩ :=
        ih s1.decoderMeasure (by omega) s1 hi1 hr1 rfl
      refine ⟨a :: as, s', ?_, ?_, ?_, hr', hw⟩
      · simp [SV.run, hs1, hrun]
      · simp only [List.length_cons]; omega
      · intro x hx
        rcases List.mem_cons.1 hx with rfl | hx
        · exact hdec
        · exact hall x hx

/-! ## LRU cache handles -/

theorem lru_get_fresh_or_same (c : LruCache) (idx : Nat) :
    ((c.get idx).1 = c.nextHandle ∧ (c.get idx).2.nextHandle = c.nextHandle + 1 ∧
        c.entries.find? (fun e => e.1 == idx) = none) ∨
    (∃ e, c.entries.find? (fun e => e.1 == idx) = some e ∧ (c.get idx).1 = e.2 ∧
        (c.get idx).2.nextHandle = c.nextHandle) := by
  unfold LruCache.get
  cases h : c.entries.find? (fun e => e.1 == idx) with
  | none => left; simp
  | some e => right; exact ⟨e, rfl, rfl, rfl⟩

theorem lru_size (c : LruCache) (idx : Nat) (hc : c.entries.length ≤ c.cap) (_hpos : 0 < c.cap) :
    (c.get idx).2.entries.length ≤ c.cap := by
  unfold LruCache.get
  cases h : c.entries.find? (fun e => e.1 == idx) with
  | none => simp [List.length_take]; omega
  | some e =>
    have hmem := List.mem_of_find?_eq_some h
    have hp := List.find?_some h
    have hlt : (c.entries.filter (fun x => x.1 != idx)).length < c.entries.length :=
      List.length_filter_lt_length_iff_exists.2 ⟨e, hmem, by simpa using hp⟩
    simp only [List.length_cons]
    omega

def LruInv (c : LruCache) : Prop :=
  (∀ e ∈ c.entries, e.2 < c.nextHandle) ∧ (c.entries.map (·.2)).Nodup ∧
    (c.entries.map (·.1)).Nodup

theorem nodup_map_inj {α β : Type} (f : α → β) (l : List α) (h : (l.map f).Nodup) (x y : α)
    (hx : x ∈ l) (hy : y ∈ l) (hxy : f x = f y) : x = y := by
  induction l with
  | nil => cases hx
  | cons a l ih =>
    simp only [List.map_cons, List.nodup_cons, List.mem_map, not_exists, not_and] at h
    rcases List.mem_cons.1 hx with rfl | hx' <;> rcases List.mem_cons.1 hy with rfl | hy'
    · rfl
    · exact absurd hxy.symm (h.1 y hy')
    · exact absurd hxy (h.1 x hx')
    · exact ih h.2 hx' hy'

theorem lru_inv_get (c : LruCache) (idx : Nat) (h : LruInv c) : LruInv (c.get idx).2 := by
  obtain ⟨hlt, hn2, hn1⟩ := h
  unfold LruCache.get
  cases hf : c.entries.find? (fun e => e.1 == idx) with
  | none =>
    have hnone := List.find?_eq_none.1 hf
    have hsub := List.take_sublist c.cap ((idx, c.nextHandle) :: c.entries)
    refine ⟨?_, ?_, ?_⟩
    · intro e he
      have := List.mem_of_mem_take he
      rcases List.mem_cons.1 this with rfl | he'
      · exact Nat.lt_succ_self _
      · exact Nat.lt_succ_of_lt (hlt e he')
    · refine List.Nodup.sublist (hsub.map (·.2)) ?_
      simp only [List.map_cons, List.nodup_cons]
      refine ⟨?_, hn2⟩
      intro hmem
      obtain ⟨e, he, heq⟩ := List.mem_map.1 hmem
      have := hlt e he
      omega
    · refine List.Nodup.sublist (hsub.map (·.1)) ?_
      simp only [List.map_cons, List.nodup_cons]
      refine ⟨?_, hn1⟩
      intro hmem
      obtain ⟨e, he, heq⟩ := List.mem_map.1 hmem
      have := hnone e he
      simp [heq] at this
  | some e0 =>
    have hmem := List.mem_of_find?_eq_some hf
    have hp : e0.1 = idx := by simpa using List.find?_some hf
    have hsub : (c.entries.filter (fun x => x.1 != idx)).Sublist c.entries := List.filter_sublist
    refine ⟨?_, ?_, ?_⟩
    · intro e he
      rcases List.mem_cons.1 he with rfl | he'
      · exact hlt _ hmem
      · exact hlt e (List.mem_filter.1 he').1
    · simp only [List.map_cons, List.nodup_cons]
      refine ⟨?_, List.Nodup.sublist (hsub.map (·.2)) hn2⟩
      intro hm
      obtain ⟨e, he, heq⟩ := List.mem_map.1 hm
      have he' := List.mem_filter.1 he
      have := nodup_map_inj (·.2) c.entries hn2 e e0 he'.1 hmem heq
      subst this
      simp [hp] at he'
    · simp only [List.map_cons, List.nodup_cons]
      refine ⟨?_, List.Nodup.sublist (hsub.map (·.1)) hn1⟩
      intro hm
      obtain ⟨e, he, heq⟩ := List.mem_map.1 hm
      have he' := List.mem_filter.1 he
      simp [heq, hp] at he'

/-- a handle is never given to two different clusters -/
theorem lru_handle_unique (c : LruCache) (h : LruInv c) (e1 e2 : Nat × Nat)
    (h1 : e1 ∈ c.entries) (h2 : e2 ∈ c.entries) (hh : e1.2 = e2.2) : e1 = e2 :=
  nodup_map_inj (·.2) c.entries h.2.1 e1 e2 h1 h2 hh

-- NOT PROVED: nothing left out.  Deviations from the requested statements:
--  * `sv_inv_step`, `sv_inv_run` take `hi : s.Inv'` (the given `SV.Inv` is not inductive, see
--    `sv_inv_not_inductive`); they conclude `s'.Inv`; `sv_inv_step'`, `sv_inv_run'` conclude `s'.Inv'`.
--  * `sv_write_preserves_prefix` additionally states `s'.d = s.d`.
--  * all progress theorems are stated with the original `SV.Inv` (the decoder's actions preserve it:
--    `sv_inv_step_decoder`).

end Jubako
