/- Lemmas on the manifest check mask (`maskFrom`, `manifestMask`), the streaming reader model
   (`checkStreamRead`, `checkStreamDrain`) and `splice`. -/
import JubakoModel.Model.Pack
import JubakoModel.Lemmas.Slice

namespace Jubako

-- `omega` certificates with the coefficient 256 over `Nat` need a deeper elaborator recursion than
-- the default (e.g. `k < n → p < k * 256 + 256 → p < n * 256` fails at the default depth).
set_option maxRecDepth 8000

/-! ### 1. constants -/

theorem packInfoBlockSize_eq : packInfoBlockSize = 256 := by decide

theorem packInfoToCheck_eq : Consts.packInfoToCheck = 38 := rfl

/-! ### 2–6. `maskFrom` -/

theorem maskFrom_nil (po n p : Nat) : maskFrom po n p [] = [] := by
  simp [maskFrom]

theorem maskFrom_cons (po n p : Nat) (b : UInt8) (bs : Bytes) :
    maskFrom po n p (b :: bs) =
      (if maskedPos po n p then 0 else b) :: maskFrom po n (p + 1) bs := by
  simp [maskFrom, List.zipIdx_cons]

theorem maskFrom_length (po n p : Nat) (bs : Bytes) : (maskFrom po n p bs).length = bs.length := by
  simp [maskFrom]

theorem maskFrom_append (po n p : Nat) (a b : Bytes) :
    maskFrom po n p (a ++ b) = maskFrom po n p a ++ maskFrom po n (p + a.length) b := by
  induction a generalizing p with
  | nil => simp [maskFrom_nil]
  | cons x xs ih =>
    simp only [List.cons_append, maskFrom_cons, ih, List.length_cons]
    have : p + 1 + xs.length = p + (xs.length + 1) := by omega
    rw [this]

theorem maskFrom_getElem? (po n p : Nat) (bs : Bytes) (i : Nat) :
    (maskFrom po n p bs)[i]? = bs[i]?.map (fun b => if maskedPos po n (p + i) then 0 else b) := by
  induction bs generalizing p i with
  | nil => simp [maskFrom_nil]
  | cons x xs ih =>
    rw [maskFrom_cons]
    cases i with
    | zero => simp
    | succ j =>
      simp only [List.getElem?_cons_succ, ih]
      have : p + 1 + j = p + (j + 1) := by omega
      rw [this]

theorem maskFrom_unmasked (po n p : Nat) (bs : Bytes)
    (h : ∀ i, i < bs.length → maskedPos po n (p + i) = false) : maskFrom po n p bs = bs := by
  induction bs generalizing p with
  | nil => simp [maskFrom_nil]
  | cons x xs ih =>
    rw [maskFrom_cons]
    have h0 : maskedPos po n p = false := by simpa using h 0 (by simp)
    rw [h0, ih]
    · simp
    · intro i hi
      have := h (i + 1) (by simpa using hi)
      rw [← this]; congr 1; omega

theorem maskFrom_masked (po n p : Nat) (bs : Bytes)
    (h : ∀ i, i < bs.length → maskedPos po n (p + i) = true) :
    maskFrom po n p bs = zeros bs.length := by
  induction bs generalizing p with
  | nil => simp [maskFrom_nil, zeros]
  | cons x xs ih =>
    rw [maskFrom_cons]
    have h0 : maskedPos po n p = true := by simpa using h 0 (by simp)
    rw [h0, ih]
    · simp [zeros, List.replicate_succ]
    · intro i hi
      have := h (i + 1) (by simpa using hi)
      rw [← this]; congr 1; omega

/-! ### 7. exactness of the exempt set -/

theorem maskedPos_iff (po n p : Nat) :
    maskedPos po n p = true ↔ ∃ k, k < n ∧ po + k * 256 + 38 ≤ p ∧ p < po + (k + 1) * 256 := by
  simp only [maskedPos, packInfoBlockSize_eq, packInfoToCheck_eq, Bool.and_eq_true,
    decide_eq_true_eq]
  constructor
  · rintro ⟨⟨h1, h2⟩, h3⟩
    refine ⟨(p - po) / 256, ?_, ?_, ?_⟩ <;> omega
  · rintro ⟨k, hk, h1, h2⟩
    refine ⟨⟨?_, ?_⟩, ?_⟩ <;> omega

theorem maskedPos_eq_false_iff (po n p : Nat) :
    maskedPos po n p = false ↔
      (p < po ∨ po + n * 256 ≤ p ∨ (p - po) % 256 < 38) := by
  simp only [maskedPos, packInfoBlockSize_eq, packInfoToCheck_eq, Bool.and_eq_false_iff,
    decide_eq_false_iff_not]
  omega

theorem maskedPos_eq_true_iff (po n p : Nat) :
    maskedPos po n p = true ↔
      (po ≤ p ∧ p < po + n * 256 ∧ 38 ≤ (p - po) % 256) := by
  simp only [maskedPos, packInfoBlockSize_eq, packInfoToCheck_eq, Bool.and_eq_true,
    decide_eq_true_eq]
  omega

/-! ### 8. one `read` call -/

theorem checkStreamRead_spec (po n pos : Nat) (src : Bytes) (req : Nat) :
    (checkStreamRead po n pos src req).1 =
        maskFrom po n pos (src.take (checkStreamRead po n pos src req).1.length) ∧
    (checkStreamRead po n pos src req).2 = src.drop (checkStreamRead po n pos src req).1.length ∧
    (checkStreamRead po n pos src req).1.length ≤ req ∧
    (0 < req → src ≠ [] → 0 < (checkStreamRead po n pos src req).1.length) := by
  have hne : src ≠ [] → 0 < src.length := fun h => List.length_pos_iff.mpr h
  have htake : ∀ k, List.take (min k src.length) src = List.take k src := by
    intro k
    rcases Nat.le_total k src.length with h | h
    · rw [Nat.min_eq_left h]
    · rw [Nat.min_eq_right h, List.take_length, List.take_of_length_le h]
  have hdrop : ∀ k, List.drop (min k src.length) src = List.drop k src := by
    intro k
    rcases Nat.le_total k src.length with h | h
    · rw [Nat.min_eq_left h]
    · rw [Nat.min_eq_right h, List.drop_length, List.drop_of_length_le h]
  unfold checkStreamRead
  simp only [packInfoBlockSize_eq, packInfoToCheck_eq]
  split
  · -- before the pack infos
    rename_i h1
    simp only [List.length_take, htake, hdrop]
    refine ⟨?_, trivial, by omega, by intro a b; have := hne b; omega⟩
    rw [maskFrom_unmasked]
    intro i hi
    rw [maskedPos_eq_false_iff]
    simp only [List.length_take] at hi
    omega
  · split
    · -- after the pack infos
      rename_i h1 h2
      simp only [List.length_take, htake, hdrop]
      refine ⟨?_, trivial, by omega, by intro a b; have := hne b; omega⟩
      rw [maskFrom_unmasked]
      intro i hi
      rw [maskedPos_eq_false_iff]
      omega
    · split
      · -- checked part of a pack info
        rename_i h1 h2 h3
        simp only [List.length_take, htake, hdrop]
        refine ⟨?_, trivial, by omega, by intro a b; have := hne b; omega⟩
        rw [maskFrom_unmasked]
        intro i hi
        rw [maskedPos_eq_false_iff]
        simp only [List.length_take] at hi
        omega
      · -- exempt part of a pack info
        rename_i h1 h2 h3
        simp only [zeros, List.length_replicate, List.length_take, htake, hdrop]
        refine ⟨?_, trivial, by omega, by intro a b; have := hne b; omega⟩
        rw [maskFrom_masked]
        · simp only [zeros, List.length_take]
        · intro i hi
          rw [maskedPos_eq_true_iff]
          simp only [List.length_take] at hi
          omega

/-- a delivered chunk is never longer than the remaining source -/
theorem checkStreamRead_length_le (po n pos : Nat) (src : Bytes) (req : Nat) :
    (checkStreamRead po n pos src req).1.length ≤ src.length := by
  have h := (checkStreamRead_spec po n pos src req).1
  have h2 := congrArg List.length h
  rw [maskFrom_length, List.length_take] at h2
  omega

/-! ### 9–10. arbitrary chunkings -/

theorem checkStreamDrain_nil (po n pos : Nat) (src : Bytes) :
    checkStreamDrain po n pos src [] = [] := by
  simp [checkStreamDrain]

theorem checkStreamDrain_cons (po n pos : Nat) (src : Bytes) (req : Nat) (rest : List Nat) :
    checkStreamDrain po n pos src (req :: rest) =
      (checkStreamRead po n pos src req).1 ++
        checkStreamDrain po n (pos + (checkStreamRead po n pos src req).1.length)
          (checkStreamRead po n pos src req).2 rest := by
  simp [checkStreamDrain]

theorem checkStreamDrain_spec (po n pos : Nat) (src : Bytes) (reqs : List Nat) :
    checkStreamDrain po n pos src reqs =
      maskFrom po n pos (src.take (checkStreamDrain po n pos src reqs).length) := by
  induction reqs generalizing pos src with
  | nil => simp [checkStreamDrain_nil, maskFrom_nil]
  | cons req rest ih =>
    rw [checkStreamDrain_cons]
    obtain ⟨h1, h2, -, -⟩ := checkStreamRead_spec po n pos src req
    have hle := checkStreamRead_length_le po n pos src req
    generalize (checkStreamRead po n pos src req).1 = got at h1 h2 hle
    generalize (checkStreamRead po n pos src req).2 = src' at h2
    subst h2
    have ih' := ih (pos + got.length) (List.drop got.length src)
    generalize checkStreamDrain po n (pos + got.length) (List.drop got.length src) rest = d at ih'
    rw [List.length_append, List.take_add, maskFrom_append, ← h1, List.length_take,
      Nat.min_eq_left hle, ← ih']

theorem checkStreamDrain_length_le (po n pos : Nat) (src : Bytes) (reqs : List Nat) :
    (checkStreamDrain po n pos src reqs).length ≤ src.length := by
  have h2 := congrArg List.length (checkStreamDrain_spec po n pos src reqs)
  rw [maskFrom_length, List.length_take] at h2
  omega

theorem checkStreamDrain_all (po n : Nat) (src : Bytes) (reqs : List Nat)
    (h : (checkStreamDrain po n 0 src reqs).length = src.length) :
    checkStreamDrain po n 0 src reqs = manifestMask po n src := by
  rw [checkStreamDrain_spec, h, List.take_length, manifestMask]

/-! ### 11. `splice` -/

theorem splice_length (f : Bytes) (off : Nat) (new : Bytes) (h : off + new.length ≤ f.length) :
    (splice f off new).length = f.length := by
  simp only [splice, List.length_append, List.length_take, List.length_drop]
  omega

theorem splice_getElem? (f new : Bytes) (off i : Nat) (h : off + new.length ≤ f.length) :
    (splice f off new)[i]? =
      if i < off then f[i]? else if i < off + new.length then new[i - off]? else f[i]? := by
  have hoff : min off f.length = off := Nat.min_eq_left (by omega)
  simp only [splice, List.getElem?_append, List.length_append, List.length_take, hoff,
    List.getElem?_take, List.getElem?_drop]
  by_cases h1 : i < off
  · have h2 : i < off + new.length := by omega
    simp [h1, h2]
  · by_cases h2 : i < off + new.length
    · simp [h1, h2]
    · simp only [h1, h2, if_false]
      congr 1
      omega

theorem splice_getElem?_outside (f new : Bytes) (off i : Nat) (h : off + new.length ≤ f.length)
    (hi : i < off ∨ off + new.length ≤ i) : (splice f off new)[i]? = f[i]? := by
  rw [splice_getElem? f new off i h]
  by_cases h1 : i < off
  · simp [h1]
  · have h2 : ¬ i < off + new.length := by omega
    simp [h1, h2]

theorem splice_getElem?_inside (f new : Bytes) (off i : Nat) (h : off + new.length ≤ f.length)
    (hi : i < new.length) : (splice f off new)[off + i]? = new[i]? := by
  rw [splice_getElem? f new off (off + i) h]
  have h1 : ¬ off + i < off := by omega
  have h2 : off + i < off + new.length := by omega
  simp [h1, h2]

theorem slice_getElem? (bs : Bytes) (a len i : Nat) :
    (slice bs a len)[i]? = if i < len then bs[a + i]? else none := by
  simp [slice, List.getElem?_take, List.getElem?_drop]

theorem slice_splice_same (f new : Bytes) (off : Nat) (h : off + new.length ≤ f.length) :
    slice (splice f off new) off new.length = new := by
  apply List.ext_getElem?
  intro i
  rw [slice_getElem?]
  by_cases hi : i < new.length
  · simp only [hi, if_true]
    exact splice_getElem?_inside f new off i h hi
  · simp only [hi, if_false]
    exact (List.getElem?_eq_none (by omega)).symm

theorem slice_splice_disjoint (f new : Bytes) (off a len : Nat) (h : off + new.length ≤ f.length)
    (hd : a + len ≤ off ∨ off + new.length ≤ a) :
    slice (splice f off new) a len = slice f a len := by
  apply List.ext_getElem?
  intro i
  rw [slice_getElem?, slice_getElem?]
  by_cases hi : i < len
  · simp only [hi, if_true]
    exact splice_getElem?_outside f new off (a + i) h (by omega)
  · simp only [hi, if_false]

/-! ### 12. the mask does not see a rewrite of the location / CRC part of a pack info -/

theorem manifestMask_splice (po n k : Nat) (f new : Bytes) (hk : k < n) (hlen : new.length = 256)
    (hin : po + k * 256 + 256 ≤ f.length)
    (hsame : new.take 38 = (slice f (po + k * 256) 256).take 38) :
    manifestMask po n (splice f (po + k * 256) new) = manifestMask po n f := by
  have h : po + k * 256 + new.length ≤ f.length := by omega
  apply List.ext_getElem?
  intro i
  simp only [manifestMask, maskFrom_getElem?, Nat.zero_add]
  by_cases hout : i < po + k * 256 ∨ po + k * 256 + new.length ≤ i
  · rw [splice_getElem?_outside f new _ i h hout]
  · obtain ⟨j, rfl⟩ : ∃ j, i = po + k * 256 + j := ⟨i - (po + k * 256), by omega⟩
    have hj : j < new.length := by omega
    rw [splice_getElem?_inside f new _ j h hj]
    by_cases hj38 : j < 38
    · -- checked part: the bytes are unchanged
      have e := congrArg (fun l => l[j]?) hsame
      simp only [List.getElem?_take, hj38, if_true, slice_getElem?] at e
      have hj256 : j < 256 := by omega
      simp only [hj256, if_true] at e
      rw [e]
    · -- exempt part: both sides read as zero
      have hm : maskedPos po n (po + k * 256 + j) = true := by
        rw [maskedPos_eq_true_iff]
        omega
      have h1 : j < new.length := hj
      have h2 : po + k * 256 + j < f.length := by omega
      rw [List.getElem?_eq_getElem h1, List.getElem?_eq_getElem h2]
      simp [hm]

end Jubako
