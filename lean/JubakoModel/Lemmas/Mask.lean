/- Lemmas on the manifest check mask (`maskFrom`, `manifestMask`), the streaming reader model
   (`checkStreamRead`, `checkStreamDrain`) and `splice`. -/
import JubakoModel.Model.Pack
import JubakoModel.Lemmas.Slice

namespace Jubako

/-! ### 1. constants -/

theorem packInfoBlockSize_eq : packInfoBlockSize = 256 := by decide

theorem packInfoToCheck_eq : Consts.packInfoToCheck = 38 := rfl

/-! ### 2–6. `maskFrom` -/

theorem maskFrom_nil (po n p : Nat) : maskFrom po n p [] = [] := by
  simp [maskFrom]

theorem maskFrom_cons (po n p : Nat) (b : UInt8) (bs : Bytes) :
    maskFrom po n p (b :: bs) =
      (if maskedPos po n p then 0 else b) :: maskFrom po n (p + 1) bs := by
  simp [maskFrom, List.zipIdx_cons]

theorem maskFrom_length (po n p : Nat) (bs : Bytes) : (maskFrom po n p bs).length = bs.length := by
  simp [maskFrom]

theorem maskFrom_append (po n p : Nat) (a b : Bytes) :
    maskFrom po n p (a ++ b) = maskFrom po n p a ++ maskFrom po n (p + a.length) b := by
  induction a generalizing p with
  | nil => simp [maskFrom_nil]
  | cons x xs ih =>
    simp only [List.cons_append, maskFrom_cons, ih, List.length_cons]
    have : p + 1 + xs.length = p + (xs.length + 1) := by omega
    rw [this]

theorem maskFrom_getElem? (po n p : Nat) (bs : Bytes) (i : Nat) :
    (maskFrom po n p bs)[i]? = bs[i]?.map (fun b => if maskedPos po n (p + i) then 0 else b) := by
  induction bs generalizing p i with
  | nil => simp [maskFrom_nil]
  | cons x xs ih =>
    rw [maskFrom_cons]
    cases i with
    | zero => simp
    | succ j =>
      simp only [List.getElem?_cons_succ, ih]
      have : p + 1 + j = p + (j + 1) := by omega
      rw [this]

theorem maskFrom_unmasked (po n p : Nat) (bs : Bytes)
    (h : ∀ i, i < bs.length → maskedPos po n (p + i) = false) : maskFrom po n p bs = bs := by
  induction bs generalizing p with
  | nil => simp [maskFrom_nil]
  | cons x xs ih =>
    rw [maskFrom_cons]
    have h0 : maskedPos po n p = false := by simpa using h 0 (by simp)
    rw [h0, ih]
    · simp
    · intro i hi
      have := h (i + 1) (by simpa using hi)
      rw [← this]; congr 1; omega

theorem maskFrom_masked (po n p : Nat) (bs : Bytes)
    (h : ∀ i, i < bs.length → maskedPos po n (p + i) = true) :
    maskFrom po n p bs = zeros bs.length := by
  induction bs generalizing p with
  | nil => simp [maskFrom_nil, zeros]
  | cons x xs ih =>
    rw [maskFrom_cons]
    have h0 : maskedPos po n p = true := by simpa using h 0 (by simp)
    rw [h0, ih]
    · simp [zeros, List.replicate_succ]
    · intro i hi
      have := h (i + 1) (by simpa using hi)
      rw [← this]; congr 1; omega

/-! ### 7. exactness of the exempt set -/

theorem maskedPos_iff (po n p : Nat) :
    maskedPos po n p = true ↔ ∃ k, k < n ∧ po + k * 256 + 38 ≤ p ∧ p < po + (k + 1) * 256 := by
  simp only [maskedPos, packInfoBlockSize_eq, packInfoToCheck_eq, Bool.and_eq_true,
    decide_eq_true_eq]
  constructor
  · rintro ⟨⟨h1, h2⟩, h3⟩
    refine ⟨(p - po) / 256, ?_, ?_, ?_⟩ <;> omega
  · rintro ⟨k, hk, h1, h2⟩
    refine ⟨⟨?_, ?_⟩, ?_⟩ <;> omega

theorem maskedPos_eq_false_iff (po n p : Nat) :
    maskedPos po n p = false ↔
      (p < po ∨ po + n * 256 ≤ p ∨ (p - po) % 256 < 38) := by
  simp only [maskedPos, packInfoBlockSize_eq, packInfoToCheck_eq, Bool.and_eq_false_iff,
    decide_eq_false_iff_not]
  omega

theorem maskedPos_eq_true_iff (po n p : Nat) :
    maskedPos po n p = true ↔
      (po ≤ p ∧ p < po + n * 256 ∧ 38 ≤ (p - po) % 256) := by
  simp only [maskedPos, packInfoBlockSize_eq, packInfoToCheck_eq, Bool.and_eq_true,
    decide_eq_true_eq]
  omega

end Jubako
