/-
The hand-written model functions are equal to the function bodies that tools/extract_funcs.py
translates out of the Rust source on every run (Generated/FuncsBytes.lean).  Each theorem here is an
obligation of the properties that use the model function: a change of the Rust body changes the
generated definition and breaks the proof.
-/
import JubakoModel.Model.Bytes
import JubakoModel.Generated.FuncsBytes
import JubakoModel.Lemmas.Codec

namespace Jubako

/-! ### `needed_bytes` -/

theorem gen_neededBytes_loop (fuel v nb : Nat) (h : v < fuel) :
    Generated.neededBytes_loop v nb fuel = some (max (nb + digits256 fuel v) 1) := by
  induction fuel generalizing v nb with
  | zero => omega
  | succ f ih =>
    unfold Generated.neededBytes_loop
    by_cases hv : v > 0
    · have h8 : v >>> 8 = v / 256 := by simp [Nat.shiftRight_eq_div_pow]
      have hlt : v / 256 < f := by
        have : v / 256 < v := Nat.div_lt_self hv (by decide)
        omega
      simp only [hv, if_true, h8]
      rw [ih (v / 256) (nb + 1) hlt]
      have hd : digits256 (f + 1) v = 1 + digits256 f (v / 256) := by
        simp [digits256, Nat.ne_of_gt hv]
      rw [hd]; congr 2; omega
    · have hv0 : v = 0 := by omega
      subst hv0
      simp [digits256]

/-- **`needed_bytes` terminates on every input and computes the model's `neededBytes`.** -/
theorem gen_neededBytes (v : Nat) : Generated.neededBytes v = some (neededBytes v) := by
  unfold Generated.neededBytes
  rw [gen_neededBytes_loop (v + 1) v 0 (by omega)]
  simp [neededBytes, Nat.max_comm]

/-! ### `SizedOffset`, `ContentInfo` bit packing -/

theorem gen_sizedOffsetPack (offset size : Nat) :
    sizedOffsetEncode offset size = leBytes (Generated.sizedOffsetPack offset size % 2 ^ 64) 8 := by
  simp [sizedOffsetEncode, Generated.sizedOffsetPack, Nat.shiftLeft_eq, Nat.and_two_pow_sub_one_eq_mod size 16]

theorem gen_sizedOffsetUnpack (bs : Bytes) :
    sizedOffsetDecode bs = ((Generated.sizedOffsetUnpack (leNat bs)).2, (Generated.sizedOffsetUnpack (leNat bs)).1) := by
  simp [sizedOffsetDecode, Generated.sizedOffsetUnpack, Nat.shiftRight_eq_div_pow,
    Nat.and_two_pow_sub_one_eq_mod (leNat bs) 16]

theorem gen_contentInfoPack (cluster blob : Nat) :
    contentInfoEncode cluster blob = leBytes (Generated.contentInfoPack cluster blob % 2 ^ 32) 4 := by
  simp [contentInfoEncode, Generated.contentInfoPack, Nat.shiftLeft_eq, Nat.and_two_pow_sub_one_eq_mod blob 12]

theorem gen_contentInfoUnpack (bs : Bytes) :
    contentInfoDecode bs = Generated.contentInfoUnpack (leNat bs) := by
  have h : leNat bs % 4096 % 65536 = leNat bs % 4096 :=
    Nat.mod_eq_of_lt (Nat.lt_of_lt_of_le (Nat.mod_lt _ (by decide)) (by decide))
  simp [contentInfoDecode, Generated.contentInfoUnpack, Nat.shiftRight_eq_div_pow,
    Nat.and_two_pow_sub_one_eq_mod (leNat bs) 12, h]

/-! ### sequences of serializer writes -/

/-- the bytes produced by a sequence of `write_usized(value, width)` calls -/
def writesBytes (ws : List (Nat × Nat)) : Bytes := (ws.map (fun p => leBytes p.1 p.2)).flatten

theorem leBytes_mod (v n : Nat) : leBytes (v % 256 ^ n) n = leBytes v n := by
  induction n generalizing v with
  | zero => rfl
  | succ k ih =>
    simp only [leBytes]
    have h1 : v % 256 ^ (k + 1) % 256 = v % 256 := by
      rw [Nat.pow_succ, Nat.mul_comm]
      exact Nat.mod_mul_right_mod v 256 (256 ^ k)
    have h2 : v % 256 ^ (k + 1) / 256 = (v / 256) % 256 ^ k := by
      rw [Nat.pow_succ, Nat.mul_comm, Nat.mod_mul_right_div_self]
    rw [h1, h2, ih]

theorem writesBytes_append (a b : List (Nat × Nat)) : writesBytes (a ++ b) = writesBytes a ++ writesBytes b := by
  simp [writesBytes]

/-! ### index validity -/

/-- `Idx::is_valid(count)` is `idx < count` (the "address past the count" rule of C01/C02 rests on it);
    `Offset::is_valid(size)` is `offset ≤ size`. -/
theorem gen_isValid (i n : Nat) :
    Generated.idxIsValid i n = decide (i < n) ∧ Generated.offsetIsValid i n = decide (i ≤ n) := by
  simp [Generated.idxIsValid, Generated.offsetIsValid]

end Jubako
