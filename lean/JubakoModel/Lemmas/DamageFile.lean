/-
Damaged copies of the files the writer models produce: the file-level round trips
(`contentGet_contentPackWrite`, `dirGetEntry_dirPackWrite`) composed with the damage monotonicity
of the readers (Lemmas/Damage.lean, DamageDir.lean).
-/
import JubakoModel.Lemmas.DamageDir
import JubakoModel.Lemmas.ContentFile

namespace Jubako

/-- the entry store the directory-pack writer produces keeps its entries in one CRC-checked block -/
theorem entryStoreUnchecked_dirPackWrite (H : Bytes → Bytes) (vendor uuid freeData : Bytes) (d : DirIn)
    (hwf : d.WF) (hl : d.Limits H vendor uuid freeData) :
    EntryStoreUnchecked (dirPackWrite H vendor uuid freeData d) 0 := by
  have hns : d.stores.length < 256 := by rw [d.stores_length]; exact hwf.1
  obtain ⟨hopen, -, ht3, -, -, -⟩ := directoryOpen_dirPackWrite H vendor uuid freeData d
    hl.vendorLen hl.uuidLen hl.freeDataLen hns hl.indexCount hl.fileSize
  have heso := entryStoreOpen_dirPackWrite H vendor uuid freeData d hwf hl
  have hlen := dirPackWrite_length H vendor uuid freeData d hl.vendorLen hl.uuidLen hl.freeDataLen
  have hso3 : sizedOffsetDecode (slice d.t3 (8 * 0) 8) = (d.esPos, d.esTail.length) := by
    rw [DirIn.t3, soTable_slice _ 0 (by simp)]
    simp only [List.getD_cons_zero]
    apply sizedOffset_roundtrip
    · have : d.esPos ≤ d.checkPos := by
        simp only [DirIn.checkPos, DirIn.pos3, DirIn.pos2, DirIn.esPos]; omega
      have := hl.fileSize
      omega
    · exact hl.entryTail
  intro p dh et l dd h1 h2 h3
  rw [hopen] at h1
  cases h1
  have hc : (d.dh freeData).entryStoreCount = 1 := rfl
  rw [hc, ht3] at h2
  cases h2
  rw [hso3, heso] at h3
  cases h3
  rfl

/-- **Directory pack, file level, damaged copy**: entry `i` of a damaged copy `g` of a written
    directory pack reads as exactly the entry that was written, or the read fails with an error. -/
theorem dirGetEntry_damaged (H : Bytes → Bytes) (vendor uuid freeData : Bytes) (d : DirIn)
    (hwf : d.WF) (hl : d.Limits H vendor uuid freeData) (g : Bytes)
    (hD : BlocksAgree (dirPackWrite H vendor uuid freeData d) g) (i : Nat) (hi : i < d.entries.length) :
    dirGetEntry g 0 i = .ok (expectedEntry d.schema d.entries[i]) ∨ ∃ k, dirGetEntry g 0 i = .err k := by
  have h := dirGetEntry_follows hD 0 i (entryStoreUnchecked_dirPackWrite H vendor uuid freeData d hwf hl)
    _ (dirGetEntry_dirPackWrite H vendor uuid freeData d hwf hl i hi)
  rcases h with ⟨v', h1, h2⟩ | he
  · subst h2; exact Or.inl h1
  · exact Or.inr he

/-- **Content pack, file level, damaged copy**: content `i` of a damaged copy `g` of a written
    content pack reads as a byte string of exactly the stored length (its bytes are the stored ones
    whenever the cluster payload is untouched — payloads carry no CRC, the pack check covers them),
    or the read fails with an error; whatever the decoder does on a damaged compressed payload. -/
theorem contentGet_damaged (H : Bytes → Bytes) (codec : Codec) (hcodec : codec.Sound)
    (hbyte : codec.byte ≤ 3) (m : ContentPackMeta) (hm : m.WF)
    (items : List Item) (arrival : List Cluster)
    (hp : arrival.Perm ((Creator.init.addAll items).finalize).1)
    (hcomp : codec.byte = 0 → ∀ it ∈ items, it.comp = false)
    (hcount : items.length < 2 ^ 32) (hncl : arrival.length ≤ 2 ^ 20)
    (hdata : totalSize items < 2 ^ 64)
    (hsize : (contentPackWrite H codec m arrival ((Creator.init.addAll items).finalize).2).length < 2 ^ 48)
    (g : Bytes)
    (hD : BlocksAgree (contentPackWrite H codec m arrival ((Creator.init.addAll items).finalize).2) g)
    (i : Nat) (hi : i < items.length) :
    (∃ b, contentGet codec.decompress' g i = .ok (some b) ∧ b.length = (items[i]).data.length) ∨
      ∃ k, contentGet codec.decompress' g i = .err k := by
  have h := contentGet_follows hD codec.decompress' i _
    (contentGet_contentPackWrite H codec hcodec hbyte m hm items arrival hp hcomp hcount hncl hdata hsize i hi)
  rcases h with ⟨v', h1, h2⟩ | he
  · cases v' with
    | none => simp [SameShape] at h2
    | some b =>
      simp only [SameShape, Option.map_some, Option.some.injEq] at h2
      exact Or.inl ⟨b, h1, h2⟩
  · exact Or.inr he

/-- … and an address past the count still answers "no such content", or an error -/
theorem contentGet_damaged_none (H : Bytes → Bytes) (codec : Codec) (m : ContentPackMeta) (hm : m.WF)
    (items : List Item) (arrival : List Cluster)
    (hcount : items.length < 2 ^ 32) (hncl : arrival.length ≤ 2 ^ 20)
    (hsize : (contentPackWrite H codec m arrival ((Creator.init.addAll items).finalize).2).length < 2 ^ 48)
    (g : Bytes)
    (hD : BlocksAgree (contentPackWrite H codec m arrival ((Creator.init.addAll items).finalize).2) g)
    (i : Nat) (hi : items.length ≤ i) :
    contentGet codec.decompress' g i = .ok none ∨ ∃ k, contentGet codec.decompress' g i = .err k := by
  have h := contentGet_follows hD codec.decompress' i _
    (contentGet_contentPackWrite_none H codec m hm items arrival hcount hncl hsize i hi)
  rcases h with ⟨v', h1, h2⟩ | he
  · cases v' with
    | none => exact Or.inl h1
    | some b => simp [SameShape] at h2
  · exact Or.inr he

end Jubako
