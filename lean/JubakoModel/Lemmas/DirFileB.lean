/-
Directory pack, file-level round trip — part B (layer L2): the layout header of an entry store.

`Layout.decode` on the bytes `entryStoreTail` writes returns the written layout: property list
round trip (`rawLayoutDecode`), the variant delimiter logic (`splitVariants`), offsets
(`placeProps`).
-/
import JubakoModel.Lemmas.DirFileA

namespace Jubako

set_option linter.unusedSimpArgs false
set_option linter.unusedVariables false
set_option maxRecDepth 8000

/-! ### 1. the property list -/

theorem rawLayout_go (ps : List RawProp) (rest : Bytes) (acc : List RawProp)
    (hw : ∀ p ∈ ps, p.Writable) :
    rawLayoutDecode.go ps.length ((ps.map RawProp.encode).flatten ++ rest) acc =
      .ok (acc.reverse ++ ps) := by
  induction ps generalizing acc with
  | nil => simp [rawLayoutDecode.go]
  | cons p ps ih =>
    have h1 := rawProp_roundtrip p ((ps.map RawProp.encode).flatten ++ rest)
      (hw p (List.mem_cons_self ..))
    have ih' := ih (p :: acc) (fun q hq => hw q (List.mem_cons_of_mem _ hq))
    simp only [List.length_cons, List.map_cons, List.flatten_cons, List.append_assoc,
      rawLayoutDecode.go, h1, Outcome.ok_bind, ih', List.reverse_cons, List.singleton_append]

/-- **L2, property list**: a count byte followed by the encoded properties parses back.
    `ps.length < 256`: the property count is one byte. -/
theorem rawLayoutDecode_encode (ps : List RawProp) (hw : ∀ p ∈ ps, p.Writable)
    (hl : ps.length < 256) :
    rawLayoutDecode (UInt8.ofNat ps.length :: (ps.map RawProp.encode).flatten) = .ok ps := by
  have := rawLayout_go ps [] [] hw
  simp only [List.append_nil, List.reverse_nil, List.nil_append] at this
  simp only [rawLayoutDecode, toNat_ofNat_u8, Nat.mod_eq_of_lt hl, this]

/-! ### 2. variants -/

/-- the `VariantId` property that opens a variant -/
def vidProp (vn : Bytes) : RawProp := ⟨1, vn, .variantId⟩

/-- raw property lists of variants given as (name, properties after the `VariantId`) -/
def rawVariants (vars : List (Bytes × List RawProp)) : List (List RawProp) :=
  vars.map (fun b => vidProp b.1 :: b.2)

theorem propsSize_nil : propsSize [] = 0 := rfl

theorem propsSize_cons (p : RawProp) (ps : List RawProp) :
    propsSize (p :: ps) = p.size + propsSize ps := by simp [propsSize]

theorem propsSize_append (a b : List RawProp) : propsSize (a ++ b) = propsSize a + propsSize b := by
  simp [propsSize]

theorem propsSize_reverse (a : List RawProp) : propsSize a.reverse = propsSize a := by
  induction a with
  | nil => rfl
  | cons p ps ih => rw [List.reverse_cons, propsSize_append, ih, propsSize_cons, propsSize_cons,
      propsSize_nil]; omega

/-- the properties of a variant are consumed one by one as long as they fit the variant space -/
theorem splitVariants_body (space base : Nat) (body rest : List RawProp) (nm : Bytes)
    (ps : List RawProp) (acc : List (Bytes × List PropAt))
    (hb : ∀ p ∈ body, p.kind ≠ .variantId) (hs : propsSize ps + propsSize body ≤ space) :
    splitVariants space base (body ++ rest) (some (nm, ps)) acc =
      splitVariants space base rest (some (nm, body.reverse ++ ps)) acc := by
  induction body generalizing ps with
  | nil => simp
  | cons p body ih =>
    have hp : isVariantId p = false := by
      simp [isVariantId, hb p (List.mem_cons_self ..)]
    rw [propsSize_cons] at hs
    have hns : ¬ (ps.map (·.size)).sum + p.size > space := by
      have : propsSize ps = (ps.map (·.size)).sum := rfl
      omega
    have ih' := ih (p :: ps) (fun q hq => hb q (List.mem_cons_of_mem _ hq))
      (by rw [propsSize_cons]; omega)
    simp only [List.cons_append, splitVariants, hp, Bool.false_eq_true, if_false, hns, ih',
      List.reverse_cons, List.append_assoc, List.singleton_append, List.nil_append]

/-- what closing the current variant adds to the accumulator -/
def closeCur (base : Nat) (cur : Option (Bytes × List RawProp)) (acc : List (Bytes × List PropAt)) :
    List (Bytes × List PropAt) :=
  match cur with
  | none => acc
  | some (nm, ps) => (nm, placeProps base ps.reverse) :: acc

theorem splitVariants_vars (space base : Nat) (vars : List (Bytes × List RawProp))
    (cur : Option (Bytes × List RawProp)) (acc : List (Bytes × List PropAt))
    (hv : ∀ b ∈ vars, (∀ p ∈ b.2, p.kind ≠ .variantId) ∧ propsSize b.2 = space)
    (hc : ∀ nm ps, cur = some (nm, ps) → propsSize ps = space) :
    splitVariants space base (rawVariants vars).flatten cur acc =
      .ok ((closeCur base cur acc).reverse ++ vars.map (fun b => (b.1, placeProps base b.2))) := by
  induction vars generalizing cur acc with
  | nil =>
    cases cur with
    | none => simp [rawVariants, splitVariants, closeCur]
    | some c =>
      obtain ⟨nm, ps⟩ := c
      have := hc nm ps rfl
      have h' : (ps.map (·.size)).sum = space := this
      simp [rawVariants, splitVariants, closeCur, h']
  | cons b vars ih =>
    obtain ⟨hb1, hb2⟩ := hv b (List.mem_cons_self ..)
    have hv' : ∀ b' ∈ vars, (∀ p ∈ b'.2, p.kind ≠ .variantId) ∧ propsSize b'.2 = space :=
      fun b' hb' => hv b' (List.mem_cons_of_mem _ hb')
    have hstep : splitVariants space base (rawVariants (b :: vars)).flatten cur acc =
        splitVariants space base (b.2 ++ (rawVariants vars).flatten) (some (b.1, []))
          (closeCur base cur acc) := by
      have hvid : isVariantId (vidProp b.1) = true := by simp [isVariantId, vidProp]
      cases cur with
      | none =>
        simp only [rawVariants, List.map_cons, List.flatten_cons, List.cons_append, splitVariants,
          hvid, if_true, closeCur]
        rfl
      | some c =>
        obtain ⟨nm, ps⟩ := c
        have h' : (ps.map (·.size)).sum = space := hc nm ps rfl
        simp only [rawVariants, List.map_cons, List.flatten_cons, List.cons_append, splitVariants,
          hvid, if_true, closeCur, h']
        rfl
    rw [hstep, splitVariants_body space base b.2 _ b.1 [] _ hb1 (by rw [propsSize_nil]; omega),
      List.append_nil, ih _ _ hv' (by
        intro nm ps h
        simp only [Option.some.injEq, Prod.mk.injEq] at h
        rw [← h.2, propsSize_reverse]; exact hb2)]
    simp only [closeCur, List.reverse_reverse, List.reverse_cons, List.append_assoc,
      List.singleton_append, List.map_cons]

/-- **L2, variant delimiter logic**: variants that each fill exactly the variant space are split
    back at their `VariantId` properties. -/
theorem splitVariants_rawVariants (space base : Nat) (vars : List (Bytes × List RawProp))
    (hv : ∀ b ∈ vars, (∀ p ∈ b.2, p.kind ≠ .variantId) ∧ propsSize b.2 = space) :
    splitVariants space base (rawVariants vars).flatten none [] =
      .ok (vars.map (fun b => (b.1, placeProps base b.2))) := by
  have := splitVariants_vars space base vars none [] hv (by intro nm ps h; cases h)
  simpa [closeCur] using this

/-! ### 3. the whole layout -/

theorem takeWhile_common (common rest : List RawProp) (hc : ∀ p ∈ common, p.kind ≠ .variantId)
    (hr : rest = [] ∨ ∃ p tl, rest = p :: tl ∧ isVariantId p = true) :
    (common ++ rest).takeWhile (fun p => !isVariantId p) = common ∧
    (common ++ rest).dropWhile (fun p => !isVariantId p) = rest := by
  induction common with
  | nil =>
    rcases hr with rfl | ⟨p, tl, rfl, hp⟩
    · simp
    · simp [List.takeWhile_cons, List.dropWhile_cons, hp]
  | cons q common ih =>
    have hq : isVariantId q = false := by simp [isVariantId, hc q (List.mem_cons_self ..)]
    have := ih (fun p hp => hc p (List.mem_cons_of_mem _ hp))
    simp [List.takeWhile_cons, List.dropWhile_cons, hq, this.1, this.2]

/-- the bytes that follow the store-kind byte of an entry-store tail -/
def layoutBytes (l : LayoutOut) (n : Nat) : Bytes :=
  leBytes n 4 ++ ([0] ++ (leBytes l.entrySize 2 ++ ([UInt8.ofNat l.variants.length] ++
    (UInt8.ofNat (l.common ++ l.variants.flatten).length ::
      ((l.common ++ l.variants.flatten).map RawProp.encode).flatten))))

theorem entryStoreTail_eq (l : LayoutOut) (n : Nat) : entryStoreTail l n = 0 :: layoutBytes l n := by
  simp [entryStoreTail, layoutBytes]

/-- the layout the reader builds for a written layout -/
def layoutOf (common : List RawProp) (vars : List (Bytes × List RawProp)) (entrySize n : Nat) :
    Layout :=
  ⟨n, false, entrySize, placeProps 0 common,
    if vars.length ≠ 0 then some (propsSize common) else none,
    vars.map (fun b => (b.1, placeProps (propsSize common + 1) b.2))⟩

/-- **L2, layout codec.**  Hypotheses (each a field width of the layout header):
    * `hn` — the entry count is a `u32`;
    * `hes` — the entry size is a `u16`;
    * `hvc` — the variant count is one byte;
    * `hpc` — the property count (all variants included, with their `VariantId` and padding
      properties) is one byte;
    * every property is `Writable` (`RawProp.Writable`: field widths of a property header);
    * every variant fills the variant space: `entrySize = common size + 1 + variant size`. -/
theorem Layout_decode_layoutBytes (common : List RawProp) (vars : List (Bytes × List RawProp))
    (entrySize n : Nat)
    (hcw : ∀ p ∈ common, p.Writable ∧ p.kind ≠ .variantId)
    (hvw : ∀ b ∈ vars, b.1.length ≤ 255 ∧ (∀ p ∈ b.2, p.Writable ∧ p.kind ≠ .variantId) ∧
      propsSize common + 1 + propsSize b.2 = entrySize)
    (hn : n < 2 ^ 32) (hes : entrySize < 2 ^ 16) (hvc : vars.length < 256)
    (hpc : (common ++ (rawVariants vars).flatten).length < 256) :
    Layout.decode (layoutBytes ⟨common, rawVariants vars, entrySize⟩ n) =
      .ok (layoutOf common vars entrySize n) := by
  have hwall : ∀ p ∈ common ++ (rawVariants vars).flatten, p.Writable := by
    intro p hp
    rcases List.mem_append.1 hp with hp | hp
    · exact (hcw p hp).1
    · obtain ⟨v, hv, hpv⟩ := List.mem_flatten.1 hp
      obtain ⟨b, hb, rfl⟩ := List.mem_map.1 hv
      rcases List.mem_cons.1 hpv with rfl | hpv
      · exact ⟨(hvw b hb).1, rfl⟩
      · exact ((hvw b hb).2.1 p hpv).1
  have hraw := rawLayoutDecode_encode _ hwall hpc
  have htw := takeWhile_common common (rawVariants vars).flatten (fun p hp => (hcw p hp).2) (by
    cases vars with
    | nil => left; rfl
    | cons b vars => right; exact ⟨vidProp b.1, _, rfl, by simp [isVariantId, vidProp]⟩)
  have h4 : (256 : Nat) ^ 4 = 2 ^ 32 := by decide
  have h2 : (256 : Nat) ^ 2 = 2 ^ 16 := by decide
  have hvl : (rawVariants vars).length = vars.length := by simp [rawVariants]
  unfold Layout.decode layoutBytes
  simp only [takeLE_leBytes, Outcome.ok_bind, List.singleton_append, takeLE_one, hraw, htw.1, htw.2,
    hvl, toNat_ofNat_u8, Nat.mod_eq_of_lt hvc, Nat.mod_eq_of_lt (h4 ▸ hn),
    Nat.mod_eq_of_lt (h2 ▸ hes)]
  by_cases h0 : vars.length = 0
  · have : vars = [] := List.eq_nil_of_length_eq_zero h0
    subst this
    simp [layoutOf]
  · have hsz : ¬ entrySize < (common.map (·.size)).sum + 1 := by
      obtain ⟨b, hb⟩ := List.exists_mem_of_length_pos (Nat.pos_of_ne_zero h0)
      have := (hvw b hb).2.2
      have hc : propsSize common = (common.map (·.size)).sum := rfl
      omega
    have hsv := splitVariants_rawVariants (entrySize - (propsSize common + 1)) (propsSize common + 1)
      vars (by
        intro b hb
        obtain ⟨-, h2', h3'⟩ := hvw b hb
        exact ⟨fun p hp => (h2' p hp).2, by omega⟩)
    have hc : (common.map (·.size)).sum = propsSize common := rfl
    simp only [ne_eq, h0, not_false_eq_true, if_true, hsz, if_false, hc, hsv, Outcome.ok_bind,
      List.length_map, not_true_eq_false, layoutOf]
    simp
    omega

end Jubako
