/-
Basic "value or error, never a crash" facts about block reads and the pack header (used by C06 and by the
tie of `open_as_container_pack`).
-/
import JubakoModel.Model.Pack

namespace Jubako

theorem readBlock_no_crash (f : Bytes) (off n : Nat) : (readBlock f off n).isValueOrError = true := by
  unfold readBlock
  by_cases h : off + n + 4 ≤ f.length
  · rw [if_pos h]
    by_cases hc : checkBlock (slice f off (n + 4)) = true
    · simp [hc, Outcome.isValueOrError]
    · simp [hc, Outcome.isValueOrError]
  · rw [if_neg h]; rfl

theorem packHeader_decode_no_crash (bs : Bytes) : (PackHeader.decode bs).isValueOrError = true := by
  unfold PackHeader.decode
  by_cases h1 : bs.length < 60
  · rw [if_pos h1]; rfl
  · rw [if_neg h1]
    by_cases h2 : bs.take 3 ≠ [106, 98, 107]
    · rw [if_pos h2]; rfl
    · rw [if_neg h2]
      cases PackKind.ofByte (bs.getD 3 0) with
      | none => rfl
      | some k =>
        simp only
        split <;> rfl

theorem bind_no_crash {α β} (x : Outcome α) (f : α → Outcome β) (hx : x.isValueOrError = true)
    (hf : ∀ a, (f a).isValueOrError = true) : (x.bind f).isValueOrError = true := by
  cases x <;> simp_all [Outcome.bind, Outcome.isValueOrError]

theorem bind_no_crash' {α β} (x : Outcome α) (f : α → Outcome β) (hx : x.isValueOrError = true)
    (hf : ∀ a, (f a).isValueOrError = true) : (x >>= f).isValueOrError = true :=
  bind_no_crash x f hx hf

end Jubako
