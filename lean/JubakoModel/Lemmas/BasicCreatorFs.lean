/-
The creation traces of `BasicCreator` (Model/BasicCreatorFs.lean) are disciplined, for every mode,
every number of writes at every stage and every choice of (fresh, distinct) temporary names; and an
error return — the prefix of the run followed by the unlinking of the temporaries still alive — is
disciplined too and leaves no temporary behind.
-/
import JubakoModel.Model.BasicCreatorFs
import JubakoModel.Lemmas.AtomicFs

namespace Jubako

variable {isTemp : FPath → Bool} {entry : FPath} {old : List FPath}

theorem discStep_create_ok (s : DiscSt) (p : FPath) (h1 : isTemp p = true) (h2 : p ∉ old)
    (h3 : p ∉ s.created) :
    discStep isTemp entry old s (.create p) =
      some { s with live := p :: s.live, created := p :: s.created } := by
  simp [discStep, h1, h2, h3]

theorem discStep_rename_ok (s : DiscSt) (src dst : FPath) (h1 : src ∈ s.live) (h2 : isTemp dst = false)
    (h3 : s.entryDone = false) (h4 : dst ∉ s.renamedFinals) :
    discStep isTemp entry old s (.rename src dst) =
      some { s with live := s.live.filter (· != src), renamedFinals := dst :: s.renamedFinals,
                    entryDone := dst == entry } := by
  simp [discStep, h1, h2, h3, h4]

theorem discRun_wr (s : DiscSt) (p : FPath) (toks : List Nat) (h : p ∈ s.live) :
    discRun isTemp entry old s (wr p toks) = some s := by
  induction toks with
  | nil => rfl
  | cons t ts ih =>
    simp only [wr, List.map_cons, discRun]
    have : discStep isTemp entry old s (.write p t) = some s := by simp [discStep, h]
    rw [this]
    simpa [wr] using ih

/-- one atomic file: create, any writes, rename -/
theorem discRun_segment (s : DiscSt) (tmp final : FPath) (toks : List (List Nat))
    (h1 : isTemp tmp = true) (h2 : tmp ∉ old) (h3 : tmp ∉ s.created) (h4 : isTemp final = false)
    (h5 : s.entryDone = false) (h6 : final ∉ s.renamedFinals) :
    discRun isTemp entry old s
        ([.create tmp] ++ (toks.map (wr tmp)).flatten ++ [.rename tmp final]) =
      some { live := s.live.filter (· != tmp), created := tmp :: s.created,
             renamedFinals := final :: s.renamedFinals, entryDone := final == entry } := by
  rw [discRun_append, discRun_append]
  simp only [discRun, discStep_create_ok s tmp h1 h2 h3, Option.bind_some]
  have hw : ∀ (s' : DiscSt), tmp ∈ s'.live →
      discRun isTemp entry old s' ((toks.map (wr tmp)).flatten) = some s' := by
    intro s' hl
    induction toks with
    | nil => rfl
    | cons t ts ih =>
      simp only [List.map_cons, List.flatten_cons]
      rw [discRun_append, discRun_wr s' tmp t hl]
      simpa using ih
  rw [hw _ (by simp)]
  simp only [Option.bind_some]
  simp [discStep, h4, h5, h6]

/-- conditions on the names of a run: temporaries are recognisable, fresh and distinct; final names
    are not temporary names and are distinct -/
structure NamesOk (isTemp : FPath → Bool) (old : List FPath) (n : FinNames) : Prop where
  t1 : isTemp n.t1 = true
  t2 : isTemp n.t2 = true
  t3 : isTemp n.t3 = true
  f1 : n.t1 ∉ old
  f2 : n.t2 ∉ old
  f3 : n.t3 ∉ old
  d12 : n.t1 ≠ n.t2
  d13 : n.t1 ≠ n.t3
  d23 : n.t2 ≠ n.t3
  e : isTemp n.entry = false
  c : isTemp n.jbkc = false
  d : isTemp n.jbkd = false
  ec : n.entry ≠ n.jbkc
  ed : n.entry ≠ n.jbkd
  cd : n.jbkc ≠ n.jbkd

theorem creationTrace_shape (m : ConcatMode) (n : FinNames) (w : FinWrites) :
    creationTrace m n w =
      match m with
      | .oneFile =>
        [.create n.t1] ++ ([w.adds, w.dir, w.man, w.cend].map (wr n.t1)).flatten ++ [.rename n.t1 n.entry]
      | .twoFiles =>
        ([.create n.t1] ++ ([w.adds, w.ctail1].map (wr n.t1)).flatten ++ [.rename n.t1 n.jbkc]) ++
        ([.create n.t2] ++ ([w.head2, w.dir, w.man, w.cend].map (wr n.t2)).flatten ++ [.rename n.t2 n.entry])
      | .noConcat =>
        ([.create n.t1] ++ ([w.adds, w.ctail1].map (wr n.t1)).flatten ++ [.rename n.t1 n.jbkc]) ++
        (([.create n.t2] ++ ([w.dir].map (wr n.t2)).flatten ++ [.rename n.t2 n.jbkd]) ++
        ([.create n.t3] ++ ([w.man].map (wr n.t3)).flatten ++ [.rename n.t3 n.entry])) := by
  cases m <;> simp [creationTrace, List.append_assoc]

/-- **Every creation run of `BasicCreator` is disciplined** -/
theorem creationTrace_disciplined (m : ConcatMode) (n : FinNames) (w : FinWrites)
    (h : NamesOk isTemp old n) : Discipline isTemp n.entry old (creationTrace m n w) = true := by
  rw [discipline_iff, creationTrace_shape]
  cases m with
  | oneFile =>
    simp only
    rw [DiscSt.init, discRun_segment _ n.t1 n.entry _ h.t1 h.f1 (by simp) h.e rfl (by simp)]
    exact ⟨_, rfl⟩
  | twoFiles =>
    simp only
    rw [DiscSt.init, discRun_append,
      discRun_segment _ n.t1 n.jbkc _ h.t1 h.f1 (by simp) h.c rfl (by simp)]
    simp only [Option.bind_some]
    have hne : (n.jbkc == n.entry) = false := by simpa using fun hh => h.ec hh.symm
    rw [discRun_segment _ n.t2 n.entry _ h.t2 h.f2 (by simpa using fun hh => h.d12 hh.symm) h.e hne
      (by simpa using h.ec)]
    exact ⟨_, rfl⟩
  | noConcat =>
    simp only
    rw [DiscSt.init, discRun_append,
      discRun_segment _ n.t1 n.jbkc _ h.t1 h.f1 (by simp) h.c rfl (by simp)]
    simp only [Option.bind_some]
    have hne : (n.jbkc == n.entry) = false := by simpa using fun hh => h.ec hh.symm
    rw [discRun_append,
      discRun_segment _ n.t2 n.jbkd _ h.t2 h.f2 (by simpa using fun hh => h.d12 hh.symm) h.d hne
        (by simpa using fun hh => h.cd hh.symm)]
    simp only [Option.bind_some]
    have hne2 : (n.jbkd == n.entry) = false := by simpa using fun hh => h.ed hh.symm
    rw [discRun_segment _ n.t3 n.entry _ h.t3 h.f3
      (by simp only [List.mem_cons, List.not_mem_nil, or_false, not_or]
          exact ⟨fun hh => h.d23 hh.symm, fun hh => h.d13 hh.symm⟩) h.e hne2
      (by simp only [List.mem_cons, List.not_mem_nil, or_false, not_or]; exact ⟨h.ed, h.ec⟩)]
    exact ⟨_, rfl⟩

/-! ### error return: the temporaries still alive are unlinked -/

/-- what the checker knows about live temporaries -/
def LiveOk (isTemp : FPath → Bool) (s : DiscSt) : Prop :=
  s.live.Nodup ∧ ∀ p ∈ s.live, isTemp p = true ∧ p ∈ s.created

def liveStep (live : List FPath) (op : FsOp) : List FPath :=
  match op with
  | .create p => p :: live
  | .rename s _ => live.filter (· != s)
  | .unlink p => live.filter (· != p)
  | .write _ _ => live

theorem liveTemps_eq (t : List FsOp) : liveTemps t = t.foldl liveStep [] := by
  unfold liveTemps
  congr 1

theorem liveOk_step {s s' : DiscSt} {op : FsOp} (hi : LiveOk isTemp s)
    (h : discStep isTemp entry old s op = some s') : LiveOk isTemp s' ∧ s'.live = liveStep s.live op := by
  cases op with
  | create p =>
    obtain ⟨h1, _, h3, rfl⟩ := discStep_create h
    refine ⟨⟨?_, ?_⟩, rfl⟩
    · refine List.nodup_cons.mpr ⟨fun hm => h3 (hi.2 p hm).2, hi.1⟩
    · intro q hq
      rcases List.mem_cons.mp hq with rfl | hq
      · exact ⟨h1, by simp⟩
      · exact ⟨(hi.2 q hq).1, List.mem_cons_of_mem _ (hi.2 q hq).2⟩
  | write p tok =>
    obtain ⟨_, rfl⟩ := discStep_write h
    exact ⟨hi, rfl⟩
  | rename src dst =>
    obtain ⟨_, _, _, _, rfl⟩ := discStep_rename h
    refine ⟨⟨hi.1.filter _, ?_⟩, rfl⟩
    intro q hq
    exact hi.2 q (List.mem_filter.mp hq).1
  | unlink p =>
    obtain ⟨_, rfl⟩ := discStep_unlink h
    refine ⟨⟨hi.1.filter _, ?_⟩, rfl⟩
    intro q hq
    exact hi.2 q (List.mem_filter.mp hq).1

theorem liveOk_run {s s' : DiscSt} {t : List FsOp} (hi : LiveOk isTemp s)
    (h : discRun isTemp entry old s t = some s') :
    LiveOk isTemp s' ∧ s'.live = t.foldl liveStep s.live := by
  induction t generalizing s with
  | nil => simp only [discRun, Option.some.injEq] at h; subst h; exact ⟨hi, rfl⟩
  | cons op rest ih =>
    obtain ⟨s1, h1, h2⟩ := discRun_cons h
    obtain ⟨hi1, hl1⟩ := liveOk_step hi h1
    obtain ⟨hi2, hl2⟩ := ih hi1 h2
    exact ⟨hi2, by rw [hl2, hl1]; rfl⟩

theorem liveOk_init : LiveOk isTemp DiscSt.init := ⟨List.nodup_nil, by intro p hp; cases hp⟩

/-- unlinking every live temporary is accepted and leaves none alive -/
theorem discRun_unlink_all (s : DiscSt) (hi : s.live.Nodup) :
    ∃ s', discRun isTemp entry old s (s.live.map FsOp.unlink) = some s' ∧ s'.live = [] ∧
      s'.created = s.created ∧ s'.renamedFinals = s.renamedFinals ∧ s'.entryDone = s.entryDone := by
  generalize hl : s.live = l
  induction l generalizing s with
  | nil => exact ⟨s, rfl, hl, rfl, rfl, rfl⟩
  | cons p rest ih =>
    rw [hl] at hi
    obtain ⟨hp, hr⟩ := List.nodup_cons.mp hi
    have hf : (p :: rest).filter (· != p) = rest := by
      simp only [List.filter_cons, bne_self_eq_false, Bool.false_eq_true, ↓reduceIte]
      apply List.filter_eq_self.mpr
      intro q hq
      simpa using fun hh : q = p => hp (hh ▸ hq)
    have hstep : discStep isTemp entry old s (.unlink p) = some { s with live := rest } := by
      simp [discStep, hl, hf]
    obtain ⟨s', h1, h2, h3, h4, h5⟩ := ih { s with live := rest } hr rfl
    refine ⟨s', ?_, h2, h3, h4, h5⟩
    simp only [List.map_cons, discRun, hstep, Option.bind_some]
    exact h1

/-- **An error return is a disciplined run**: any prefix of a disciplined run followed by the
    unlinking of the temporaries then alive — and it leaves no temporary alive -/
theorem errorTrace_disciplined (t : List FsOp) (k : Nat) (h : Discipline isTemp entry old t = true) :
    ∃ dsf, discRun isTemp entry old DiscSt.init (errorTrace t k) = some dsf ∧ dsf.live = [] := by
  have hk := discipline_take isTemp entry old t k h
  rw [discipline_iff] at hk
  obtain ⟨sk, hsk⟩ := hk
  obtain ⟨hik, hlk⟩ := liveOk_run liveOk_init hsk
  obtain ⟨s', h1, h2, _⟩ := discRun_unlink_all (isTemp := isTemp) (entry := entry) (old := old) sk hik.1
  refine ⟨s', ?_, h2⟩
  unfold errorTrace
  rw [discRun_append, hsk, liveTemps_eq, ← show sk.live = (t.take k).foldl liveStep [] from hlk]
  simpa using h1

/-- unlinking temporaries does not touch a final path -/
theorem run_unlinks_other (fs : FSt) (ps : List FPath) (d : FPath) (h : d ∉ ps) :
    (fs.run (ps.map FsOp.unlink)).get d = fs.get d := by
  induction ps generalizing fs with
  | nil => rfl
  | cons p rest ih =>
    simp only [List.map_cons, FSt.run_cons]
    rw [ih _ (fun hm => h (List.mem_cons_of_mem _ hm))]
    simp only [FSt.apply]
    exact FSt.get_remove_other (fun hh => h (hh ▸ List.mem_cons_self))

/-- after an error return a final (non-temporary) path holds what it held at the failing point -/
theorem errorTrace_final (fs : FSt) (t : List FsOp) (k : Nat) (d : FPath) (hdt : isTemp d = false)
    (h : Discipline isTemp entry old t = true) :
    (fs.run (errorTrace t k)).get d = (fs.run (t.take k)).get d := by
  have hk := discipline_take isTemp entry old t k h
  rw [discipline_iff] at hk
  obtain ⟨sk, hsk⟩ := hk
  obtain ⟨hik, hlk⟩ := liveOk_run liveOk_init hsk
  unfold errorTrace
  rw [FSt.run_append]
  apply run_unlinks_other
  intro hm
  rw [liveTemps_eq, ← show sk.live = (t.take k).foldl liveStep [] from hlk] at hm
  have := (hik.2 d hm).1
  rw [hdt] at this
  cases this

end Jubako
