/-
**File-level round trip of the directory pack** (property C02, feeding C03/C15): decoding entry `i`
from the bytes `dirPackWrite` produces returns exactly the values of the `i`-th entry handed to
the writer (in stored order — `DirIn.entries` is the stored order; for a sorted store that order is
the one `c03_writer_order_is_reader_order` / `c03_stored_order` speak about).

Layers (each fully proved):
  L3 value stores        — Lemmas/DirFileA.lean
  L2 layout codec        — Lemmas/DirFileB.lean
  L1 entry codec         — Lemmas/DirFileC.lean (raw level), DirFileD/E/F.lean (schema level)
  L4/L5 file, open       — Lemmas/DirFileG.lean, DirFileH.lean, DirFileI.lean (index tails),
                           this file
-/
import JubakoModel.Lemmas.DirFileI

namespace Jubako

set_option linter.unusedSimpArgs false
set_option linter.unusedVariables false
set_option maxRecDepth 8000

/-! ### 1. the reader composition -/

/-- What the correspondence check (`dp.decode`, `Driver/OpsDir.lean`) computes for entry `gi` of
    entry store `si`: `DirectoryPack::new`, the value-store and entry-store offset tables, the
    entry store (`entryStoreOpen`), the value stores on demand (`valueStoreOpen`), then
    `decodeEntry` on the entry's bytes. -/
def dirGetEntry (f : Bytes) (si gi : Nat) : Outcome EntryVal := do
  let (_, dh) ← directoryOpen f
  let vt ← readBlock f dh.valueStorePtrPos (8 * dh.valueStoreCount)
  let et ← readBlock f dh.entryStorePtrPos (8 * dh.entryStoreCount)
  let getVS : Nat → Outcome (ValueStoreTail × Bytes) := fun k =>
    if k < dh.valueStoreCount then valueStoreOpen f (sizedOffsetDecode (slice vt (8 * k) 8))
    else .panic "cache.rs: value store index out of bounds"
  if si < dh.entryStoreCount then do
    let (l, data) ← entryStoreOpen f (sizedOffsetDecode (slice et (8 * si) 8))
    if gi < l.entryCount then
      let stride := if l.checked then l.entrySize + 4 else l.entrySize
      decodeEntry getVS l (slice data (gi * stride) l.entrySize)
    else .err .other
  else .panic "store index out of bounds"

/-! ### 2. L4: entries in the entry-store data -/

theorem flatten_fixed_length_mem {α : Type} (l : List α) (f : α → Bytes) (k : Nat)
    (hf : ∀ x ∈ l, (f x).length = k) : ((l.map f).flatten).length = l.length * k := by
  induction l with
  | nil => simp
  | cons a l ih =>
    simp only [List.map_cons, List.flatten_cons, List.length_append, List.length_cons,
      ih (fun x hx => hf x (List.mem_cons_of_mem _ hx)), hf a (List.mem_cons_self ..)]
    rw [Nat.add_mul]; omega

theorem slice_flatten_fixed_mem {α : Type} (l : List α) (f : α → Bytes) (k : Nat)
    (hf : ∀ x ∈ l, (f x).length = k) (i : Nat) (hi : i < l.length) :
    slice ((l.map f).flatten) (i * k) k = f l[i] := by
  induction l generalizing i with
  | nil => simp at hi
  | cons a l ih =>
    have ha := hf a (List.mem_cons_self ..)
    cases i with
    | zero =>
      simp only [List.map_cons, List.flatten_cons, Nat.zero_mul, List.getElem_cons_zero]
      exact slice_here _ _ _ ha
    | succ i =>
      have hi' : i < l.length := by simpa using hi
      simp only [List.map_cons, List.flatten_cons, List.getElem_cons_succ]
      rw [slice_skip _ _ _ _ (by rw [ha, Nat.succ_mul]; omega), ha,
        show (i + 1) * k - k = i * k by rw [Nat.succ_mul]; omega]
      exact ih (fun x hx => hf x (List.mem_cons_of_mem _ hx)) i hi'

/-- every serialised entry has the size the layout announces -/
theorem DirIn.serializeEntry_length (d : DirIn) (hwf : d.WF) (hk : d.KeysOk) (e : EntryIn)
    (he : e ∈ d.entries) : (serializeEntry d.stores d.layout e).length = d.entrySize := by
  have hewf := hwf.2.2.2 e he
  have hcw : ∀ p ∈ d.common, p.Writable := fun p hp => (d.common_writable hwf hk p hp).1
  rw [d.layout_eq]
  cases hv : e.variant with
  | none =>
    have hnov : d.schema.variants = [] := by
      have := hewf.1; rw [hv] at this; exact this
    simp only [serializeEntry, hv]
    rw [serializeProps_length _ _ _ _ hcw]
    simp [DirIn.entrySize, hnov]
  | some vi =>
    have hvi : vi < d.schema.variants.length := by
      have := hewf.1; rw [hv] at this; exact this
    have hvil : vi < d.vars.length := by rw [d.vars_length]; exact hvi
    have hmem : d.vars[vi] ∈ d.vars := List.getElem_mem _
    obtain ⟨-, hbw, hbs⟩ := d.vars_writable hwf hk _ hmem
    have hgv : (rawVariants d.vars).getD vi [] = vidProp d.vars[vi].1 :: d.vars[vi].2 := by
      simp only [rawVariants, List.getD_eq_getElem?_getD, List.getElem?_map,
        List.getElem?_eq_getElem hvil]
      rfl
    simp only [serializeEntry, hv]
    rw [serializeProps_length, hgv, propsSize_append, propsSize_cons]
    · show propsSize d.common + (1 + propsSize d.vars[vi].2) = d.entrySize
      omega
    · intro p hp
      rw [hgv] at hp
      rcases List.mem_append.1 hp with hp | hp
      · exact hcw p hp
      · rcases List.mem_cons.1 hp with rfl | hp
        · exact ⟨(d.vars_writable hwf hk _ hmem).1, rfl⟩
        · exact (hbw p hp).1

/-- **L4**: the entry data is `entry count × entry size` bytes and entry `i` sits at
    `i * entrySize` -/
theorem DirIn.entryBytes_spec (d : DirIn) (hwf : d.WF) (hk : d.KeysOk) :
    d.entryBytes.length = d.entries.length * d.entrySize ∧
    ∀ i (hi : i < d.entries.length),
      slice d.entryBytes (i * d.entrySize) d.entrySize =
        serializeEntry d.stores d.layout d.entries[i] :=
  ⟨flatten_fixed_length_mem _ _ _ (d.serializeEntry_length hwf hk),
   fun i hi => slice_flatten_fixed_mem _ _ _ (d.serializeEntry_length hwf hk) i hi⟩

/-! ### 3. limits -/

/-- Size limits of the format, as hypotheses on the writer's input and output:
    * `vendor`, `uuid`, `freeData` — fixed-size fields of the two headers (4, 16, 24 bytes);
    * `entryCount` — the entry count of an entry store is a `u32` of the layout header;
    * `indexCount` — the index count is a `u32` of the directory pack header;
    * `entrySize` — the entry size is a `u16` of the layout header;
    * `propCount` — the property count of a layout (all variants, with their `VariantId` and
      padding properties) is one byte;
    * `storeTails`, `entryTail` — a `SizedOffset` keeps 16 bits for the size of the tail it points
      to (65535-byte limit of value-store tails — hence at most 65535/width values in an indexed
      store — and of the layout header);
    * `fileSize` — a `SizedOffset` keeps 48 bits for the offset: every tail must sit below 2^48. -/
structure DirIn.Limits (d : DirIn) (H : Bytes → Bytes) (vendor uuid freeData : Bytes) : Prop where
  vendorLen : vendor.length = 4
  uuidLen : uuid.length = 16
  freeDataLen : freeData.length = 24
  entryCount : d.entries.length < 2 ^ 32
  indexCount : d.indexes.length < 2 ^ 32
  entrySize : d.layout.entrySize < 2 ^ 16
  propCount : (d.layout.common ++ d.layout.variants.flatten).length < 256
  storeTails : ∀ s ∈ d.stores, s.tailBytes.length < 2 ^ 16
  entryTail : (entryStoreTail d.layout d.entries.length).length < 2 ^ 16
  fileSize : (dirPackWrite H vendor uuid freeData d).length < 2 ^ 48

theorem VStore.values_length_le_tail (s : VStore) (hi : s.indexed = true) :
    s.values.length ≤ s.tailBytes.length := by
  rw [VStore.tailBytes_length, hi]
  simp only [if_true]
  have := (neededBytes_spec s.dataSize).2
  have : s.values.length ≤ neededBytes s.dataSize * s.values.length :=
    Nat.le_mul_of_pos_left _ (by omega)
  omega

/-! ### 4. L5: the stores and the entry store inside the written file -/

section File

variable (H : Bytes → Bytes) (vendor uuid freeData : Bytes) (d : DirIn)

/-- every value store of the file opens to the creator's store -/
theorem valueStoreOpen_dirPackWrite (hv : vendor.length = 4) (hu : uuid.length = 16)
    (hfd : freeData.length = 24)
    (htails : ∀ s ∈ d.stores, s.tailBytes.length < 2 ^ 16)
    (hsize : (dirPackWrite H vendor uuid freeData d).length < 2 ^ 48)
    (k : Nat) (hk : k < d.stores.length) :
    valueStoreOpen (dirPackWrite H vendor uuid freeData d)
        (sizedOffsetDecode (slice d.t2 (8 * k) 8)) =
      .ok ((d.stores.getD k vsDflt).tail, (d.stores.getD k vsDflt).data) := by
  have hel : (d.header vendor uuid).encode.length = 60 := by
    simp [PackHeader.encode, DirIn.header, zeros_length, leBytes_length, Consts.headerPad1,
      Consts.headerPad2, hv, hu]
  have hdl := DirectoryHeader.encode_length (d.dh freeData) hfd
  -- split the stores around the k-th
  have hsplit : d.stores = d.stores.take k ++ d.stores[k] :: d.stores.drop (k + 1) := by
    rw [List.getElem_cons_drop, List.take_append_drop]
  generalize hl1 : d.stores.take k = l1 at hsplit
  generalize hl2 : d.stores.drop (k + 1) = l2 at hsplit
  have hgd : d.stores.getD k vsDflt = d.stores[k] := getD_of_lt _ _ _ hk
  rw [hgd]
  have hsm : d.stores[k] ∈ d.stores := List.getElem_mem _
  generalize hs : d.stores[k] = s at hsplit hsm
  have hl1l : l1.length = k := by rw [← hl1, List.length_take]; omega
  have hso : (dfVsSOs d.stores d.pos2)[k]? =
      some (d.pos2 + (dfVsBytes l1).length + s.encode.2.1, s.encode.2.2) := by
    have := dfVsSOs_at l1 s l2 d.pos2
    rw [hl1l, ← hsplit] at this
    exact this
  have hvb : d.vsBytes = dfVsBytes l1 ++ (s.encode.1 ++ dfVsBytes l2) := by
    rw [DirIn.vsBytes, hsplit, dfVsBytes_append, dfVsBytes_cons]
  -- the file around the store
  have hf : dirPackWrite H vendor uuid freeData d =
      (block (d.header vendor uuid).encode ++ (block (d.dh freeData).encode ++ (d.idxBytes ++
        (block d.entryBytes ++ (block d.esTail ++ dfVsBytes l1))))) ++ (s.encode.1 ++
      (dfVsBytes l2 ++ (block d.t1 ++ (block d.t2 ++ (block d.t3 ++
        d.trailer H vendor uuid freeData))))) := by
    rw [dirPackWrite_eq, hvb]
    simp only [List.append_assoc]
  generalize hA : (block (d.header vendor uuid).encode ++ (block (d.dh freeData).encode ++
    (d.idxBytes ++ (block d.entryBytes ++ (block d.esTail ++ dfVsBytes l1))))) = A at hf
  generalize hZ : (dfVsBytes l2 ++ (block d.t1 ++ (block d.t2 ++ (block d.t3 ++
    d.trailer H vendor uuid freeData)))) = Z at hf
  have hAl : A.length = d.pos2 + (dfVsBytes l1).length := by
    rw [← hA]
    simp only [List.length_append, block_length, hel, hdl, DirIn.pos2, DirIn.pos1]
    omega
  have hfl : (dirPackWrite H vendor uuid freeData d).length =
      A.length + (s.encode.2.1 + (s.encode.2.2 + 4)) + Z.length := by
    rw [hf, List.length_append, List.length_append, VStore.encode_fst_length]; omega
  have htl : s.encode.2.2 < 2 ^ 16 := by
    rw [VStore.encode_eq]; exact htails s hsm
  have hds : s.encode.2.1 = s.dataSize + 4 := by rw [VStore.encode_eq]
  have hsod : sizedOffsetDecode (slice d.t2 (8 * k) 8) =
      (A.length + s.encode.2.1, s.encode.2.2) := by
    rw [DirIn.t2, soTable_slice _ k (by rw [dfVsSOs_length]; exact hk),
      List.getD_eq_getElem?_getD, hso, hAl]
    simp only [Option.getD_some]
    exact sizedOffset_roundtrip _ _ (by omega) htl
  rw [hsod, hf]
  apply valueStoreOpen_encode
  · intro hi
    have := VStore.values_length_le_tail s hi
    have := htails s hsm
    omega
  · omega

/-- `KeysOk` follows from the tail and file size limits -/
theorem DirIn.keysOk_of_limits (hv : vendor.length = 4) (hu : uuid.length = 16)
    (hfd : freeData.length = 24)
    (htails : ∀ s ∈ d.stores, s.tailBytes.length < 2 ^ 16)
    (hsize : (dirPackWrite H vendor uuid freeData d).length < 2 ^ 48) : d.KeysOk := by
  intro st hst
  have hgd : d.stores.getD st vsDflt = d.stores[st] := getD_of_lt _ _ _ hst
  rw [hgd]
  have hsm : d.stores[st] ∈ d.stores := List.getElem_mem _
  generalize d.stores[st] = s at hsm
  unfold VStore.keySize
  cases hi : s.indexed with
  | true =>
    simp only [if_true]
    apply neededBytes_min _ 7 (by omega)
    have := VStore.values_length_le_tail s hi
    have := htails s hsm
    have h7 : (256 : Nat) ^ 7 = 2 ^ 56 := by decide
    omega
  | false =>
    simp only [Bool.false_eq_true, if_false]
    apply neededBytes_min _ 7 (by omega)
    have h7 : (256 : Nat) ^ 7 = 2 ^ 56 := by decide
    -- the store's data is part of the file
    obtain ⟨l1, l2, hsplit⟩ := List.append_of_mem hsm
    have hvb : d.vsBytes.length = (dfVsBytes l1).length + (s.encode.1.length + (dfVsBytes l2).length) := by
      rw [DirIn.vsBytes, hsplit, dfVsBytes_append, dfVsBytes_cons]
      simp only [List.length_append]
    have hlen := dirPackWrite_length H vendor uuid freeData d hv hu hfd
    have hsl := VStore.encode_fst_length s
    have hds : s.encode.2.1 = s.dataSize + 4 := by rw [VStore.encode_eq]
    have : d.vsBytes.length ≤ d.checkPos := by
      simp only [DirIn.checkPos, DirIn.pos3]; omega
    omega

/-- **L4/L5**: the entry store of the written file opens to the reader layout and the entry
    data -/
theorem entryStoreOpen_dirPackWrite (hwf : d.WF) (hl : d.Limits H vendor uuid freeData) :
    entryStoreOpen (dirPackWrite H vendor uuid freeData d) (d.esPos, d.esTail.length) =
      .ok (d.readerLayout, d.entryBytes) := by
  have hk := d.keysOk_of_limits H vendor uuid freeData hl.vendorLen hl.uuidLen hl.freeDataLen hl.storeTails
    hl.fileSize
  have hns : d.stores.length < 256 := by rw [d.stores_length]; exact hwf.1
  obtain ⟨-, -, -, -, hes, hed⟩ := directoryOpen_dirPackWrite H vendor uuid freeData d hl.vendorLen
    hl.uuidLen hl.freeDataLen hns hl.indexCount hl.fileSize
  have hpc : (d.common ++ (rawVariants d.vars).flatten).length < 256 := by
    have := hl.propCount; rw [d.layout_eq] at this; exact this
  have hesz : d.entrySize < 2 ^ 16 := by
    have := hl.entrySize; rw [d.layout_eq] at this; exact this
  obtain ⟨htl, hdec⟩ := d.layout_decode hwf hk hl.entryCount hesz hpc
  obtain ⟨hebl, -⟩ := d.entryBytes_spec hwf hk
  have h01 : ¬ ((0 : UInt8) = 1 ∨ (0 : UInt8) = 2) := by decide
  unfold entryStoreOpen
  simp only [hes, Outcome.ok_bind]
  rw [show d.esTail = 0 :: layoutBytes d.layout d.entries.length from htl]
  simp only [h01, if_false, ne_eq, not_true_eq_false, hdec, Outcome.ok_bind]
  have hck : d.readerLayout.checked = false := rfl
  have hec : d.readerLayout.entryCount = d.entries.length := rfl
  have hsz : d.readerLayout.entrySize = d.entrySize := rfl
  simp only [hck, Bool.false_eq_true, if_false, hec, hsz, ← hebl]
  have hpos : d.esPos = d.pos1 + (d.entryBytes.length + 4) := by
    simp only [DirIn.esPos, block_length]
  rw [if_neg (by omega), show d.esPos - d.entryBytes.length - 4 = d.pos1 by omega, hed]
  rfl

end File

/-! ### 5. the file-level round trip -/

/-- **File-level round trip of the directory pack.**  For every writer input `d` (value store
    kinds, schema with variants, entries in stored order, index definitions) that is well formed
    (`DirIn.WF`: names are p-strings, array prefixes ≤ 31 bytes, store indexes exist, at most 255
    stores; every entry carries a variant id iff the schema has variants, one value per property,
    of the declared type, integers within 64 bits, arrays shorter than 2^24 bytes, pack ids
    within 16 bits and content ids within 32 bits) and within the size limits of the format
    (`DirIn.Limits`), decoding entry `i` of the only entry store out of the bytes of the written
    pack returns exactly the variant id and the values of the `i`-th entry given to the writer,
    each paired with its property name, common properties first.

    The composition is the one the correspondence check runs: `dp.encode` = `dirPackWrite`
    (`VStore.finalize` per store, `finalizeSchema`, `serializeEntry`, tails and tables),
    `dp.decode` = `dirGetEntry` (`directoryOpen`, `entryStoreOpen`, `Layout.decode`,
    `valueStoreOpen`, `decodeEntry`).  `H` (the hash of the check block) is arbitrary. -/
theorem dirGetEntry_dirPackWrite (H : Bytes → Bytes) (vendor uuid freeData : Bytes) (d : DirIn)
    (hwf : d.WF) (hl : d.Limits H vendor uuid freeData) (i : Nat) (hi : i < d.entries.length) :
    dirGetEntry (dirPackWrite H vendor uuid freeData d) 0 i =
      .ok (expectedEntry d.schema d.entries[i]) := by
  have hk := d.keysOk_of_limits H vendor uuid freeData hl.vendorLen hl.uuidLen hl.freeDataLen hl.storeTails
    hl.fileSize
  have hns : d.stores.length < 256 := by rw [d.stores_length]; exact hwf.1
  obtain ⟨hopen, ht2, ht3, -, -, -⟩ := directoryOpen_dirPackWrite H vendor uuid freeData d
    hl.vendorLen hl.uuidLen hl.freeDataLen hns hl.indexCount hl.fileSize
  have heso := entryStoreOpen_dirPackWrite H vendor uuid freeData d hwf hl
  obtain ⟨-, hslice⟩ := d.entryBytes_spec hwf hk
  have hlen := dirPackWrite_length H vendor uuid freeData d hl.vendorLen hl.uuidLen hl.freeDataLen
  -- the entry-store sized offset
  have hso3 : sizedOffsetDecode (slice d.t3 (8 * 0) 8) = (d.esPos, d.esTail.length) := by
    rw [DirIn.t3, soTable_slice _ 0 (by simp)]
    simp only [List.getD_cons_zero]
    apply sizedOffset_roundtrip
    · have : d.esPos ≤ d.checkPos := by
        simp only [DirIn.checkPos, DirIn.pos3, DirIn.pos2, DirIn.esPos]; omega
      have := hl.fileSize
      omega
    · exact hl.entryTail
  -- the value stores
  have hagree : StoresAgree d.stores (fun k =>
      if k < d.stores.length then
        valueStoreOpen (dirPackWrite H vendor uuid freeData d)
          (sizedOffsetDecode (slice d.t2 (8 * k) 8))
      else .panic "cache.rs: value store index out of bounds") := by
    intro st hst
    simp only [hst, if_true]
    exact valueStoreOpen_dirPackWrite H vendor uuid freeData d hl.vendorLen hl.uuidLen hl.freeDataLen
      hl.storeTails hl.fileSize st hst
  have hvc : d.schema.variants.length ≤ 256 := by
    have := hl.propCount
    rw [d.layout_eq] at this
    simp only [List.length_append] at this
    have h1 : (rawVariants d.vars).length ≤ (rawVariants d.vars).flatten.length := by
      rw [List.length_flatten]
      have gen : ∀ (l : List (List RawProp)), (∀ x ∈ l, 1 ≤ x.length) →
          l.length ≤ (l.map List.length).sum := by
        intro l
        induction l with
        | nil => intro _; simp
        | cons x xs ih =>
          intro h
          have := ih (fun y hy => h y (List.mem_cons_of_mem _ hy))
          have := h x (List.mem_cons_self ..)
          simp only [List.length_cons, List.map_cons, List.sum_cons]
          omega
      apply gen
      intro x hx
      simp only [rawVariants, List.mem_map] at hx
      obtain ⟨b, -, rfl⟩ := hx
      simp
    have h2 : (rawVariants d.vars).length = d.schema.variants.length := by
      simp [rawVariants, d.vars_length]
    omega
  have hrt := d.entry_roundtrip hwf hk hvc _ hagree d.entries[i] (List.getElem_mem _)
  unfold dirGetEntry
  rw [hopen]
  simp only [Outcome.ok_bind]
  rw [show (d.dh freeData).valueStoreCount = d.stores.length from rfl,
    show (d.dh freeData).entryStoreCount = 1 from rfl, ht2, ht3]
  simp only [Outcome.ok_bind, Nat.lt_one_iff, if_true, hso3, heso]
  rw [show d.readerLayout.entryCount = d.entries.length from rfl, if_pos hi,
    show d.readerLayout.checked = false from rfl]
  simp only [Bool.false_eq_true, if_false]
  rw [show d.readerLayout.entrySize = d.entrySize from rfl, hslice i hi]
  exact hrt

/-- the same theorem under the name used in the design notes -/
theorem dirfile_roundtrip (H : Bytes → Bytes) (vendor uuid freeData : Bytes) (d : DirIn)
    (hwf : d.WF) (hl : d.Limits H vendor uuid freeData) :
    ∀ i (hi : i < d.entries.length),
      dirGetEntry (dirPackWrite H vendor uuid freeData d) 0 i =
        .ok (expectedEntry d.schema d.entries[i]) :=
  fun i hi => dirGetEntry_dirPackWrite H vendor uuid freeData d hwf hl i hi

/-- … and beyond the stored entries the reader finds nothing -/
theorem dirGetEntry_dirPackWrite_none (H : Bytes → Bytes) (vendor uuid freeData : Bytes)
    (d : DirIn) (hwf : d.WF) (hl : d.Limits H vendor uuid freeData) (i : Nat)
    (hi : d.entries.length ≤ i) :
    dirGetEntry (dirPackWrite H vendor uuid freeData d) 0 i = .err .other := by
  have hns : d.stores.length < 256 := by rw [d.stores_length]; exact hwf.1
  obtain ⟨hopen, ht2, ht3, -, -, -⟩ := directoryOpen_dirPackWrite H vendor uuid freeData d
    hl.vendorLen hl.uuidLen hl.freeDataLen hns hl.indexCount hl.fileSize
  have heso := entryStoreOpen_dirPackWrite H vendor uuid freeData d hwf hl
  have hlen := dirPackWrite_length H vendor uuid freeData d hl.vendorLen hl.uuidLen hl.freeDataLen
  have hso3 : sizedOffsetDecode (slice d.t3 (8 * 0) 8) = (d.esPos, d.esTail.length) := by
    rw [DirIn.t3, soTable_slice _ 0 (by simp)]
    simp only [List.getD_cons_zero]
    apply sizedOffset_roundtrip
    · have : d.esPos ≤ d.checkPos := by
        simp only [DirIn.checkPos, DirIn.pos3, DirIn.pos2, DirIn.esPos]; omega
      have := hl.fileSize
      omega
    · exact hl.entryTail
  unfold dirGetEntry
  rw [hopen]
  simp only [Outcome.ok_bind]
  rw [show (d.dh freeData).valueStoreCount = d.stores.length from rfl,
    show (d.dh freeData).entryStoreCount = 1 from rfl, ht2, ht3]
  simp only [Outcome.ok_bind, Nat.lt_one_iff, if_true, hso3, heso]
  rw [show d.readerLayout.entryCount = d.entries.length from rfl, if_neg (by omega)]

end Jubako

namespace Jubako

set_option linter.unusedSimpArgs false
set_option linter.unusedVariables false
set_option maxRecDepth 8000

/-! ### 6. the size of the written file, CRC-free -/

theorem dfIdxBytes_length (tails : List Bytes) :
    (dfIdxBytes tails).length = (tails.map (fun t => t.length + 4)).sum := by
  induction tails with
  | nil => rfl
  | cons t ts ih => simp [dfIdxBytes_cons, block_length, ih]

theorem dfVsBytes_length (stores : List VStore) :
    (dfVsBytes stores).length =
      (stores.map (fun s => s.dataSize + 4 + (s.tailBytes.length + 4))).sum := by
  induction stores with
  | nil => rfl
  | cons s ss ih =>
    rw [dfVsBytes_cons, List.length_append, ih, VStore.encode_fst_length, VStore.encode_eq]
    simp

/-- the length of the written pack in terms of quantities that need no CRC computation
    (32-byte hash, as blake3) -/
theorem dirPackWrite_length_formula (H : Bytes → Bytes) (vendor uuid freeData : Bytes) (d : DirIn)
    (hv : vendor.length = 4) (hu : uuid.length = 16) (hfd : freeData.length = 24)
    (hH : ∀ x, (H x).length = 32) :
    (dirPackWrite H vendor uuid freeData d).length =
      128 + (d.idxTails.map (fun t => t.length + 4)).sum + (d.entryBytes.length + 4) +
        (d.esTail.length + 4) +
        (d.stores.map (fun s => s.dataSize + 4 + (s.tailBytes.length + 4))).sum +
        (8 * d.indexes.length + 4) + (8 * d.stores.length + 4) + 12 + 37 + 64 := by
  have hel : (d.header vendor uuid).encode.length = 60 := by
    simp [PackHeader.encode, DirIn.header, zeros_length, leBytes_length, Consts.headerPad1,
      Consts.headerPad2, hv, hu]
  rw [dirPackWrite_length H vendor uuid freeData d hv hu hfd]
  simp only [DirIn.checkPos, DirIn.pos3, DirIn.pos2, DirIn.pos1, DirIn.trailer, block_length,
    d.t1_length, d.t2_length, d.t3_length, List.length_append, List.length_reverse, hel,
    CheckInfo.encode, List.length_cons, hH, DirIn.idxBytes, DirIn.vsBytes, dfIdxBytes_length,
    dfVsBytes_length]
  omega

end Jubako

namespace Jubako

set_option linter.unusedSimpArgs false
set_option linter.unusedVariables false
set_option maxRecDepth 8000

/-! ### 6b. feeding C03: a store sorted on an array key reads back sorted in the reader's order -/

/-- the values of the common array property `k`, entry by entry in stored order -/
def DirIn.arrayKeys (d : DirIn) (k : Nat) : List Bytes :=
  d.entries.map (fun e => arrayOf (e.values.getD k (.u 0)))

/-- the `k`-th common value of a well-formed entry, as the reader returns it -/
theorem expectedEntry_common_value (d : DirIn) (hwf : d.WF) (e : EntryIn) (he : e ∈ d.entries)
    (k : Nat) (p : PropDef) (hp : d.schema.common[k]? = some p) :
    (expectedEntry d.schema e).values[k]? = some (p.name, e.values.getD k (.u 0)) ∧
    Val.hasType p.ty (e.values.getD k (.u 0)) ∧
    (p, e.values.getD k (.u 0)) ∈ (d.schema.propsOf e.variant).zip e.values := by
  have hewf := hwf.2.2.2 e he
  have hkl : k < d.schema.common.length := (List.getElem?_eq_some_iff.1 hp).1
  have hpk : (d.schema.propsOf e.variant)[k]? = some p := by
    rw [SchemaDef.propsOf.eq_def, List.getElem?_append_left hkl]; exact hp
  have hkv : k < e.values.length := by
    rw [hewf.2.1, SchemaDef.propsOf.eq_def, List.length_append]; omega
  have hvk : e.values[k]? = some (e.values.getD k (.u 0)) := by
    rw [List.getD_eq_getElem?_getD, List.getElem?_eq_getElem hkv]; rfl
  have hz : ((d.schema.propsOf e.variant).zip e.values)[k]? =
      some (p, e.values.getD k (.u 0)) := List.getElem?_zip_eq_some.2 ⟨hpk, hvk⟩
  refine ⟨?_, hewf.2.2.2 _ (List.mem_of_getElem? hz), List.mem_of_getElem? hz⟩
  simp only [expectedEntry]
  rw [List.getElem?_zip_eq_some]
  exact ⟨by rw [List.getElem?_map, hpk]; rfl, hvk⟩

/-- **Stored order (C03) at file level.**  Let common property `k` be an array key (inline prefix
    `fixed`, value store `st`) and let the stored order pass the creator's own post-sort check with
    the writer's comparator on that key (`c03_stored_order`).  Then the keys the reader decodes
    from the written file at positions `0, 1, …` are exactly the written keys, and they are
    non-decreasing in the reader's bytewise order — the precondition of `c03_find_binary`. -/
theorem dirfile_sorted_readback (H : Bytes → Bytes) (vendor uuid freeData : Bytes) (d : DirIn)
    (hwf : d.WF) (hl : d.Limits H vendor uuid freeData) (k fixed st : Nat) (name : Bytes)
    (hp : d.schema.common[k]? = some ⟨name, .array fixed st⟩)
    (hchk : sortedCheck (writerArrCmp (d.stores.getD st vsDflt) fixed) (d.arrayKeys k) = true) :
    (∀ i (hi : i < d.entries.length), ∃ ev,
      dirGetEntry (dirPackWrite H vendor uuid freeData d) 0 i = .ok ev ∧
      ev.values[k]? = some (name, .arr ((d.arrayKeys k).getD i []))) ∧
    sortedCheck lexCmp (d.arrayKeys k) = true := by
  have hpm : (⟨name, .array fixed st⟩ : PropDef) ∈ d.schema.common := List.mem_of_getElem? hp
  have hst : st < d.storeKinds.length := (hwf.2.1 _ hpm).2.2
  constructor
  · intro i hi
    refine ⟨_, dirGetEntry_dirPackWrite H vendor uuid freeData d hwf hl i hi, ?_⟩
    obtain ⟨h1, h2, -⟩ := expectedEntry_common_value d hwf d.entries[i] (List.getElem_mem _) k _ hp
    have hk : (d.arrayKeys k).getD i [] = arrayOf ((d.entries[i]).values.getD k (.u 0)) := by
      simp [DirIn.arrayKeys, List.getD_eq_getElem?_getD, List.getElem?_map,
        List.getElem?_eq_getElem hi]
    rw [h1, hk]
    generalize (d.entries[i]).values.getD k (.u 0) = v at h2 ⊢
    cases v <;> simp only [Val.hasType] at h2
    rfl
  · rw [d.stores_getD st hst] at hchk
    refine stored_order _ _ fixed _ ?_ hchk
    intro a ha
    simp only [DirIn.arrayKeys, List.mem_map] at ha
    obtain ⟨e, he, rfl⟩ := ha
    obtain ⟨-, -, h3⟩ := expectedEntry_common_value d hwf e he k _ hp
    exact mem_addedTo d.schema d.entries e he _ _ h3 fixed st rfl

end Jubako

/-! ### 7. non-vacuity: every hypothesis of the round trip holds on concrete packs -/

namespace Jubako

set_option maxRecDepth 8000

namespace DirFileExample

def hash : Bytes → Bytes := fun _ => List.replicate 32 0
def vendor : Bytes := [1, 2, 3, 4]
def uuid : Bytes := List.replicate 16 7
def freeData : Bytes := List.replicate 24 9

def schema : SchemaDef :=
  ⟨[⟨[97], .uint⟩, ⟨[98], .sint⟩, ⟨[99], .array 2 0⟩],
   [([118, 48], [⟨[120], .uint⟩]),
    ([118, 49], [⟨[121], .array 0 1⟩, ⟨[122], .sint⟩])]⟩

def entries : List EntryIn :=
  [⟨some 0, [.u 300, .s (-129), .arr [1, 2, 3, 4, 5], .u 7]⟩,
   ⟨some 1, [.u 5, .s 128, .arr [9], .arr [10, 11], .s (-1)]⟩,
   ⟨some 1, [.u 70000, .s 0, .arr [1, 2, 3, 4, 5], .arr [], .s 5]⟩]

def input : DirIn := ⟨[false, true], schema, entries, [⟨[105], 3, 0⟩]⟩

theorem input_wf : input.WF := by decide

theorem hstores : input.stores = [⟨false, [[], [3, 4, 5]]⟩, ⟨true, [[], [10, 11]]⟩] := by decide

/-- the finalised layout: three common columns (3-byte unsigned, 2-byte signed, array with length
    byte + 2-byte inline prefix + 1-byte id into the plain store), variant 0 = one constant column
    (0 bytes) padded by 2, variant 1 = indirect array (1-byte id into the indexed store) + 1-byte
    signed -/
def layout : LayoutOut :=
  ⟨[⟨3, [97], .uint 3 none⟩, ⟨2, [98], .sint 2 none⟩, ⟨4, [99], .array (some 1) 2 (some (1, 0)) none⟩],
   [[⟨1, [118, 48], .variantId⟩, ⟨0, [120], .uint 1 (some 7)⟩, ⟨2, [], .padding⟩],
    [⟨1, [118, 49], .variantId⟩, ⟨1, [121], .array none 0 (some (1, 1)) none⟩,
     ⟨1, [122], .sint 1 none⟩]], 12⟩

theorem hlayout : input.layout = layout := by
  have hc : input.common = layout.common := by decide
  have hb : fsBodies input.stores input.schema input.entries =
      [([118, 48], [⟨0, [120], .uint 1 (some 7)⟩]),
       ([118, 49], [⟨1, [121], .array none 0 (some (1, 1)) none⟩, ⟨1, [122], .sint 1 none⟩])] := by
    decide
  have hes : input.entrySize = 12 := by decide
  have hv : input.vars =
      [([118, 48], [⟨0, [120], .uint 1 (some 7)⟩, ⟨2, [], .padding⟩]),
       ([118, 49], [⟨1, [121], .array none 0 (some (1, 1)) none⟩, ⟨1, [122], .sint 1 none⟩])] := by
    simp [DirIn.vars, hb, fsVars, fsMx, listMax, propsSize, paddingProps]
  rw [input.layout_eq, hc, hv, hes]
  rfl

theorem limits : input.Limits hash vendor uuid freeData where
  vendorLen := rfl
  uuidLen := rfl
  freeDataLen := rfl
  entryCount := by decide
  indexCount := by decide
  entrySize := by rw [hlayout]; decide
  propCount := by rw [hlayout]; decide
  storeTails := by rw [hstores]; decide
  entryTail := by rw [hlayout]; decide
  fileSize := by
    rw [dirPackWrite_length_formula hash vendor uuid freeData input rfl rfl rfl
      (fun _ => by simp [hash])]
    simp only [DirIn.entryBytes, DirIn.esTail, hlayout, hstores]
    decide

example : dirGetEntry (dirPackWrite hash vendor uuid freeData input) 0 0 =
    .ok ⟨some 0, [([97], .u 300), ([98], .s (-129)), ([99], .arr [1, 2, 3, 4, 5]), ([120], .u 7)]⟩ :=
  dirGetEntry_dirPackWrite hash vendor uuid freeData input input_wf limits 0 (by decide)

example : dirGetEntry (dirPackWrite hash vendor uuid freeData input) 0 1 =
    .ok ⟨some 1, [([97], .u 5), ([98], .s 128), ([99], .arr [9]), ([121], .arr [10, 11]),
      ([122], .s (-1))]⟩ :=
  dirGetEntry_dirPackWrite hash vendor uuid freeData input input_wf limits 1 (by decide)

example : dirGetEntry (dirPackWrite hash vendor uuid freeData input) 0 2 =
    .ok ⟨some 1, [([97], .u 70000), ([98], .s 0), ([99], .arr [1, 2, 3, 4, 5]), ([121], .arr []),
      ([122], .s 5)]⟩ :=
  dirGetEntry_dirPackWrite hash vendor uuid freeData input input_wf limits 2 (by decide)

example : dirGetEntry (dirPackWrite hash vendor uuid freeData input) 0 3 = .err .other :=
  dirGetEntry_dirPackWrite_none hash vendor uuid freeData input input_wf limits 3 (by decide)


example : dirGetIndex (dirPackWrite hash vendor uuid freeData input) 0 =
    .ok ⟨0, 3, 0, [0, 0, 0, 0], 0, [105]⟩ :=
  dirGetIndex_dirPackWrite hash vendor uuid freeData input rfl rfl rfl (by decide) (by decide)
    (by decide) limits.fileSize 0 (by decide)


/-! a schema without variants (the other branch of `serializeEntry` / `decodeEntry`): a content
    address column with a constant pack id, and a signed column -/

def input2 : DirIn :=
  ⟨[], ⟨[⟨[112], .content⟩, ⟨[113], .sint⟩], []⟩,
    [⟨none, [.content 3 1000, .s (-32768)]⟩, ⟨none, [.content 3 2, .s 32767]⟩], []⟩

theorem input2_wf : input2.WF := by decide

theorem hlayout2 : input2.layout =
    ⟨[⟨2, [112], .content 1 2 (some 3)⟩, ⟨2, [113], .sint 2 none⟩], [], 4⟩ := by decide

theorem limits2 : input2.Limits hash vendor uuid freeData where
  vendorLen := rfl
  uuidLen := rfl
  freeDataLen := rfl
  entryCount := by decide
  indexCount := by decide
  entrySize := by rw [hlayout2]; decide
  propCount := by rw [hlayout2]; decide
  storeTails := by decide
  entryTail := by rw [hlayout2]; decide
  fileSize := by
    rw [dirPackWrite_length_formula hash vendor uuid freeData input2 rfl rfl rfl
      (fun _ => by simp [hash])]
    simp only [DirIn.entryBytes, DirIn.esTail, hlayout2]
    decide

example : dirGetEntry (dirPackWrite hash vendor uuid freeData input2) 0 0 =
    .ok ⟨none, [([112], .content 3 1000), ([113], .s (-32768))]⟩ :=
  dirGetEntry_dirPackWrite hash vendor uuid freeData input2 input2_wf limits2 0 (by decide)


/-! a store sorted on an array key (duplicates allowed): the keys read back in the reader's order -/

def input3 : DirIn :=
  ⟨[false], ⟨[⟨[107], .array 1 0⟩], []⟩,
    [⟨none, [.arr [1]]⟩, ⟨none, [.arr [1, 2]]⟩, ⟨none, [.arr [1, 2]]⟩, ⟨none, [.arr [2]]⟩], []⟩

theorem input3_wf : input3.WF := by decide

theorem hstores3 : input3.stores = [⟨false, [[], [2]]⟩] := by decide

theorem hlayout3 : input3.layout =
    ⟨[⟨3, [107], .array (some 1) 1 (some (1, 0)) none⟩], [], 3⟩ := by decide

theorem limits3 : input3.Limits hash vendor uuid freeData where
  vendorLen := rfl
  uuidLen := rfl
  freeDataLen := rfl
  entryCount := by decide
  indexCount := by decide
  entrySize := by rw [hlayout3]; decide
  propCount := by rw [hlayout3]; decide
  storeTails := by rw [hstores3]; decide
  entryTail := by rw [hlayout3]; decide
  fileSize := by
    rw [dirPackWrite_length_formula hash vendor uuid freeData input3 rfl rfl rfl
      (fun _ => by simp [hash])]
    simp only [DirIn.entryBytes, DirIn.esTail, hlayout3, hstores3]
    decide

example : sortedCheck lexCmp (input3.arrayKeys 0) = true :=
  (dirfile_sorted_readback hash vendor uuid freeData input3 input3_wf limits3 0 1 0 [107] rfl
    (by rw [hstores3]; decide)).2

end DirFileExample

end Jubako
