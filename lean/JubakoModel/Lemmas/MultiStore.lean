/- Lemmas for the multi-store `finalize` protocol (Model/MultiStore.lean). -/
import JubakoModel.Model.MultiStore
import JubakoModel.Lemmas.Refs

namespace Jubako

theorem step_sort (stores : List StoreIn) (s : MSt) (i : Nat) (st : StoreIn) (o : List Nat)
    (h1 : stores[i]? = some st) (h2 : s.orders[i]? = some o) :
    s.step stores (.sort i) =
      { s with orders := s.orders.set i (sortStore st o (s.cells i)).order,
               cells := fun j e => if j = i then (sortStore st o (s.cells i)).cells e else s.cells j e } := by
  unfold MSt.step
  simp only [h1, h2]

/-- stores `< m` are sorted: their cells hold final positions; stores `≥ m` are untouched -/
structure SortedUpTo (stores : List StoreIn) (m : Nat) (s : MSt) : Prop where
  len : s.orders.length = stores.length
  done : ∀ i, i < m → i < stores.length → ∀ e, s.cells i e = finalPos stores i e
  todo : ∀ i, m ≤ i → ∀ (h : i < stores.length), s.orders[i]? = some (List.range (stores[i]).n)
  sized : s.sizedAt = []
  written : s.writtenAt = []

theorem sorted_init (stores : List StoreIn) : SortedUpTo stores 0 (MSt.init stores) := by
  refine ⟨by simp [MSt.init], fun i h => by omega, ?_, rfl, rfl⟩
  intro i _ h
  simp [MSt.init, h]

theorem sorted_step (stores : List StoreIn) (m : Nat) (s : MSt) (hm : m < stores.length)
    (h : SortedUpTo stores m s) : SortedUpTo stores (m + 1) (s.step stores (.sort m)) := by
  have ho := h.todo m (Nat.le_refl _) hm
  have hs : stores[m]? = some stores[m] := List.getElem?_eq_getElem hm
  rw [step_sort stores s m _ _ hs ho]
  have hc := finalize_cells (List.range (stores[m]).n) (s.cells m) (stores[m]).passes
  dsimp only at hc
  obtain ⟨c1, c2⟩ := hc
  refine ⟨by simp [h.len], ?_, ?_, h.sized, h.written⟩
  · intro i hi hlt e
    by_cases him : i = m
    · subst him
      simp only [if_true, sortStore]
      rw [c1 e, c2]
      simp [finalPos, hs]
    · simp only [him, if_false]
      exact h.done i (by omega) hlt e
  · intro i hi hlt
    have hne : m ≠ i := by omega
    rw [List.getElem?_set_ne hne]
    exact h.todo i (by omega) hlt

theorem sorted_all (stores : List StoreIn) :
    ∀ m, m ≤ stores.length →
      SortedUpTo stores m ((MSt.init stores).run stores ((List.range m).map MAct.sort)) := by
  intro m
  induction m with
  | zero => intro _; simpa [MSt.run] using sorted_init stores
  | succ k ih =>
    intro hk
    have := ih (by omega)
    simp only [MSt.run, List.range_succ, List.map_append, List.map_cons, List.map_nil, List.foldl_append,
      List.foldl_cons, List.foldl_nil] at this ⊢
    exact sorted_step stores k _ (by omega) this

/-- `size` and `write` actions do not change the cells, and record them -/
theorem run_size_write (stores : List StoreIn) (s : MSt) (acts : List MAct)
    (hacts : ∀ a ∈ acts, (∃ i, a = .size i) ∨ (∃ i, a = .write i)) :
    (s.run stores acts).cells = s.cells ∧
    (∀ p ∈ (s.run stores acts).sizedAt, p ∈ s.sizedAt ∨ p.2 = s.cells) ∧
    (∀ p ∈ (s.run stores acts).writtenAt, p ∈ s.writtenAt ∨ p.2 = s.cells) := by
  induction acts generalizing s with
  | nil => exact ⟨rfl, fun p hp => Or.inl hp, fun p hp => Or.inl hp⟩
  | cons a rest ih =>
    have hrest : ∀ a ∈ rest, (∃ i, a = .size i) ∨ (∃ i, a = .write i) := fun x hx => hacts x (List.mem_cons_of_mem _ hx)
    simp only [MSt.run, List.foldl_cons]
    rcases hacts a List.mem_cons_self with ⟨i, rfl⟩ | ⟨i, rfl⟩
    · obtain ⟨h1, h2, h3⟩ := ih (s.step stores (.size i)) hrest
      simp only [MSt.run] at h1 h2 h3
      refine ⟨by rw [h1]; rfl, ?_, ?_⟩
      · intro p hp
        rcases h2 p hp with h | h
        · simp only [MSt.step, List.mem_append, List.mem_singleton] at h
          rcases h with h | h
          · exact Or.inl h
          · right; rw [h]
        · right; rw [h]; rfl
      · intro p hp
        rcases h3 p hp with h | h
        · exact Or.inl h
        · right; rw [h]; rfl
    · obtain ⟨h1, h2, h3⟩ := ih (s.step stores (.write i)) hrest
      simp only [MSt.run] at h1 h2 h3
      refine ⟨by rw [h1]; rfl, ?_, ?_⟩
      · intro p hp
        rcases h2 p hp with h | h
        · exact Or.inl h
        · right; rw [h]; rfl
      · intro p hp
        rcases h3 p hp with h | h
        · simp only [MSt.step, List.mem_append, List.mem_singleton] at h
          rcases h with h | h
          · exact Or.inl h
          · right; rw [h]
        · right; rw [h]; rfl

end Jubako
