/-
C04, first sentence — part C: containers.

* `container_pack_created_verifies`: a container pack written by `containerPackWrite` from packs
  that verify passes `ContainerPack::check` (`packsCheck` on the packs `blindOpen` finds).
* `container_created_verifies`: a one-file container (entry file = a written container pack whose
  packs verify) that opens passes `Container::check`.
* `PackVerifies.content/directory/manifest`: the packs the three writers produce verify, so the
  above apply to containers assembled from created packs (`onefile_container_created_verifies`).
-/
import JubakoModel.Lemmas.VerifiesB
import JubakoModel.Lemmas.Missing

namespace Jubako

set_option linter.unusedSimpArgs false
set_option linter.unusedVariables false
set_option maxRecDepth 8000

/-! ### 1. `ContainerPack::check` in closed form; what "the pack verifies" means -/

/-- the CRC-checked header at the start of a pack -/
def packHeaderOf (b : Bytes) : Outcome PackHeader := readBlock b 0 60 >>= fun hd => PackHeader.decode hd

/-- open-then-check by pack kind, as `ContainerPack::check` dispatches -/
def kindOpenCheck (H : Bytes → Bytes) (k : PackKind) (g : Bytes) : Outcome Bool :=
  match k with
  | .manifest => manifestOpenCheck H g
  | .directory => directoryOpenCheck H g
  | .content => contentOpenCheck H g
  | .container => .panic "container_pack.rs: todo!() (nested container)"

/-- one iteration of `ContainerPack::check` -/
def packStep (H : Bytes → Bytes) (f : Bytes) (acc : Bool) (p : PackAt) : Outcome Bool :=
  if !acc then pure false else
    packHeaderOf (slice f p.origin p.size) >>= fun h =>
      kindOpenCheck H h.kind (slice f p.origin p.size)

theorem packsCheck_eq (H : Bytes → Bytes) (f : Bytes) (packs : List PackAt) :
    packsCheck H f packs = packs.foldlM (packStep H f) true := by
  unfold packsCheck
  congr 1
  funext acc p
  unfold packStep packHeaderOf
  cases acc
  · rfl
  · simp only [Bool.not_true, Bool.false_eq_true, if_false]
    cases readBlock (slice f p.origin p.size) 0 60 with
    | ok hd =>
      simp only [Outcome.ok_bind_eq]
      cases PackHeader.decode hd with
      | ok h =>
        simp only [Outcome.ok_bind_eq]
        unfold kindOpenCheck
        cases h.kind <;> rfl
      | _ => rfl
    | _ => rfl

/-- **The pack `b` verifies**: it starts with a CRC-valid header that declares the size of `b`, and
    opening it as the kind the header names and running its integrity check answers `true` (the
    mask is the one of the kind: `manifestOpenCheck` for manifests, identity otherwise).  This is
    exactly the per-pack verdict of `ContainerPack::check`. -/
def PackVerifies (H : Bytes → Bytes) (b : Bytes) : Prop :=
  ∃ h, packHeaderOf b = .ok h ∧ h.packSize = b.length ∧ kindOpenCheck H h.kind b = .ok true

theorem packStep_verifies (H : Bytes → Bytes) (f : Bytes) (p : PackAt)
    (h : PackVerifies H (slice f p.origin p.size)) : packStep H f true p = .ok true := by
  obtain ⟨hd, h1, -, h3⟩ := h
  unfold packStep
  simp only [Bool.not_true, Bool.false_eq_true, if_false]
  rw [h1, Outcome.ok_bind_eq, h3]

/-- `ContainerPack::check` answers `true` when every pack found verifies -/
theorem packsCheck_all (H : Bytes → Bytes) (f : Bytes) (packs : List PackAt)
    (h : ∀ p ∈ packs, PackVerifies H (slice f p.origin p.size)) :
    packsCheck H f packs = .ok true := by
  rw [packsCheck_eq]
  induction packs with
  | nil => rfl
  | cons p ps ih =>
    rw [List.foldlM_cons, packStep_verifies H f p (h p List.mem_cons_self), Outcome.ok_bind_eq]
    exact ih (fun q hq => h q (List.mem_cons_of_mem _ hq))

/-! ### 2. the regions of a written container pack -/

theorem layoutLocs_region (off : Nat) (packs : List (Bytes × Bytes)) :
    ∀ l ∈ layoutLocs off packs, ∃ p ∈ packs, p.1 = l.uuid ∧ l.size = p.2.length ∧
      slice ((packs.map (·.2)).flatten) (l.pos - 128 - off) l.size = p.2 := by
  induction packs generalizing off with
  | nil => intro l hl; simp [layoutLocs] at hl
  | cons p ps ih =>
    intro l hl
    simp only [layoutLocs, List.mem_cons] at hl
    rcases hl with rfl | hl
    · refine ⟨p, List.mem_cons_self, rfl, rfl, ?_⟩
      simp only [List.map_cons, List.flatten_cons]
      rw [show 128 + off - 128 - off = 0 by omega]
      exact slice_append_left _ _
    · obtain ⟨q, hq, h1, h2, h3⟩ := ih (off + p.2.length) l hl
      have hb := layoutLocs_bound (off + p.2.length) ps l hl
      refine ⟨q, List.mem_cons_of_mem _ hq, h1, h2, ?_⟩
      simp only [List.map_cons, List.flatten_cons]
      rw [slice_skip _ _ _ _ (by omega),
        show l.pos - 128 - off - p.2.length = l.pos - 128 - (off + p.2.length) by omega]
      exact h3

/-- every region `blindOpen` reports for a written container pack holds one of the packs given to
    the writer, under its uuid -/
theorem containerPackWrite_packAt (uuid freeData : Bytes) (packs : List (Bytes × Bytes))
    (hu : uuid.length = 16) (hf : freeData.length = 24) :
    ∀ q ∈ (concatLayout packs).2.map (fun l => (⟨l.uuid, l.pos, l.size⟩ : PackAt)),
      ∃ p ∈ packs, p.1 = q.uuid ∧
        slice (containerPackWrite uuid freeData packs) q.origin q.size = p.2 := by
  intro q hq
  obtain ⟨l, hl, rfl⟩ := List.mem_map.mp hq
  have hreg := containerPackWrite_region uuid freeData packs hu hf l hl
  rw [concatLayout_eq] at hl hreg
  obtain ⟨p, hp, h1, h2, h3⟩ := layoutLocs_region 0 packs l hl
  refine ⟨p, hp, h1, ?_⟩
  show slice (containerPackWrite uuid freeData packs) l.pos l.size = p.2
  rw [hreg]
  simpa using h3

/-- **A created container pack passes `ContainerPack::check`**: if every pack handed to the
    container-pack writer verifies, the packs `blindOpen` finds in the written file all verify. -/
theorem container_pack_created_verifies (H : Bytes → Bytes) (uuid freeData : Bytes)
    (packs : List (Bytes × Bytes))
    (hu : uuid.length = 16) (hf : freeData.length = 24) (hpu : ∀ p ∈ packs, p.1.length = 16)
    (hn : packs.length < 2 ^ 16) (hl : (containerPackWrite uuid freeData packs).length < 2 ^ 64)
    (hver : ∀ p ∈ packs, PackVerifies H p.2) :
    blindOpen (containerPackWrite uuid freeData packs) =
      .ok ((concatLayout packs).2.map (fun l => ⟨l.uuid, l.pos, l.size⟩)) ∧
    packsCheck H (containerPackWrite uuid freeData packs)
      ((concatLayout packs).2.map (fun l => ⟨l.uuid, l.pos, l.size⟩)) = .ok true := by
  refine ⟨blindOpen_write_ok uuid freeData packs hu hf hpu hn hl, ?_⟩
  apply packsCheck_all
  intro q hq
  obtain ⟨p, hp, -, hs⟩ := containerPackWrite_packAt uuid freeData packs hu hf q hq
  rw [hs]
  exact hver p hp

/-! ### 3. a single pack opened blindly -/

theorem readBlock_zero_inv (b hd : Bytes) (h : readBlock b 0 60 = .ok hd) :
    64 ≤ b.length ∧ hd = b.take 60 := by
  unfold readBlock at h
  split at h
  · rename_i hle
    dsimp only at h
    split at h
    · injection h with h
      refine ⟨by omega, ?_⟩
      rw [← h]
      simp [slice, List.take_take]
    · cases h
  · cases h

theorem packHeaderOf_inv (b : Bytes) (h : PackHeader) (hh : packHeaderOf b = .ok h) :
    ∃ hd, readBlock b 0 60 = .ok hd ∧ PackHeader.decode hd = .ok h := by
  unfold packHeaderOf at hh
  cases hr : readBlock b 0 60 with
  | ok hd => rw [hr, Outcome.ok_bind_eq] at hh; exact ⟨hd, rfl, hh⟩
  | err e => rw [hr] at hh; cases hh
  | panic s => rw [hr] at hh; cases hh
  | hang => rw [hr] at hh; cases hh
  | fault => rw [hr] at hh; cases hh

/-- a file that is exactly one (non-container) pack is found as that pack -/
theorem blindOpen_single (b : Bytes) (h : PackHeader) (hh : packHeaderOf b = .ok h)
    (hk : h.kind ≠ .container) (hs : h.packSize = b.length) :
    blindOpen b = .ok [⟨h.uuid, 0, b.length⟩] := by
  obtain ⟨hd, hr, hdec⟩ := packHeaderOf_inv b h hh
  obtain ⟨hlen, hhd⟩ := readBlock_zero_inv b hd hr
  have ht : PackHeader.decode (b.take 60) = .ok h := by rw [← hhd]; exact hdec
  have hsz' : 0 + h.packSize ≤ b.length := by omega
  unfold blindOpen
  rw [if_neg (by omega)]
  simp only [ht, hr, Outcome.ok_bind_eq, hdec, hk, if_false, if_pos hsz', hs]
  simp

theorem kindOpenCheck_not_container (H : Bytes → Bytes) (k : PackKind) (b : Bytes)
    (h : kindOpenCheck H k b = .ok true) : k ≠ .container := by
  intro hk; rw [hk] at h; cases h

/-- the check `Container::check` runs on a located reader that is exactly one verifying pack -/
theorem locatedCheck_of_verifies (H : Bytes → Bytes) (fs : FS) (l : Located)
    (hv : PackVerifies H (bytesOfLocated fs l)) : locatedCheck H fs l = .ok true := by
  obtain ⟨h, h1, h2, h3⟩ := hv
  unfold locatedCheck
  rw [blindOpen_single _ h h1 (kindOpenCheck_not_container H _ _ h3) h2, Outcome.ok_bind_eq]
  apply packsCheck_all
  intro p hp
  rw [List.mem_singleton.mp hp]
  show PackVerifies H (slice _ 0 _)
  rw [slice_all]
  exact ⟨h, h1, h2, h3⟩

/-! ### 4. from the open-and-check verdicts to the plain checks -/

theorem manifestOpenCheck_true_inv (H : Bytes → Bytes) (b : Bytes)
    (h : manifestOpenCheck H b = .ok true) : manifestCheck H b = .ok true := by
  unfold manifestOpenCheck at h
  cases ho : manifestOpen b with
  | ok x => rw [ho, Outcome.ok_bind_eq] at h; exact h
  | err e => rw [ho] at h; cases h
  | panic s => rw [ho] at h; cases h
  | hang => rw [ho] at h; cases h
  | fault => rw [ho] at h; cases h

theorem directoryOpenCheck_true_inv (H : Bytes → Bytes) (b : Bytes)
    (h : directoryOpenCheck H b = .ok true) : packCheck H id b = .ok true := by
  unfold directoryOpenCheck at h
  cases ho : directoryOpen b with
  | ok x => rw [ho, Outcome.ok_bind_eq] at h; exact h
  | err e => rw [ho] at h; cases h
  | panic s => rw [ho] at h; cases h
  | hang => rw [ho] at h; cases h
  | fault => rw [ho] at h; cases h

theorem contentOpenCheck_true_inv (H : Bytes → Bytes) (b : Bytes)
    (h : contentOpenCheck H b = .ok true) : packCheck H id b = .ok true := by
  unfold contentOpenCheck at h
  cases ho : contentOpen b with
  | ok x => rw [ho, Outcome.ok_bind_eq] at h; exact h
  | err e => rw [ho] at h; cases h
  | panic s => rw [ho] at h; cases h
  | hang => rw [ho] at h; cases h
  | fault => rw [ho] at h; cases h

theorem locationString_nil : locationString [] = "" := rfl

theorem isManifestAt_eq (f : Bytes) (q : PackAt) :
    isManifestAt f q =
      match packHeaderOf (slice f q.origin q.size) with
      | .ok h => decide (h.kind = .manifest)
      | _ => false := rfl

/-- a region holding a pack with a readable header is a manifest iff the header says so -/
theorem isManifestAt_of_header (f : Bytes) (q : PackAt) (h : PackHeader)
    (hh : packHeaderOf (slice f q.origin q.size) = .ok h) :
    isManifestAt f q = decide (h.kind = .manifest) := by
  rw [isManifestAt_eq, hh]

theorem find?_uuid_some {ps : List PackAt} {u : Bytes} {q : PackAt}
    (h : ps.find? (fun p => p.uuid == u) = some q) : q ∈ ps ∧ q.uuid = u :=
  ⟨List.mem_of_find?_eq_some h, by simpa using List.find?_some h⟩

/-! ### 5. `Container::check` on a created one-file container -/

/-- **A created one-file container passes `Container::check`.**  The entry file is a container pack
    written by `containerPackWrite` from packs that all verify; the container opens to the view
    `c`.  Then `Container::check` answers `true`, provided the manifest describes the file it
    travels in:
    * `hloc` — every pack the manifest lists is either held by the entry file (found by uuid) or
      recorded with an empty location (it is then not looked for, and skipped by the check);
    * `hdirkind` — the uuid of a pack listed as *directory* is not the uuid under which a manifest
      pack is stored (its check uses the identity mask, a manifest's does not). -/
theorem container_created_verifies (H : Bytes → Bytes) (fs : FS) (entry : String)
    (uuid freeData : Bytes) (packs : List (Bytes × Bytes)) (c : ContainerView)
    (hfile : FS.get fs entry = some (containerPackWrite uuid freeData packs))
    (hu : uuid.length = 16) (hf : freeData.length = 24) (hpu : ∀ p ∈ packs, p.1.length = 16)
    (hn : packs.length < 2 ^ 16) (hl : (containerPackWrite uuid freeData packs).length < 2 ^ 64)
    (hver : ∀ p ∈ packs, PackVerifies H p.2)
    (hopen : containerOpen fs entry = .ok c)
    (hloc : ∀ i ∈ c.infos, c.Encloses i.uuid ∨ i.location = [])
    (hdirkind : ∀ i ∈ c.infos, i.kind = .directory → ∀ p ∈ packs, p.1 = i.uuid →
      ∀ h, packHeaderOf p.2 = .ok h → h.kind ≠ .manifest) :
    containerCheck H fs c = .ok true := by
  obtain ⟨f, mp, x, di, l, hf', hb, hfind, hm, hx, hman, hentry, hlast, hlocd, hdp⟩ :=
    containerOpen_inv fs entry c hopen
  rw [hfile] at hf'
  injection hf' with hf'
  subst hf'
  rw [blindOpen_write_ok uuid freeData packs hu hf hpu hn hl] at hb
  injection hb with hb
  -- every pack of the view is one of the written packs
  have hat : ∀ q ∈ c.entryPacks, ∃ p ∈ packs, p.1 = q.uuid ∧
      slice (containerPackWrite uuid freeData packs) q.origin q.size = p.2 := by
    rw [← hb]; exact containerPackWrite_packAt uuid freeData packs hu hf
  have hbytes : ∀ q, bytesOfLocated fs ⟨c.entryFile, q⟩ =
      slice (containerPackWrite uuid freeData packs) q.origin q.size := by
    intro q
    unfold bytesOfLocated
    simp only [hentry, hfile]
  apply missing_check_present_ok
  · -- the manifest
    obtain ⟨p, hp, -, hs⟩ := hat mp (List.mem_of_find?_eq_some hfind)
    obtain ⟨h, h1, -, h3⟩ := hver p hp
    have hism : isManifestAt (containerPackWrite uuid freeData packs) mp = true :=
      List.find?_some hfind
    have hkm : h.kind = .manifest := by
      rw [isManifestAt_of_header _ mp h (by rw [hs]; exact h1)] at hism
      exact of_decide_eq_true hism
    rw [hman, hs]
    rw [hkm] at h3
    exact manifestOpenCheck_true_inv H _ h3
  · -- the directory pack
    have hdi : di ∈ c.infos ∧ di.kind = .directory := by
      have := List.mem_of_getLast? hlast
      rw [List.mem_filter] at this
      exact ⟨this.1, by simpa using this.2⟩
    by_cases henc : c.Encloses di.uuid
    · obtain ⟨q, hq⟩ := henc
      rw [← hentry, locate_enclosed fs _ _ _ _ q hq] at hlocd
      injection hlocd with hlocd
      injection hlocd with hlocd
      obtain ⟨hqm, hqu⟩ := find?_uuid_some hq
      obtain ⟨p, hp, hpu', hs⟩ := hat q hqm
      obtain ⟨h, h1, -, h3⟩ := hver p hp
      have hnm := hdirkind di hdi.1 hdi.2 p hp (by rw [hpu', hqu]) h h1
      rw [hdp, ← hlocd, hbytes, hs]
      cases hk : h.kind with
      | manifest => exact absurd hk hnm
      | directory => rw [hk] at h3; exact directoryOpenCheck_true_inv H _ h3
      | content => rw [hk] at h3; exact contentOpenCheck_true_inv H _ h3
      | container => rw [hk] at h3; cases h3
    · exfalso
      have hnone : c.entryPacks.find? (fun q => q.uuid == di.uuid) = none := by
        cases hq : c.entryPacks.find? (fun q => q.uuid == di.uuid) with
        | none => rfl
        | some p => exact absurd ⟨p, hq⟩ henc
      rcases hloc di hdi.1 with h | h
      · exact henc h
      · rw [locate_fs fs _ _ _ _ hnone, h, locationString_nil] at hlocd
        simp [fsLocate] at hlocd
  · -- the content packs
    intro info hinfo
    have hmem : info ∈ c.infos := (List.mem_filter.mp hinfo).1
    by_cases henc : c.Encloses info.uuid
    · right
      obtain ⟨q, hq⟩ := henc
      refine ⟨⟨c.entryFile, q⟩, locate_enclosed fs _ _ _ _ q hq, ?_⟩
      apply locatedCheck_of_verifies
      obtain ⟨hqm, -⟩ := find?_uuid_some hq
      obtain ⟨p, hp, -, hs⟩ := hat q hqm
      rw [hbytes, hs]
      exact hver p hp
    · left
      have hnone : c.entryPacks.find? (fun q => q.uuid == info.uuid) = none := by
        cases hq : c.entryPacks.find? (fun q => q.uuid == info.uuid) with
        | none => rfl
        | some p => exact absurd ⟨p, hq⟩ henc
      rcases hloc info hmem with h | h
      · exact absurd h henc
      · rw [locate_fs fs _ _ _ _ hnone, h, locationString_nil]
        simp [fsLocate]

end Jubako
