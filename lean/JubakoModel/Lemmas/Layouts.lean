/-
The model's encoders follow the layouts that tools/extract_layouts.py translates out of the Rust
source on every run (Generated/Layouts.lean): for every fixed-layout structure
  * the writer's layout and the reader's layout in the source are the same list of fields;
  * the model's `encode` is exactly the concatenation of its fields in the order and with the widths
    the source's `serialize` gives them — hence every field sits at the offset the source implies.
A change of field order, width or padding in the Rust writer or reader changes the generated tables
and breaks these proofs.
-/
import JubakoModel.Model.Container
import JubakoModel.Generated.Layouts
import JubakoModel.Lemmas.Slice
import JubakoModel.Lemmas.Codec

namespace Jubako

/-- (name, offset, width) of every field of a layout starting at `o` -/
def srcFieldOffsets : List (String × Nat) → Nat → List (String × Nat × Nat)
  | [], _ => []
  | (n, w) :: rest, o => (n, o, w) :: srcFieldOffsets rest (o + w)

def srcLayoutSize (spec : List (String × Nat)) : Nat := (spec.map (·.2)).sum

/-- the bytes of a structure laid out according to `spec`, `f` giving the bytes of each field -/
def srcLayoutBytes (spec : List (String × Nat)) (f : String → Bytes) : Bytes :=
  (spec.map (fun p => f p.1)).flatten

theorem srcLayoutBytes_slice_aux (spec : List (String × Nat)) (f : String → Bytes)
    (hw : ∀ p ∈ spec, (f p.1).length = p.2) (pre : Bytes) :
    ∀ n off w, (n, off, w) ∈ srcFieldOffsets spec pre.length →
      slice (pre ++ srcLayoutBytes spec f) off w = f n := by
  induction spec generalizing pre with
  | nil => intro n off w h; cases h
  | cons p rest ih =>
    obtain ⟨n0, w0⟩ := p
    intro n off w h
    have hw0 : (f n0).length = w0 := hw (n0, w0) List.mem_cons_self
    simp only [srcFieldOffsets, List.mem_cons] at h
    rcases h with h | h
    · obtain ⟨rfl, rfl, rfl⟩ := Prod.mk.injEq .. ▸ (by simpa using h : n = n0 ∧ off = pre.length ∧ w = w0)
      simp only [srcLayoutBytes, List.map_cons, List.flatten_cons, slice]
      rw [List.drop_append_of_le_length (Nat.le_refl _), List.drop_length, List.nil_append,
        ← hw0, List.take_left']
      rfl
    · have := ih (fun q hq => hw q (List.mem_cons_of_mem _ hq)) (pre ++ f n0) n off w
        (by rw [List.length_append, hw0]; exact h)
      simpa [srcLayoutBytes, List.append_assoc] using this

/-- **every field sits where the layout says** -/
theorem srcLayoutBytes_slice (spec : List (String × Nat)) (f : String → Bytes)
    (hw : ∀ p ∈ spec, (f p.1).length = p.2) :
    ∀ n off w, (n, off, w) ∈ srcFieldOffsets spec 0 → slice (srcLayoutBytes spec f) off w = f n := by
  intro n off w h
  simpa using srcLayoutBytes_slice_aux spec f hw [] n off w h

theorem srcLayoutBytes_length (spec : List (String × Nat)) (f : String → Bytes)
    (hw : ∀ p ∈ spec, (f p.1).length = p.2) : (srcLayoutBytes spec f).length = srcLayoutSize spec := by
  induction spec with
  | nil => rfl
  | cons p rest ih =>
    simp only [srcLayoutBytes, List.map_cons, List.flatten_cons, List.length_append, srcLayoutSize, List.sum_cons]
    rw [hw p List.mem_cons_self]
    have := ih (fun q hq => hw q (List.mem_cons_of_mem _ hq))
    simp only [srcLayoutBytes, srcLayoutSize] at this
    rw [this]

/-! ### writer and reader agree in the source, structure by structure -/

theorem source_writer_reader_agree :
    Generated.packHeaderSer = Generated.packHeaderPar ∧
    Generated.packInfoSer = Generated.packInfoPar ∧
    Generated.packLocatorSer = Generated.packLocatorPar ∧
    Generated.containerHeaderSer = Generated.containerHeaderPar ∧
    Generated.contentHeaderSer = Generated.contentHeaderPar ∧
    Generated.directoryHeaderSer = Generated.directoryHeaderPar ∧
    Generated.manifestHeaderSer = Generated.manifestHeaderPar := by
  refine ⟨?_, ?_, ?_, ?_, ?_, ?_, ?_⟩ <;> decide

/-! ### the model's encoders are laid out as the source says -/

def packHeaderField (h : PackHeader) (name : String) : Bytes :=
  if name = "magic" then [106, 98, 107, h.kind.byte]
  else if name = "app_vendor_id" then h.vendor
  else if name = "major_version" then [UInt8.ofNat h.major]
  else if name = "minor_version" then [UInt8.ofNat h.minor]
  else if name = "uuid" then h.uuid
  else if name = "flags" then [UInt8.ofNat h.flags]
  else if name = "pad0" then zeros 5
  else if name = "file_size" then leBytes h.packSize 8
  else if name = "check_info_pos" then leBytes h.checkInfoPos 8
  else if name = "pad1" then zeros 12
  else []

theorem packHeader_layout (h : PackHeader) :
    h.encode = srcLayoutBytes Generated.packHeaderSer (packHeaderField h) := by
  simp [PackHeader.encode, srcLayoutBytes, Generated.packHeaderSer, packHeaderField, Consts.headerPad1,
    Consts.headerPad2]

theorem packHeader_widths (h : PackHeader) (hw : h.WF) :
    ∀ p ∈ Generated.packHeaderSer, (packHeaderField h p.1).length = p.2 := by
  obtain ⟨h1, h2, _⟩ := hw
  intro p hp
  simp only [Generated.packHeaderSer, List.mem_cons, List.not_mem_nil, or_false] at hp
  rcases hp with rfl | rfl | rfl | rfl | rfl | rfl | rfl | rfl | rfl | rfl <;>
    simp [packHeaderField, h1, h2, leBytes_length, zeros]

def packInfoField (p : PackInfo) (name : String) : Bytes :=
  if name = "uuid" then p.uuid
  else if name = "pack_size" then leBytes p.packSize 8
  else if name = "check_info_pos" then sizedOffsetEncode p.checkInfoPos.1 p.checkInfoPos.2
  else if name = "pack_id" then leBytes p.packId 2
  else if name = "pack_kind" then [p.kind.byte]
  else if name = "pack_group" then [UInt8.ofNat p.group]
  else if name = "free_data_id" then leBytes p.freeDataId 2
  else if name = "pack_location" then encodeLocation p.location
  else []

theorem packInfo_layout (p : PackInfo) :
    p.encode = srcLayoutBytes Generated.packInfoSer (packInfoField p) := by
  simp [PackInfo.encode, PackInfo.encodeFixed, srcLayoutBytes, Generated.packInfoSer, packInfoField]

def packLocatorField (l : PackLocator) (name : String) : Bytes :=
  if name = "uuid" then l.uuid
  else if name = "pack_size" then leBytes l.size 8
  else if name = "pack_pos" then leBytes l.pos 8
  else []

theorem packLocator_layout (l : PackLocator) :
    l.encode = srcLayoutBytes Generated.packLocatorSer (packLocatorField l) := by
  simp [PackLocator.encode, srcLayoutBytes, Generated.packLocatorSer, packLocatorField]

def containerHeaderField (h : ContainerHeader) (name : String) : Bytes :=
  if name = "pack_locators_pos" then leBytes h.locatorsPos 8
  else if name = "pack_count" then leBytes h.packCount 2
  else if name = "pad0" then zeros 26
  else if name = "free_data" then h.freeData
  else []

theorem containerHeader_layout (h : ContainerHeader) :
    h.encode = srcLayoutBytes Generated.containerHeaderSer (containerHeaderField h) := by
  simp [ContainerHeader.encode, srcLayoutBytes, Generated.containerHeaderSer, containerHeaderField]

def contentHeaderField (h : ContentHeader) (name : String) : Bytes :=
  if name = "content_ptr_pos" then leBytes h.contentPtrPos 8
  else if name = "cluster_ptr_pos" then leBytes h.clusterPtrPos 8
  else if name = "content_count" then leBytes h.contentCount 4
  else if name = "cluster_count" then leBytes h.clusterCount 4
  else if name = "pad0" then zeros 12
  else if name = "free_data" then h.freeData
  else []

theorem contentHeader_layout (h : ContentHeader) :
    h.encode = srcLayoutBytes Generated.contentHeaderSer (contentHeaderField h) := by
  simp [ContentHeader.encode, srcLayoutBytes, Generated.contentHeaderSer, contentHeaderField]

def directoryHeaderField (h : DirectoryHeader) (name : String) : Bytes :=
  if name = "index_ptr_pos" then leBytes h.indexPtrPos 8
  else if name = "entry_store_ptr_pos" then leBytes h.entryStorePtrPos 8
  else if name = "value_store_ptr_pos" then leBytes h.valueStorePtrPos 8
  else if name = "index_count" then leBytes h.indexCount 4
  else if name = "entry_store_count" then leBytes h.entryStoreCount 4
  else if name = "value_store_count" then leBytes h.valueStoreCount 1
  else if name = "pad0" then zeros 3
  else if name = "free_data" then h.freeData
  else []

theorem directoryHeader_layout (h : DirectoryHeader) :
    h.encode = srcLayoutBytes Generated.directoryHeaderSer (directoryHeaderField h) := by
  simp [DirectoryHeader.encode, srcLayoutBytes, Generated.directoryHeaderSer, directoryHeaderField]

def manifestHeaderField (m : ManifestHeader) (name : String) : Bytes :=
  if name = "pack_count" then leBytes m.packCount 2
  else if name = "value_store_posinfo" then sizedOffsetEncode m.valueStore.1 m.valueStore.2
  else if name = "pad0" then zeros 26
  else if name = "free_data" then m.freeData
  else []

theorem manifestHeader_layout (m : ManifestHeader) :
    m.encode = srcLayoutBytes Generated.manifestHeaderSer (manifestHeaderField m) := by
  simp [ManifestHeader.encode, srcLayoutBytes, Generated.manifestHeaderSer, manifestHeaderField]

/-! ### the offsets the model's decoders use are the offsets the source's reader implies -/

theorem packHeader_reader_offsets : srcFieldOffsets Generated.packHeaderPar 0 =
    [("magic", 0, 4), ("app_vendor_id", 4, 4), ("major_version", 8, 1), ("minor_version", 9, 1),
     ("uuid", 10, 16), ("flags", 26, 1), ("pad0", 27, 5), ("file_size", 32, 8),
     ("check_info_pos", 40, 8), ("pad1", 48, 12)] ∧ srcLayoutSize Generated.packHeaderPar = 60 := by
  constructor <;> decide

theorem packInfo_reader_offsets : srcFieldOffsets Generated.packInfoPar 0 =
    [("uuid", 0, 16), ("pack_size", 16, 8), ("check_info_pos", 24, 8), ("pack_id", 32, 2),
     ("pack_kind", 34, 1), ("pack_group", 35, 1), ("free_data_id", 36, 2), ("pack_location", 38, 214)] ∧
    srcLayoutSize Generated.packInfoPar = 252 := by
  constructor <;> decide

theorem packLocator_reader_offsets : srcFieldOffsets Generated.packLocatorPar 0 =
    [("uuid", 0, 16), ("pack_size", 16, 8), ("pack_pos", 24, 8)] ∧
    srcLayoutSize Generated.packLocatorPar = 32 := by
  constructor <;> decide

theorem containerHeader_reader_offsets : srcFieldOffsets Generated.containerHeaderPar 0 =
    [("pack_locators_pos", 0, 8), ("pack_count", 8, 2), ("pad0", 10, 26), ("free_data", 36, 24)] ∧
    srcLayoutSize Generated.containerHeaderPar = 60 := by
  constructor <;> decide

theorem contentHeader_reader_offsets : srcFieldOffsets Generated.contentHeaderPar 0 =
    [("content_ptr_pos", 0, 8), ("cluster_ptr_pos", 8, 8), ("content_count", 16, 4),
     ("cluster_count", 20, 4), ("pad0", 24, 12), ("free_data", 36, 24)] ∧
    srcLayoutSize Generated.contentHeaderPar = 60 := by
  constructor <;> decide

theorem directoryHeader_reader_offsets : srcFieldOffsets Generated.directoryHeaderPar 0 =
    [("index_ptr_pos", 0, 8), ("entry_store_ptr_pos", 8, 8), ("value_store_ptr_pos", 16, 8),
     ("index_count", 24, 4), ("entry_store_count", 28, 4), ("value_store_count", 32, 1),
     ("pad0", 33, 3), ("free_data", 36, 24)] ∧ srcLayoutSize Generated.directoryHeaderPar = 60 := by
  constructor <;> decide

theorem manifestHeader_reader_offsets : srcFieldOffsets Generated.manifestHeaderPar 0 =
    [("pack_count", 0, 2), ("value_store_posinfo", 2, 8), ("pad0", 10, 26), ("free_data", 36, 24)] ∧
    srcLayoutSize Generated.manifestHeaderPar = 60 := by
  constructor <;> decide

end Jubako
