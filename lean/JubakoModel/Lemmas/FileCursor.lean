/- Invariant of the shared-file protocol (Model/FileCursor.lean) when every access is `atomicAccess`. -/
import JubakoModel.Model.FileCursor

namespace Jubako

/-- where a thread is inside an access -/
def FThread.curOk (th : FThread) : Prop :=
  th.cur = none ∨ ∃ off len,
    th.cur = some ([.lock, .seek, .read, .unlock], off, len) ∨ th.cur = some ([.seek, .read, .unlock], off, len) ∨
    th.cur = some ([.read, .unlock], off, len) ∨ th.cur = some ([.unlock], off, len) ∨ th.cur = some ([], off, len)

/-- the thread holds the mutex (it is between its `lock` and its `unlock`) -/
def FThread.inCrit (th : FThread) : Prop :=
  ∃ off len, th.cur = some ([.seek, .read, .unlock], off, len) ∨ th.cur = some ([.read, .unlock], off, len) ∨
    th.cur = some ([.unlock], off, len)

structure FInv (s : FState) : Prop where
  cur : ∀ t, (s.threads t).curOk
  todo : ∀ t, ∀ op ∈ (s.threads t).todo, op.acts = atomicAccess
  owner : ∀ t, (s.threads t).inCrit ↔ s.owner = some t
  seeked : ∀ t off len, (s.threads t).cur = some ([.read, .unlock], off, len) → s.cursor = off
  exact : s.readsExact

theorem upd_same (s : FState) (t : Nat) (th : FThread) : s.upd t th t = th := by simp [FState.upd]
theorem upd_other (s : FState) (t u : Nat) (th : FThread) (h : u ≠ t) : s.upd t th u = s.threads u := by
  simp [FState.upd, h]

theorem finv_init (file : Bytes) (progs : List (List (Nat × Nat))) : FInv (FState.init file atomicAccess progs) := by
  refine ⟨?_, ?_, ?_, ?_, ?_⟩
  · intro t; exact Or.inl rfl
  · intro t op hop
    simp only [FState.init, List.mem_map] at hop
    obtain ⟨p, _, rfl⟩ := hop; rfl
  · intro t
    constructor
    · rintro ⟨off, len, h | h | h⟩ <;> simp [FState.init] at h
    · intro h; simp [FState.init] at h
  · intro t off len h; simp [FState.init] at h
  · intro t r hr; simp [FState.init] at hr

/-- other threads are not in their critical section when `t` is the owner or nobody is -/
theorem not_crit_of_owner (s : FState) (h : FInv s) (t u : Nat) (hu : u ≠ t) (ho : s.owner = some t ∨ s.owner = none) :
    ¬ (s.threads u).inCrit := by
  intro hc
  have := (h.owner u).mp hc
  rcases ho with ho | ho <;> rw [ho] at this
  · exact hu (by simpa using this.symm)
  · cases this

theorem finv_step (s s' : FState) (t : Nat) (h : FInv s) (hs : s.step t = some s') : FInv s' := by
  unfold FState.step at hs
  rcases h.cur t with hc | ⟨off, len, hc | hc | hc | hc | hc⟩
  · -- start the next access
    simp only [hc] at hs
    cases htd : (s.threads t).todo with
    | nil => simp [htd] at hs
    | cons op rest =>
      simp only [htd, Option.some.injEq] at hs
      subst hs
      have hop : op.acts = atomicAccess := h.todo t op (by rw [htd]; exact List.mem_cons_self)
      refine ⟨?_, ?_, ?_, ?_, ?_⟩ <;> (try unfold FState.readsExact) <;> (try dsimp only)
      · intro u
        by_cases hu : u = t
        · subst hu; rw [upd_same]; right; exact ⟨op.off, op.len, Or.inl (by simp [hop, atomicAccess])⟩
        · rw [upd_other _ _ _ _ hu]; exact h.cur u
      · intro u o ho
        by_cases hu : u = t
        · subst hu; rw [upd_same] at ho
          exact h.todo u o (by rw [htd]; exact List.mem_cons_of_mem _ ho)
        · rw [upd_other _ _ _ _ hu] at ho; exact h.todo u o ho
      · intro u
        by_cases hu : u = t
        · subst hu; rw [upd_same]
          constructor
          · rintro ⟨o, l, h1 | h1 | h1⟩ <;> simp [hop, atomicAccess] at h1
          · intro ho
            have := (h.owner u).mpr ho
            obtain ⟨o, l, h1 | h1 | h1⟩ := this <;> simp [hc] at h1
        · rw [upd_other _ _ _ _ hu]; exact h.owner u
      · intro u o l hr
        by_cases hu : u = t
        · subst hu; rw [upd_same] at hr; simp [hop, atomicAccess] at hr
        · rw [upd_other _ _ _ _ hu] at hr; exact h.seeked u o l hr
      · intro u r hr
        by_cases hu : u = t
        · subst hu; rw [upd_same] at hr; exact h.exact u r hr
        · rw [upd_other _ _ _ _ hu] at hr; exact h.exact u r hr
  · -- lock
    simp only [hc] at hs
    by_cases ho : s.owner = none
    · simp only [ho, if_true, Option.some.injEq] at hs
      subst hs
      refine ⟨?_, ?_, ?_, ?_, ?_⟩ <;> (try unfold FState.readsExact) <;> (try dsimp only)
      · intro u
        by_cases hu : u = t
        · subst hu; rw [upd_same]; right; exact ⟨off, len, Or.inr (Or.inl rfl)⟩
        · rw [upd_other _ _ _ _ hu]; exact h.cur u
      · intro u o hto
        by_cases hu : u = t
        · subst hu; rw [upd_same] at hto; exact h.todo u o hto
        · rw [upd_other _ _ _ _ hu] at hto; exact h.todo u o hto
      · intro u
        by_cases hu : u = t
        · subst hu; rw [upd_same]
          exact ⟨fun _ => rfl, fun _ => ⟨off, len, Or.inl rfl⟩⟩
        · rw [upd_other _ _ _ _ hu]
          constructor
          · intro hcr; exact absurd hcr (not_crit_of_owner s h t u hu (Or.inr ho))
          · intro h2; exact absurd (by simpa using h2 : t = u) (fun e => hu e.symm)
      · intro u o l hr
        by_cases hu : u = t
        · subst hu; rw [upd_same] at hr; simp at hr
        · rw [upd_other _ _ _ _ hu] at hr
          exact absurd ⟨o, l, Or.inr (Or.inl hr)⟩ (not_crit_of_owner s h t u hu (Or.inr ho))
      · intro u r hr
        by_cases hu : u = t
        · subst hu; rw [upd_same] at hr; exact h.exact u r hr
        · rw [upd_other _ _ _ _ hu] at hr; exact h.exact u r hr
    · simp [ho] at hs
  · -- seek
    simp only [hc, Option.some.injEq] at hs
    subst hs
    have hown : s.owner = some t := (h.owner t).mp ⟨off, len, Or.inl hc⟩
    refine ⟨?_, ?_, ?_, ?_, ?_⟩ <;> (try unfold FState.readsExact) <;> (try dsimp only)
    · intro u
      by_cases hu : u = t
      · subst hu; rw [upd_same]; right; exact ⟨off, len, Or.inr (Or.inr (Or.inl rfl))⟩
      · rw [upd_other _ _ _ _ hu]; exact h.cur u
    · intro u o hto
      by_cases hu : u = t
      · subst hu; rw [upd_same] at hto; exact h.todo u o hto
      · rw [upd_other _ _ _ _ hu] at hto; exact h.todo u o hto
    · intro u
      by_cases hu : u = t
      · subst hu; rw [upd_same]
        exact ⟨fun _ => hown, fun _ => ⟨off, len, Or.inr (Or.inl rfl)⟩⟩
      · rw [upd_other _ _ _ _ hu]; exact h.owner u
    · intro u o l hr
      by_cases hu : u = t
      · subst hu; rw [upd_same] at hr
        simp only [Option.some.injEq, Prod.mk.injEq, true_and] at hr
        exact hr.1
      · rw [upd_other _ _ _ _ hu] at hr
        exact absurd ⟨o, l, Or.inr (Or.inl hr)⟩ (not_crit_of_owner s h t u hu (Or.inl hown))
    · intro u r hr
      by_cases hu : u = t
      · subst hu; rw [upd_same] at hr; exact h.exact u r hr
      · rw [upd_other _ _ _ _ hu] at hr; exact h.exact u r hr
  · -- read
    simp only [hc, Option.some.injEq] at hs
    subst hs
    have hown : s.owner = some t := (h.owner t).mp ⟨off, len, Or.inr (Or.inl hc)⟩
    have hcur : s.cursor = off := h.seeked t off len hc
    refine ⟨?_, ?_, ?_, ?_, ?_⟩ <;> (try unfold FState.readsExact) <;> (try dsimp only)
    · intro u
      by_cases hu : u = t
      · subst hu; rw [upd_same]; right; exact ⟨off, len, Or.inr (Or.inr (Or.inr (Or.inl rfl)))⟩
      · rw [upd_other _ _ _ _ hu]; exact h.cur u
    · intro u o hto
      by_cases hu : u = t
      · subst hu; rw [upd_same] at hto; exact h.todo u o hto
      · rw [upd_other _ _ _ _ hu] at hto; exact h.todo u o hto
    · intro u
      by_cases hu : u = t
      · subst hu; rw [upd_same]
        exact ⟨fun _ => hown, fun _ => ⟨off, len, Or.inr (Or.inr rfl)⟩⟩
      · rw [upd_other _ _ _ _ hu]; exact h.owner u
    · intro u o l hr
      by_cases hu : u = t
      · subst hu; rw [upd_same] at hr; simp at hr
      · rw [upd_other _ _ _ _ hu] at hr
        exact absurd ⟨o, l, Or.inr (Or.inl hr)⟩ (not_crit_of_owner s h t u hu (Or.inl hown))
    · intro u r hr
      by_cases hu : u = t
      · subst hu; rw [upd_same] at hr
        simp only [List.mem_append, List.mem_singleton] at hr
        rcases hr with hr | hr
        · exact h.exact u r hr
        · subst hr; simp [hcur]
      · rw [upd_other _ _ _ _ hu] at hr; exact h.exact u r hr
  · -- unlock
    simp only [hc, Option.some.injEq] at hs
    subst hs
    have hown : s.owner = some t := (h.owner t).mp ⟨off, len, Or.inr (Or.inr hc)⟩
    refine ⟨?_, ?_, ?_, ?_, ?_⟩ <;> (try unfold FState.readsExact) <;> (try dsimp only)
    · intro u
      by_cases hu : u = t
      · subst hu; rw [upd_same]; right; exact ⟨off, len, Or.inr (Or.inr (Or.inr (Or.inr rfl)))⟩
      · rw [upd_other _ _ _ _ hu]; exact h.cur u
    · intro u o hto
      by_cases hu : u = t
      · subst hu; rw [upd_same] at hto; exact h.todo u o hto
      · rw [upd_other _ _ _ _ hu] at hto; exact h.todo u o hto
    · intro u
      simp only [hown, if_true]
      by_cases hu : u = t
      · subst hu; rw [upd_same]
        constructor
        · rintro ⟨o, l, h1 | h1 | h1⟩ <;> simp at h1
        · intro h2; cases h2
      · rw [upd_other _ _ _ _ hu]
        constructor
        · intro hcr; exact absurd hcr (not_crit_of_owner s h t u hu (Or.inl hown))
        · intro h2; cases h2
    · intro u o l hr
      by_cases hu : u = t
      · subst hu; rw [upd_same] at hr; simp at hr
      · rw [upd_other _ _ _ _ hu] at hr
        exact absurd ⟨o, l, Or.inr (Or.inl hr)⟩ (not_crit_of_owner s h t u hu (Or.inl hown))
    · intro u r hr
      by_cases hu : u = t
      · subst hu; rw [upd_same] at hr; exact h.exact u r hr
      · rw [upd_other _ _ _ _ hu] at hr; exact h.exact u r hr
  · -- the access is over
    simp only [hc, Option.some.injEq] at hs
    subst hs
    refine ⟨?_, ?_, ?_, ?_, ?_⟩ <;> (try unfold FState.readsExact) <;> (try dsimp only)
    · intro u
      by_cases hu : u = t
      · subst hu; rw [upd_same]; exact Or.inl rfl
      · rw [upd_other _ _ _ _ hu]; exact h.cur u
    · intro u o hto
      by_cases hu : u = t
      · subst hu; rw [upd_same] at hto; exact h.todo u o hto
      · rw [upd_other _ _ _ _ hu] at hto; exact h.todo u o hto
    · intro u
      by_cases hu : u = t
      · subst hu; rw [upd_same]
        constructor
        · rintro ⟨o, l, h1 | h1 | h1⟩ <;> simp at h1
        · intro ho
          obtain ⟨o, l, h1 | h1 | h1⟩ := (h.owner u).mpr ho <;> simp [hc] at h1
      · rw [upd_other _ _ _ _ hu]; exact h.owner u
    · intro u o l hr
      by_cases hu : u = t
      · subst hu; rw [upd_same] at hr; simp at hr
      · rw [upd_other _ _ _ _ hu] at hr; exact h.seeked u o l hr
    · intro u r hr
      by_cases hu : u = t
      · subst hu; rw [upd_same] at hr; exact h.exact u r hr
      · rw [upd_other _ _ _ _ hu] at hr; exact h.exact u r hr

theorem finv_run (s : FState) (h : FInv s) (sched : List Nat) : FInv (s.run sched) := by
  induction sched generalizing s with
  | nil => exact h
  | cons t rest ih =>
    simp only [FState.run]
    cases hs : s.step t with
    | none => exact ih s h
    | some s' => exact ih s' (finv_step s s' t h hs)

end Jubako
