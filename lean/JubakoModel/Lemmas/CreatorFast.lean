import JubakoModel.Model.CreatorFast
import JubakoModel.Lemmas.Creator

namespace Jubako
set_option maxRecDepth 8000

theorem sum_map_length_reverse (l : List Bytes) :
    (l.reverse.map List.length).sum = (l.map List.length).sum := by
  induction l with
  | nil => rfl
  | cons a l ih => simp; omega

/-- cached counters of one open cluster are correct -/
def FastCluster.Ok (c : FastCluster) : Prop :=
  c.count = c.revBlobs.length ∧ c.dataSize = (c.revBlobs.map List.length).sum

theorem FastCluster.isFull_toCluster (c : FastCluster) (h : c.Ok) (size : Nat) :
    c.toCluster.isFull size = c.isFull size := by
  obtain ⟨h1, h2⟩ := h
  unfold Cluster.isFull FastCluster.isFull Cluster.dataSize FastCluster.toCluster
  simp only [List.length_reverse, sum_map_length_reverse, ← h1, ← h2]
  cases hb : c.revBlobs with
  | nil => simp [hb] at h1; simp [h1]
  | cons a l =>
    have he : (l.reverse ++ [a]).isEmpty = false := by cases l.reverse <;> rfl
    simp [hb] at h1; simp [h1, he]

theorem FastCluster.fresh_ok (idx : Nat) (k : Bool) (d : Bytes) :
    (FastCluster.fresh idx k d d.length).Ok := by
  simp [FastCluster.Ok, FastCluster.fresh]

theorem FastCluster.push_ok (c : FastCluster) (h : c.Ok) (d : Bytes) : (c.push d d.length).Ok := by
  obtain ⟨h1, h2⟩ := h
  simp [FastCluster.Ok, FastCluster.push, h1, h2]; omega

/-- 1. cached counters are correct -/
structure FastInv (s : FastCreator) : Prop where
  n_eq : s.n = s.revInfos.length
  raw_ok : ∀ c, s.raw = some c → c.Ok
  comp_ok : ∀ c, s.comp = some c → c.Ok

theorem fastInv_init : FastInv FastCreator.init := by
  constructor <;> simp [FastCreator.init]

theorem fastInv_add (s : FastCreator) (it : Item) (h : FastInv s) : FastInv (s.add it) := by
  obtain ⟨hn, hr, hc⟩ := h
  unfold FastCreator.add
  cases hcomp : it.comp
  · cases hs : s.raw with
    | none =>
      constructor
      · simp [hn]
      · simp; exact FastCluster.fresh_ok _ _ _
      · simpa using hc
    | some c =>
      by_cases hf : c.isFull it.data.length = true
      · constructor
        · simp [hf, hn]
        · simp [hf]; exact FastCluster.fresh_ok _ _ _
        · simpa [hf] using hc
      · constructor
        · simp [hf, hn]
        · simp [hf]; exact FastCluster.push_ok _ (hr c hs) _
        · simpa [hf] using hc
  · cases hs : s.comp with
    | none =>
      constructor
      · simp [hn]
      · simpa using hr
      · simp; exact FastCluster.fresh_ok _ _ _
    | some c =>
      by_cases hf : c.isFull it.data.length = true
      · constructor
        · simp [hf, hn]
        · simpa [hf] using hr
        · simp [hf]; exact FastCluster.fresh_ok _ _ _
      · constructor
        · simp [hf, hn]
        · simpa [hf] using hr
        · simp [hf]; exact FastCluster.push_ok _ (hc c hs) _

/-- 2. one fast step refines one model step -/
theorem fast_add_abs (s : FastCreator) (it : Item) (h : FastInv s) :
    (s.add it).abs = (s.abs.add it).1 := by
  obtain ⟨hn, hr, hc⟩ := h
  unfold FastCreator.add Creator.add
  cases hcomp : it.comp
  · cases hs : s.raw with
    | none =>
      simp [FastCreator.abs, hs, FastCluster.toCluster, FastCluster.fresh]
    | some c =>
      have hfull := c.isFull_toCluster (hr c hs) it.data.length
      by_cases hf : c.isFull it.data.length = true
      · simp [FastCreator.abs, hs, hf, hfull, FastCluster.fresh]
        simp [FastCluster.toCluster]
      · simp [FastCreator.abs, hs, hf, hfull, FastCluster.push]
        simp [FastCluster.toCluster, (hr c hs).1]
  · cases hs : s.comp with
    | none =>
      simp [FastCreator.abs, hs, FastCluster.toCluster, FastCluster.fresh]
    | some c =>
      have hfull := c.isFull_toCluster (hc c hs) it.data.length
      by_cases hf : c.isFull it.data.length = true
      · simp [FastCreator.abs, hs, hf, hfull, FastCluster.fresh]
        simp [FastCluster.toCluster]
      · simp [FastCreator.abs, hs, hf, hfull, FastCluster.push]
        simp [FastCluster.toCluster, (hc c hs).1]

theorem fast_foldl_abs (items : List Item) (s : FastCreator) (h : FastInv s) :
    (items.foldl FastCreator.add s).abs = s.abs.addAll items ∧
    FastInv (items.foldl FastCreator.add s) := by
  induction items generalizing s with
  | nil => exact ⟨rfl, h⟩
  | cons it items ih =>
    have := ih (s.add it) (fastInv_add s it h)
    rw [fast_add_abs s it h] at this
    exact this

theorem fastInv_addAll (items : List Item) : FastInv (FastCreator.addAll items) :=
  (fast_foldl_abs items FastCreator.init fastInv_init).2

/-- 3. -/
theorem fast_addAll_abs (items : List Item) :
    (FastCreator.addAll items).abs = Creator.init.addAll items :=
  (fast_foldl_abs items FastCreator.init fastInv_init).1

/-- the direct `finalize` is the model `finalize` of the abstraction (no invariant needed) -/
theorem fast_finalize_abs (s : FastCreator) : s.finalize = s.abs.finalize := by
  unfold FastCreator.finalize Creator.finalize FastCreator.abs
  cases h1 : s.raw <;> cases h2 : s.comp <;> simp [FastCluster.toCluster]

/-- 4. -/
theorem fast_finalize_eq (items : List Item) :
    (FastCreator.addAll items).finalize = (Creator.init.addAll items).finalize := by
  rw [fast_finalize_abs, fast_addAll_abs]

end Jubako
